(* The basic solution read off a tableau whose basic columns are unit columns (the loop of _extract,
   run over all n+m columns) satisfies every row, is non-negative, and has reduced-cost value 0. *)
From Coq Require Import List QArith Qabs Bool Arith Lia Lqa.
From SV Require Import C03.Simplex C03.LPSpec C03.Cert C03.LinAlgProofs C03.PivotProofs C03.Phase2Entries
  C03.Phase2Inv.
Import ListNotations.
Open Scope Q_scope.

Lemma get_set_nth_same j x l : (j < length l)%nat -> get (set_nth j x l) j = x.
Proof. intro H. unfold get. apply set_nth_same. exact H. Qed.

Lemma get_set_nth_other j k x l : k <> j -> get (set_nth j x l) k = get l k.
Proof. intro H. unfold get. apply set_nth_other. exact H. Qed.

Lemma dot_set_nth a j x sol : (j < length sol)%nat ->
  dot a (set_nth j x sol) == dot a sol + get a j * (x - get sol j).
Proof.
  unfold get. revert a j. induction sol as [|y sol IH]; intros a j H; simpl in H; [lia|].
  destruct a as [|u a]; destruct j as [|j]; simpl; try ring.
  rewrite IH by lia. ring.
Qed.

Fixpoint bsum (a : list Q) (basis : list nat) (i : nat) (rows : list row) : Q :=
  match rows with
  | [] => 0
  | r :: rs => get a (nth i basis 0%nat) * snd r + bsum a basis (S i) rs
  end.

Lemma extract_loop_length n basis s rows sol :
  length (extract_loop n basis s rows sol) = length sol.
Proof.
  revert s sol. induction rows as [|r rows IH]; intros s sol; simpl; [reflexivity|].
  rewrite IH. destruct (Nat.ltb (nth s basis 0%nat) n); [apply set_nth_length | reflexivity].
Qed.

Lemma dot_extract_loop a N basis rows : forall s sol,
  length sol = N ->
  (forall i, (s <= i < s + length rows)%nat -> (nth i basis 0 < N)%nat) ->
  (forall i i', (s <= i < s + length rows)%nat -> (s <= i' < s + length rows)%nat -> i <> i' ->
                nth i basis 0%nat <> nth i' basis 0%nat) ->
  (forall i, (s <= i < s + length rows)%nat -> get sol (nth i basis 0%nat) == 0) ->
  dot a (extract_loop N basis s rows sol) == dot a sol + bsum a basis s rows.
Proof.
  induction rows as [|r rows IH]; intros s sol Hlen Hlt Hnd Hz; simpl.
  - ring.
  - assert (Hs : (nth s basis 0 < N)%nat) by (apply Hlt; simpl; lia).
    apply Nat.ltb_lt in Hs. rewrite Hs. apply Nat.ltb_lt in Hs.
    rewrite IH.
    + rewrite dot_set_nth by lia. rewrite (Hz s) by (simpl; lia). ring.
    + rewrite set_nth_length. exact Hlen.
    + intros i Hi. apply Hlt. simpl. lia.
    + intros i i' Hi Hi' Hne. apply Hnd; simpl; lia.
    + intros i Hi. rewrite get_set_nth_other; [apply Hz; simpl; lia|].
      apply Hnd; simpl; lia.
Qed.

Lemma bsum_zero a basis rows : forall s,
  (forall i, (s <= i < s + length rows)%nat -> get a (nth i basis 0%nat) == 0) ->
  bsum a basis s rows == 0.
Proof.
  induction rows as [|r rows IH]; intros s H; simpl; [reflexivity|].
  rewrite (H s) by (simpl; lia). rewrite IH; [ring|]. intros i Hi. apply H. simpl. lia.
Qed.

Lemma bsum_delta a basis k rows : forall s,
  (forall i, (s <= i < s + length rows)%nat ->
             get a (nth i basis 0%nat) == if Nat.eqb k i then 1 else 0) ->
  bsum a basis s rows ==
  if Nat.leb s k && Nat.ltb k (s + length rows) then snd (nth (k - s) rows row0) else 0.
Proof.
  induction rows as [|r rows IH]; intros s H; simpl.
  - destruct (Nat.leb s k) eqn:E1; simpl; [|reflexivity].
    destruct (Nat.ltb k (s + 0)) eqn:E2; [|reflexivity].
    apply Nat.leb_le in E1. apply Nat.ltb_lt in E2. lia.
  - rewrite (H s) by (simpl; lia). rewrite IH by (intros i Hi; apply H; simpl; lia).
    destruct (Nat.eq_dec k s) as [->|Hne].
    + rewrite Nat.eqb_refl. rewrite Nat.leb_refl.
      assert (E : Nat.ltb s (s + S (length rows)) = true) by (apply Nat.ltb_lt; lia). rewrite E.
      assert (E' : Nat.leb (S s) s = false) by (apply Nat.leb_gt; lia). rewrite E'. simpl.
      rewrite Nat.sub_diag. ring.
    + assert (E : Nat.eqb k s = false) by (apply Nat.eqb_neq; exact Hne). rewrite E.
      destruct (Nat.leb (S s) k) eqn:E1.
      * apply Nat.leb_le in E1. assert (E2 : Nat.leb s k = true) by (apply Nat.leb_le; lia). rewrite E2.
        replace (s + S (length rows))%nat with (S s + length rows)%nat by lia.
        destruct (Nat.ltb k (S s + length rows)); simpl; [|ring].
        replace (k - s)%nat with (S (k - S s)) by lia. ring.
      * apply Nat.leb_gt in E1. assert (E2 : Nat.leb s k = false) by (apply Nat.leb_gt; lia). rewrite E2.
        simpl. ring.
Qed.

Lemma Forall_set_nth (P : Q -> Prop) j x l : Forall P l -> P x -> Forall P (set_nth j x l).
Proof.
  intros Hl Hx. revert j. induction Hl as [|y l Hy Hl IH]; intros [|j]; simpl; constructor; auto.
Qed.

Lemma extract_loop_nonneg n basis rows : forall s sol,
  Forall (fun q => 0 <= q) sol -> Forall (fun r => 0 <= snd r) rows ->
  Forall (fun q => 0 <= q) (extract_loop n basis s rows sol).
Proof.
  induction rows as [|r rows IH]; intros s sol Hs Hr; simpl; [exact Hs|].
  inversion Hr; subst. apply IH; [|assumption].
  destruct (Nat.ltb (nth s basis 0%nat) n); [apply Forall_set_nth; assumption | exact Hs].
Qed.

Lemma firstn_set_nth_lt n j (x : Q) l : (j < n)%nat -> firstn n (set_nth j x l) = set_nth j x (firstn n l).
Proof.
  revert n j. induction l as [|y l IH]; intros [|n] [|j] H; simpl; try reflexivity; try lia.
  f_equal. apply IH. lia.
Qed.

Lemma firstn_set_nth_ge n j (x : Q) l : (n <= j)%nat -> firstn n (set_nth j x l) = firstn n l.
Proof.
  revert n j. induction l as [|y l IH]; intros [|n] [|j] H; simpl; try reflexivity; try lia.
  f_equal. apply IH. lia.
Qed.

(* the code's _extract (first n columns) is the restriction of the full basic solution *)
Lemma firstn_extract_loop n N basis rows : forall s sol, (n <= N)%nat ->
  firstn n (extract_loop N basis s rows sol) = extract_loop n basis s rows (firstn n sol).
Proof.
  induction rows as [|r rows IH]; intros s sol Hn; simpl; [reflexivity|].
  rewrite IH by exact Hn. f_equal.
  destruct (Nat.ltb (nth s basis 0%nat) N) eqn:E1; destruct (Nat.ltb (nth s basis 0%nat) n) eqn:E2.
  - apply firstn_set_nth_lt. apply Nat.ltb_lt. exact E2.
  - apply firstn_set_nth_ge. apply Nat.ltb_ge. exact E2.
  - apply Nat.ltb_lt in E2. apply Nat.ltb_ge in E1. lia.
  - reflexivity.
Qed.

Lemma firstn_zeros n N : (n <= N)%nat -> firstn n (zeros N) = zeros n.
Proof.
  unfold zeros. revert N. induction n as [|n IH]; intros N H; [reflexivity|].
  destruct N as [|N]; [lia|]. simpl. f_equal. apply IH. lia.
Qed.

(* ---- the basic solution of a tableau satisfying p2_inv *)
Definition bsol (N : nat) (T : tableau) (basis : list nat) : list Q :=
  extract_loop N basis 0 (t_rows T) (zeros N).

Lemma get_zeros N j : get (zeros N) j = 0.
Proof.
  unfold get, zeros. revert j. induction N as [|N IH]; intros [|j]; simpl; try reflexivity. apply IH.
Qed.

Lemma dot_zeros_r a N : dot a (zeros N) == 0.
Proof. rewrite dot_comm. apply dot_zeros_l. Qed.

Lemma basis_distinct N T basis i i' : p2_inv N T basis ->
  (i < length basis)%nat -> (i' < length basis)%nat -> i <> i' -> nth i basis 0%nat <> nth i' basis 0%nat.
Proof.
  intros Hinv Hi Hi' Hne Heq.
  pose proof (inv_unit _ _ _ Hinv i i Hi) as H1. rewrite (inv_len _ _ _ Hinv) in Hi. specialize (H1 Hi).
  rewrite <- (inv_len _ _ _ Hinv) in Hi.
  pose proof (inv_unit _ _ _ Hinv i' i Hi') as H2. rewrite (inv_len _ _ _ Hinv) in Hi. specialize (H2 Hi).
  rewrite Nat.eqb_refl in H1. assert (E : Nat.eqb i i' = false) by (apply Nat.eqb_neq; exact Hne).
  rewrite E, <- Heq in H2. rewrite H1 in H2. discriminate H2.
Qed.

Lemma dot_bsol a N T basis : p2_inv N T basis ->
  dot a (bsol N T basis) == bsum a basis 0 (t_rows T).
Proof.
  intro Hinv. unfold bsol. rewrite (dot_extract_loop a N).
  - rewrite dot_zeros_r. ring.
  - apply zeros_length.
  - intros i Hi. apply (inv_lt _ _ _ Hinv). rewrite (inv_len _ _ _ Hinv). lia.
  - intros i i' Hi Hi' Hne. apply (basis_distinct N T basis); try assumption; rewrite (inv_len _ _ _ Hinv); lia.
  - intros i Hi. rewrite get_zeros. reflexivity.
Qed.

Lemma bsol_rows N T basis k : p2_inv N T basis -> (k < length (t_rows T))%nat ->
  row_sat (bsol N T basis) (nth k (t_rows T) row0).
Proof.
  intros Hinv Hk. unfold row_sat. rewrite dot_bsol by exact Hinv.
  rewrite (bsum_delta _ basis k).
  - assert (E1 : Nat.leb 0 k = true) by (apply Nat.leb_le; lia).
    assert (E2 : Nat.ltb k (0 + length (t_rows T)) = true) by (apply Nat.ltb_lt; lia).
    rewrite E1, E2. simpl. rewrite Nat.sub_0_r. reflexivity.
  - intros i Hi. apply (inv_unit _ _ _ Hinv); [rewrite (inv_len _ _ _ Hinv); lia | exact Hk].
Qed.

Lemma bsol_obj N T basis : p2_inv N T basis -> dot (fst (t_obj T)) (bsol N T basis) == 0.
Proof.
  intro Hinv. rewrite dot_bsol by exact Hinv. apply bsum_zero.
  intros i Hi. apply (inv_obj _ _ _ Hinv). rewrite (inv_len _ _ _ Hinv). lia.
Qed.

Lemma bsol_nonneg N T basis : p2_inv N T basis -> Forall (fun q => 0 <= q) (bsol N T basis).
Proof.
  intro Hinv. unfold bsol. apply extract_loop_nonneg.
  - unfold zeros. apply Forall_forall. intros x Hx. apply repeat_spec in Hx. subst. lra.
  - apply Forall_nth. intros k d Hk. rewrite (nth_indep _ d row0) by exact Hk. apply (inv_rhs _ _ _ Hinv). exact Hk.
Qed.

Lemma bsol_length N T basis : length (bsol N T basis) = N.
Proof. unfold bsol. rewrite extract_loop_length. apply zeros_length. Qed.

Lemma bsol_sat N T basis : p2_inv N T basis ->
  tab_sat (bsol N T basis) (- snd (t_obj T)) T.
Proof.
  intro Hinv. split.
  - apply Forall_nth. intros k d Hk. rewrite (nth_indep _ d row0) by exact Hk. apply bsol_rows; assumption.
  - unfold obj_sat. rewrite bsol_obj by exact Hinv. ring.
Qed.
