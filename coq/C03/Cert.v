(* Per-run certificates for C03 (definitions only; soundness is proved in CertProofs.v).
   - optimality: primal point x, dual multipliers y (read off the slack columns of the final
     objective row), weak duality closes the gap;
   - infeasibility: Farkas multipliers y >= 0 with A^T y >= 0 and y.b < 0 (slack columns of the final
     phase-1 objective row);
   - unboundedness: a feasible point and an improving ray (entering column of the final tableau).
   The checkers judge ANY candidate (x, y, r); the extraction functions below only propose candidates. *)
From Coq Require Import List QArith Qabs Bool Arith.
From SV Require Import Common.Corr C03.Simplex C03.SimplexCorr C03.LPSpec.
Import ListNotations.
Open Scope Q_scope.

Fixpoint vadd (a b : list Q) : list Q :=
  match a, b with
  | x :: a', y :: b' => (x + y) :: vadd a' b'
  | _, _ => []
  end.

(* A^T y  as  sum_i y_i * A_i  (vector of length n) *)
Fixpoint vm (n : nat) (y : list Q) (A : list (list Q)) : list Q :=
  match y, A with
  | yi :: y', r :: A' => vadd (map (Qmult yi) r) (vm n y' A')
  | _, _ => zeros n
  end.

Definition all_ge (lo : Q) (l : list Q) : bool := forallb (fun v => Qleb lo v) l.

Fixpoint all_le2 (tol : Q) (l r : list Q) : bool :=
  match l, r with
  | [], [] => true
  | x :: l', y :: r' => Qleb x (y + tol) && all_le2 tol l' r'
  | _, _ => false
  end.

Definition dims_ok (c : list Q) (A : list (list Q)) (b : list Q) : bool :=
  Nat.eqb (length A) (length b) && forallb (fun r => Nat.eqb (length r) (length c)) A.

Definition primal_check (tol : Q) (A : list (list Q)) (b x : list Q) : bool :=
  all_ge (- tol) x && all_le2 tol (mv A x) b.

(* y >= 0 and w + A^T y >= 0 *)
Definition dual_check (w : list Q) (A : list (list Q)) (y : list Q) : bool :=
  all_ge 0 y && all_ge 0 (vadd w (vm (length w) y A)).

Definition cert_optimal_check (tol : Q) (minimize : bool) (c : list Q) (A : list (list Q)) (b x : list Q)
           (obj : Q) (y : list Q) : bool :=
  let w := weights minimize c in
  dims_ok c A b && primal_check tol A b x && dual_check w A y
  && Qleb (dot w x) (- dot y b + tol)
  && Qleb (Qabs (obj - dot c x)) tol.

Definition farkas_check (c : list Q) (A : list (list Q)) (b y : list Q) : bool :=
  dims_ok c A b && all_ge 0 y && all_ge 0 (vm (length c) y A) && Qltb (dot y b) 0.

Definition ray_check (minimize : bool) (c : list Q) (A : list (list Q)) (b x r : list Q) : bool :=
  let w := weights minimize c in
  dims_ok c A b && primal_check 0 A b x && Nat.eqb (length x) (length r)
  && all_ge 0 r && forallb (fun v => Qleb v 0) (mv A r) && Qltb (dot w r) 0.

(* ---- candidates read off the model's final tableau *)
Definition dual_of (n m : nat) (r : lp_result) : list Q :=
  map (fun i => get (fst (t_obj (r_tab r))) (n + i)) (seq 0 m).

Fixpoint ray_loop (n : nat) (basis : list nat) (e : nat) (i : nat) (rows : list row) (d : list Q) : list Q :=
  match rows with
  | [] => d
  | r :: rs =>
      let v := nth i basis O in
      ray_loop n basis e (S i) rs (if Nat.ltb v n then set_nth v (- get (fst r) e) d else d)
  end.

Definition ray_of (n : nat) (r : lp_result) : list Q :=
  match find_enter 0 (r_basis r) (r_tab r) with
  | None => []
  | Some e =>
      ray_loop n (r_basis r) e 0 (t_rows (r_tab r))
               (map (fun j => if Nat.eqb j e then 1 else 0) (seq 0 n))
  end.

(* the tableau rows are the constraint rows divided by row_scale (row equilibration) and the objective row is the weight vector
   divided by its row_scale, so a multiplier read off the tableau belongs to the scaled rows: the multiplier of the original row i
   is  f * y_i / row_scale A_i  with f = row_scale w for the phase-2 objective (f = 1 for the unscaled phase-1 objective) *)
Fixpoint unscale (f : Q) (y : list Q) (A : list (list Q)) : list Q :=
  match y, A with
  | yi :: y', Ai :: A' => Qred (f * yi / row_scale Ai) :: unscale f y' A'
  | _, _ => []
  end.

Definition tol6 : Q := 1 # 1000000.

(* the implementation's answer (status, point, objective) judged with the model's certificates
   (model run in exact arithmetic, eps = 0); the model's own exact answer is certified with tol = 0 *)
Definition cert_case_check (k : lp_case) : bool :=
  let r := run_case 0 k in
  let n := length (k_c k) in
  let m := length (k_b k) in
  let y := unscale (row_scale (weights (k_min k) (k_c k))) (dual_of n m r) (k_A k) in
  let yf := unscale 1 (dual_of n m r) (k_A k) in
  match k_status k with
  | OPTIMAL =>
      cert_optimal_check tol6 (k_min k) (k_c k) (k_A k) (k_b k) (k_sol k) (k_obj k) y
      && cert_optimal_check 0 (k_min k) (k_c k) (k_A k) (k_b k) (r_solution r) (r_objective r) y
  | INFEASIBLE => farkas_check (k_c k) (k_A k) (k_b k) yf
  | UNBOUNDED => ray_check (k_min k) (k_c k) (k_A k) (k_b k) (r_solution r) (ray_of n r)
  | MAX_ITER => true
  end.
