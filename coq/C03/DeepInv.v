(* Generalised phase-2 invariant (exact arithmetic, eps = 0).
   After _phase1 has dropped the artificial columns, a row whose artificial could not be driven out keeps a
   basis entry >= N (N = number of remaining columns): such a row is 0 = 0 ("dead").  g_inv is p2_inv with dead
   rows allowed; every pivot chosen by _phase2 keeps it and the solution set. *)
From Coq Require Import List QArith Qabs Bool Arith Lia Lqa.
From SV Require Import C03.Simplex C03.LPSpec C03.Cert C03.LinAlgProofs C03.PivotProofs C03.Phase2Entries
  C03.Phase2Inv.
Import ListNotations.
Open Scope Q_scope.

(* structural part: shape, unit basic columns, dead rows, reduced cost 0 on basic columns *)
Record g_str (N : nat) (T : tableau) (basis : list nat) : Prop := mk_g_str {
  g_wf : tab_wf N T;
  g_len : length basis = length (t_rows T);
  g_unit : forall i k, (i < length basis)%nat -> (nth i basis 0 < N)%nat -> (k < length (t_rows T))%nat ->
           entry T k (nth i basis 0%nat) == if Nat.eqb k i then 1 else 0;
  g_dead : forall i, (i < length basis)%nat -> (N <= nth i basis 0)%nat ->
           (forall j, entry T i j == 0) /\ rhs T i == 0;
  g_obj : forall i, (i < length basis)%nat -> objc T (nth i basis 0%nat) == 0
}.

Definition rhs_nonneg (T : tableau) : Prop := forall k, (k < length (t_rows T))%nat -> 0 <= rhs T k.

Definition g_inv (N : nat) (T : tableau) (basis : list nat) : Prop := g_str N T basis /\ rhs_nonneg T.

Lemma p2_inv_g N T basis : p2_inv N T basis -> g_inv N T basis.
Proof.
  intros [Hwf Hlen Hlt Hunit Hobj Hrhs]. split; [|exact Hrhs]. constructor; auto.
  intros i Hi Hge. specialize (Hlt i Hi). lia.
Qed.

Lemma get_overflow l j : (length l <= j)%nat -> get l j = 0.
Proof. intro H. unfold get. apply nth_overflow. exact H. Qed.

(* ---- any exact pivot on a non-zero element of a column < N keeps the structural part *)
Lemma pivot_str N T basis l e :
  g_str N T basis -> (l < length (t_rows T))%nat -> (e < N)%nat -> ~ entry T l e == 0 ->
  g_str N (pivot 0 T l e) (set_nth l e basis).
Proof.
  intros [Hwf Hlen Hunit Hdead Hobj] Hl HeN Hpv0.
  constructor.
  - apply pivot0_wf; assumption.
  - rewrite set_nth_length, pivot0_rows_length. exact Hlen.
  - intros i k Hi Hlive Hk. rewrite set_nth_length in Hi. rewrite pivot0_rows_length in Hk.
    destruct (Nat.eq_dec i l) as [->|Hne].
    + rewrite set_nth_same by lia. destruct (Nat.eq_dec k l) as [->|Hkl].
      * rewrite Nat.eqb_refl, (entry_pivot_l T l e Hl). field. exact Hpv0.
      * rewrite (entry_pivot_other N T l e Hwf Hl) by assumption. apply Nat.eqb_neq in Hkl. rewrite Hkl. field. exact Hpv0.
    + rewrite set_nth_other in Hlive by exact Hne. rewrite set_nth_other by exact Hne.
      pose proof (Hunit i l Hi Hlive Hl) as Hli. assert (El : Nat.eqb l i = false) by (apply Nat.eqb_neq; lia).
      rewrite El in Hli.
      destruct (Nat.eq_dec k l) as [->|Hkl].
      * rewrite (entry_pivot_l T l e Hl). rewrite El, Hli. ring.
      * rewrite (entry_pivot_other N T l e Hwf Hl) by assumption. rewrite Hli, (Hunit i k Hi Hlive Hk). ring.
  - intros i Hi Hge. rewrite set_nth_length in Hi.
    destruct (Nat.eq_dec i l) as [->|Hne].
    + rewrite set_nth_same in Hge by lia. lia.
    + rewrite set_nth_other in Hge by exact Hne. destruct (Hdead i Hi Hge) as [Hz Hr].
      assert (Hik : (i < length (t_rows T))%nat) by lia.
      split.
      * intro j. rewrite (entry_pivot_other N T l e Hwf Hl) by assumption. rewrite !Hz. ring.
      * rewrite (rhs_pivot_other T l e i) by assumption. rewrite Hr, Hz. ring.
  - intros i Hi. rewrite set_nth_length in Hi. rewrite (objc_pivot N T l e Hwf Hl).
    destruct (Nat.eq_dec i l) as [->|Hne].
    + rewrite set_nth_same by lia. field. exact Hpv0.
    + rewrite set_nth_other by exact Hne.
      destruct (Nat.lt_ge_cases (nth i basis 0%nat) N) as [Hlive|Hge].
      * pose proof (Hunit i l Hi Hlive Hl) as Hli. assert (El : Nat.eqb l i = false) by (apply Nat.eqb_neq; lia).
        rewrite El in Hli. rewrite Hli, (Hobj i Hi). ring.
      * assert (E0 : entry T l (nth i basis 0%nat) = 0).
        { unfold entry. apply get_overflow. rewrite (row_len N T Hwf l Hl). exact Hge. }
        rewrite E0, (Hobj i Hi). ring.
Qed.

(* the right-hand sides after a pivot chosen by the ratio test *)
Lemma pivot_rhs_ratio N T l e :
  tab_wf N T -> rhs_nonneg T -> (l < length (t_rows T))%nat -> 0 < entry T l e ->
  (forall k, (k < length (t_rows T))%nat -> 0 < entry T k e ->
             ratio_of e (nth l (t_rows T) row0) <= ratio_of e (nth k (t_rows T) row0)) ->
  rhs_nonneg (pivot 0 T l e).
Proof.
  intros Hwf Hrhs Hl Hpv Hmin k Hk. rewrite pivot0_rows_length in Hk.
  assert (Hq : 0 <= rhs T l * / entry T l e).
  { apply Qmult_le_0_compat; [apply Hrhs; exact Hl|]. apply Qlt_le_weak. apply Qinv_lt_0_compat. exact Hpv. }
  destruct (Nat.eq_dec k l) as [->|Hkl].
  - rewrite (rhs_pivot_l T l e Hl). exact Hq.
  - rewrite (rhs_pivot_other T l e k) by assumption.
    destruct (Qlt_le_dec 0 (entry T k e)) as [Hpos|Hnp].
    + specialize (Hmin k Hk Hpos). unfold ratio_of in Hmin. fold (rhs T l) (rhs T k) (entry T l e) (entry T k e) in Hmin.
      unfold Qdiv in Hmin.
      assert (H1 : entry T k e * (rhs T l * / entry T l e) <= entry T k e * (rhs T k * / entry T k e))
        by (apply Qmult_le_l; assumption).
      assert (H2 : entry T k e * (rhs T k * / entry T k e) == rhs T k) by (field; lra).
      lra.
    + assert (entry T k e * (rhs T l * / entry T l e) <= 0).
      { setoid_replace 0 with (0 * (rhs T l * / entry T l e)) by ring.
        apply Qmult_le_compat_r; assumption. }
      specialize (Hrhs k Hk). lra.
Qed.

Lemma g_step N T basis e l :
  g_inv N T basis -> find_enter 0 basis T = Some e -> find_leave 0 basis T e = Some l ->
  g_inv N (pivot 0 T l e) (set_nth l e basis).
Proof.
  intros [Hs Hr] He Hlv.
  apply find_enter_some in He. destruct He as [HeN [Hmem Hneg]].
  pose proof (g_wf _ _ _ Hs) as Hwf. destruct Hwf as [Hwr Hwo]. rewrite Hwo in HeN.
  apply find_leave_some in Hlv. destruct Hlv as [Hl [Hpv Hmin]].
  fold (entry T l e) in Hpv.
  split.
  - apply pivot_str; try assumption. lra.
  - apply (pivot_rhs_ratio N); try assumption. split; assumption.
Qed.

Lemma g_step_equiv N T basis e l v z :
  g_inv N T basis -> find_leave 0 basis T e = Some l ->
  (tab_sat v z T <-> tab_sat v z (pivot 0 T l e)).
Proof.
  intros [Hs _] Hlv. apply find_leave_some in Hlv. destruct Hlv as [Hl [Hpv _]].
  apply (pivot_equiv N); [apply (g_wf _ _ _ Hs) | exact Hl | lra].
Qed.

Lemma Forall_set_nth_nat (P : nat -> Prop) j x l : Forall P l -> P x -> Forall P (set_nth j x l).
Proof.
  intros Hl Hx. revert j. induction Hl as [|y l Hy Hl IH]; intros [|j]; simpl; constructor; auto.
Qed.

(* ---- the whole loop *)
Theorem phase2_ginv N fuel it T basis piv st it' T' basis' piv' :
  g_inv N T basis ->
  phase2 0 fuel it T basis piv = (st, it', T', basis', piv') ->
  g_inv N T' basis'
  /\ (forall v z, tab_sat v z T <-> tab_sat v z T')
  /\ (st = OPTIMAL -> find_enter 0 basis' T' = None)
  /\ (st = UNBOUNDED -> exists e, find_enter 0 basis' T' = Some e /\ find_leave 0 basis' T' e = None)
  /\ (Forall (fun j => (j < N)%nat) basis -> Forall (fun j => (j < N)%nat) basis').
Proof.
  revert it T basis piv. induction fuel as [|fuel IH]; intros it T basis piv Hinv H; simpl in H.
  - inversion H; subst. split; [exact Hinv|]. split; [intros; tauto|]. split; [intro; discriminate|].
    split; [intro; discriminate | auto].
  - destruct (find_enter 0 basis T) as [e|] eqn:He.
    + destruct (find_leave 0 basis T e) as [l|] eqn:Hl.
      * pose proof (g_step N T basis e l Hinv He Hl) as Hinv'.
        destruct (IH _ _ _ _ Hinv' H) as [H1 [H2 [H3 [H4 H5]]]].
        split; [exact H1|]. split; [|split; [assumption|split; [assumption|]]].
        -- intros v z. rewrite (g_step_equiv N T basis e l v z Hinv Hl). apply H2.
        -- intro HF. apply H5. apply Forall_set_nth_nat; [exact HF|].
           apply find_enter_some in He. destruct He as [HeN _].
           destruct Hinv as [Hs _]. destruct (g_wf _ _ _ Hs) as [_ Hwo]. rewrite Hwo in HeN. exact HeN.
      * inversion H; subst. split; [exact Hinv|]. split; [intros; tauto|]. split; [intro; discriminate|].
        split; [|auto]. intros _. exists e. split; assumption.
    + inversion H; subst. split; [exact Hinv|]. split; [intros; tauto|]. split; [intros _; exact He|].
      split; [intro; discriminate | auto].
Qed.
