(* Model of solvor/simplex.py (solve_lp, _phase1, _phase2, _pivot, _extract; lines 48-234).
   Definitions only.  Shape A over Q: the tableau arithmetic of the code (float) is carried out in
   exact rationals; `eps : Q` is a parameter (the code's default is 1e-10 = 1 # 10^10; the
   theorems are for eps = 0).  `max_iter` is the fuel and is an INPUT of the code: exhausting it
   is the public answer MAX_ITER (never a normal-looking result).

   Representation.  A Python row  array('d', [a_0 .. a_{k-1}, rhs])  is the pair (coeffs, rhs):
   `matrix[i][-1]` = snd, `matrix[i][j]` (j < n_cols-1) = nth j (fst r) 0.  `matrix` (m constraint
   rows + objective row `matrix[-1]`) is the record {t_rows; t_obj}.  `row.insert(-1, 0.0)`
   appends to the coefficient list; `del row[-2]` removes its last element.  `basis_set` always
   equals set(basis) in the code (both are updated together and an entering column is never basic),
   so `j not in basis_set` is modelled by a membership test on `basis`.
   Every value is kept in lowest terms with Qred (a no-op for Qeq; it only keeps vm_compute fast).

   The model follows the tree after commits 5868332 ("simplex reports MAX_ITER when phase 1 hits the
   limit"), b6b6dd1 (phase-1 verdict threshold  eps * max(1, total initial infeasibility)  instead of
   an absolute eps) and 0767acf (_extract reports c . x of the returned point): _phase1 answers
   MAX_ITER when its inner _phase2 run was cut short with the auxiliary objective still below minus
   that threshold, INFEASIBLE only when that run ended by itself; and 96ecc58 (every constraint row
   and its right-hand side are divided by the row's largest absolute coefficient when the tableau is
   built) and 39737f0 (so is the objective row). *)
From Coq Require Import List QArith Qabs Bool Arith.
From SV Require Import C03.LPSpec.   (* dot: sum(cj * xj for cj, xj in zip(c, solution)) *)
Import ListNotations.
Open Scope Q_scope.

Inductive lp_status := OPTIMAL | INFEASIBLE | UNBOUNDED | MAX_ITER.

Definition status_eqb (a b : lp_status) : bool :=
  match a, b with
  | OPTIMAL, OPTIMAL | INFEASIBLE, INFEASIBLE | UNBOUNDED, UNBOUNDED | MAX_ITER, MAX_ITER => true
  | _, _ => false
  end.

Definition row := (list Q * Q)%type.
Record tableau := mkT { t_rows : list row; t_obj : row }.

(* ---- comparisons of the code:  a <= b,  a < b  *)
Definition Qleb (a b : Q) : bool := Qle_bool a b.
Definition Qltb (a b : Q) : bool := negb (Qle_bool b a).

(* ---- list helpers *)
Definition get (l : list Q) (j : nat) : Q := nth j l 0.

Fixpoint set_nth {A} (i : nat) (v : A) (l : list A) : list A :=
  match l, i with
  | [], _ => []
  | _ :: xs, O => v :: xs
  | x :: xs, S j => x :: set_nth j v xs
  end.

Fixpoint mapi_from {A B} (i : nat) (f : nat -> A -> B) (l : list A) : list B :=
  match l with
  | [] => []
  | x :: xs => f i x :: mapi_from (S i) f xs
  end.
Definition mapi {A B} (f : nat -> A -> B) (l : list A) : list B := mapi_from 0 f l.

Definition mem_nat (j : nat) (l : list nat) : bool := existsb (Nat.eqb j) l.

Definition zeros (k : nat) : list Q := repeat 0 k.
Definition unit_vec (k i : nat) : list Q := map (fun j => if Nat.eqb j i then 1 else 0) (seq 0 k).

Definition row0 : row := ([], 0).

(* ---- row arithmetic (whole row, rhs included: `for j in range(n_cols)`) *)
Definition rnorm (r : row) : row := (map Qred (fst r), Qred (snd r)).
Definition rscale (k : Q) (r : row) : row := (map (fun a => a * k) (fst r), snd r * k).
Definition rneg (r : row) : row := (map Qopp (fst r), - snd r).
(* a[j] -= f * p[j] *)
Fixpoint vsubmul (f : Q) (a p : list Q) : list Q :=
  match a with
  | [] => []
  | x :: a' => (x - f * hd 0 p) :: vsubmul f a' (tl p)
  end.
Definition rsubmul (f : Q) (r p : row) : row := (vsubmul f (fst r) (fst p), snd r - f * snd p).

(* ---- def _pivot(matrix, m, row, col, eps) *)
Definition elim_row (eps : Q) (c : nat) (prow' : row) (x : row) : row :=
  let f := get (fst x) c in
  if Qltb eps (Qabs f) then rnorm (rsubmul f x prow') else x.

Definition pivot (eps : Q) (T : tableau) (r c : nat) : tableau :=
  let prow := nth r (t_rows T) row0 in
  let pv := get (fst prow) c in
  if Qltb (Qabs pv) eps then T                       (* "numerical instability, skip pivot" *)
  else
    let inv := / pv in                                (* inv = 1.0 / pivot_val *)
    let prow' := rnorm (rscale inv prow) in           (* matrix[row][j] *= inv *)
    mkT (mapi (fun i x => if Nat.eqb i r then prow' else elim_row eps c prow' x) (t_rows T))
        (elim_row eps c prow' (t_obj T)).             (* for i in range(m + 1): if i != row: ... *)

(* ---- def _phase2(matrix, basis, basis_set, m, eps, max_iter) *)
(* Bland entering: first j in range(n_cols-1) with j not in basis_set and matrix[-1][j] < -eps *)
Fixpoint find_enter_from (eps : Q) (basis : list nat) (j : nat) (oc : list Q) : option nat :=
  match oc with
  | [] => None
  | x :: oc' =>
      if negb (mem_nat j basis) && Qltb x (- eps) then Some j
      else find_enter_from eps basis (S j) oc'
  end.
Definition find_enter (eps : Q) (basis : list nat) (T : tableau) : option nat :=
  find_enter_from eps basis 0 (fst (t_obj T)).

(* ratio test.  leave = -1 is None; min_ratio = inf is None.
     if matrix[i][enter] > eps:
         ratio = matrix[i][-1] / matrix[i][enter]
         if ratio < min_ratio - eps:           min_ratio, leave = ratio, i
         elif abs(ratio - min_ratio) <= eps:   if leave == -1 or basis[i] < basis[leave]: leave = i  *)
Definition ratio_step (eps : Q) (basis : list nat) (e : nat) (i : nat) (r : row)
           (st : option nat * option Q) : option nat * option Q :=
  let '(leave, minr) := st in
  let a := get (fst r) e in
  if Qltb eps a then
    let ratio := Qred (snd r / a) in
    match minr with
    | None => (Some i, Some ratio)
    | Some mr =>
        if Qltb ratio (mr - eps) then (Some i, Some ratio)
        else if Qleb (Qabs (ratio - mr)) eps then
               match leave with
               | None => (Some i, minr)
               | Some l => if Nat.ltb (nth i basis O) (nth l basis O) then (Some i, minr) else st
               end
             else st
    end
  else st.

Fixpoint ratio_loop (eps : Q) (basis : list nat) (e : nat) (i : nat) (rows : list row)
         (st : option nat * option Q) : option nat * option Q :=
  match rows with
  | [] => st
  | r :: rs => ratio_loop eps basis e (S i) rs (ratio_step eps basis e i r st)
  end.
Definition find_leave (eps : Q) (basis : list nat) (T : tableau) (e : nat) : option nat :=
  fst (ratio_loop eps basis e 0 (t_rows T) (None, None)).

Definition p2_result := (lp_status * nat * tableau * list nat * list (nat * nat))%type.

(* `for iteration in range(max_iter)`; `it` = the loop variable, `piv` = calls of _pivot so far *)
Fixpoint phase2 (eps : Q) (fuel : nat) (it : nat) (T : tableau) (basis : list nat)
         (piv : list (nat * nat)) : p2_result :=
  match fuel with
  | O => (MAX_ITER, it, T, basis, piv)
  | S fuel' =>
      match find_enter eps basis T with
      | None => (OPTIMAL, it, T, basis, piv)
      | Some e =>
          match find_leave eps basis T e with
          | None => (UNBOUNDED, it, T, basis, piv)
          | Some l =>
              phase2 eps fuel' (S it) (pivot eps T l e) (set_nth l e basis) (piv ++ [(l, e)])
          end
      end
  end.

(* ---- def _phase1(matrix, basis, basis_set, m, n, eps, max_iter) *)
(* first loop: for i in range(m): if matrix[i][-1] < -eps: flip row i, add one artificial column *)
Definition p1_state := (list row * row * list nat * list nat)%type.   (* rows, obj, basis, art_cols *)

Definition add_art_step (eps : Q) (n_total : nat) (i : nat) (st : p1_state) : p1_state :=
  let '(rows, obj, basis, arts) := st in
  let r := nth i rows row0 in
  if Qltb (snd r) (- eps) then
    let art := (n_total + length arts)%nat in
    (mapi (fun i' x => if Nat.eqb i' i then (map Qopp (fst x) ++ [1], - snd x)
                       else (fst x ++ [0], snd x)) rows,
     (fst obj ++ [0], snd obj),
     set_nth i art basis,
     arts ++ [art])
  else st.

Fixpoint add_arts (eps : Q) (n_total : nat) (k : nat) (i : nat) (st : p1_state) : p1_state :=
  match k with
  | O => st
  | S k' => add_arts eps n_total k' (S i) (add_art_step eps n_total i st)
  end.

(* matrix[-1] = zeros; matrix[-1][col] = 1 for art cols; for i: if basis[i] in art_cols: obj -= row i *)
Definition aux_obj0 (width : nat) (arts : list nat) : row :=
  (map (fun j => if mem_nat j arts then 1 else 0) (seq 0 width), 0).

Fixpoint aux_obj_loop (arts basis : list nat) (i : nat) (rows : list row) (o : row) : row :=
  match rows with
  | [] => o
  | r :: rs =>
      aux_obj_loop arts basis (S i) rs
        (if mem_nat (nth i basis O) arts then rnorm (rsubmul 1 o r) else o)
  end.

(* for j in range(n_cols - 1 - len(art_cols)): if j not in basis_set and abs(matrix[i][j]) > eps *)
Fixpoint find_drive_col (eps : Q) (basis : list nat) (j : nat) (k : nat) (cs : list Q) : option nat :=
  match k, cs with
  | S k', x :: cs' =>
      if negb (mem_nat j basis) && Qltb eps (Qabs x) then Some j
      else find_drive_col eps basis (S j) k' cs'
  | _, _ => None
  end.

(* "Pivot out any artificial variables still in basis" *)
Fixpoint drive_out (eps : Q) (arts : list nat) (n_total : nat) (k : nat) (i : nat)
         (st : tableau * list nat * list (nat * nat)) : tableau * list nat * list (nat * nat) :=
  match k with
  | O => st
  | S k' =>
      let '(T, basis, piv) := st in
      let st' :=
        if mem_nat (nth i basis O) arts then
          match find_drive_col eps basis 0 n_total (fst (nth i (t_rows T) row0)) with
          | Some j => (pivot eps T i j, set_nth i j basis, piv ++ [(i, j)])
          | None => st
          end
        else st in
      drive_out eps arts n_total k' (S i) st'
  end.

(* for _ in art_cols: for row in matrix: del row[-2] *)
Definition drop_last (k : nat) (l : list Q) : list Q := firstn (length l - k) l.
Definition drop_cols (k : nat) (r : row) : row := (drop_last k (fst r), snd r).

(* matrix[-1] = orig_obj; for i in range(m): var = basis[i]; if var < n_cols-1: cost = obj[var];
   if abs(cost) > eps: obj -= cost * row i *)
Fixpoint restore_obj (eps : Q) (basis : list nat) (i : nat) (rows : list row) (o : row) : row :=
  match rows with
  | [] => o
  | r :: rs =>
      let var := nth i basis O in
      let o' :=
        if Nat.ltb var (length (fst o)) then
          let cost := get (fst o) var in
          if Qltb eps (Qabs cost) then rnorm (rsubmul cost o r) else o
        else o in
      restore_obj eps basis (S i) rs o'
  end.

Definition phase1 (eps : Q) (max_iter : nat) (m n : nat) (T : tableau) (basis : list nat) : p2_result :=
  let n_total := (n + m)%nat in
  let orig_obj := t_obj T in
  let '(rows1, obj1, basis1, arts) := add_arts eps n_total m 0 (t_rows T, t_obj T, basis, []) in
  match arts with
  | [] => (OPTIMAL, O, mkT rows1 obj1, basis1, [])
  | _ =>
      let width := length (fst obj1) in                            (* n_cols - 1 *)
      let aux := aux_obj_loop arts basis1 0 rows1 (aux_obj0 width arts) in
      (* tolerance = eps * max(1.0, -matrix[-1][-1])   ("minus the total infeasibility") *)
      let tolerance := eps * (if Qltb 1 (- snd aux) then - snd aux else 1) in
      let '(st, iters, T2, basis2, piv2) := phase2 eps max_iter 0 (mkT rows1 aux) basis1 [] in
      if Qltb (snd (t_obj T2)) (- tolerance) then
        (* "Artificials still positive: infeasible only if phase 1 was not cut short" *)
        ((match st with MAX_ITER => MAX_ITER | _ => INFEASIBLE end), iters, T2, basis2, piv2)
      else
        let '(T3, basis3, piv3) := drive_out eps arts n_total m 0 (T2, basis2, piv2) in
        let k := length arts in
        let rows4 := map (drop_cols k) (t_rows T3) in
        let obj4 := restore_obj eps basis3 0 rows4 orig_obj in
        (OPTIMAL, iters, mkT rows4 obj4, basis3, piv3)
  end.

(* ---- def _extract(matrix, basis, m, n, status, iters, c) *)
Fixpoint extract_loop (n : nat) (basis : list nat) (i : nat) (rows : list row) (sol : list Q) : list Q :=
  match rows with
  | [] => sol
  | r :: rs =>
      let v := nth i basis O in
      extract_loop n basis (S i) rs (if Nat.ltb v n then set_nth v (snd r) sol else sol)
  end.

Record lp_result := mkR {
  r_status : lp_status;
  r_solution : list Q;
  r_objective : Q;               (* float('inf') of the INFEASIBLE answer is represented by 0 *)
  r_iterations : nat;
  r_pivots : list (nat * nat);   (* every call _pivot(matrix, m, row, col, eps), in order *)
  r_tab : tableau;               (* final tableau (phase-1 tableau when phase 1 ended the run) *)
  r_basis : list nat
}.

Definition extract (T : tableau) (basis : list nat) (n : nat) (st : lp_status) (iters : nat)
           (c : list Q) (piv : list (nat * nat)) : lp_result :=
  let sol := extract_loop n basis 0 (t_rows T) (zeros n) in
  (* obj = sum(cj * xj for cj, xj in zip(c, solution)): the user's c, also for maximize *)
  mkR st sol (Qred (dot c sol)) iters piv T basis.

(* ---- def solve_lp(c, A, b, *, minimize=True, eps=1e-10, max_iter=100_000) *)
(* Row equilibration (commit 96ecc58):  scale = max((abs(v) for v in A[i]), default=0.0) or 1.0 ;
   the row's coefficients and its right-hand side are divided by it, the slack entry stays 1 *)
Definition row_scale (r : list Q) : Q :=
  let mx := fold_right (fun v acc => if Qltb acc (Qabs v) then Qabs v else acc) 0 r in
  if Qeq_bool mx 0 then 1 else mx.
Definition scaled_row (r : list Q) : list Q := map (fun v => v / row_scale r) r.

Definition init_tableau (minimize : bool) (c : list Q) (A : list (list Q)) (b : list Q) : tableau :=
  let m := length b in
  let w := if minimize then c else map Qopp c in
  mkT (mapi (fun i Ai => rnorm (scaled_row Ai ++ unit_vec m i, nth i b 0 / row_scale Ai)) (firstn m A))
      (map Qred (scaled_row w) ++ zeros m, 0).   (* objective row scaled the same way (commit 39737f0) *)

Definition solve_lp (eps : Q) (minimize : bool) (max_iter : nat)
           (c : list Q) (A : list (list Q)) (b : list Q) : lp_result :=
  let m := length b in
  let n := length c in
  let T0 := init_tableau minimize c A b in
  let basis0 := seq n m in
  if existsb (fun r => Qltb (snd r) (- eps)) (t_rows T0) then
    let '(st, iters, T1, basis1, piv1) := phase1 eps max_iter m n T0 basis0 in
    match st with
    | OPTIMAL =>
        let '(st2, iters2, T2, basis2, piv2) := phase2 eps (max_iter - iters) 0 T1 basis1 piv1 in
        extract T2 basis2 n st2 (iters + iters2) c piv2
    | _ => mkR st (zeros n) 0 iters piv1 T1 basis1       (* INFEASIBLE or MAX_ITER; objective inf *)
    end
  else
    let '(st2, iters2, T2, basis2, piv2) := phase2 eps max_iter 0 T0 basis0 [] in
    extract T2 basis2 n st2 iters2 c piv2.

(* check_matrix_dims: raises ValueError unless this holds *)
Definition valid_lp (c : list Q) (A : list (list Q)) (b : list Q) : bool :=
  negb (Nat.eqb (length A) 0) && Nat.eqb (length A) (length b)
  && forallb (fun r => Nat.eqb (length r) (length c)) A.

Definition eps_default : Q := 1 # 10000000000.
Definition max_iter_default : nat := (100 * 1000)%nat.
