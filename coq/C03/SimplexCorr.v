(* Observables and boolean comparison used by the generated correspondence files for C03
   (coq/Cases/C03/*.v).  Definitions only. *)
From Coq Require Import List QArith Qabs Bool Arith.
From SV Require Import Common.Corr C03.Simplex.
Import ListNotations.
Open Scope Q_scope.

(* one run of the implementation: input + what it returned (+ the recorded calls of _pivot) *)
Record lp_case := mkC {
  k_min : bool;
  k_iter : option nat;            (* None = the default max_iter (100 000) *)
  k_c : list Q;
  k_A : list (list Q);
  k_b : list Q;
  k_status : lp_status;
  k_pivots : list (nat * nat);
  k_iters : nat;
  k_sol : list Q;                 (* the floats returned, converted exactly *)
  k_obj : Q
}.

Definition case_fuel (k : lp_case) : nat :=
  match k_iter k with None => max_iter_default | Some i => i end.

Definition run_case (eps : Q) (k : lp_case) : lp_result :=
  solve_lp eps (k_min k) (case_fuel k) (k_c k) (k_A k) (k_b k).

Definition pivots_eqb : list (nat * nat) -> list (nat * nat) -> bool :=
  list_eqb (pair_eqb Nat.eqb Nat.eqb).

(* |a - b| <= tol * (1 + |a|) *)
Definition close (tol a b : Q) : bool := Qleb (Qabs (a - b)) (tol * (1 + Qabs a)).

(* model (run with `eps`) against the implementation: status, pivot sequence, iteration count,
   and for OPTIMAL the point and the objective *)
Definition corr_check (eps tol : Q) (k : lp_case) : bool :=
  let r := run_case eps k in
  status_eqb (r_status r) (k_status k)
  && pivots_eqb (r_pivots r) (k_pivots k)
  && Nat.eqb (r_iterations r) (k_iters k)
  && match r_status r with
     | OPTIMAL => list_eqb (close tol) (r_solution r) (k_sol k) && close tol (r_objective r) (k_obj k)
     | _ => true
     end.

(* exact arithmetic with eps = 0 takes the same decisions as with the code's eps *)
Definition eps0_check (k : lp_case) : bool :=
  let r0 := run_case 0 k in
  let r1 := run_case eps_default k in
  status_eqb (r_status r0) (r_status r1) && pivots_eqb (r_pivots r0) (r_pivots r1)
  && list_eqb Qeq_bool (r_solution r0) (r_solution r1) && Qeq_bool (r_objective r0) (r_objective r1).

Definition tol7 : Q := 1 # 10000000.

(* robustness of a case against the value of eps: the exact run takes the same decisions for eps = 0, 1e-10
   and 1e-7, i.e. no compared quantity of the exact tableau lies strictly between 0 and 1e-7 at a place where it
   matters.  Only on such cases is the exact model the reference for what the float code should do; the others
   are skipped (and counted) by the correspondence lemma - the independent oracle still judges their verdict. *)
Definition eps_wide : Q := 1 # 10000000.

Definition same_run (r0 r1 : lp_result) : bool :=
  status_eqb (r_status r0) (r_status r1) && pivots_eqb (r_pivots r0) (r_pivots r1)
  && Nat.eqb (r_iterations r0) (r_iterations r1).

Definition robust_check (k : lp_case) : bool :=
  same_run (run_case eps_wide k) (run_case eps_default k) && same_run (run_case 0 k) (run_case eps_default k).

Definition corr_robust_check (eps tol : Q) (k : lp_case) : bool :=
  if robust_check k then corr_check eps tol k else true.

(* public result only (status, and for OPTIMAL the objective within the relative tolerance): used for inputs of large magnitude,
   where the float code's round-off (relative 1e-16, absolute up to 1e-9 at 1e7) is no longer small against the absolute eps and the
   pivot trace of the exact model is not a reference for the float run *)
Definition corr_public_check (eps tol : Q) (k : lp_case) : bool :=
  let r := run_case eps k in
  status_eqb (r_status r) (k_status k)
  && match r_status r with
     | OPTIMAL => close tol (r_objective r) (k_obj k)
     | _ => true
     end.
