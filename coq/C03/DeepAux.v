(* The auxiliary tableau of _phase1 (exact arithmetic): rows after the artificial-column loop + auxiliary
   objective.  It satisfies the phase-2 invariant; its solutions with artificials = 0 are the solutions of the
   original rows; the auxiliary objective value of any solution is the sum of its artificial coordinates. *)
From Coq Require Import List QArith Qabs Bool Arith Lia Lqa.
From SV Require Import C03.Simplex C03.LPSpec C03.Cert C03.LinAlgProofs C03.PivotProofs C03.Phase2Entries
  C03.Phase2Inv C03.ExtractProofs C03.OptimalProofs C03.DeepInv C03.DeepExtract C03.DeepArts.
Import ListNotations.
Open Scope Q_scope.

Definition rows_sat (v : list Q) (rows : list row) : Prop := Forall (row_sat v) rows.

Lemma dot_unit_like ext : forall p u,
  (forall p', get ext p' == if Nat.eqb p' p then 1 else 0) -> dot ext u == get u p.
Proof.
  induction ext as [|x ext IH]; intros p u H.
  - specialize (H p). rewrite get_nil, Nat.eqb_refl in H. discriminate H.
  - destruct u as [|y u]; [rewrite dot_nil_r, get_nil; reflexivity|].
    destruct p as [|q].
    + pose proof (H 0%nat) as H0. unfold get in H0. simpl in H0.
      assert (Hz : forall j, get ext j == 0) by (intro j; apply (H (S j))).
      simpl. rewrite (dot_all_zero ext u Hz), H0. unfold get. simpl. ring.
    + pose proof (H 0%nat) as H0. unfold get in H0. simpl in H0.
      assert (Hq : forall j, get ext j == if Nat.eqb j q then 1 else 0) by (intro j; apply (H (S j))).
      simpl. rewrite (IH q u Hq), H0. unfold get. simpl. ring.
Qed.

Lemma dot_zero_terms a : forall w, (forall j, get a j == 0 \/ get w j == 0) -> dot a w == 0.
Proof.
  induction a as [|x a IH]; intros w H; [reflexivity|].
  destruct w as [|y w]; [reflexivity|]. simpl.
  rewrite IH by (intro j; apply (H (S j))).
  destruct (H 0%nat) as [H0|H0]; unfold get in H0; simpl in H0; rewrite H0; ring.
Qed.

Lemma dot_ge_term a : forall w j, Forall (fun q => 0 <= q) a -> Forall (fun q => 0 <= q) w ->
  get a j * get w j <= dot a w.
Proof.
  induction a as [|x a IH]; intros w j Ha Hw.
  - rewrite get_nil. simpl. lra.
  - destruct w as [|y w]; [rewrite get_nil; simpl; lra|].
    inversion Ha; subst. inversion Hw; subst. simpl.
    pose proof (dot_nonneg a w H2 H4) as Hd. pose proof (Qmult_le_0_compat _ _ H1 H3) as Hxy.
    destruct j as [|j]; unfold get; simpl.
    + lra.
    + specialize (IH w j H2 H4). unfold get in IH. lra.
Qed.

Lemma mem_nat_seq j s k : mem_nat j (seq s k) = (Nat.leb s j && Nat.ltb j (s + k)).
Proof.
  unfold mem_nat. destruct (Nat.leb s j && Nat.ltb j (s + k)) eqn:E.
  - apply andb_true_iff in E. destruct E as [E1 E2]. apply Nat.leb_le in E1. apply Nat.ltb_lt in E2.
    apply existsb_exists. exists j. split; [apply in_seq; lia | apply Nat.eqb_refl].
  - destruct (existsb (Nat.eqb j) (seq s k)) eqn:E'; [|reflexivity].
    apply existsb_exists in E'. destruct E' as [x [Hin Hx]]. apply Nat.eqb_eq in Hx. subst x. apply in_seq in Hin.
    apply andb_false_iff in E. destruct E as [E|E]; [apply Nat.leb_gt in E | apply Nat.ltb_ge in E]; lia.
Qed.

(* ---- sums over the rows whose basic variable is artificial (the loop building the auxiliary objective) *)
Fixpoint asum (arts basis : list nat) (F : row -> Q) (i : nat) (rows : list row) : Q :=
  match rows with
  | [] => 0
  | r :: rs => (if mem_nat (nth i basis 0%nat) arts then F r else 0) + asum arts basis F (S i) rs
  end.

Lemma aux_loop_length arts basis rows : forall s o,
  length (fst (aux_obj_loop arts basis s rows o)) = length (fst o).
Proof.
  induction rows as [|r rows IH]; intros s o; simpl; [reflexivity|]. rewrite IH.
  destruct (mem_nat (nth s basis 0%nat) arts); [|reflexivity]. simpl. rewrite map_length. apply vsubmul_length.
Qed.

Lemma aux_loop_F (F : row -> Q) arts basis :
  (forall r, F (rnorm r) == F r) ->
  (forall o r, length (fst r) = length (fst o) -> F (rsubmul 1 o r) == F o - F r) ->
  forall rows s o, Forall (fun r => length (fst r) = length (fst o)) rows ->
  F (aux_obj_loop arts basis s rows o) == F o - asum arts basis F s rows.
Proof.
  intros HFn HFs. induction rows as [|r rows IH]; intros s o Hl; simpl; [ring|].
  inversion Hl; subst. destruct (mem_nat (nth s basis 0%nat) arts).
  - rewrite IH.
    + rewrite HFn, HFs by assumption. ring.
    + simpl. rewrite map_length, vsubmul_length. assumption.
  - rewrite IH by assumption. ring.
Qed.

Lemma asum_zero arts basis F rows : forall s, Forall (fun r => F r == 0) rows -> asum arts basis F s rows == 0.
Proof.
  induction rows as [|r rows IH]; intros s H; simpl; [reflexivity|]. inversion H; subst.
  rewrite IH by assumption. destruct (mem_nat _ _); [rewrite H2|]; ring.
Qed.

Lemma asum_delta arts basis F i0 rows : forall s,
  (forall i, (s <= i < s + length rows)%nat -> F (nth (i - s) rows row0) == if Nat.eqb i i0 then 1 else 0) ->
  asum arts basis F s rows ==
  if Nat.leb s i0 && Nat.ltb i0 (s + length rows) && mem_nat (nth i0 basis 0%nat) arts then 1 else 0.
Proof.
  induction rows as [|r rows IH]; intros s H; simpl.
  - destruct (Nat.leb s i0) eqn:E1; simpl; [|reflexivity].
    destruct (Nat.ltb i0 (s + 0)) eqn:E2; [|reflexivity].
    apply Nat.leb_le in E1. apply Nat.ltb_lt in E2. lia.
  - rewrite IH.
    2:{ intros i Hi. specialize (H i). simpl in H. replace (i - s)%nat with (S (i - S s)) in H by lia.
        apply H. lia. }
    pose proof (H s) as Hs. simpl in Hs. rewrite Nat.sub_diag in Hs. specialize (Hs ltac:(lia)).
    destruct (Nat.eq_dec s i0) as [->|Hne].
    + rewrite Nat.eqb_refl in Hs. rewrite Nat.leb_refl.
      assert (E : Nat.ltb i0 (i0 + S (length rows)) = true) by (apply Nat.ltb_lt; lia). rewrite E.
      assert (E' : Nat.leb (S i0) i0 = false) by (apply Nat.leb_gt; lia). rewrite E'. simpl.
      destruct (mem_nat (nth i0 basis 0%nat) arts); [rewrite Hs|]; ring.
    + assert (E : Nat.eqb s i0 = false) by (apply Nat.eqb_neq; exact Hne). rewrite E in Hs.
      assert (Hterm : (if mem_nat (nth s basis 0%nat) arts then F r else 0) == 0)
        by (destruct (mem_nat (nth s basis 0%nat) arts); [exact Hs | reflexivity]).
      rewrite Hterm.
      destruct (Nat.leb (S s) i0) eqn:E1.
      * apply Nat.leb_le in E1. assert (E2 : Nat.leb s i0 = true) by (apply Nat.leb_le; lia). rewrite E2.
        replace (s + S (length rows))%nat with (S s + length rows)%nat by lia. ring.
      * apply Nat.leb_gt in E1. assert (E2 : Nat.leb s i0 = false) by (apply Nat.leb_gt; lia). rewrite E2.
        simpl. ring.
Qed.

Section Aux.
  Variables (N m : nat) (rows0 : list row) (basis0 : list nat).
  Hypothesis Hrows0 : Forall (fun r => length (fst r) = N) rows0.
  Hypothesis Hm : length rows0 = m.
  Hypothesis Hb0 : length basis0 = m.
  Hypothesis Hlt0 : forall i, (i < m)%nat -> (nth i basis0 0 < N)%nat.
  Hypothesis Hunit0 : forall i k, (i < m)%nat -> (k < m)%nat ->
    get (fst (nth k rows0 row0)) (nth i basis0 0%nat) == if Nat.eqb k i then 1 else 0.

  Variables (rows1 : list row) (obj1 : row) (basis1 arts : list nat).
  Hypothesis Hinv : arts_inv N m rows0 basis0 m (rows1, obj1, basis1, arts).

  Let a := length arts.
  Let r0 (k : nat) := nth k rows0 row0.
  Let r1 (k : nat) := nth k rows1 row0.
  Let b1 (k : nat) := nth k basis1 0%nat.

  Lemma A_arts : arts = seq N a.
  Proof. destruct Hinv as [H _]. exact H. Qed.
  Lemma A_lr : length rows1 = m.
  Proof. destruct Hinv as [_ [H _]]. exact H. Qed.
  Lemma A_lb : length basis1 = m.
  Proof. destruct Hinv as [_ [_ [H _]]]. exact H. Qed.
  Lemma A_spec k : (k < m)%nat -> row_spec N rows0 basis0 a m k (r1 k) (b1 k).
  Proof. destruct Hinv as [_ [_ [_ [H _]]]]. apply H. Qed.
  Lemma A_inj k k' : (k < m)%nat -> (k' < m)%nat -> (N <= b1 k)%nat -> b1 k = b1 k' -> k = k'.
  Proof. destruct Hinv as [_ [_ [_ [_ H]]]]. apply H. Qed.

  Lemma r0_len k : (k < m)%nat -> length (fst (r0 k)) = N.
  Proof. apply (row0_len N m rows0 basis0 Hrows0 Hm Hb0). Qed.

  Lemma A_len k : (k < m)%nat -> length (fst (r1 k)) = (N + a)%nat.
  Proof.
    intro Hk. pose proof (r0_len k Hk) as H0. unfold r0 in H0.
    destruct (A_spec k Hk) as [ext [Lext [[_ [Hr _]]|[p [_ [_ [_ [Hr _]]]]]]]]; rewrite Hr; cbn [fst];
      rewrite app_length, ?map_length, H0, Lext; reflexivity.
  Qed.

  Lemma A_blt k : (k < m)%nat -> (b1 k < N + a)%nat.
  Proof. intro Hk. apply (row_spec_basis_lt N m rows0 basis0 Hm Hb0 Hlt0 a m k (r1 k) (b1 k) Hk (A_spec k Hk)). Qed.

  Lemma A_rhs k : (k < m)%nat -> 0 <= snd (r1 k).
  Proof.
    intro Hk. destruct (A_spec k Hk) as [ext [Lext [[_ [Hr [Hpos _]]]|[p [_ [_ [_ [Hr [Hneg _]]]]]]]]];
      rewrite Hr; cbn [snd]; [apply Hpos; exact Hk | lra].
  Qed.

  Lemma A_mem k : (k < m)%nat -> mem_nat (b1 k) arts = negb (Nat.ltb (b1 k) N).
  Proof.
    intro Hk. rewrite A_arts, mem_nat_seq. pose proof (A_blt k Hk) as Hlt.
    assert (E : Nat.ltb (b1 k) (N + a) = true) by (apply Nat.ltb_lt; exact Hlt). rewrite E, andb_true_r.
    destruct (Nat.leb N (b1 k)) eqn:E1; destruct (Nat.ltb (b1 k) N) eqn:E2; try reflexivity.
    - apply Nat.leb_le in E1. apply Nat.ltb_lt in E2. lia.
    - apply Nat.leb_gt in E1. apply Nat.ltb_ge in E2. lia.
  Qed.

  (* unit basic columns *)
  Lemma A_unit i k : (i < m)%nat -> (k < m)%nat -> get (fst (r1 k)) (b1 i) == if Nat.eqb k i then 1 else 0.
  Proof.
    intros Hi Hk. pose proof (r0_len k Hk) as Hl0. unfold r0 in Hl0.
    destruct (A_spec i Hi) as [exti [Lexti [[Hbi [Hri [Hposi Hzi]]]|[p [Hp [_ [Hbi [Hri [Hnegi Hui]]]]]]]]].
    - (* column of an untouched basic variable, < N *)
      pose proof (Hlt0 i Hi) as Hj. rewrite Hbi.
      destruct (A_spec k Hk) as [ext [Lext [[Hbk [Hr _]]|[q [Hq [_ [Hbk [Hr _]]]]]]]]; rewrite Hr; cbn [fst].
      + rewrite get_app_l by lia. apply Hunit0; assumption.
      + rewrite get_app_l by (rewrite map_length; lia). rewrite get_map_opp, (Hunit0 i k Hi Hk).
        assert (E : Nat.eqb k i = false).
        { apply Nat.eqb_neq. intro; subst k. unfold b1 in *. lia. }
        rewrite E. reflexivity.
    - (* artificial column N + p *)
      rewrite Hbi.
      destruct (A_spec k Hk) as [ext [Lext [[Hbk [Hr [_ Hz]]]|[q [Hq [_ [Hbk [Hr [_ Hu]]]]]]]]]; rewrite Hr; cbn [fst].
      + rewrite <- Hl0 at 1. rewrite get_app_r, Hz.
        assert (E : Nat.eqb k i = false).
        { apply Nat.eqb_neq. intro; subst k. pose proof (Hlt0 i Hi). unfold b1 in *. lia. }
        rewrite E. reflexivity.
      + replace (N + p)%nat with (length (map Qopp (fst (nth k rows0 row0))) + p)%nat by (rewrite map_length; lia).
        rewrite get_app_r, Hu.
        destruct (Nat.eq_dec k i) as [->|Hne].
        * assert (q = p) by (unfold b1 in *; lia). subst q. rewrite !Nat.eqb_refl. reflexivity.
        * assert (E : Nat.eqb k i = false) by (apply Nat.eqb_neq; exact Hne). rewrite E.
          assert (E' : Nat.eqb p q = false).
          { apply Nat.eqb_neq. intro; subst q. apply Hne. apply A_inj; try assumption; unfold b1 in *; lia. }
          rewrite E'. reflexivity.
  Qed.

  (* affine value of a row of the auxiliary tableau *)
  Lemma A_rval_plain k v u : (k < m)%nat -> length v = N -> (b1 k < N)%nat ->
    rval (v ++ u) (r1 k) == rval v (r0 k).
  Proof.
    intros Hk Lv Hlt. pose proof (r0_len k Hk) as Hl0. unfold r0 in *.
    destruct (A_spec k Hk) as [ext [Lext [[_ [Hr [_ Hz]]]|[q [_ [_ [Hbk _]]]]]]]; [|unfold b1 in *; lia].
    rewrite Hr. unfold rval. cbn [fst snd]. rewrite dot_app by lia. rewrite (dot_all_zero ext u Hz). ring.
  Qed.

  Lemma A_rval_art k v u : (k < m)%nat -> length v = N -> (N <= b1 k)%nat ->
    rval (v ++ u) (r1 k) == - rval v (r0 k) + get u (b1 k - N).
  Proof.
    intros Hk Lv Hge. pose proof (r0_len k Hk) as Hl0. unfold r0 in *.
    destruct (A_spec k Hk) as [ext [Lext [[Hbk _]|[q [_ [_ [Hbk [Hr [_ Hu]]]]]]]]].
    - pose proof (Hlt0 k Hk). unfold b1 in *. lia.
    - rewrite Hr. unfold rval. cbn [fst snd]. rewrite dot_app by (rewrite map_length; lia).
      rewrite dot_opp_l, (dot_unit_like ext q u Hu). replace (b1 k - N)%nat with q by (unfold b1 in *; lia). ring.
  Qed.

  Lemma zeros_get_zero k v : get (zeros k) v == 0.
  Proof. rewrite get_zeros. reflexivity. Qed.

  (* with the artificials at 0 the rows of the auxiliary tableau are the original rows *)
  Lemma A_rows_equiv v : length v = N -> (rows_sat (v ++ zeros a) rows1 <-> rows_sat v rows0).
  Proof.
    intro Lv.
    assert (Hrow : forall k, (k < m)%nat -> (row_sat (v ++ zeros a) (r1 k) <-> row_sat v (r0 k))).
    { intros k Hk. rewrite !row_sat_rval. destruct (Nat.lt_ge_cases (b1 k) N) as [Hlt|Hge].
      - rewrite A_rval_plain by assumption. tauto.
      - rewrite A_rval_art by assumption. rewrite get_zeros. split; intro H; lra. }
    unfold rows_sat. split; intro H; apply Forall_nth; intros k d Hk.
    - rewrite Hm in Hk. rewrite (nth_indep _ d row0) by lia. apply Hrow; [exact Hk|].
      rewrite Forall_forall in H. apply H. apply nth_In. rewrite A_lr. exact Hk.
    - rewrite A_lr in Hk. rewrite (nth_indep _ d row0) by (rewrite A_lr; exact Hk). apply Hrow; [exact Hk|].
      rewrite Forall_forall in H. apply H. apply nth_In. lia.
  Qed.

  (* ---- the auxiliary objective *)
  Let W := (N + a)%nat.
  Let aux0 := aux_obj0 W arts.
  Let aux := aux_obj_loop arts basis1 0 rows1 aux0.
  Let T1 := mkT rows1 aux.

  Lemma aux0_length : length (fst aux0) = W.
  Proof. unfold aux0, aux_obj0. cbn [fst]. rewrite map_length, seq_length. reflexivity. Qed.

  Lemma aux0_get j : (j < W)%nat -> get (fst aux0) j = if mem_nat j arts then 1 else 0.
  Proof. intro H. unfold aux0, aux_obj0, get. cbn [fst]. rewrite nth_map_seq by exact H. reflexivity. Qed.

  Lemma aux0_nonneg : Forall (fun q => 0 <= q) (fst aux0).
  Proof.
    unfold aux0, aux_obj0. cbn [fst]. apply Forall_forall. intros q Hq. apply in_map_iff in Hq.
    destruct Hq as [j [Hq _]]. subst q. destruct (mem_nat j arts); lra.
  Qed.

  Lemma rows1_lenW : Forall (fun r => length (fst r) = length (fst aux0)) rows1.
  Proof.
    apply Forall_nth. intros k d Hk. assert (Hk' : (k < m)%nat) by (rewrite <- A_lr; exact Hk).
    rewrite (nth_indep _ d row0) by exact Hk. rewrite aux0_length. apply A_len. exact Hk'.
  Qed.

  Lemma aux_length : length (fst aux) = W.
  Proof. unfold aux. rewrite aux_loop_length. apply aux0_length. Qed.

  Lemma T1_wf : tab_wf W T1.
  Proof.
    split; [|apply aux_length]. simpl. pose proof rows1_lenW as H. rewrite aux0_length in H. exact H.
  Qed.

  Lemma aux_objc i : (i < m)%nat -> get (fst aux) (b1 i) == 0.
  Proof.
    intro Hi. unfold aux.
    rewrite (aux_loop_F (fun r => get (fst r) (b1 i)) arts basis1).
    - rewrite (asum_delta arts basis1 _ i rows1 0).
      + assert (E1 : Nat.ltb i (0 + length rows1) = true) by (apply Nat.ltb_lt; rewrite A_lr; lia).
        rewrite E1. simpl. fold (b1 i). rewrite aux0_get by (apply A_blt; exact Hi).
        destruct (mem_nat (b1 i) arts); ring.
      + intros k Hk. rewrite A_lr in Hk. rewrite Nat.sub_0_r. apply A_unit; [exact Hi | lia].
    - intro r. apply get_rnorm.
    - intros o r Hl. unfold rsubmul. cbn [fst]. rewrite get_vsubmul by exact Hl. ring.
    - apply rows1_lenW.
  Qed.

  Lemma aux_rval w : rows_sat w rows1 -> rval w aux == dot (fst aux0) w.
  Proof.
    intro Hs. unfold aux. rewrite (aux_loop_F (rval w) arts basis1).
    - rewrite asum_zero.
      + unfold rval, aux0, aux_obj0. cbn [fst snd]. ring.
      + unfold rows_sat in Hs. apply Forall_forall. intros r Hr. rewrite Forall_forall in Hs.
        apply row_sat_rval. apply Hs. exact Hr.
    - intro r. apply rval_rnorm.
    - intros o r Hl. rewrite rval_rsubmul by exact Hl. ring.
    - apply rows1_lenW.
  Qed.

  Theorem T1_inv : g_inv W T1 basis1 /\ Forall (fun j => (j < W)%nat) basis1.
  Proof.
    assert (Hall : forall i, (i < length basis1)%nat -> (nth i basis1 0 < W)%nat).
    { intros i Hi. rewrite A_lb in Hi. apply (A_blt i Hi). }
    split; [split|].
    - constructor.
      + apply T1_wf.
      + simpl. rewrite A_lb, A_lr. reflexivity.
      + intros i k Hi _ Hk. simpl in Hk. rewrite A_lr in Hk. rewrite A_lb in Hi. unfold entry. simpl.
        apply A_unit; assumption.
      + intros i Hi Hge. specialize (Hall i Hi). lia.
      + intros i Hi. rewrite A_lb in Hi. unfold objc. simpl. apply aux_objc. exact Hi.
    - intros k Hk. simpl in Hk. rewrite A_lr in Hk. unfold rhs. simpl. apply A_rhs. exact Hk.
    - apply Forall_nth. intros i d Hi. rewrite (nth_indep _ d 0%nat) by exact Hi. apply Hall. exact Hi.
  Qed.

  (* the objective value of any solution of the auxiliary tableau is the sum of its artificial coordinates *)
  Lemma T1_obj_val w z : tab_sat w z T1 -> z == dot (fst aux0) w.
  Proof.
    intros [Hr Ho]. simpl in Hr, Ho. apply obj_sat_rval in Ho. rewrite <- Ho. apply aux_rval. exact Hr.
  Qed.

  Lemma T1_obj_nonneg w z : tab_sat w z T1 -> Forall (fun q => 0 <= q) w -> 0 <= z.
  Proof.
    intros Hs Hw. rewrite (T1_obj_val w z Hs). apply dot_nonneg; [apply aux0_nonneg | exact Hw].
  Qed.

  Lemma T1_art_zero w z j : tab_sat w z T1 -> Forall (fun q => 0 <= q) w -> z <= 0 ->
    (N <= j < W)%nat -> get w j == 0.
  Proof.
    intros Hs Hw Hz Hj. pose proof (T1_obj_val w z Hs) as Hv.
    pose proof (dot_ge_term (fst aux0) w j aux0_nonneg Hw) as Hge.
    rewrite aux0_get in Hge by lia. rewrite A_arts, mem_nat_seq in Hge.
    assert (E1 : Nat.leb N j = true) by (apply Nat.leb_le; lia).
    assert (E2 : Nat.ltb j (N + a) = true) by (apply Nat.ltb_lt; unfold W in Hj; lia).
    rewrite E1, E2 in Hge. cbn [andb] in Hge.
    pose proof (get_nonneg w j Hw). lra.
  Qed.

  (* a solution of the original rows, artificials 0, auxiliary objective 0 *)
  Lemma T1_embed v : length v = N -> rows_sat v rows0 -> tab_sat (v ++ zeros a) 0 T1.
  Proof.
    intros Lv Hs. apply (A_rows_equiv v Lv) in Hs. split; [exact Hs|]. simpl.
    apply obj_sat_rval. rewrite (aux_rval _ Hs). apply dot_zero_terms. intro j.
    destruct (Nat.lt_ge_cases j N) as [Hlt|Hge].
    - left. rewrite aux0_get by (unfold W; lia). rewrite A_arts, mem_nat_seq.
      assert (E : Nat.leb N j = false) by (apply Nat.leb_gt; exact Hlt). rewrite E. reflexivity.
    - right. replace j with (length v + (j - N))%nat by lia. rewrite get_app_r. apply zeros_get_zero.
  Qed.
End Aux.
