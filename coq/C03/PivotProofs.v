(* pivot_equiv: with exact arithmetic (eps = 0) a pivot on a non-zero element does not change the
   solution set of the tableau, objective row included.
   The tableau is read as a system of equations over (v, z): every constraint row  coeffs . v = rhs,
   and the objective row  coeffs . v - z = rhs  (initially  w . v - z = 0, i.e. z is the objective). *)
From Coq Require Import List QArith Qabs Bool Arith Lia Lqa.
From SV Require Import C03.Simplex C03.LPSpec C03.Cert C03.LinAlgProofs.
Import ListNotations.
Open Scope Q_scope.

Definition row_sat (v : list Q) (r : row) : Prop := dot (fst r) v == snd r.
Definition obj_sat (v : list Q) (z : Q) (r : row) : Prop := dot (fst r) v - z == snd r.
Definition tab_sat (v : list Q) (z : Q) (T : tableau) : Prop :=
  Forall (row_sat v) (t_rows T) /\ obj_sat v z (t_obj T).
(* all rows (objective row too) have k coefficient columns *)
Definition tab_wf (k : nat) (T : tableau) : Prop :=
  Forall (fun r => length (fst r) = k) (t_rows T) /\ length (fst (t_obj T)) = k.

Lemma dot_map_Qred a v : dot (map Qred a) v == dot a v.
Proof.
  revert v. induction a as [|x a IH]; intros [|y v]; simpl; try reflexivity.
  rewrite IH, Qred_correct. reflexivity.
Qed.

Lemma dot_scale_each k a v : dot (map (fun x => x * k) a) v == dot a v * k.
Proof.
  revert v. induction a as [|x a IH]; intros [|y v]; simpl; try ring.
  rewrite IH. ring.
Qed.

Lemma dot_vsubmul f a p v : length p = length a -> dot (vsubmul f a p) v == dot a v - f * dot p v.
Proof.
  revert p v. induction a as [|x a IH]; intros p v H.
  - destruct p; [|discriminate]. simpl. ring.
  - destruct p as [|y p]; [discriminate|]. simpl in H. destruct v as [|u v]; simpl; [ring|].
    rewrite IH by lia. ring.
Qed.

Lemma vsubmul_length f a p : length (vsubmul f a p) = length a.
Proof. revert p. induction a as [|x a IH]; intros p; simpl; [reflexivity|]. f_equal. apply IH. Qed.

(* value of a row as an affine form:  coeffs . v - rhs *)
Definition rval (v : list Q) (r : row) : Q := dot (fst r) v - snd r.

Lemma rval_rnorm v r : rval v (rnorm r) == rval v r.
Proof. unfold rval, rnorm. simpl. rewrite dot_map_Qred, Qred_correct. reflexivity. Qed.

Lemma rval_rscale v k r : rval v (rscale k r) == rval v r * k.
Proof. unfold rval, rscale. simpl. rewrite dot_scale_each. ring. Qed.

Lemma rval_rsubmul v f r p : length (fst p) = length (fst r) ->
  rval v (rsubmul f r p) == rval v r - f * rval v p.
Proof. intro H. unfold rval, rsubmul. simpl. rewrite dot_vsubmul by exact H. ring. Qed.

Lemma row_sat_rval v r : row_sat v r <-> rval v r == 0.
Proof. unfold row_sat, rval. split; intro H; lra. Qed.

Lemma obj_sat_rval v z r : obj_sat v z r <-> rval v r == z.
Proof. unfold obj_sat, rval. split; intro H; lra. Qed.

Lemma Qabs_pos_false f : Qltb 0 (Qabs f) = false -> f == 0.
Proof.
  intro H. apply Qltb_false in H. pose proof (Qabs_nonneg f).
  assert (Qabs f == 0) by lra.
  destruct (Qabs_Qle_condition f 0) as [H2 _]. assert (Qabs f <= 0) by lra. specialize (H2 H3). lra.
Qed.

(* eliminating with a satisfied pivot row leaves the affine value of every other row unchanged *)
Lemma rval_elim_row v c p x : length (fst p) = length (fst x) -> rval v p == 0 ->
  rval v (elim_row 0 c p x) == rval v x.
Proof.
  intros Hl Hp. unfold elim_row. destruct (Qltb 0 (Qabs (get (fst x) c))); [|reflexivity].
  rewrite rval_rnorm, rval_rsubmul by exact Hl. rewrite Hp. ring.
Qed.

Lemma elim_row_length eps c p x : length (fst (elim_row eps c p x)) = length (fst x).
Proof.
  unfold elim_row. destruct (Qltb eps (Qabs (get (fst x) c))); [|reflexivity].
  simpl. rewrite map_length. apply vsubmul_length.
Qed.

Lemma mapi_from_length {A B} (f : nat -> A -> B) l s : length (mapi_from s f l) = length l.
Proof. revert s. induction l as [|x l IH]; intros s; simpl; [reflexivity|]. f_equal. apply IH. Qed.

Lemma mapi_from_nth {A B} (f : nat -> A -> B) l s i d d' :
  (i < length l)%nat -> nth i (mapi_from s f l) d' = f (s + i)%nat (nth i l d).
Proof.
  revert s i. induction l as [|x l IH]; intros s i H; simpl in *; [lia|].
  destruct i as [|i]; [rewrite Nat.add_0_r; reflexivity|].
  rewrite IH by lia. f_equal. lia.
Qed.

Lemma mapi_length {A B} (f : nat -> A -> B) l : length (mapi f l) = length l.
Proof. apply mapi_from_length. Qed.

Lemma mapi_nth {A B} (f : nat -> A -> B) l i d d' :
  (i < length l)%nat -> nth i (mapi f l) d' = f i (nth i l d).
Proof. intro H. unfold mapi. rewrite (mapi_from_nth f l 0 i d d') by exact H. reflexivity. Qed.

Lemma Qabs_lt0_false pv : Qltb (Qabs pv) 0 = false.
Proof. apply Qltb_false. apply Qabs_nonneg. Qed.

(* the pivot of the code with eps = 0, unfolded *)
Definition prow_of (T : tableau) (r c : nat) : row :=
  let prow := nth r (t_rows T) row0 in rnorm (rscale (/ get (fst prow) c) prow).

Lemma pivot0_unfold T r c :
  pivot 0 T r c =
  mkT (mapi (fun i x => if Nat.eqb i r then prow_of T r c else elim_row 0 c (prow_of T r c) x) (t_rows T))
      (elim_row 0 c (prow_of T r c) (t_obj T)).
Proof. unfold pivot, prow_of. rewrite Qabs_lt0_false. reflexivity. Qed.

Lemma rval_prow v T r c :
  rval v (prow_of T r c) == rval v (nth r (t_rows T) row0) * / get (fst (nth r (t_rows T) row0)) c.
Proof. unfold prow_of. cbv zeta. rewrite rval_rnorm, rval_rscale. reflexivity. Qed.

Lemma prow_length T r c : length (fst (prow_of T r c)) = length (fst (nth r (t_rows T) row0)).
Proof. unfold prow_of. simpl. rewrite !map_length. reflexivity. Qed.

Theorem pivot_equiv k T r c v z :
  tab_wf k T -> (r < length (t_rows T))%nat ->
  ~ get (fst (nth r (t_rows T) row0)) c == 0 ->
  (tab_sat v z T <-> tab_sat v z (pivot 0 T r c)).
Proof.
  intros [Hwf Hwo] Hr Hpv. rewrite pivot0_unfold.
  set (p := prow_of T r c).
  set (old := nth r (t_rows T) row0) in *.
  assert (Hold : In old (t_rows T)) by (apply nth_In; exact Hr).
  assert (Hlen_old : length (fst old) = k) by (rewrite Forall_forall in Hwf; apply Hwf; exact Hold).
  assert (Hlp : length (fst p) = k) by (unfold p; rewrite prow_length; exact Hlen_old).
  assert (Hp : rval v p == 0 <-> rval v old == 0).
  { unfold p. rewrite rval_prow. fold old. split; intro H.
    - assert (rval v old == rval v old * / get (fst old) c * get (fst old) c) by (field; exact Hpv).
      rewrite H0, H. ring.
    - rewrite H. ring. }
  unfold tab_sat. simpl. split; intros [Hrows Hobj].
  - assert (Hp0 : rval v p == 0) by (apply Hp; apply row_sat_rval; rewrite Forall_forall in Hrows; auto).
    split.
    + apply Forall_nth. intros i d Hi. rewrite mapi_length in Hi.
      rewrite (mapi_nth _ _ i row0 d) by exact Hi.
      destruct (Nat.eqb i r); [apply row_sat_rval; exact Hp0|].
      assert (Hin : In (nth i (t_rows T) row0) (t_rows T)) by (apply nth_In; exact Hi).
      apply row_sat_rval. rewrite rval_elim_row; [| |exact Hp0].
      * apply row_sat_rval. rewrite Forall_forall in Hrows. auto.
      * rewrite Hlp. symmetry. rewrite Forall_forall in Hwf. auto.
    + apply obj_sat_rval. rewrite rval_elim_row; [apply obj_sat_rval; exact Hobj | lia | exact Hp0].
  - assert (Hp0 : rval v p == 0).
    { pose proof (proj1 (Forall_nth _ _) Hrows r row0) as H. rewrite mapi_length in H. specialize (H Hr).
      rewrite (mapi_nth _ _ r row0 row0) in H by exact Hr. rewrite Nat.eqb_refl in H.
      apply row_sat_rval. exact H. }
    split.
    + apply Forall_nth. intros i d Hi.
      pose proof (proj1 (Forall_nth _ _) Hrows i row0) as H. rewrite mapi_length in H. specialize (H Hi).
      rewrite (mapi_nth _ _ i row0 row0) in H by exact Hi.
      rewrite (nth_indep _ d row0) by exact Hi.
      destruct (Nat.eqb i r) eqn:E.
      * apply Nat.eqb_eq in E. subst i. apply row_sat_rval. apply Hp. exact Hp0.
      * assert (Hin : In (nth i (t_rows T) row0) (t_rows T)) by (apply nth_In; exact Hi).
        apply row_sat_rval in H. rewrite rval_elim_row in H; [apply row_sat_rval; exact H | | exact Hp0].
        rewrite Hlp. symmetry. rewrite Forall_forall in Hwf. auto.
    + apply obj_sat_rval. apply obj_sat_rval in Hobj.
      rewrite rval_elim_row in Hobj; [exact Hobj | lia | exact Hp0].
Qed.

(* the pivot keeps the shape *)
Lemma pivot0_wf k T r c : tab_wf k T -> (r < length (t_rows T))%nat -> tab_wf k (pivot 0 T r c).
Proof.
  intros [Hwf Hwo] Hr. rewrite pivot0_unfold. split; simpl.
  - apply Forall_nth. intros i d Hi. rewrite mapi_length in Hi.
    rewrite (mapi_nth _ _ i row0 d) by exact Hi.
    destruct (Nat.eqb i r).
    + rewrite prow_length. rewrite Forall_forall in Hwf. apply Hwf. apply nth_In. exact Hr.
    + rewrite elim_row_length. rewrite Forall_forall in Hwf. apply Hwf. apply nth_In. exact Hi.
  - rewrite elim_row_length. exact Hwo.
Qed.

Lemma pivot0_rows_length T r c : length (t_rows (pivot 0 T r c)) = length (t_rows T).
Proof. rewrite pivot0_unfold. simpl. apply mapi_length. Qed.
