(* First loop of _phase1 (exact arithmetic): rows with negative rhs are negated and receive one artificial
   column each.  Closed description of the state after the loop. *)
From Coq Require Import List QArith Qabs Bool Arith Lia Lqa.
From SV Require Import C03.Simplex C03.LPSpec C03.Cert C03.LinAlgProofs C03.PivotProofs C03.Phase2Entries
  C03.Phase2Inv C03.ExtractProofs C03.OptimalProofs C03.DeepInv.
Import ListNotations.
Open Scope Q_scope.

Lemma get_app_l a b j : (j < length a)%nat -> get (a ++ b) j = get a j.
Proof. intro H. unfold get. apply app_nth1. exact H. Qed.

Lemma get_snoc l x p :
  get (l ++ [x]) p = if Nat.ltb p (length l) then get l p else if Nat.eqb p (length l) then x else 0.
Proof.
  destruct (Nat.ltb p (length l)) eqn:E1.
  - apply Nat.ltb_lt in E1. apply get_app_l. exact E1.
  - apply Nat.ltb_ge in E1. destruct (Nat.eqb p (length l)) eqn:E2.
    + apply Nat.eqb_eq in E2. subst p. pose proof (get_app_r l [x] 0) as H. rewrite Nat.add_0_r in H. exact H.
    + apply Nat.eqb_neq in E2. apply get_overflow. rewrite app_length. simpl. lia.
Qed.

Lemma get_map_opp l j : get (map Qopp l) j == - get l j.
Proof. apply (get_map Qopp). reflexivity. Qed.

(* the objective row only gets zeros appended *)
Lemma add_arts_obj N k : forall i rows obj basis arts rows' obj' basis' arts',
  add_arts 0 N k i (rows, obj, basis, arts) = (rows', obj', basis', arts') ->
  length (fst obj') = (length (fst obj) + (length arts' - length arts))%nat /\ (length arts <= length arts')%nat.
Proof.
  induction k as [|k IH]; intros i rows obj basis arts rows' obj' basis' arts' H.
  - simpl in H. inversion H; subst. lia.
  - cbn [add_arts] in H.
    assert (Hstep : exists rows1 obj1 basis1 arts1,
               add_art_step 0 N i (rows, obj, basis, arts) = (rows1, obj1, basis1, arts1)
               /\ length (fst obj1) = (length (fst obj) + (length arts1 - length arts))%nat
               /\ (length arts <= length arts1)%nat).
    { unfold add_art_step. destruct (Qltb (snd (nth i rows row0)) (- 0)).
      - eexists _, _, _, _. split; [reflexivity|]. cbn [fst]. rewrite !app_length. simpl. lia.
      - eexists _, _, _, _. split; [reflexivity|]. lia. }
    destruct Hstep as [rows1 [obj1 [basis1 [arts1 [E [H1 H2]]]]]]. rewrite E in H. apply IH in H. lia.
Qed.

Section Arts.
  Variables (N m : nat) (rows0 : list row) (basis0 : list nat).
  Hypothesis Hrows0 : Forall (fun r => length (fst r) = N) rows0.
  Hypothesis Hm : length rows0 = m.
  Hypothesis Hb0 : length basis0 = m.
  Hypothesis Hlt0 : forall i, (i < m)%nat -> (nth i basis0 0 < N)%nat.

  (* row k of the current state (a artificial columns so far, rows < i processed) against row k of the start *)
  Definition row_spec (a i k : nat) (r : row) (bk : nat) : Prop :=
    let r0 := nth k rows0 row0 in
    exists ext, length ext = a /\
      ((bk = nth k basis0 0%nat /\ r = (fst r0 ++ ext, snd r0) /\ ((k < i)%nat -> 0 <= snd r0)
        /\ forall p, get ext p == 0)
       \/ (exists p, (p < a)%nat /\ (k < i)%nat /\ bk = (N + p)%nat /\ r = (map Qopp (fst r0) ++ ext, - snd r0)
           /\ snd r0 < 0 /\ forall p', get ext p' == if Nat.eqb p' p then 1 else 0)).

  Definition arts_inv (i : nat) (st : p1_state) : Prop :=
    let '(rows, obj, basis, arts) := st in
    arts = seq N (length arts) /\ length rows = m /\ length basis = m
    /\ (forall k, (k < m)%nat -> row_spec (length arts) i k (nth k rows row0) (nth k basis 0%nat))
    /\ (forall k k', (k < m)%nat -> (k' < m)%nat -> (N <= nth k basis 0)%nat ->
                     nth k basis 0%nat = nth k' basis 0%nat -> k = k').

  Lemma row0_len k : (k < m)%nat -> length (fst (nth k rows0 row0)) = N.
  Proof. intro Hk. rewrite Forall_forall in Hrows0. apply Hrows0. apply nth_In. lia. Qed.

  Lemma row_spec_basis_lt a i k r bk : (k < m)%nat -> row_spec a i k r bk -> (bk < N + a)%nat.
  Proof.
    intros Hk [ext [_ [[Hb _]|[p [Hp [_ [Hb _]]]]]]]; subst bk; [pose proof (Hlt0 k Hk)|]; lia.
  Qed.

  Lemma arts_step i st : (i < m)%nat -> arts_inv i st -> arts_inv (S i) (add_art_step 0 N i st).
  Proof.
    intros Hi. destruct st as [[[rows obj] basis] arts]. intros [Harts [Hlr [Hlb [Hspec Hinj]]]].
    unfold add_art_step. set (a := length arts) in *.
    destruct (Hspec i Hi) as [exti [Lexti [[Hbi [Hri [_ Hzi]]]|[p [_ [Hlt _]]]]]]; [|lia].
    rewrite Hri. cbn [snd].
    destruct (Qltb (snd (nth i rows0 row0)) (- 0)) eqn:Eneg.
    - (* flip row i, new artificial column N + a *)
      apply Qltb_lt in Eneg.
      unfold arts_inv. rewrite app_length. cbn [length]. fold a. replace (a + 1)%nat with (S a) by lia.
      split; [rewrite seq_S; rewrite <- Harts; reflexivity|].
      split; [rewrite mapi_length; exact Hlr|].
      split; [rewrite set_nth_length; exact Hlb|].
      split.
      + intros k Hk. rewrite (mapi_nth _ _ k row0 row0) by lia.
        destruct (Nat.eq_dec k i) as [->|Hne].
        * rewrite Nat.eqb_refl. rewrite set_nth_same by lia. rewrite Hri. cbn [fst snd].
          exists (map Qopp exti ++ [1]). split; [rewrite app_length, map_length; simpl; lia|].
          right. exists a. split; [lia|]. split; [lia|]. split; [reflexivity|].
          split; [rewrite map_app, <- app_assoc; reflexivity|]. split; [lra|].
          intro p'. rewrite get_snoc, map_length, Lexti.
          destruct (Nat.ltb p' a) eqn:E1.
          -- apply Nat.ltb_lt in E1. assert (E : Nat.eqb p' a = false) by (apply Nat.eqb_neq; lia). rewrite E.
             rewrite get_map_opp, Hzi. reflexivity.
          -- destruct (Nat.eqb p' a); reflexivity.
        * apply Nat.eqb_neq in Hne. rewrite Hne. apply Nat.eqb_neq in Hne. rewrite set_nth_other by exact Hne.
          destruct (Hspec k Hk) as [ext [Lext [[Hbk [Hrk [Hpos Hz]]]|[p [Hp [Hlt [Hbk [Hrk [Hneg Hu]]]]]]]]].
          -- exists (ext ++ [0]). split; [rewrite app_length; simpl; lia|]. left.
             split; [exact Hbk|]. split; [rewrite Hrk; cbn [fst snd]; rewrite <- app_assoc; reflexivity|].
             split; [intro; apply Hpos; lia|].
             intro p. rewrite get_snoc. destruct (Nat.ltb p (length ext)); [apply Hz|].
             destruct (Nat.eqb p (length ext)); reflexivity.
          -- exists (ext ++ [0]). split; [rewrite app_length; simpl; lia|]. right. exists p.
             split; [lia|]. split; [lia|]. split; [exact Hbk|].
             split; [rewrite Hrk; cbn [fst snd]; rewrite <- app_assoc; reflexivity|]. split; [exact Hneg|].
             intro p'. rewrite get_snoc, Lext. destruct (Nat.ltb p' a) eqn:E1; [apply Hu|].
             apply Nat.ltb_ge in E1. assert (E : Nat.eqb p' p = false) by (apply Nat.eqb_neq; lia). rewrite E.
             destruct (Nat.eqb p' a); reflexivity.
      + intros k k' Hk Hk' Hge Heq.
        assert (Hold : forall k1, (k1 < m)%nat -> k1 <> i -> nth k1 basis 0%nat <> (N + a)%nat).
        { intros k1 Hk1 _ Hbad. pose proof (row_spec_basis_lt _ _ _ _ _ Hk1 (Hspec k1 Hk1)). lia. }
        destruct (Nat.eq_dec k i) as [->|Hne]; destruct (Nat.eq_dec k' i) as [->|Hne']; try reflexivity.
        * rewrite set_nth_same in Heq by lia. rewrite set_nth_other in Heq by exact Hne'.
          exfalso. apply (Hold k' Hk' Hne'). auto.
        * rewrite set_nth_same in Heq by lia. rewrite set_nth_other in Heq by exact Hne.
          exfalso. apply (Hold k Hk Hne). auto.
        * rewrite set_nth_other in Heq, Hge by assumption. rewrite set_nth_other in Heq by assumption.
          apply Hinj; assumption.
    - apply Qltb_false in Eneg. unfold arts_inv. fold a.
      split; [exact Harts|]. split; [exact Hlr|]. split; [exact Hlb|]. split; [|exact Hinj].
      intros k Hk. destruct (Nat.eq_dec k i) as [->|Hne].
      + exists exti. split; [exact Lexti|]. left. split; [exact Hbi|]. split; [exact Hri|].
        split; [intro; lra | exact Hzi].
      + destruct (Hspec k Hk) as [ext [Lext [[Hbk [Hrk [Hpos Hz]]]|[p [Hp [Hlt [Hbk [Hrk [Hneg Hu]]]]]]]]].
        * exists ext. split; [exact Lext|]. left. split; [exact Hbk|]. split; [exact Hrk|].
          split; [intro; apply Hpos; lia | exact Hz].
        * exists ext. split; [exact Lext|]. right. exists p. repeat split; try assumption; lia.
  Qed.

  Lemma arts_loop k : forall i st, (i + k = m)%nat -> arts_inv i st -> arts_inv m (add_arts 0 N k i st).
  Proof.
    induction k as [|k IH]; intros i st Hik Hinv; simpl.
    - replace m with i by lia. exact Hinv.
    - apply IH; [lia|]. apply arts_step; [lia | exact Hinv].
  Qed.

  Lemma arts_init obj0 : arts_inv 0 (rows0, obj0, basis0, []).
  Proof.
    unfold arts_inv. cbn [length]. split; [reflexivity|]. split; [exact Hm|]. split; [exact Hb0|]. split.
    - intros k Hk. exists []. split; [reflexivity|]. left. split; [reflexivity|].
      split; [rewrite app_nil_r; destruct (nth k rows0 row0); reflexivity|]. split; [intro; lia|].
      intro p. rewrite get_nil. reflexivity.
    - intros k k' Hk Hk' Hge _. pose proof (Hlt0 k Hk). lia.
  Qed.

  Theorem add_arts_spec obj0 rows obj basis arts :
    add_arts 0 N m 0 (rows0, obj0, basis0, []) = (rows, obj, basis, arts) ->
    arts_inv m (rows, obj, basis, arts).
  Proof. intro H. rewrite <- H. apply arts_loop; [lia | apply arts_init]. Qed.

End Arts.
