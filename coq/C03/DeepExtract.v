(* The basic solution of a tableau satisfying g_inv (dead rows allowed): satisfies every row, is non-negative,
   reduced-cost value 0; its coordinate on a basic column is that row's rhs; and the improving ray of an
   entering column without leaving row. *)
From Coq Require Import List QArith Qabs Bool Arith Lia Lqa.
From SV Require Import C03.Simplex C03.LPSpec C03.Cert C03.LinAlgProofs C03.PivotProofs C03.Phase2Entries
  C03.Phase2Inv C03.ExtractProofs C03.DeepInv.
Import ListNotations.
Open Scope Q_scope.

Lemma dot_extract_loop_g a N basis rows : forall s sol,
  length sol = N ->
  (forall i i', (s <= i < s + length rows)%nat -> (s <= i' < s + length rows)%nat -> i <> i' ->
                (nth i basis 0 < N)%nat -> nth i basis 0%nat <> nth i' basis 0%nat) ->
  (forall i, (s <= i < s + length rows)%nat -> get sol (nth i basis 0%nat) == 0) ->
  (forall i, (s <= i < s + length rows)%nat -> (N <= nth i basis 0)%nat -> snd (nth (i - s) rows row0) == 0) ->
  dot a (extract_loop N basis s rows sol) == dot a sol + bsum a basis s rows.
Proof.
  induction rows as [|r rows IH]; intros s sol Hlen Hnd Hz Hd; simpl.
  - ring.
  - destruct (Nat.ltb (nth s basis 0%nat) N) eqn:Es.
    + apply Nat.ltb_lt in Es. rewrite IH.
      * rewrite dot_set_nth by lia. rewrite (Hz s) by (simpl; lia). ring.
      * rewrite set_nth_length. exact Hlen.
      * intros i i' Hi Hi' Hne. apply Hnd; simpl; lia.
      * intros i Hi. rewrite get_set_nth_other; [apply Hz; simpl; lia|].
        intro Heq. apply (Hnd s i); simpl; lia.
      * intros i Hi Hge. specialize (Hd i). simpl in Hd.
        replace (i - s)%nat with (S (i - S s)) in Hd by lia. apply Hd; [lia | exact Hge].
    + apply Nat.ltb_ge in Es. rewrite IH.
      * pose proof (Hd s) as H0. simpl in H0. rewrite Nat.sub_diag in H0. rewrite H0 by (try lia; exact Es). ring.
      * exact Hlen.
      * intros i i' Hi Hi' Hne. apply Hnd; simpl; lia.
      * intros i Hi. apply Hz. simpl. lia.
      * intros i Hi Hge. specialize (Hd i). simpl in Hd.
        replace (i - s)%nat with (S (i - S s)) in Hd by lia. apply Hd; [lia | exact Hge].
Qed.

Lemma g_basis_distinct N T basis i i' : g_str N T basis ->
  (i < length basis)%nat -> (i' < length basis)%nat -> i <> i' -> (nth i basis 0 < N)%nat ->
  nth i basis 0%nat <> nth i' basis 0%nat.
Proof.
  intros Hs Hi Hi' Hne Hlive Heq.
  assert (Hik : (i < length (t_rows T))%nat) by (rewrite <- (g_len _ _ _ Hs); exact Hi).
  pose proof (g_unit _ _ _ Hs i i Hi Hlive Hik) as H1.
  assert (Hlive' : (nth i' basis 0 < N)%nat) by (rewrite <- Heq; exact Hlive).
  pose proof (g_unit _ _ _ Hs i' i Hi' Hlive' Hik) as H2.
  rewrite Nat.eqb_refl in H1. assert (E : Nat.eqb i i' = false) by (apply Nat.eqb_neq; exact Hne).
  rewrite E, <- Heq in H2. rewrite H1 in H2. discriminate H2.
Qed.

Lemma dot_bsol_g a N T basis : g_str N T basis ->
  dot a (bsol N T basis) == bsum a basis 0 (t_rows T).
Proof.
  intro Hs. unfold bsol. rewrite (dot_extract_loop_g a N).
  - rewrite dot_zeros_r. ring.
  - apply zeros_length.
  - intros i i' Hi Hi' Hne Hlive. apply (g_basis_distinct N T basis); try assumption; rewrite (g_len _ _ _ Hs); lia.
  - intros i Hi. rewrite get_zeros. reflexivity.
  - intros i Hi Hge. rewrite Nat.sub_0_r. apply (g_dead _ _ _ Hs i); [rewrite (g_len _ _ _ Hs); lia | exact Hge].
Qed.

Lemma dot_all_zero a v : (forall j, get a j == 0) -> dot a v == 0.
Proof.
  revert v. induction a as [|x a IH]; intros v H; [reflexivity|].
  destruct v as [|y v]; [reflexivity|]. simpl.
  rewrite IH by (intro j; apply (H (S j))). pose proof (H 0%nat) as H0. unfold get in H0. simpl in H0. rewrite H0. ring.
Qed.

Lemma bsol_rows_g N T basis k : g_str N T basis -> (k < length (t_rows T))%nat ->
  row_sat (bsol N T basis) (nth k (t_rows T) row0).
Proof.
  intros Hs Hk. unfold row_sat.
  assert (Hkb : (k < length basis)%nat) by (rewrite (g_len _ _ _ Hs); exact Hk).
  destruct (Nat.lt_ge_cases (nth k basis 0%nat) N) as [Hlive|Hge].
  - rewrite dot_bsol_g by exact Hs. rewrite (bsum_delta _ basis k).
    + assert (E1 : Nat.leb 0 k = true) by (apply Nat.leb_le; lia).
      assert (E2 : Nat.ltb k (0 + length (t_rows T)) = true) by (apply Nat.ltb_lt; lia).
      rewrite E1, E2. simpl. rewrite Nat.sub_0_r. reflexivity.
    + intros i Hi. assert (Hib : (i < length basis)%nat) by (rewrite (g_len _ _ _ Hs); lia).
      destruct (Nat.lt_ge_cases (nth i basis 0%nat) N) as [Hli|Hgi].
      * apply (g_unit _ _ _ Hs); assumption.
      * rewrite get_overflow by (rewrite (row_len N T (g_wf _ _ _ Hs) k Hk); exact Hgi).
        assert (E : Nat.eqb k i = false) by (apply Nat.eqb_neq; intro; subst; lia). rewrite E. reflexivity.
  - destruct (g_dead _ _ _ Hs k Hkb Hge) as [Hz Hr]. unfold rhs in Hr. rewrite Hr.
    apply dot_all_zero. exact Hz.
Qed.

Lemma bsol_obj_g N T basis : g_str N T basis -> dot (fst (t_obj T)) (bsol N T basis) == 0.
Proof.
  intro Hs. rewrite dot_bsol_g by exact Hs. apply bsum_zero.
  intros i Hi. apply (g_obj _ _ _ Hs). rewrite (g_len _ _ _ Hs). lia.
Qed.

Lemma bsol_nonneg_g T N basis : rhs_nonneg T -> Forall (fun q => 0 <= q) (bsol N T basis).
Proof.
  intro Hr. unfold bsol. apply extract_loop_nonneg.
  - unfold zeros. apply Forall_forall. intros x Hx. apply repeat_spec in Hx. subst. lra.
  - apply Forall_nth. intros k d Hk. rewrite (nth_indep _ d row0) by exact Hk. apply Hr. exact Hk.
Qed.

Lemma bsol_sat_g N T basis : g_str N T basis ->
  tab_sat (bsol N T basis) (- snd (t_obj T)) T.
Proof.
  intro Hs. split.
  - apply Forall_nth. intros k d Hk. rewrite (nth_indep _ d row0) by exact Hk. apply bsol_rows_g; assumption.
  - unfold obj_sat. rewrite bsol_obj_g by exact Hs. ring.
Qed.

(* ---- coordinates of the basic solution *)
Lemma get_extract_loop_notin N basis rows j : forall s sol,
  (forall i, (s <= i < s + length rows)%nat -> nth i basis 0%nat <> j) ->
  get (extract_loop N basis s rows sol) j = get sol j.
Proof.
  induction rows as [|r rows IH]; intros s sol H; simpl; [reflexivity|].
  rewrite IH by (intros i Hi; apply H; simpl; lia).
  destruct (Nat.ltb (nth s basis 0%nat) N); [|reflexivity].
  apply get_set_nth_other. intro Heq. apply (H s); [simpl; lia | auto].
Qed.

Lemma get_extract_loop_in N basis rows : forall s sol i,
  length sol = N ->
  (forall i i', (s <= i < s + length rows)%nat -> (s <= i' < s + length rows)%nat -> i <> i' ->
                (nth i basis 0 < N)%nat -> nth i basis 0%nat <> nth i' basis 0%nat) ->
  (s <= i < s + length rows)%nat -> (nth i basis 0 < N)%nat ->
  get (extract_loop N basis s rows sol) (nth i basis 0%nat) = snd (nth (i - s) rows row0).
Proof.
  induction rows as [|r rows IH]; intros s sol i Hlen Hnd Hi Hlive; simpl in Hi; [lia|].
  cbn [extract_loop]. destruct (Nat.eq_dec i s) as [->|Hne].
  - rewrite Nat.sub_diag. cbn [nth]. apply Nat.ltb_lt in Hlive. rewrite Hlive. apply Nat.ltb_lt in Hlive.
    rewrite get_extract_loop_notin.
    + apply get_set_nth_same. lia.
    + intros i' Hi' Heq. apply (Hnd s i'); simpl; lia.
  - replace (i - s)%nat with (S (i - S s)) by lia. cbn [nth]. apply IH.
    + destruct (Nat.ltb (nth s basis 0%nat) N); [rewrite set_nth_length|]; exact Hlen.
    + intros i1 i2 H1 H2. apply Hnd; simpl; lia.
    + lia.
    + exact Hlive.
Qed.

Lemma get_bsol_basic N T basis i : g_str N T basis -> (i < length basis)%nat -> (nth i basis 0 < N)%nat ->
  get (bsol N T basis) (nth i basis 0%nat) = rhs T i.
Proof.
  intros Hs Hi Hlive. unfold bsol, rhs. rewrite (get_extract_loop_in N basis (t_rows T) 0 (zeros N) i).
  - rewrite Nat.sub_0_r. reflexivity.
  - apply zeros_length.
  - intros i1 i2 H1 H2 Hne Hl. apply (g_basis_distinct N T basis); try assumption; rewrite (g_len _ _ _ Hs); lia.
  - rewrite <- (g_len _ _ _ Hs). lia.
  - exact Hlive.
Qed.

Lemma get_bsol_nonbasic N T basis j : g_str N T basis -> mem_nat j basis = false -> get (bsol N T basis) j = 0.
Proof.
  intros Hs Hm. unfold bsol. rewrite get_extract_loop_notin; [apply get_zeros|].
  intros i Hi. apply (mem_nat_false j basis i Hm). rewrite (g_len _ _ _ Hs). lia.
Qed.

(* ---- no leaving row: the whole entering column is <= 0 *)
Lemma find_leave_none basis T e :
  find_leave 0 basis T e = None ->
  forall k, (k < length (t_rows T))%nat -> get (fst (nth k (t_rows T) row0)) e <= 0.
Proof.
  unfold find_leave. intro H.
  pose proof (ratio_loop_inv basis e (t_rows T) (t_rows T) 0 (None, None)) as Hinv.
  assert (H0 : ratio_inv e (t_rows T) (length (t_rows T)) (ratio_loop 0 basis e 0 (t_rows T) (None, None))).
  { apply Hinv; [reflexivity | intros; reflexivity | simpl; intros; lia]. }
  destruct (ratio_loop 0 basis e 0 (t_rows T) (None, None)) as [lv mr]. simpl in H. subst lv.
  destruct mr as [mr|]; [destruct H0|]. exact H0.
Qed.

(* ---- the ray.  T with every rhs_k replaced by rhs_k - t * entry_k_e *)
Definition shift_rhs (t : Q) (e : nat) (T : tableau) : tableau :=
  mkT (map (fun r => (fst r, snd r - t * get (fst r) e)) (t_rows T)) (t_obj T).

Lemma shift_rows_length t e T : length (t_rows (shift_rhs t e T)) = length (t_rows T).
Proof. unfold shift_rhs. simpl. apply map_length. Qed.

Lemma nth_map_in {A B} (f : A -> B) l k d d' : (k < length l)%nat -> nth k (map f l) d' = f (nth k l d).
Proof.
  revert k. induction l as [|x l IH]; intros k H; simpl in *; [lia|]. destruct k; [reflexivity|]. apply IH. lia.
Qed.

Lemma shift_nth t e T k : (k < length (t_rows T))%nat ->
  nth k (t_rows (shift_rhs t e T)) row0 =
  (fst (nth k (t_rows T) row0), snd (nth k (t_rows T) row0) - t * get (fst (nth k (t_rows T) row0)) e).
Proof.
  intro Hk. unfold shift_rhs. simpl. rewrite (nth_map_in _ _ k row0 row0) by exact Hk. reflexivity.
Qed.

Lemma shift_entry t e T k j : (k < length (t_rows T))%nat -> entry (shift_rhs t e T) k j = entry T k j.
Proof. intro Hk. unfold entry. rewrite shift_nth by exact Hk. reflexivity. Qed.

Lemma shift_rhs_val t e T k : (k < length (t_rows T))%nat -> rhs (shift_rhs t e T) k = rhs T k - t * entry T k e.
Proof. intro Hk. unfold rhs, entry. rewrite shift_nth by exact Hk. reflexivity. Qed.

Lemma shift_str N T basis t e : g_str N T basis -> g_str N (shift_rhs t e T) basis.
Proof.
  intros Hs. pose proof Hs as [Hwf Hlen Hunit Hdead Hobj]. constructor.
  - destruct Hwf as [Hwr Hwo]. split; [|exact Hwo]. unfold shift_rhs. simpl.
    apply Forall_forall. intros r Hr. apply in_map_iff in Hr. destruct Hr as [r0 [Hr Hin]]. subst r. simpl.
    rewrite Forall_forall in Hwr. auto.
  - rewrite shift_rows_length. exact Hlen.
  - intros i k Hi Hlive Hk. rewrite shift_rows_length in Hk. rewrite shift_entry by exact Hk. apply Hunit; assumption.
  - intros i Hi Hge. assert (Hk : (i < length (t_rows T))%nat) by lia.
    destruct (Hdead i Hi Hge) as [Hz Hr]. split.
    + intro j. rewrite shift_entry by exact Hk. apply Hz.
    + rewrite shift_rhs_val by exact Hk. rewrite Hr, Hz. ring.
  - intros i Hi. unfold objc, shift_rhs. simpl. apply Hobj. exact Hi.
Qed.

Lemma Qmult_nonneg_nonpos t x : 0 <= t -> x <= 0 -> t * x <= 0.
Proof.
  intros Ht Hx. assert (H : 0 <= t * - x) by (apply Qmult_le_0_compat; lra).
  assert (E : t * - x == - (t * x)) by ring. lra.
Qed.

Theorem ray_point N T basis e t :
  g_inv N T basis -> find_enter 0 basis T = Some e -> find_leave 0 basis T e = None -> 0 <= t ->
  exists v, length v = N /\ Forall (fun q => 0 <= q) v /\ tab_sat v (t * objc T e - snd (t_obj T)) T.
Proof.
  intros [Hs Hr] He Hlv Ht.
  apply find_enter_some in He. destruct He as [HeN [Hmem Hneg]].
  pose proof (g_wf _ _ _ Hs) as Hwf. pose proof Hwf as [Hwr Hwo]. rewrite Hwo in HeN.
  pose proof (find_leave_none basis T e Hlv) as Hcol.
  set (Tt := shift_rhs t e T).
  assert (Hst : g_str N Tt basis) by (apply shift_str; exact Hs).
  assert (Hrt : rhs_nonneg Tt).
  { intros k Hk. unfold Tt in Hk. rewrite shift_rows_length in Hk. unfold Tt. rewrite shift_rhs_val by exact Hk.
    specialize (Hcol k Hk). fold (entry T k e) in Hcol. specialize (Hr k Hk).
    pose proof (Qmult_nonneg_nonpos t (entry T k e) Ht Hcol). lra. }
  set (u := bsol N Tt basis).
  assert (Lu : length u = N) by apply bsol_length.
  assert (Hue : get u e = 0) by (apply get_bsol_nonbasic; assumption).
  exists (set_nth e t u). split; [rewrite set_nth_length; exact Lu|]. split.
  - apply Forall_set_nth; [apply bsol_nonneg_g; exact Hrt | exact Ht].
  - split.
    + apply Forall_nth. intros k d Hk. rewrite (nth_indep _ d row0) by exact Hk.
      unfold row_sat. rewrite dot_set_nth by lia. rewrite Hue.
      pose proof (bsol_rows_g N Tt basis k Hst) as Hrow. unfold Tt in Hrow at 1. rewrite shift_rows_length in Hrow.
      specialize (Hrow Hk). unfold Tt in Hrow. rewrite shift_nth in Hrow by exact Hk. unfold row_sat in Hrow.
      simpl in Hrow. fold Tt in Hrow. fold u in Hrow. rewrite Hrow. ring.
    + unfold obj_sat. rewrite dot_set_nth by lia. rewrite Hue.
      pose proof (bsol_obj_g N Tt basis Hst) as Ho. unfold Tt in Ho at 1. simpl in Ho. fold Tt in Ho. fold u in Ho.
      rewrite Ho. unfold objc. ring.
Qed.
