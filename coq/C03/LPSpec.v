(* Readable specification of C03:  LP  min/max c.x  s.t.  A x <= b, x >= 0  over Q.  Definitions only.
   `dot` stops at the shorter list, so a vector that is too short behaves as if padded with zeros and
   nothing below needs a length hypothesis on the quantified points. *)
From Coq Require Import List QArith Bool.
Import ListNotations.
Open Scope Q_scope.

Fixpoint dot (a v : list Q) : Q :=
  match a, v with
  | x :: a', y :: v' => x * y + dot a' v'
  | _, _ => 0
  end.

(* A x *)
Definition mv (A : list (list Q)) (x : list Q) : list Q := map (fun r => dot r x) A.

Definition nonneg (x : list Q) : Prop := Forall (fun v => 0 <= v) x.

(* x >= 0 and A x <= b *)
Definition feasible (A : list (list Q)) (b x : list Q) : Prop :=
  nonneg x /\ Forall2 Qle (mv A x) b.

(* the objective the solver minimises: c, or -c for maximize *)
Definition weights (minimize : bool) (c : list Q) : list Q := if minimize then c else map Qopp c.

(* x is feasible and no feasible point is better (for the direction asked) *)
Definition lp_optimal (minimize : bool) (c : list Q) (A : list (list Q)) (b x : list Q) : Prop :=
  feasible A b x /\
  forall y, feasible A b y -> if minimize then dot c x <= dot c y else dot c y <= dot c x.

Definition lp_infeasible (A : list (list Q)) (b : list Q) : Prop := forall x, ~ feasible A b x.

(* feasible points of arbitrarily good objective exist *)
Definition lp_unbounded (minimize : bool) (c : list Q) (A : list (list Q)) (b : list Q) : Prop :=
  forall M : Q, exists x, feasible A b x /\ if minimize then dot c x < M else M < dot c x.

(* tolerance versions used to judge floating-point answers: x is tol-feasible and within tol of optimal *)
Definition feasible_tol (tol : Q) (A : list (list Q)) (b x : list Q) : Prop :=
  Forall (fun v => - tol <= v) x /\ Forall2 (fun l r => l <= r + tol) (mv A x) b.

Definition lp_optimal_tol (tol : Q) (minimize : bool) (c : list Q) (A : list (list Q)) (b x : list Q) : Prop :=
  feasible_tol tol A b x /\
  forall y, feasible A b y -> if minimize then dot c x <= dot c y + tol else dot c y - tol <= dot c x.

(* rows of A all have the length of c; as many rows as b has entries (check_matrix_dims) *)
Definition well_formed (c : list Q) (A : list (list Q)) (b : list Q) : Prop :=
  length A = length b /\ Forall (fun r => length r = length c) A.
