(* Soundness of the certificate checkers of Cert.v: weak duality, Farkas, improving ray. *)
From Coq Require Import List QArith Qabs Bool Arith Lia Lqa.
From SV Require Import C03.Simplex C03.SimplexCorr C03.LPSpec C03.Cert C03.LinAlgProofs.
Import ListNotations.
Open Scope Q_scope.

(* weak duality: dual feasible y gives the lower bound -y.b on the objective of every feasible point *)
Lemma weak_duality w A b y x :
  length A = length b -> Forall (fun r => length r = length w) A ->
  Forall (fun q => 0 <= q) y -> Forall (fun q => 0 <= q) (vadd w (vm (length w) y A)) ->
  feasible A b x -> - dot y b <= dot w x.
Proof.
  intros HAb HA Hy Hd [Hx HAx].
  pose proof (dot_nonneg _ _ Hd Hx) as H0.
  rewrite dot_vadd_l in H0 by (rewrite vm_length by exact HA; reflexivity).
  rewrite dot_vm in H0 by exact HA.
  pose proof (dot_mono_r y _ _ Hy HAx) as H1. lra.
Qed.

Lemma cert_optimal_sound tol minimize c A b x obj y :
  cert_optimal_check tol minimize c A b x obj y = true ->
  lp_optimal_tol tol minimize c A b x /\ Qabs (obj - dot c x) <= tol.
Proof.
  unfold cert_optimal_check. intro H.
  apply andb_true_iff in H. destruct H as [H H0].
  apply andb_true_iff in H. destruct H as [H H1].
  apply andb_true_iff in H. destruct H as [H H2].
  apply andb_true_iff in H. destruct H as [H H3].
  apply dims_ok_spec in H. destruct H as [HAb HA].
  unfold primal_check in H3. apply andb_true_iff in H3. destruct H3 as [Hx HAx].
  unfold dual_check in H2. apply andb_true_iff in H2. destruct H2 as [Hy Hd].
  apply all_ge_spec in Hx, Hy, Hd. apply all_le2_spec in HAx.
  apply Qleb_le in H1, H0.
  split; [|exact H0]. split; [split; assumption|].
  intros x' Hx'.
  assert (HA' : Forall (fun r => length r = length (weights minimize c)) A)
    by (rewrite weights_length; exact HA).
  pose proof (weak_duality _ A b y x' HAb HA' Hy Hd Hx') as Hwd.
  rewrite weights_dot in H1, Hwd. destruct minimize; lra.
Qed.

Lemma feasible_tol_0 A b x : feasible_tol 0 A b x -> feasible A b x.
Proof.
  intros [H1 H2]. split.
  - eapply Forall_impl; [|exact H1]. intros a Ha. simpl in Ha. lra.
  - eapply Forall2_impl'; [|exact H2]. intros p q Hpq. simpl in Hpq. lra.
Qed.

Lemma cert_optimal_sound_exact minimize c A b x obj y :
  cert_optimal_check 0 minimize c A b x obj y = true ->
  lp_optimal minimize c A b x /\ obj == dot c x.
Proof.
  intro H. apply cert_optimal_sound in H. destruct H as [[Hf Hopt] Hobj]. split.
  - split; [apply feasible_tol_0; exact Hf|].
    intros x' Hx'. specialize (Hopt x' Hx'). destruct minimize; lra.
  - apply Qabs_Qle_condition in Hobj. lra.
Qed.

Lemma farkas_sound c A b y : farkas_check c A b y = true -> lp_infeasible A b.
Proof.
  unfold farkas_check. intro H.
  apply andb_true_iff in H. destruct H as [H H0].
  apply andb_true_iff in H. destruct H as [H H1].
  apply andb_true_iff in H. destruct H as [H H2].
  apply dims_ok_spec in H. destruct H as [HAb HA].
  apply all_ge_spec in H1, H2. apply Qltb_lt in H0.
  intros x [Hx HAx].
  pose proof (dot_nonneg _ _ H1 Hx) as H3. rewrite dot_vm in H3 by exact HA.
  pose proof (dot_mono_r y _ _ H2 HAx). lra.
Qed.

(* ---- improving ray *)
Lemma nonneg_ray x r t : 0 <= t -> length x = length r ->
  Forall (fun q => 0 <= q) x -> Forall (fun q => 0 <= q) r ->
  Forall (fun q => 0 <= q) (vadd x (map (Qmult t) r)).
Proof.
  intros Ht. revert r. induction x as [|a x IH]; intros [|d r] Hl Hx Hr; simpl in *;
    try discriminate; constructor.
  - inversion Hx; inversion Hr; subst. pose proof (Qmult_le_0_compat t d Ht). lra.
  - inversion Hx; inversion Hr; subst. apply IH; [lia|assumption|assumption].
Qed.

Lemma rows_ray A b x r t : 0 <= t -> length x = length r ->
  Forall2 Qle (mv A x) b -> Forall (fun v => v <= 0) (mv A r) ->
  Forall2 Qle (mv A (vadd x (map (Qmult t) r))) b.
Proof.
  intros Ht Hl. revert b. induction A as [|a A IH]; intros b H1 H2; simpl in *.
  - inversion H1. constructor.
  - inversion H1; subst. inversion H2; subst. constructor; [|apply IH; assumption].
    rewrite dot_vadd_r by (rewrite map_length; exact Hl). rewrite dot_scale_r.
    assert (t * dot a r <= 0).
    { setoid_replace 0 with (t * 0) by ring. rewrite (Qmult_comm t (dot a r)), (Qmult_comm t 0).
      apply Qmult_le_compat_r; assumption. }
    lra.
Qed.

Lemma ray_sound minimize c A b x r : ray_check minimize c A b x r = true -> lp_unbounded minimize c A b.
Proof.
  unfold ray_check. intro H.
  apply andb_true_iff in H. destruct H as [H H0].
  apply andb_true_iff in H. destruct H as [H H1].
  apply andb_true_iff in H. destruct H as [H H2].
  apply andb_true_iff in H. destruct H as [H H3].
  apply andb_true_iff in H. destruct H as [H H4].
  unfold primal_check in H4. apply andb_true_iff in H4. destruct H4 as [Hx HAx].
  apply all_ge_spec in Hx, H2. apply all_le2_spec in HAx. apply Nat.eqb_eq in H3.
  apply Qltb_lt in H0.
  assert (Hf : feasible A b x) by (apply feasible_tol_0; split; assumption).
  destruct Hf as [Hx0 HAx0].
  assert (HAr : Forall (fun v => v <= 0) (mv A r)).
  { apply Forall_forall. intros v Hv. rewrite forallb_forall in H1. apply Qleb_le. auto. }
  set (w := weights minimize c) in *.
  assert (Hw : forall M, exists x', feasible A b x' /\ dot w x' < M).
  { intro M. set (u := - dot w r). assert (Hu : 0 < u) by (unfold u; lra).
    set (D := dot w x - M).
    set (t := Qabs D / u + 1).
    assert (Ht : 0 <= t).
    { unfold t. pose proof (Qabs_nonneg D).
      assert (0 <= Qabs D / u) by (apply Qle_shift_div_l; [exact Hu|lra]). lra. }
    exists (vadd x (map (Qmult t) r)). split.
    - split; [apply nonneg_ray; assumption | apply rows_ray; assumption].
    - rewrite dot_vadd_r by (rewrite map_length; exact H3). rewrite dot_scale_r.
      assert (Htu : t * u == Qabs D + u) by (unfold t; field; lra).
      pose proof (Qle_Qabs D). unfold u in Htu. unfold D in *. lra. }
  intro M. unfold w in Hw. destruct minimize.
  - destruct (Hw M) as [x' [Hf Hlt]]. exists x'. split; [exact Hf|]. rewrite weights_dot in Hlt. exact Hlt.
  - destruct (Hw (- M)) as [x' [Hf Hlt]]. exists x'. split; [exact Hf|]. rewrite weights_dot in Hlt. lra.
Qed.

(* what a successful `cert_*` lemma of a check run establishes about the IMPLEMENTATION's answer *)
Definition case_claim (k : lp_case) : Prop :=
  match k_status k with
  | OPTIMAL => lp_optimal_tol tol6 (k_min k) (k_c k) (k_A k) (k_b k) (k_sol k)
               /\ Qabs (k_obj k - dot (k_c k) (k_sol k)) <= tol6
  | INFEASIBLE => lp_infeasible (k_A k) (k_b k)
  | UNBOUNDED => lp_unbounded (k_min k) (k_c k) (k_A k) (k_b k)
  | MAX_ITER => True
  end.

Lemma cert_case_sound k : cert_case_check k = true -> case_claim k.
Proof.
  unfold cert_case_check, case_claim. destruct (k_status k); intro H.
  - apply andb_true_iff in H. destruct H as [H _]. apply cert_optimal_sound in H. exact H.
  - eapply farkas_sound. exact H.
  - eapply ray_sound. exact H.
  - exact I.
Qed.
