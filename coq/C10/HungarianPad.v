(* Padding and max->min reductions: an assignment of the original r x c matrix (list with -1) against
   perfect matchings of the padded n x n matrix (n = max r c; dummy cells 0; max_val - c when maximising). *)
From Coq Require Import List Arith ZArith Bool Lia Permutation.
From SV Require Import C10.Hungarian C10.HungarianSpec C10.HungarianLists C10.HungarianCert.
Import ListNotations.
Local Open Scope nat_scope.

(* ---------- entries of the padded matrix *)
Lemma padded_entry M mz i j :
  i < Nat.max (n_rows M) (n_cols M) -> j < Nat.max (n_rows M) (n_cols M) ->
  entry (padded M mz) i j =
  if (i <? n_rows M) && (j <? n_cols M)
  then (if mz then entry M i j else max_val M - entry M i j)%Z else 0%Z.
Proof.
  intros Hi Hj. unfold entry at 1, padded.
  set (n := Nat.max (n_rows M) (n_cols M)) in *.
  set (F := fun i0 : nat => map (fun j0 : nat =>
        if (i0 <? n_rows M) && (j0 <? n_cols M)
        then (if mz then entry M i0 j0 else (max_val M - entry M i0 j0)%Z) else 0%Z) (seq 0 n)).
  rewrite (nth_indep (map F (seq 0 n)) [] (F 0)) by (rewrite map_length, seq_length; exact Hi).
  rewrite map_nth, seq_nth by exact Hi. simpl. unfold F.
  set (G := fun j0 : nat => if (i <? n_rows M) && (j0 <? n_cols M)
        then (if mz then entry M i j0 else (max_val M - entry M i j0)%Z) else 0%Z).
  rewrite (nth_indep (map G (seq 0 n)) 0%Z (G 0)) by (rewrite map_length, seq_length; exact Hj).
  rewrite map_nth, seq_nth by exact Hj. reflexivity.
Qed.

(* ---------- the cells chosen by an assignment *)
Fixpoint pairs_from (i : nat) (a : list Z) : list (nat * nat) :=
  match a with
  | [] => []
  | x :: t => if (x =? -1)%Z then pairs_from (S i) t else (i, Z.to_nat x) :: pairs_from (S i) t
  end.
Definition pairs (a : list Z) : list (nat * nat) := pairs_from 0 a.

Lemma pf_in : forall a i r c,
  In (r, c) (pairs_from i a) <->
  i <= r < i + length a /\ nth (r - i) a (-1)%Z <> (-1)%Z /\ c = Z.to_nat (nth (r - i) a (-1)%Z).
Proof.
  induction a as [|x t IH]; intros i r c; simpl.
  - split; [intros [] | intros [H _]; lia].
  - destruct (x =? -1)%Z eqn:E.
    + rewrite IH. apply Z.eqb_eq in E. split.
      * intros (H1 & H2 & H3). replace (r - i) with (S (r - S i)) by lia. split; [lia | split; assumption].
      * intros (H1 & H2 & H3). destruct (r - i) as [|k] eqn:Ek; [congruence|].
        replace (r - S i) with k by lia. split; [lia | split; assumption].
    + apply Z.eqb_neq in E. simpl. rewrite IH. split.
      * intros [H|(H1 & H2 & H3)].
        -- inversion H; subst. replace (r - r) with 0 by lia. split; [lia | split; [exact E | reflexivity]].
        -- replace (r - i) with (S (r - S i)) by lia. split; [lia | split; assumption].
      * intros (H1 & H2 & H3). destruct (r - i) as [|k] eqn:Ek.
        -- left. subst c. f_equal. lia.
        -- right. replace (r - S i) with k by lia. split; [lia | split; assumption].
Qed.

Lemma pf_fst_nodup : forall a i, NoDup (map fst (pairs_from i a)).
Proof.
  induction a as [|x t IH]; intros i; simpl; [constructor|].
  destruct (x =? -1)%Z; [apply IH|]. simpl. constructor; [|apply IH].
  intros H. apply in_map_iff in H. destruct H as ([r c] & E & H). simpl in E. subst r.
  apply pf_in in H. lia.
Qed.

Lemma pf_snd : forall a i, map snd (pairs_from i a) = map Z.to_nat (assigned a).
Proof.
  induction a as [|x t IH]; intros i; simpl; [reflexivity|]. unfold assigned in *. simpl.
  destruct (x =? -1)%Z; simpl; [apply IH | f_equal; apply IH].
Qed.

Lemma pf_length a i : length (pairs_from i a) = length (assigned a).
Proof. rewrite <- (map_length snd), pf_snd, map_length. reflexivity. Qed.

Lemma pf_cost M : forall a i,
  zsum (map (fun rc => entry M (fst rc) (snd rc)) (pairs_from i a)) = cost_from M i a.
Proof.
  induction a as [|x t IH]; intros i; simpl; [reflexivity|].
  destruct (x =? -1)%Z; simpl; rewrite IH; lia.
Qed.

Lemma zsum_map_sub_const {A} (c : Z) (f : A -> Z) l :
  zsum (map (fun x => c - f x)%Z l) = (Z.of_nat (length l) * c - zsum (map f l))%Z.
Proof.
  induction l as [|x l IH]; [simpl; lia|].
  cbn [map zsum fold_right length]. fold (zsum (map (fun x0 : A => (c - f x0)%Z) l)). fold (zsum (map f l)).
  rewrite IH. lia.
Qed.

(* the objective transform of the padded problem *)
Definition kappa (M : list (list Z)) (mz : bool) (x : Z) : Z :=
  if mz then x else (Z.of_nat (Nat.min (n_rows M) (n_cols M)) * max_val M - x)%Z.

Section Assignment.
Variable M : list (list Z).
Let nr := n_rows M.
Let nc := n_cols M.

Lemma pairs_bounds b : matching_spec M b ->
  forall r c, In (r, c) (pairs b) -> r < nr /\ c < nc /\ nth r b (-1)%Z = Z.of_nat c.
Proof.
  intros [Hl Hr _ _] r c H. apply pf_in in H. rewrite Nat.sub_0_r in H. destruct H as (H1 & H2 & H3).
  assert (Hrn : r < length b) by lia.
  rewrite Forall_forall in Hr. specialize (Hr _ (nth_In b (-1)%Z Hrn)).
  fold nr in Hl. fold nc in Hr. split; [lia|]. split; lia.
Qed.

Lemma pairs_cost mz b : matching_spec M b -> mcost (padded M mz) (pairs b) = kappa M mz (cost_of M b).
Proof.
  intros Hb. pose proof (pairs_bounds b Hb) as Hbd.
  assert (E : mcost (padded M mz) (pairs b) =
              zsum (map (fun rc => if mz then entry M (fst rc) (snd rc)
                                   else (max_val M - entry M (fst rc) (snd rc))%Z) (pairs b))).
  { unfold mcost. apply zsum_map_ext. intros [r c] H. simpl. destruct (Hbd r c H) as (H1 & H2 & _).
    rewrite padded_entry by (fold nr nc; lia). fold nr nc.
    rewrite (proj2 (Nat.ltb_lt r nr) H1), (proj2 (Nat.ltb_lt c nc) H2). reflexivity. }
  rewrite E. unfold kappa, cost_of. rewrite <- (pf_cost M b 0). fold (pairs b).
  destruct mz.
  - reflexivity.
  - rewrite <- (ms_count _ _ Hb). rewrite <- (pf_length b 0). fold (pairs b).
    apply zsum_map_sub_const.
Qed.

Lemma pairs_cols_nodup b : matching_spec M b -> NoDup (map snd (pairs b)).
Proof.
  intros [Hl Hr Hnd _]. unfold pairs. rewrite pf_snd.
  assert (Hpos : forall x, In x (assigned b) -> (0 <= x)%Z).
  { intros x Hx. unfold assigned in Hx. apply filter_In in Hx. destruct Hx as [Hx Hx1].
    apply negb_true_iff, Z.eqb_neq in Hx1. rewrite Forall_forall in Hr. specialize (Hr x Hx). lia. }
  clear Hl Hr. induction (assigned b) as [|x l IH]; simpl; [constructor|].
  inversion Hnd as [|x' l' Hx Hl']; subst. constructor.
  - intros H. apply in_map_iff in H. destruct H as (y & E & Hy).
    assert (y = x) by (pose proof (Hpos x (or_introl eq_refl)); pose proof (Hpos y (or_intror Hy)); lia).
    subst y. contradiction.
  - apply IH; [exact Hl' | intros y Hy; apply Hpos; right; exact Hy].
Qed.
End Assignment.

(* ---------- extending a partial matching of the n x n square to a perfect one *)
Definition unused (n : nat) (l : list nat) : list nat :=
  filter (fun x => negb (existsb (Nat.eqb x) l)) (seq 0 n).

Lemma unused_in n l x : In x (unused n l) <-> x < n /\ ~ In x l.
Proof.
  unfold unused. rewrite filter_In, in_seq, negb_true_iff. split.
  - intros [H1 H2]. split; [lia|]. intros Hin.
    assert (E : existsb (Nat.eqb x) l = true) by (apply existsb_exists; exists x; split; [exact Hin | apply Nat.eqb_refl]).
    congruence.
  - intros [H1 H2]. split; [lia|]. destruct (existsb (Nat.eqb x) l) eqn:E; [|reflexivity].
    apply existsb_exists in E. destruct E as (y & Hy & Exy). apply Nat.eqb_eq in Exy. subst y. contradiction.
Qed.

Lemma nodup_app {A} (l l' : list A) :
  NoDup l -> NoDup l' -> (forall x, In x l -> ~ In x l') -> NoDup (l ++ l').
Proof.
  induction 1 as [|x l Hx Hl IH]; intros Hl' Hd; simpl; [exact Hl'|].
  constructor.
  - intros H. apply in_app_or in H. destruct H as [H|H]; [contradiction | apply (Hd x); [left; reflexivity | exact H]].
  - apply IH; [exact Hl' | intros y Hy; apply Hd; right; exact Hy].
Qed.

Lemma unused_length n l : NoDup l -> (forall x, In x l -> x < n) -> length l + length (unused n l) = n.
Proof.
  intros Hnd Hb.
  assert (P : Permutation (l ++ unused n l) (seq 0 n)).
  { apply NoDup_Permutation.
    - apply nodup_app; [exact Hnd | apply NoDup_filter, seq_NoDup|].
      intros x Hx Hu. apply unused_in in Hu. tauto.
    - apply seq_NoDup.
    - intros x. rewrite in_app_iff, unused_in, in_seq. split.
      + intros [H|[H _]]; [specialize (Hb x H)|]; lia.
      + intros H. destruct (in_dec Nat.eq_dec x l) as [Hi|Hi]; [left; exact Hi | right; split; [lia | exact Hi]]. }
  apply Permutation_length in P. rewrite app_length, seq_length in P. exact P.
Qed.

Record partial_match (n : nat) (m : list (nat * nat)) : Prop := {
  pa_rows : NoDup (map fst m);
  pa_cols : NoDup (map snd m);
  pa_rng : forall ij, In ij m -> fst ij < n /\ snd ij < n
}.

Definition extend (n : nat) (m : list (nat * nat)) : list (nat * nat) :=
  m ++ combine (unused n (map fst m)) (unused n (map snd m)).

Lemma extend_pmatch n m : partial_match n m -> pmatch n (extend n m).
Proof.
  intros [Hr Hc Hb].
  assert (Lr : length (map fst m) + length (unused n (map fst m)) = n).
  { apply unused_length; [exact Hr|]. intros x Hx. apply in_map_iff in Hx. destruct Hx as (ij & <- & H). apply (Hb ij H). }
  assert (Lc : length (map snd m) + length (unused n (map snd m)) = n).
  { apply unused_length; [exact Hc|]. intros x Hx. apply in_map_iff in Hx. destruct Hx as (ij & <- & H). apply (Hb ij H). }
  rewrite map_length in Lr, Lc.
  assert (Leq : length (unused n (map fst m)) = length (unused n (map snd m))) by lia.
  unfold extend. constructor.
  - rewrite map_app, map_fst_combine by exact Leq.
    apply nodup_app; [exact Hr | apply NoDup_filter, seq_NoDup|].
    intros x Hx Hu. apply unused_in in Hu. tauto.
  - rewrite map_app, map_snd_combine by exact Leq.
    apply nodup_app; [exact Hc | apply NoDup_filter, seq_NoDup|].
    intros x Hx Hu. apply unused_in in Hu. tauto.
  - intros [i j] H. apply in_app_or in H. destruct H as [H|H]; [apply (Hb _ H)|]. simpl. split.
    + apply in_combine_l in H. apply unused_in in H. tauto.
    + apply in_combine_r in H. apply unused_in in H. tauto.
  - rewrite app_length, combine_length. lia.
Qed.

Lemma extend_cost C n m :
  (forall r c, In r (unused n (map fst m)) -> In c (unused n (map snd m)) -> entry C r c = 0%Z) ->
  mcost C (extend n m) = mcost C m.
Proof.
  intros H. unfold mcost, extend. rewrite map_app, zsum_app, (zsum_map_zero _ (combine _ _)); [lia|].
  intros [r c] Hrc. simpl. apply H; [eapply in_combine_l | eapply in_combine_r]; exact Hrc.
Qed.

(* ---------- every matching of the original extends to a perfect matching of the padded matrix
   with the transformed cost *)
Lemma pad_extend M mz b : matching_spec M b ->
  exists m', pmatch (Nat.max (n_rows M) (n_cols M)) m' /\
             mcost (padded M mz) m' = kappa M mz (cost_of M b).
Proof.
  intros Hb. set (nr := n_rows M). set (nc := n_cols M). set (n := Nat.max nr nc).
  pose proof (pairs_bounds M b Hb) as Hbd. fold nr nc in Hbd.
  assert (Hpa : partial_match n (pairs b)).
  { constructor.
    - apply pf_fst_nodup.
    - apply (pairs_cols_nodup M b Hb).
    - intros [r c] H. destruct (Hbd r c H) as (H1 & H2 & _). simpl. unfold n. lia. }
  exists (extend n (pairs b)). split; [apply extend_pmatch; exact Hpa|].
  rewrite <- (pairs_cost M mz b Hb). apply extend_cost.
  intros r c Hr Hc. apply unused_in in Hr. apply unused_in in Hc. destruct Hr as [Hr Hr']. destruct Hc as [Hc Hc'].
  rewrite padded_entry by (fold nr nc n; assumption). fold nr nc.
  assert (Hlen : length (pairs b) = Nat.min nr nc).
  { unfold pairs. rewrite pf_length. apply (ms_count _ _ Hb). }
  destruct (Nat.le_gt_cases nr nc) as [Hle|Hgt].
  - (* all real rows are used *)
    assert (Hrge : nr <= r).
    { destruct (Nat.lt_ge_cases r nr) as [Hlt|Hge]; [|exact Hge]. exfalso. apply Hr'.
      assert (I : incl (seq 0 nr) (map fst (pairs b))); [|apply I, in_seq; lia].
      apply NoDup_length_incl; [apply pf_fst_nodup | |].
      - rewrite map_length. rewrite Hlen, seq_length. lia.
      - intros x Hx. apply in_map_iff in Hx. destruct Hx as ([r0 c0] & <- & H). simpl.
        apply in_seq. destruct (Hbd r0 c0 H) as (H1 & _). lia. }
    replace (r <? nr) with false by (symmetry; apply Nat.ltb_ge; exact Hrge). reflexivity.
  - assert (Hcge : nc <= c).
    { destruct (Nat.lt_ge_cases c nc) as [Hlt|Hge]; [|exact Hge]. exfalso. apply Hc'.
      assert (I : incl (seq 0 nc) (map snd (pairs b))); [|apply I, in_seq; lia].
      apply NoDup_length_incl; [apply (pairs_cols_nodup M b Hb) | |].
      - rewrite map_length, Hlen, seq_length. lia.
      - intros x Hx. apply in_map_iff in Hx. destruct Hx as ([r0 c0] & <- & H). simpl.
        apply in_seq. destruct (Hbd r0 c0 H) as (_ & H2 & _). lia. }
    replace (c <? nc) with false by (symmetry; apply Nat.ltb_ge; exact Hcge). rewrite andb_false_r. reflexivity.
Qed.

(* ---------- a perfect matching of the padded matrix that restricts to the assignment a *)
Definition represents (M : list (list Z)) (m : list (nat * nat)) (a : list Z) : Prop :=
  pmatch (Nat.max (n_rows M) (n_cols M)) m /\ matching_spec M a /\
  forall i c, i < n_rows M -> c < n_cols M -> (In (i, c) m <-> nth i a (-1)%Z = Z.of_nat c).

Lemma mcost_filter C (f : nat * nat -> bool) m :
  (forall ij, In ij m -> f ij = false -> entry C (fst ij) (snd ij) = 0%Z) ->
  mcost C m = mcost C (filter f m).
Proof.
  unfold mcost. induction m as [|x m IH]; intros H; simpl; [reflexivity|].
  rewrite IH by (intros ij Hij; apply H; right; exact Hij).
  destruct (f x) eqn:E; simpl; [reflexivity|]. rewrite (H x (or_introl eq_refl) E). lia.
Qed.

Lemma represents_cost M mz m a : represents M m a -> mcost (padded M mz) m = kappa M mz (cost_of M a).
Proof.
  intros (Hm & Ha & Hiff). set (nr := n_rows M) in *. set (nc := n_cols M) in *.
  set (real := fun ij : nat * nat => (fst ij <? nr) && (snd ij <? nc)).
  rewrite (mcost_filter _ real).
  - rewrite <- (pairs_cost M mz a Ha). unfold mcost. apply zsum_perm, Permutation_map.
    apply NoDup_Permutation.
    + apply NoDup_filter. apply (NoDup_map_inv fst). apply (pm_rows _ _ Hm).
    + apply (NoDup_map_inv fst). apply pf_fst_nodup.
    + intros [i c]. rewrite filter_In. unfold real. simpl. rewrite andb_true_iff, !Nat.ltb_lt. split.
      * intros (H & H1 & H2). apply Hiff in H; [|exact H1|exact H2].
        apply pf_in. rewrite Nat.sub_0_r. rewrite (ms_len _ _ Ha). fold nr. rewrite H. split; [lia|]. split; lia.
      * intros H. destruct (pairs_bounds M a Ha i c H) as (H1 & H2 & H3). fold nr nc in H1, H2.
        split; [|split; assumption]. apply Hiff; assumption.
  - intros [i c] Hic E. simpl. destruct (pm_rng _ _ Hm _ Hic) as [H1 H2]. simpl in H1, H2.
    rewrite padded_entry by assumption. fold nr nc. unfold real in E. simpl in E. rewrite E. reflexivity.
Qed.

(* pad_ok (mz = true) / max_ok (mz = false): an optimal perfect matching of the padded matrix restricts
   to an optimal matching of size min(rows, cols) of the original, for minimisation and - through
   max_val - c, whatever the signs of the entries - for maximisation *)
Theorem pad_max_ok M mz m a :
  represents M m a ->
  (forall m', pmatch (Nat.max (n_rows M) (n_cols M)) m' -> (mcost (padded M mz) m <= mcost (padded M mz) m')%Z) ->
  optimal_spec M mz a.
Proof.
  intros Hrep Hopt b Hb.
  destruct (pad_extend M mz b Hb) as (m' & Hm' & Ec).
  specialize (Hopt m' Hm'). rewrite (represents_cost M mz m a Hrep), Ec in Hopt.
  unfold kappa in Hopt. destruct mz; lia.
Qed.
