(* LP-duality certificate for the assignment problem (pure mathematics, no model involved).
   A perfect matching of an n x n matrix is a list of n (row, column) pairs with pairwise distinct rows
   and pairwise distinct columns; permutations given as duplicate-free lists are the special case
   combine (seq 0 n) sigma. *)
From Coq Require Import List Arith ZArith Bool Lia Permutation.
From SV Require Import C10.Hungarian.
Import ListNotations.
Local Open Scope Z_scope.

Definition zsum (l : list Z) : Z := fold_right Z.add 0 l.

Lemma zsum_app l l' : zsum (l ++ l') = zsum l + zsum l'.
Proof. induction l as [|x l IH]; simpl; [reflexivity | rewrite IH; lia]. Qed.

Lemma zsum_perm l l' : Permutation l l' -> zsum l = zsum l'.
Proof. induction 1; simpl; lia. Qed.

Lemma zsum_map_add {A} (f g : A -> Z) l :
  zsum (map (fun x => f x + g x) l) = zsum (map f l) + zsum (map g l).
Proof. induction l as [|x l IH]; simpl; [reflexivity | rewrite IH; lia]. Qed.

Lemma zsum_map_le {A} (f g : A -> Z) l :
  (forall x, In x l -> f x <= g x) -> zsum (map f l) <= zsum (map g l).
Proof.
  induction l as [|x l IH]; intros H; simpl; [lia|].
  assert (f x <= g x) by (apply H; left; reflexivity).
  assert (zsum (map f l) <= zsum (map g l)) by (apply IH; intros y Hy; apply H; right; exact Hy). lia.
Qed.

Lemma zsum_map_ext {A} (f g : A -> Z) l :
  (forall x, In x l -> f x = g x) -> zsum (map f l) = zsum (map g l).
Proof.
  induction l as [|x l IH]; intros H; simpl; [reflexivity|].
  rewrite (H x (or_introl eq_refl)), IH; [reflexivity|]. intros y Hy. apply H. right. exact Hy.
Qed.

Lemma zsum_map_zero {A} (f : A -> Z) l : (forall x, In x l -> f x = 0) -> zsum (map f l) = 0.
Proof.
  induction l as [|x l IH]; intros H; simpl; [reflexivity|].
  rewrite (H x (or_introl eq_refl)), IH; [reflexivity|]. intros y Hy. apply H. right. exact Hy.
Qed.

Lemma zsum_map_const {A} (c : Z) (l : list A) : zsum (map (fun _ => c) l) = Z.of_nat (length l) * c.
Proof. induction l as [|x l IH]; [simpl; lia|]. cbn [map zsum fold_right length]. fold (zsum (map (fun _ : A => c) l)). rewrite IH. lia. Qed.

(* total cost of a set of cells *)
Definition mcost (C : list (list Z)) (m : list (nat * nat)) : Z :=
  zsum (map (fun ij => entry C (fst ij) (snd ij)) m).

Record pmatch (n : nat) (m : list (nat * nat)) : Prop := {
  pm_rows : NoDup (map fst m);
  pm_cols : NoDup (map snd m);
  pm_rng : forall ij, In ij m -> (fst ij < n)%nat /\ (snd ij < n)%nat;
  pm_len : length m = n
}.

Lemma perm_of_nodup n (l : list nat) :
  NoDup l -> length l = n -> (forall x, In x l -> (x < n)%nat) -> Permutation l (seq 0 n).
Proof.
  intros Hnd Hl Hb. apply NoDup_Permutation_bis; [exact Hnd | rewrite seq_length; lia|].
  intros x Hx. apply in_seq. specialize (Hb x Hx). lia.
Qed.

Lemma dual_sum n (u v : nat -> Z) m : pmatch n m ->
  zsum (map (fun ij => u (fst ij) + v (snd ij)) m) = zsum (map u (seq 0 n)) + zsum (map v (seq 0 n)).
Proof.
  intros [Hr Hc Hb Hl]. rewrite (zsum_map_add (fun ij => u (fst ij)) (fun ij => v (snd ij))).
  rewrite <- (map_map fst u), <- (map_map snd v).
  f_equal; apply zsum_perm, Permutation_map, perm_of_nodup; try assumption;
    try (rewrite map_length; exact Hl);
    intros x Hx; apply in_map_iff in Hx; destruct Hx as (ij & <- & Hij); apply (Hb ij Hij).
Qed.

(* weak duality: every perfect matching costs at least the dual objective *)
Lemma weak_duality n C (u v : nat -> Z) m :
  (forall i j, (i < n)%nat -> (j < n)%nat -> u i + v j <= entry C i j) -> pmatch n m ->
  zsum (map u (seq 0 n)) + zsum (map v (seq 0 n)) <= mcost C m.
Proof.
  intros Hf Hm. rewrite <- (dual_sum n u v m Hm). unfold mcost. apply zsum_map_le.
  intros ij Hij. destruct (pm_rng _ _ Hm ij Hij). apply Hf; assumption.
Qed.

(* complementary slackness: a perfect matching that is tight for feasible potentials is optimal *)
Theorem cert_pairs n C (u v : nat -> Z) m :
  (forall i j, (i < n)%nat -> (j < n)%nat -> u i + v j <= entry C i j) ->
  pmatch n m ->
  (forall ij, In ij m -> u (fst ij) + v (snd ij) = entry C (fst ij) (snd ij)) ->
  forall m', pmatch n m' -> mcost C m <= mcost C m'.
Proof.
  intros Hf Hm Ht m' Hm'.
  assert (E : mcost C m = zsum (map u (seq 0 n)) + zsum (map v (seq 0 n))).
  { rewrite <- (dual_sum n u v m Hm). unfold mcost. apply zsum_map_ext. intros ij Hij. symmetry. apply Ht. exact Hij. }
  rewrite E. apply weak_duality; assumption.
Qed.

(* ---------- the same for permutations written as duplicate-free lists: row i -> column sigma_i *)
Definition perm_list (n : nat) (s : list nat) : Prop :=
  length s = n /\ NoDup s /\ (forall x, In x s -> (x < n)%nat).
Definition pcost (C : list (list Z)) (s : list nat) : Z := mcost C (combine (seq 0 (length s)) s).

Lemma map_fst_combine {A B} (l : list A) (l' : list B) : length l = length l' -> map fst (combine l l') = l.
Proof.
  revert l'; induction l as [|x l IH]; intros [|y l'] H; simpl in *; try reflexivity; try discriminate.
  rewrite IH by lia. reflexivity.
Qed.
Lemma map_snd_combine {A B} (l : list A) (l' : list B) : length l = length l' -> map snd (combine l l') = l'.
Proof.
  revert l'; induction l as [|x l IH]; intros [|y l'] H; simpl in *; try reflexivity; try discriminate.
  rewrite IH by lia. reflexivity.
Qed.

Lemma in_combine_seq (s : list nat) : forall a i j,
  In (i, j) (combine (seq a (length s)) s) -> (a <= i < a + length s)%nat /\ nth (i - a) s O = j.
Proof.
  induction s as [|x s IH]; intros a i j H; simpl in H; [contradiction|].
  destruct H as [H|H].
  - inversion H; subst. replace (i - i)%nat with O by lia. simpl. split; [lia | reflexivity].
  - apply IH in H. destruct H as [H1 H2]. simpl. split; [lia|].
    replace (i - a)%nat with (S (i - S a)) by lia. exact H2.
Qed.

Lemma perm_list_pmatch n s : perm_list n s -> pmatch n (combine (seq 0 (length s)) s).
Proof.
  intros (Hl & Hnd & Hb). constructor.
  - rewrite map_fst_combine by (rewrite seq_length; reflexivity). apply seq_NoDup.
  - rewrite map_snd_combine by (rewrite seq_length; reflexivity). exact Hnd.
  - intros [i j] Hij. simpl. split.
    + apply in_combine_l in Hij. apply in_seq in Hij. lia.
    + apply in_combine_r in Hij. apply Hb. exact Hij.
  - rewrite combine_length, seq_length. lia.
Qed.

Theorem cert_assignment_lemma n C (u v : nat -> Z) s :
  (forall i j, (i < n)%nat -> (j < n)%nat -> u i + v j <= entry C i j) ->
  perm_list n s ->
  (forall i, (i < n)%nat -> u i + v (nth i s O) = entry C i (nth i s O)) ->
  forall t, perm_list n t -> pcost C s <= pcost C t.
Proof.
  intros Hf Hs Ht t Htt. unfold pcost.
  apply (cert_pairs n C u v); auto using perm_list_pmatch.
  intros [i j] Hij. simpl. apply in_combine_seq in Hij. destruct Hij as [H1 H2].
  destruct Hs as (Hl & _). rewrite Nat.sub_0_r in H2. subst j. apply Ht. lia.
Qed.
