(* From a dual certificate on the model's final state to optimality of the returned assignment:
   certificate theorem (HungarianCert) + padding / max reductions (HungarianPad) + the matching
   invariant (HungarianMatching / HungarianExtract). *)
From Coq Require Import List Arith ZArith Bool Lia Permutation.
From SV Require Import C10.Hungarian C10.HungarianSpec C10.HungarianLists C10.HungarianScan
     C10.HungarianInner C10.HungarianMatching C10.HungarianExtract C10.HungarianCert C10.HungarianPad.
Import ListNotations.
Local Open Scope nat_scope.

(* dual feasibility and tightness of a final state, 1-based as in the code *)
Definition dual_feasible (C : list (list Z)) (n : nat) (u v : list Z) : Prop :=
  forall i j, 1 <= i <= n -> 1 <= j <= n -> (nth i u 0 + nth j v 0 <= entry C (i - 1) (j - 1))%Z.
Definition tight (C : list (list Z)) (n : nat) (u v : list Z) (p : list nat) : Prop :=
  forall j, 1 <= j <= n -> (nth (nth j p 0%nat) u 0 + nth j v 0 = entry C (nth j p 0%nat - 1) (j - 1))%Z.

(* the perfect matching held in col_match *)
Definition model_pairs (p : list nat) (n : nat) : list (nat * nat) :=
  map (fun j => (nth j p 0 - 1, j - 1)) (seq 1 n).

Lemma model_pairs_pmatch n p : hole_inv n n p 0 -> pmatch n (model_pairs p n).
Proof.
  intros Hh. pose proof Hh as [Hl Hinj Hsur Hle]. pose proof (all_matched n p Hh) as Hnz.
  unfold model_pairs. constructor.
  - rewrite map_map. simpl. apply NoDup_map_on; [apply seq_NoDup|].
    intros x y Hx Hy E. apply in_seq in Hx. apply in_seq in Hy.
    assert (nth x p 0 <> 0) by (apply Hnz; lia). assert (nth y p 0 <> 0) by (apply Hnz; lia).
    apply Hinj; lia.
  - rewrite map_map. simpl. apply NoDup_map_on; [apply seq_NoDup|].
    intros x y Hx Hy E. apply in_seq in Hx. apply in_seq in Hy. lia.
  - intros ij H. apply in_map_iff in H. destruct H as (j & <- & Hj). apply in_seq in Hj. simpl.
    assert (nth j p 0 <> 0) by (apply Hnz; lia). assert (nth j p 0 <= n) by (apply Hle; lia). lia.
  - rewrite map_length, seq_length. reflexivity.
Qed.

Lemma model_represents M p :
  hole_inv (Nat.max (n_rows M) (n_cols M)) (Nat.max (n_rows M) (n_cols M)) p 0 ->
  represents M (model_pairs p (Nat.max (n_rows M) (n_cols M)))
             (extract p (n_rows M) (n_cols M) (Nat.max (n_rows M) (n_cols M))).
Proof.
  intros Hh. set (n := Nat.max (n_rows M) (n_cols M)) in *.
  split; [apply model_pairs_pmatch; exact Hh|]. split.
  - destruct (extract_matching n p (n_rows M) (n_cols M) eq_refl Hh) as (H1 & H2 & H3 & H4).
    constructor; assumption.
  - intros i c Hi Hc. rewrite (extract_char n p (n_rows M) (n_cols M) eq_refl Hh i c Hi Hc).
    pose proof (all_matched n p Hh) as Hnz.
    unfold model_pairs. rewrite in_map_iff. split.
    + intros (j & E & Hj). apply in_seq in Hj. inversion E; subst.
      assert (nth j p 0 <> 0) by (apply Hnz; lia).
      replace (S (j - 1)) with j by lia. lia.
    + intros E. exists (S c). split; [|apply in_seq; unfold n; lia].
      rewrite E. f_equal; lia.
Qed.

Lemma model_optimal M mz u v p :
  let n := Nat.max (n_rows M) (n_cols M) in
  hole_inv n n p 0 ->
  dual_feasible (padded M mz) n u v -> tight (padded M mz) n u v p ->
  optimal_spec M mz (extract p (n_rows M) (n_cols M) n).
Proof.
  intros n Hh Hf Ht.
  apply (pad_max_ok M mz (model_pairs p n)); [apply model_represents; exact Hh|].
  apply (cert_pairs n (padded M mz) (fun i => nth (S i) u 0%Z) (fun j => nth (S j) v 0%Z)).
  - intros i j Hi Hj. specialize (Hf (S i) (S j)). simpl in Hf. rewrite !Nat.sub_0_r in Hf. apply Hf; lia.
  - apply model_pairs_pmatch. exact Hh.
  - intros ij H. unfold model_pairs in H. apply in_map_iff in H. destruct H as (j & <- & Hj).
    apply in_seq in Hj. simpl.
    assert (nth j p 0 <> 0) by (apply (all_matched n p Hh); lia).
    replace (S (nth j p 0 - 1)) with (nth j p 0) by lia. replace (S (j - 1)) with j by lia.
    apply Ht. lia.
Qed.

(* ---------- boolean certificate check of the model file, reflected *)
Lemma cert_check_sound C n u v p way :
  cert_check C n (u, v, p, way) = true -> dual_feasible C n u v /\ tight C n u v p.
Proof.
  unfold cert_check. rewrite !andb_true_iff. intros [[H1 H2] _]. split.
  - intros i j Hi Hj. rewrite forallb_forall in H1.
    specialize (H1 i (proj2 (in_seq n 1 i) ltac:(lia))). rewrite forallb_forall in H1.
    specialize (H1 j (proj2 (in_seq n 1 j) ltac:(lia))). apply Z.leb_le. exact H1.
  - intros j Hj. rewrite forallb_forall in H2.
    specialize (H2 j (proj2 (in_seq n 1 j) ltac:(lia))). simpl in H2.
    rewrite !andb_true_iff in H2. destruct H2 as [_ H2]. apply Z.eqb_eq. exact H2.
Qed.

(* per-run certificate: if the boolean check of the model's final potentials succeeds on M, the
   returned assignment is optimal *)
Lemma solve_cert_optimal M mz : solve_cert M mz = true ->
  exists a, solve M mz = Some (a, cost_of M a) /\ matching_spec M a /\ optimal_spec M mz a.
Proof.
  intros Hcert. destruct M as [|[|x r] rest].
  - exists []. split; [reflexivity|]. split; [constructor; simpl; constructor|].
    intros b Hb. destruct b as [|y b]; [destruct mz; simpl; lia|].
    destruct Hb as [Hl _ _ _]. simpl in Hl. discriminate.
  - destruct (solve_shape ([] :: rest) mz) as (a & E & Hm). exists a. split; [exact E|]. split; [exact Hm|].
    intros b Hb. rewrite (zero_cols_cost ([] :: rest) a eq_refl Hm), (zero_cols_cost ([] :: rest) b eq_refl Hb). destruct mz; lia.
  - set (M := (x :: r) :: rest) in *.
    unfold solve_cert, solve_state in Hcert. unfold solve, solve_gen. fold M.
    destruct (core_ok (padded M mz) (Nat.max (n_rows M) (n_cols M))) as ([[[u v] p] way] & E & [Hh _]).
    rewrite E in *. apply cert_check_sound in Hcert. destruct Hcert as [Hf Ht].
    destruct (extract_matching _ p (n_rows M) (n_cols M) eq_refl Hh) as (H1 & H2 & H3 & H4).
    exists (extract p (n_rows M) (n_cols M) (Nat.max (n_rows M) (n_cols M))). split; [|split].
    + rewrite total_cost_spec by exact H2. reflexivity.
    + constructor; assumption.
    + apply (model_optimal M mz u v p); assumption.
Qed.
