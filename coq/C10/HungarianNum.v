(* Numeric facts about one round of the inner loop: exact effect of scan and update on min_slack,
   augment_path, delta and the potentials. *)
From Coq Require Import List Arith ZArith Bool Lia.
From SV Require Import C10.Hungarian C10.HungarianLists.
Import ListNotations.
Local Open Scope nat_scope.

Section ScanNum.
Variables (C : list (list Z)) (u v : list Z) (used : list bool) (r j0 : nat).

Definition rcost (j : nat) : Z := (entry C (r - 1) (j - 1) - nth r u 0 - nth j v 0)%Z.

Definition scan_num_post (js : list nat) (minv : list ez) (way : list nat) (delta : ez) (j1 : nat)
           (minv' : list ez) (way' : list nat) (delta' : ez) (j1' : nat) : Prop :=
  (forall j, (~ In j js \/ nth j used false = true) ->
             nth j minv' None = nth j minv None /\ nth j way' 0 = nth j way 0) /\
  (forall j, In j js -> nth j used false = false ->
      (nth j minv' None = Some (rcost j) /\ nth j way' 0 = j0 /\ z_lt_ez (rcost j) (nth j minv None) = true)
   \/ (nth j minv' None = nth j minv None /\ nth j way' 0 = nth j way 0 /\ z_lt_ez (rcost j) (nth j minv None) = false)) /\
  (forall d, delta' = Some d ->
     (forall d0, delta = Some d0 -> (d <= d0)%Z) /\
     (forall j, In j js -> nth j used false = false -> exists m, nth j minv' None = Some m /\ (d <= m)%Z) /\
     ((delta' = delta /\ j1' = j1) \/ (In j1' js /\ nth j1' used false = false /\ nth j1' minv' None = Some d))).

Lemma scan_num : forall js minv way delta j1 minv' way' delta' j1',
  scan C u v used r j0 js minv way delta j1 = (minv', way', delta', j1') ->
  NoDup js -> (forall j, In j js -> j < length minv /\ j < length way) ->
  scan_num_post js minv way delta j1 minv' way' delta' j1'.
Proof.
  induction js as [|j js IH]; intros minv way delta j1 minv' way' delta' j1' Hs Hnd Hlen.
  - simpl in Hs. inversion Hs; subst. unfold scan_num_post. split; [|split].
    + intros j _. split; reflexivity.
    + intros j [].
    + intros d Hd. split; [|split].
      * intros d0 E. rewrite Hd in E. inversion E. lia.
      * intros j [].
      * left. split; reflexivity.
  - inversion Hnd as [|j' js' Hnin Hnd']; subst.
    simpl in Hs. destruct (nth j used false) eqn:Hu.
    + apply IH in Hs; [|exact Hnd'|intros k Hk; apply Hlen; right; exact Hk].
      destruct Hs as (A & B & D). unfold scan_num_post. split; [|split].
      * intros k [Hk|Hk]; apply A; [left; intros X; apply Hk; right; exact X | right; exact Hk].
      * intros k [<-|Hk] Hku; [congruence | apply B; assumption].
      * intros d Hd. destruct (D d Hd) as (D1 & D2 & D3). split; [exact D1|]. split.
        -- intros k [<-|Hk] Hku; [congruence | apply D2; assumption].
        -- destruct D3 as [D3|(D3 & D4 & D5)]; [left; exact D3 | right; split; [right; exact D3 | split; assumption]].
    + remember (rcost j) as rc.
      assert (Erc : (entry C (r - 1) (j - 1) - nth r u 0 - nth j v 0)%Z = rc) by (subst rc; reflexivity).
      rewrite Erc in Hs.
      remember (z_lt_ez rc (nth j minv None)) as lt.
      remember (if lt then upd minv j (Some rc) else minv) as minv1.
      remember (if lt then upd way j j0 else way) as way1.
      remember (ez_lt (nth j minv1 None) delta) as lt2.
      remember (if lt2 then nth j minv1 None else delta) as delta1.
      remember (if lt2 then j else j1) as j11.
      destruct (Hlen j (or_introl eq_refl)) as [Hjm Hjw].
      assert (Lm1 : length minv1 = length minv) by (subst minv1; destruct lt; [apply upd_length | reflexivity]).
      assert (Lw1 : length way1 = length way) by (subst way1; destruct lt; [apply upd_length | reflexivity]).
      assert (Hoth : forall k, k <> j -> nth k minv1 None = nth k minv None /\ nth k way1 0 = nth k way 0).
      { intros k Hk. subst minv1 way1. destruct lt; [rewrite !nth_upd_other by exact Hk|]; split; reflexivity. }
      assert (Hj : (lt = true /\ nth j minv1 None = Some rc /\ nth j way1 0 = j0)
                   \/ (lt = false /\ nth j minv1 None = nth j minv None /\ nth j way1 0 = nth j way 0)).
      { subst minv1 way1. destruct lt; [left | right]; split; try reflexivity.
        - rewrite !nth_upd_same by assumption. split; reflexivity.
        - split; reflexivity. }
      assert (Hm1 : exists m1, nth j minv1 None = Some m1).
      { destruct Hj as [(_ & E & _)|(E0 & E & _)]; [exists rc; exact E|].
        rewrite E. rewrite E0 in Heqlt. unfold z_lt_ez in Heqlt. destruct (nth j minv None) as [y|]; [exists y; reflexivity | discriminate]. }
      destruct Hm1 as [m1 Em1].
      assert (Hd1 : exists dd, delta1 = Some dd /\ (dd <= m1)%Z /\ (forall d0, delta = Some d0 -> (dd <= d0)%Z)
                               /\ ((lt2 = true /\ dd = m1) \/ (lt2 = false /\ delta1 = delta))).
      { subst delta1. rewrite Em1 in *. destruct lt2.
        - exists m1. split; [reflexivity|]. split; [lia|]. split; [|left; split; reflexivity].
          intros d0 E. rewrite E in Heqlt2. simpl in Heqlt2. symmetry in Heqlt2. apply Z.ltb_lt in Heqlt2. lia.
        - destruct delta as [d0|]; [|simpl in Heqlt2; discriminate].
          simpl in Heqlt2. symmetry in Heqlt2. apply Z.ltb_ge in Heqlt2.
          exists d0. split; [reflexivity|]. split; [lia|]. split; [|right; split; reflexivity].
          intros d0' E. inversion E. lia. }
      destruct Hd1 as (dd & Edd & Hdd1 & Hdd2 & Hdd3).
      apply IH in Hs; [|exact Hnd'|intros k Hk; rewrite Lm1, Lw1; apply Hlen; right; exact Hk].
      destruct Hs as (A & B & D). unfold scan_num_post. split; [|split].
      * intros k Hk.
        assert (Hkj : k <> j) by (intros ->; destruct Hk as [Hk|Hk]; [apply Hk; left; reflexivity | congruence]).
        destruct (A k) as [A1 A2]; [destruct Hk as [Hk|Hk]; [left; intros X; apply Hk; right; exact X | right; exact Hk]|].
        destruct (Hoth k Hkj) as [O1 O2]. split; congruence.
      * intros k [<-|Hk] Hku.
        -- destruct (A j (or_introl Hnin)) as [A1 A2]. rewrite <- Heqrc.
           destruct Hj as [(E0 & E1 & E2)|(E0 & E1 & E2)]; [left | right]; rewrite <- Heqlt, E0; repeat split; congruence.
        -- assert (Hkj : k <> j) by (intros ->; contradiction).
           destruct (Hoth k Hkj) as [O1 O2]. rewrite <- O1, <- O2. apply B; assumption.
      * intros d Hd. destruct (D d Hd) as (D1 & D2 & D3).
        assert (Hdle : (d <= dd)%Z) by (apply D1; exact Edd).
        split; [|split].
        -- intros d0 E. specialize (Hdd2 d0 E). lia.
        -- intros k [<-|Hk] Hku.
           ++ destruct (A j (or_introl Hnin)) as [A1 _]. exists m1. split; [congruence | lia].
           ++ apply D2; assumption.
        -- destruct D3 as [[D3 D4]|(D3 & D4 & D5)].
           ++ destruct Hdd3 as [[L2 Edm]|[L2 Ed]].
              ** right. subst j11. rewrite L2 in D4. subst j1'. split; [left; reflexivity|]. split; [exact Hu|].
                 destruct (A j (or_introl Hnin)) as [A1 _]. rewrite A1, Em1.
                 rewrite D3, Edd in Hd. inversion Hd. congruence.
              ** left. subst j11. rewrite L2 in D4. split; congruence.
           ++ right. split; [right; exact D3 | split; assumption].
Qed.
End ScanNum.

(* ---------- the update loop, exactly *)
Lemma update_num p used d : forall js u v minv u' v' minv',
  update p used d js u v minv = (u', v', minv') ->
  NoDup js ->
  (forall j, In j js -> j < length v /\ j < length minv) ->
  (forall j, In j js -> nth j used false = true -> nth j p 0 < length u) ->
  (forall j k, In j js -> In k js -> nth j used false = true -> nth k used false = true ->
               nth j p 0 = nth k p 0 -> j = k) ->
  (forall j, In j js -> nth j used false = true -> nth (nth j p 0) u' 0%Z = (nth (nth j p 0%nat) u 0 + d)%Z) /\
  (forall r, (forall j, In j js -> nth j used false = true -> nth j p 0 <> r) -> nth r u' 0%Z = nth r u 0%Z) /\
  (forall j, In j js -> nth j used false = true -> nth j v' 0%Z = (nth j v 0 - d)%Z) /\
  (forall j, (~ In j js \/ nth j used false = false) -> nth j v' 0%Z = nth j v 0%Z) /\
  (forall j, In j js -> nth j used false = false -> nth j minv' None = ez_sub (nth j minv None) d) /\
  (forall j, (~ In j js \/ nth j used false = true) -> nth j minv' None = nth j minv None) /\
  length u' = length u /\ length v' = length v.
Proof.
  induction js as [|j js IH]; intros u v minv u' v' minv' H Hnd Hlen Hpl Hinj.
  - simpl in H. inversion H; subst. repeat split; auto; intros j []. 
  - inversion Hnd as [|j' js' Hnin Hnd']; subst. simpl in H.
    destruct (nth j used false) eqn:Hu.
    + set (u1 := upd u (nth j p 0) (nth (nth j p 0%nat) u 0 + d)%Z) in *.
      set (v1 := upd v j (nth j v 0 - d)%Z) in *.
      assert (Hpj : nth j p 0 < length u) by (apply Hpl; [left; reflexivity | exact Hu]).
      destruct (Hlen j (or_introl eq_refl)) as [Hjv Hjm].
      apply IH in H; [|exact Hnd'
                      |intros k Hk; unfold v1; rewrite upd_length; apply Hlen; right; exact Hk
                      |intros k Hk Hku; unfold u1; rewrite upd_length; apply Hpl; [right; exact Hk | exact Hku]
                      |intros a b Ha Hb; apply Hinj; right; assumption].
      destruct H as (U1 & U2 & V1 & V2 & M1 & M2 & L1 & L2).
      unfold u1 in L1. unfold v1 in L2. rewrite upd_length in L1, L2.
      split; [|split; [|split; [|split; [|split; [|split; [|split]]]]]]; try assumption.
      * intros k [<-|Hk] Hku.
        -- rewrite U2; [unfold u1; apply nth_upd_same; exact Hpj|].
           intros k Hk Hku' E. assert (k = j) by (apply Hinj; auto; [right; exact Hk | left; reflexivity]). subst k. contradiction.
        -- rewrite (U1 k Hk Hku). f_equal. unfold u1. apply nth_upd_other.
           intros E. assert (k = j) by (apply Hinj; auto; [right; exact Hk | left; reflexivity]). subst k. contradiction.
      * intros r Hr. rewrite U2 by (intros k Hk Hku; apply Hr; [right; exact Hk | exact Hku]).
        unfold u1. apply nth_upd_other. intros E. apply (Hr j); [left; reflexivity | exact Hu | symmetry; exact E].
      * intros k [<-|Hk] Hku.
        -- rewrite V2 by (left; exact Hnin). unfold v1. apply nth_upd_same. exact Hjv.
        -- rewrite (V1 k Hk Hku). unfold v1. rewrite nth_upd_other; [reflexivity | intros ->; contradiction].
      * intros k Hk. rewrite V2.
        -- unfold v1. apply nth_upd_other. intros ->. destruct Hk as [Hk|Hk]; [apply Hk; left; reflexivity | congruence].
        -- destruct Hk as [Hk|Hk]; [left; intros X; apply Hk; right; exact X | right; exact Hk].
      * intros k [<-|Hk] Hku; [congruence | apply M1; assumption].
      * intros k Hk. destruct (Nat.eq_dec k j) as [->|Hkj].
        -- apply M2. left. exact Hnin.
        -- apply M2. destruct Hk as [Hk|Hk]; [left; intros X; apply Hk; right; exact X | right; exact Hk].
    + destruct (Hlen j (or_introl eq_refl)) as [Hjv Hjm].
      set (minv1 := upd minv j (ez_sub (nth j minv None) d)) in *.
      apply IH in H; [|exact Hnd'
                      |intros k Hk; unfold minv1; rewrite upd_length; apply Hlen; right; exact Hk
                      |intros k Hk Hku; apply Hpl; [right; exact Hk | exact Hku]
                      |intros a b Ha Hb; apply Hinj; right; assumption].
      destruct H as (U1 & U2 & V1 & V2 & M1 & M2 & L1 & L2).
      split; [|split; [|split; [|split; [|split; [|split; [|split]]]]]]; try assumption.
      * intros k [<-|Hk] Hku; [congruence | apply U1; assumption].
      * intros r Hr. apply U2. intros k Hk Hku. apply Hr; [right; exact Hk | exact Hku].
      * intros k [<-|Hk] Hku; [congruence | apply V1; assumption].
      * intros k Hk. destruct (Nat.eq_dec k j) as [->|Hkj].
        -- apply V2. left. exact Hnin.
        -- apply V2. destruct Hk as [Hk|Hk]; [left; intros X; apply Hk; right; exact X | right; exact Hk].
      * intros k [<-|Hk] Hku.
        -- rewrite M2 by (left; exact Hnin). unfold minv1. apply nth_upd_same. exact Hjm.
        -- rewrite (M1 k Hk Hku). unfold minv1. rewrite nth_upd_other; [reflexivity | intros ->; contradiction].
      * intros k Hk. rewrite M2.
        -- unfold minv1. apply nth_upd_other. intros ->. destruct Hk as [Hk|Hk]; [apply Hk; left; reflexivity | congruence].
        -- destruct Hk as [Hk|Hk]; [left; intros X; apply Hk; right; exact X | right; exact Hk].
Qed.
