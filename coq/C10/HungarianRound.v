(* The inner loop maintains dual feasibility, tightness of the matched pairs and of the alternating
   tree edges (augment_path), and the meaning of min_slack. *)
From Coq Require Import List Arith ZArith Bool Lia.
From SV Require Import C10.Hungarian C10.HungarianLists C10.HungarianScan C10.HungarianInner
     C10.HungarianMatching C10.HungarianNum.
Import ListNotations.
Local Open Scope nat_scope.

Definition rc (C : list (list Z)) (u v : list Z) (i j : nat) : Z :=
  (entry C (i - 1) (j - 1) - nth i u 0 - nth j v 0)%Z.

Lemma good_ord_way_in way L : good_ord way L -> forall j, In j L -> j <> 0 -> In (nth j way 0) L.
Proof.
  induction 1 as [|j rest Hj Hn Hin Hg IH]; intros k Hk Hk0.
  - destruct Hk as [<-|[]]. congruence.
  - destruct Hk as [<-|Hk]; [right; exact Hin | right; apply IH; assumption].
Qed.

Lemma good_ord_has0 way L : good_ord way L -> In 0 L.
Proof. induction 1; [left; reflexivity | right; assumption]. Qed.

Lemma image_dec (p : list nat) (l : list nat) (i : nat) :
  (exists k, In k l /\ nth k p 0 = i) \/ (forall k, In k l -> nth k p 0 <> i).
Proof.
  induction l as [|x l IH]; [right; intros k []|].
  destruct (Nat.eq_dec (nth x p 0) i) as [E|E]; [left; exists x; split; [left; reflexivity | exact E]|].
  destruct IH as [(k & Hk & Ek)|IH]; [left; exists k; split; [right; exact Hk | exact Ek]|].
  right. intros k [<-|Hk]; [exact E | apply IH; exact Hk].
Qed.

Section Round.
Variables (C : list (list Z)) (n : nat) (p : list nat).
Hypothesis Hlp : length p = S n.
Hypothesis Pinj : forall j j', j <= n -> j' <= n -> nth j p 0 = nth j' p 0 -> nth j p 0 <> 0 -> j = j'.
Hypothesis Prng : forall j, j <= n -> nth j p 0 <= n.
Hypothesis Hfree : exists j, 1 <= j <= n /\ nth j p 0 = 0.
(* the row being inserted is S i = col_match[0]; the columns 1..n hold rows <= i *)
Variable i : nat.
Hypothesis Hp0 : nth 0 p 0 = S i.
Hypothesis Prow : forall k, 1 <= k <= n -> nth k p 0 <= i.

(* rows whose reduced costs are already non-negative: the rows inserted earlier, and the current row
   as soon as column 0 has been processed (first round) *)
Definition frow (ord : list nat) (r : nat) : Prop := 1 <= r <= i \/ (r = S i /\ In 0 ord).

Definition num_inv (st : istate) (ord : list nat) : Prop :=
  match st with
  | (u, v, minv, way, used, j0) =>
      (length u = S n /\ length v = S n) /\
      (forall r j, frow ord r -> 1 <= j <= n -> (0 <= rc C u v r j)%Z) /\
      (forall j, 1 <= j <= n -> nth j p 0 <> 0 -> rc C u v (nth j p 0) j = 0%Z) /\
      (forall j, In j (j0 :: ord) -> j <> 0 -> rc C u v (nth (nth j way 0) p 0) j = 0%Z) /\
      (forall j, 1 <= j <= n -> nth j used false = false -> forall k, In k ord ->
                 exists m, nth j minv None = Some m /\ (m <= rc C u v (nth k p 0%nat) j)%Z) /\
      (forall j, 1 <= j <= n -> nth j used false = false -> forall m, nth j minv None = Some m ->
                 m = rc C u v (nth (nth j way 0) p 0) j)
  end.

Definition full_inv (st : istate) (ord : list nat) : Prop := inner_inv n p st ord /\ num_inv st ord.

Lemma full_inv_bound st ord : full_inv st ord ->
  NoDup (st_j0 st :: ord) /\ (forall j, In j (st_j0 st :: ord) -> j <= n).
Proof. intros [H _]. apply inner_inv_bound with (p := p). exact H. Qed.

Lemma round_full st ord :
  full_inv st ord -> nth (st_j0 st) p 0 <> 0 ->
  exists st', round C n p st = Some st' /\ full_inv st' (st_j0 st :: ord).
Proof.
  intros [HI HN] Hp.
  destruct (round_inv C n p st ord Hlp Hfree HI Hp) as (st' & Hr & HI').
  exists st'. split; [exact Hr|]. split; [exact HI'|].
  destruct st as [[[[[u v] minv] way] used] j0]. cbn [st_j0] in *.
  unfold round in Hr. set (used1 := upd used j0 true) in *.
  destruct (scan C u v used1 (nth j0 p 0) j0 (seq 1 n) minv way None 0) as [[[minv1 way1] delta] j1] eqn:Hs.
  destruct delta as [d|]; [|discriminate].
  destruct (update p used1 d (seq 0 (S n)) u v minv1) as [[u1 v1] minv2] eqn:Hup.
  inversion Hr; subst st'. clear Hr.
  destruct HN as ((Lu & Lv) & NF & NT & NW & NS1 & NS2).
  pose proof HI as [Lm Lw Lus Hj0 Hj0u Hused Hord Hnd Hchain Hslack]. cbn [st_j0] in *.
  pose proof HI' as [Lm' Lw' Lus' Hj1 Hj1u Hused' Hord' Hnd' Hchain' Hslack']. cbn [st_j0] in *.
  set (ord1 := j0 :: ord) in *.
  assert (Hu1f : forall j, nth j used1 false = false -> nth j used false = false).
  { intros j Hj. destruct (nth j used false) eqn:E; [|reflexivity].
    apply Hused in E. assert (X : nth j used1 false = true) by (apply Hused'; right; exact E). congruence. }
  assert (Hnotin : forall j, ~ In j ord1 -> nth j used1 false = false).
  { intros j Hj. destruct (nth j used1 false) eqn:E; [|reflexivity]. apply Hused' in E. contradiction. }
  assert (Hin1 : forall j, In j ord1 -> nth j used1 false = true) by (intros j Hj; apply Hused'; exact Hj).
  (* scan *)
  pose proof (scan_struct _ _ _ _ _ _ _ _ _ _ _ _ _ _ _ Hs) as Hss.
  destruct Hss as (L1 & L2 & _); [intros j Hj; apply in_seq in Hj; lia|].
  pose proof (scan_num _ _ _ _ _ _ _ _ _ _ _ _ _ _ _ Hs (seq_NoDup n 1)) as Hsn.
  destruct Hsn as (A & B & D); [intros j Hj; apply in_seq in Hj; lia|].
  destruct (D d eq_refl) as (_ & D2 & D3).
  destruct D3 as [[X _]|(Dj1 & Dj1u & Dj1m)]; [discriminate|].
  fold (rc C u v (nth j0 p 0)) in B.
  (* update *)
  pose proof (update_num _ _ _ _ _ _ _ _ _ _ Hup (seq_NoDup (S n) 0)) as Hun.
  destruct Hun as (U1 & U2 & V1 & V2 & M1 & M2 & Lu1 & Lv1).
  { intros j Hj. apply in_seq in Hj. lia. }
  { intros j Hj Hju. apply Hused' in Hju. apply Hord' in Hju. rewrite Lu. specialize (Prng j). lia. }
  { intros j k Hj Hk Hju Hku E. apply Hused' in Hju. apply Hused' in Hku.
    apply Hord' in Hju. apply Hord' in Hku. apply Pinj; tauto. }
  assert (Hseq0 : forall k, In k ord1 -> In k (seq 0 (S n))).
  { intros k Hk. apply Hord' in Hk. apply in_seq. lia. }
  (* how the reduced costs change *)
  assert (R1 : forall k j, In k ord1 -> In j ord1 -> rc C u1 v1 (nth k p 0) j = rc C u v (nth k p 0) j).
  { intros k j Hk Hj. unfold rc. rewrite (U1 k (Hseq0 k Hk) (Hin1 k Hk)), (V1 j (Hseq0 j Hj) (Hin1 j Hj)). lia. }
  assert (R2 : forall k j, In k ord1 -> ~ In j ord1 -> rc C u1 v1 (nth k p 0) j = (rc C u v (nth k p 0%nat) j - d)%Z).
  { intros k j Hk Hj. unfold rc. rewrite (U1 k (Hseq0 k Hk) (Hin1 k Hk)), (V2 j (or_intror (Hnotin j Hj))). lia. }
  assert (R3 : forall r0 j, (forall k, In k ord1 -> nth k p 0 <> r0) -> In j ord1 -> rc C u1 v1 r0 j = (rc C u v r0 j + d)%Z).
  { intros r0 j Hi Hj. unfold rc. rewrite U2, (V1 j (Hseq0 j Hj) (Hin1 j Hj)); [lia|].
    intros k _ Hku. apply Hi. apply Hused'. exact Hku. }
  assert (R4 : forall r0 j, (forall k, In k ord1 -> nth k p 0 <> r0) -> ~ In j ord1 -> rc C u1 v1 r0 j = rc C u v r0 j).
  { intros r0 j Hi Hj. unfold rc. rewrite U2, (V2 j (or_intror (Hnotin j Hj))); [lia|].
    intros k _ Hku. apply Hi. apply Hused'. exact Hku. }
  assert (Hrow : forall k, In k ord1 -> 1 <= nth k p 0 <= n).
  { intros k Hk. destruct (Hord' k Hk) as [Hk1 Hk2]. specialize (Prng k Hk1). lia. }
  (* facts about the scanned slacks *)
  assert (E : forall j, 1 <= j <= n -> nth j used1 false = false ->
            (nth j minv1 None = Some (rc C u v (nth j0 p 0) j) /\ nth j way1 0 = j0
             /\ z_lt_ez (rc C u v (nth j0 p 0) j) (nth j minv None) = true)
            \/ (nth j minv1 None = nth j minv None /\ nth j way1 0 = nth j way 0
             /\ z_lt_ez (rc C u v (nth j0 p 0) j) (nth j minv None) = false)).
  { intros j Hj Hju. apply B; [apply in_seq; lia | exact Hju]. }
  assert (Hh : forall j, 1 <= j <= n -> nth j used1 false = false -> forall m, nth j minv1 None = Some m ->
               m = rc C u v (nth (nth j way1 0) p 0) j).
  { intros j Hj Hju m Em. destruct (E j Hj Hju) as [(E1 & E2 & _)|(E1 & E2 & _)].
    - rewrite E2. congruence.
    - rewrite E2. apply NS2; [exact Hj | apply Hu1f; exact Hju | congruence]. }
  assert (Hg : forall j, 1 <= j <= n -> nth j used1 false = false -> forall k, In k ord1 ->
               exists m, nth j minv1 None = Some m /\ (d <= m)%Z /\ (m <= rc C u v (nth k p 0%nat) j)%Z).
  { intros j Hj Hju k Hk. destruct (D2 j) as (m & Em & Hdm); [apply in_seq; lia | exact Hju|].
    exists m. split; [exact Em|]. split; [exact Hdm|].
    destruct (E j Hj Hju) as [(E1 & E2 & E3)|(E1 & E2 & E3)].
    - rewrite Em in E1. inversion E1; subst m. destruct Hk as [<-|Hk]; [lia|].
      destruct (NS1 j Hj (Hu1f j Hju) k Hk) as (m0 & Em0 & Hm0). rewrite Em0 in E3. simpl in E3.
      apply Z.ltb_lt in E3. lia.
    - rewrite Em in E1. destruct Hk as [<-|Hk].
      + rewrite <- E1 in E3. simpl in E3. apply Z.ltb_ge in E3. lia.
      + destruct (NS1 j Hj (Hu1f j Hju) k Hk) as (m0 & Em0 & Hm0). rewrite Em0 in E1. inversion E1. lia. }
  apply in_seq in Dj1.
  assert (Hord0 : ord <> [] -> In 0 ord).
  { intros Hne. destruct Hchain as [[X _]|(G & _ & _)]; [contradiction | apply (good_ord_has0 way ord G)]. }
  assert (H0in1 : In 0 ord1).
  { destruct Hchain as [[X1 X2]|(G & _ & _)]; [left; exact X2 | right; apply (good_ord_has0 way ord G)]. }
  assert (Himg : ord <> [] -> forall k, In k ord1 -> frow ord (nth k p 0)).
  { intros Hne k Hk. destruct (Nat.eq_dec k 0) as [->|Hk0].
    - right. split; [exact Hp0 | apply Hord0; exact Hne].
    - left. destruct (Hord' k Hk) as [Hk1 Hk2]. specialize (Prow k ltac:(lia)). lia. }
  assert (Hd0 : ord <> [] -> (0 <= d)%Z).
  { intros Hne. pose proof (Hh j1 ltac:(lia) Dj1u d Dj1m) as X. rewrite X.
    assert (Hw : In (nth j1 way1 0) ord1).
    { destruct Hchain' as [[X1 _]|(_ & _ & X1)]; [discriminate | exact X1]. }
    apply NF; [apply Himg; assumption | lia]. }
  assert (Hne1 : forall j, 1 <= j -> In j ord1 -> ord <> []).
  { intros j Hj1' Hjo Hnil. destruct Hchain as [[_ X2]|(G & _ & _)].
    - subst ord. destruct Hjo as [X|[]]. lia.
    - subst ord. inversion G. }
  assert (Hway_used : forall j, In j ord1 -> nth j way1 0 = nth j way 0).
  { intros j Hj. apply A. right. apply Hin1. exact Hj. }
  assert (Hway_in : forall j, In j ord1 -> j <> 0 -> In (nth j way 0) ord1).
  { intros j [<-|Hj] Hj0'.
    - destruct Hchain as [[_ X]|(_ & _ & X)]; [congruence | right; exact X].
    - destruct Hchain as [[X _]|(G & _ & _)]; [subst ord; destruct Hj | right; apply (good_ord_way_in way ord G j Hj Hj0')]. }
  (* the new invariant *)
  split; [split; congruence|]. split; [|split; [|split; [|split]]].
  - intros r j Hr Hj. destruct (image_dec p ord1 r) as [(k & Hk & <-)|Hi'];
      destruct (in_dec Nat.eq_dec j ord1) as [Hjo|Hjo].
    + rewrite R1 by assumption. apply NF; [apply Himg; [apply (Hne1 j); [lia | exact Hjo] | exact Hk] | exact Hj].
    + rewrite R2 by assumption. destruct (Hg j Hj (Hnotin j Hjo) k Hk) as (m & _ & H1 & H2). lia.
    + assert (Hne : ord <> []) by (apply (Hne1 j); [lia | exact Hjo]).
      assert (Hr' : frow ord r).
      { destruct Hr as [Hr|[Hr _]]; [left; exact Hr|]. exfalso. apply (Hi' 0 H0in1). congruence. }
      rewrite R3 by assumption. specialize (NF r j Hr' Hj). specialize (Hd0 Hne). lia.
    + assert (Hr' : frow ord r).
      { destruct Hr as [Hr|[Hr _]]; [left; exact Hr|]. exfalso. apply (Hi' 0 H0in1). congruence. }
      rewrite R4 by assumption. apply NF; assumption.
  - intros j Hj Hpj. destruct (in_dec Nat.eq_dec j ord1) as [Hjo|Hjo].
    + rewrite R1 by assumption. apply NT; assumption.
    + rewrite R4; [apply NT; assumption | | exact Hjo].
      intros k Hk E'. apply Hjo. replace j with k; [exact Hk|].
      apply Pinj; [apply Hord'; exact Hk | lia | exact E' | apply Hord'; exact Hk].
  - intros j [<-|Hj] Hj0'.
    + assert (Hw : In (nth j1 way1 0) ord1).
      { destruct Hchain' as [[X1 _]|(_ & _ & X1)]; [discriminate | exact X1]. }
      assert (Hj1o : ~ In j1 ord1) by (intros X; apply Hin1 in X; congruence).
      rewrite R2 by assumption. rewrite <- (Hh j1 ltac:(lia) Dj1u d Dj1m). lia.
    + rewrite (Hway_used j Hj). rewrite R1; [|apply Hway_in; assumption | exact Hj].
      apply NW; assumption.
  - intros j Hj Hju k Hk.
    assert (Hjo : ~ In j ord1) by (intros X; apply Hin1 in X; congruence).
    destruct (Hg j Hj Hju k Hk) as (m & Em & H1 & H2).
    exists (m - d)%Z. split.
    + rewrite (M1 j); [rewrite Em; reflexivity | apply in_seq; lia | exact Hju].
    + rewrite R2 by assumption. lia.
  - intros j Hj Hju m Em.
    assert (Hjo : ~ In j ord1) by (intros X; apply Hin1 in X; congruence).
    rewrite (M1 j) in Em; [|apply in_seq; lia | exact Hju].
    destruct (nth j minv1 None) as [m1|] eqn:Em1; [|discriminate]. simpl in Em. inversion Em; subst m.
    assert (Hw : In (nth j way1 0) ord1).
    { apply Hslack'; [exact Hju|]. rewrite (M1 j); [rewrite Em1; discriminate | apply in_seq; lia | exact Hju]. }
    rewrite R2 by assumption. rewrite <- (Hh j Hj Hju m1 Em1). reflexivity.
Qed.
End Round.
