(* From the final col_match (a bijection between rows 1..n and columns 1..n of the padded matrix) to the
   returned assignment: matching_spec, and the objective is the sum of the chosen original entries. *)
From Coq Require Import List Arith ZArith Bool Lia.
From SV Require Import C10.Hungarian C10.HungarianSpec C10.HungarianLists C10.HungarianScan
     C10.HungarianInner C10.HungarianMatching.
Import ListNotations.
Local Open Scope nat_scope.

Section Extract.
Variables (p : list nat) (nr nc : nat).

(* column j (1-based) is written into position i (0-based row) of the assignment *)
Definition good (j i : nat) : Prop := nth j p 0 = S i /\ j <= nc.

Lemma good_dec j i : {good j i} + {~ good j i}.
Proof.
  unfold good. destruct (Nat.eq_dec (nth j p 0) (S i)); destruct (le_dec j nc); try (left; tauto); right; tauto.
Qed.

Lemma extract_step_length a j : length (extract_step p nr nc a j) = length a.
Proof. unfold extract_step. destruct (_ && _); [apply upd_length | reflexivity]. Qed.

Lemma extract_fold_length : forall js a, length (fold_left (extract_step p nr nc) js a) = length a.
Proof.
  induction js as [|j js IH]; intros a; simpl; [reflexivity|]. rewrite IH. apply extract_step_length.
Qed.

Lemma extract_step_nth a j i : length a = nr -> i < nr ->
  nth i (extract_step p nr nc a j) (-1)%Z = if good_dec j i then Z.of_nat (j - 1) else nth i a (-1)%Z.
Proof.
  intros Hl Hi. unfold extract_step.
  destruct (good_dec j i) as [[G1 G2]|G].
  - rewrite G1.
    assert (X : negb (S i =? 0) && (S i <=? nr) && (j <=? nc) = true).
    { apply andb_true_intro. split; [apply andb_true_intro; split|].
      - reflexivity.
      - apply Nat.leb_le. lia.
      - apply Nat.leb_le. exact G2. }
    rewrite X. replace (S i - 1) with i by lia. apply nth_upd_same. lia.
  - destruct (negb (nth j p 0 =? 0) && (nth j p 0 <=? nr) && (j <=? nc)) eqn:E; [|reflexivity].
    rewrite !andb_true_iff in E. destruct E as [[E1 E2] E3].
    apply negb_true_iff, Nat.eqb_neq in E1. apply Nat.leb_le in E2, E3.
    apply nth_upd_other. intros X. apply G. split; [lia | exact E3].
Qed.

Lemma extract_fold_char : forall js a, length a = nr -> forall i, i < nr ->
  (nth i (fold_left (extract_step p nr nc) js a) (-1)%Z = nth i a (-1)%Z /\ (forall j, In j js -> ~ good j i))
  \/ (exists j, In j js /\ good j i /\ nth i (fold_left (extract_step p nr nc) js a) (-1)%Z = Z.of_nat (j - 1)).
Proof.
  induction js as [|j js IH]; intros a Hl i Hi; simpl.
  - left. split; [reflexivity | intros j []].
  - destruct (IH (extract_step p nr nc a j) (eq_trans (extract_step_length a j) Hl) i Hi)
      as [[E Hno]|(j' & Hj' & G & E)].
    + rewrite (extract_step_nth a j i Hl Hi) in E. destruct (good_dec j i) as [G|G].
      * right. exists j. split; [left; reflexivity|]. split; [exact G | exact E].
      * left. split; [exact E|]. intros k [<-|Hk]; [exact G | apply Hno; exact Hk].
    + right. exists j'. split; [right; exact Hj'|]. split; [exact G | exact E].
Qed.
End Extract.

(* ---------- generic facts about assignments *)
Lemma nodup_assigned (a : list Z) :
  (forall i i', i < length a -> i' < length a -> i <> i' -> nth i a (-1)%Z <> (-1)%Z ->
                nth i a (-1)%Z <> nth i' a (-1)%Z) ->
  NoDup (assigned a).
Proof.
  induction a as [|x t IH]; intros H; [constructor|].
  assert (Ht : NoDup (assigned t)).
  { apply IH. intros i i' Hi Hi' Hne Hx. apply (H (S i) (S i')); simpl; solve [lia | exact Hx]. }
  unfold assigned in *. simpl. destruct (x =? -1)%Z eqn:Ex; simpl; [exact Ht|].
  constructor; [|exact Ht].
  intros Hin. apply filter_In in Hin. destruct Hin as [Hin _].
  destruct (In_nth _ _ (-1)%Z Hin) as (i' & Hi' & E).
  apply Z.eqb_neq in Ex. apply (H 0 (S i')); simpl; solve [lia | exact Ex | symmetry; exact E].
Qed.

Lemma assigned_all (a : list Z) : (forall x, In x a -> x <> (-1)%Z) -> assigned a = a.
Proof.
  induction a as [|x t IH]; intros H; [reflexivity|].
  unfold assigned in *. simpl.
  assert (Hx : (x =? -1)%Z = false) by (apply Z.eqb_neq; apply H; left; reflexivity).
  rewrite Hx. simpl. f_equal. apply IH. intros y Hy. apply H. right. exact Hy.
Qed.

(* ---------- the extracted assignment is a matching of size min(rows, cols) *)
Lemma extract_matching n p nr nc :
  n = Nat.max nr nc -> hole_inv n n p 0 ->
  let a := extract p nr nc n in
  length a = nr /\
  Forall (fun x => x = (-1)%Z \/ (0 <= x < Z.of_nat nc)%Z) a /\
  NoDup (assigned a) /\
  length (assigned a) = Nat.min nr nc.
Proof.
  intros Hn Hh a.
  pose proof Hh as [Hl Hinj Hsur Hle].
  assert (La : length a = nr) by (unfold a, extract; rewrite extract_fold_length; apply repeat_length).
  assert (Hchar : forall i, i < nr ->
            (nth i a (-1)%Z = (-1)%Z /\ (forall j, In j (seq 1 n) -> ~ good p nc j i))
            \/ (exists j, In j (seq 1 n) /\ good p nc j i /\ nth i a (-1)%Z = Z.of_nat (j - 1))).
  { intros i Hi. unfold a, extract.
    destruct (extract_fold_char p nr nc (seq 1 n) (repeat (-1)%Z nr) (repeat_length _ _) i Hi) as [[E Hno]|R].
    - left. split; [rewrite E; apply nth_repeat_any | exact Hno].
    - right. exact R. }
  assert (Hrange : forall i, i < nr -> nth i a (-1)%Z = (-1)%Z \/ (0 <= nth i a (-1)%Z < Z.of_nat nc)%Z).
  { intros i Hi. destruct (Hchar i Hi) as [[E _]|(j & Hj & [G1 G2] & E)]; [left; exact E|].
    right. rewrite E. apply in_seq in Hj. lia. }
  assert (Hnd : NoDup (assigned a)).
  { apply nodup_assigned. rewrite La. intros i i' Hi Hi' Hne Hx E.
    destruct (Hchar i Hi) as [[X _]|(j & Hj & [G1 G2] & Ej)]; [congruence|].
    destruct (Hchar i' Hi') as [[X _]|(j' & Hj' & [G1' G2'] & Ej')]; [congruence|].
    apply in_seq in Hj. apply in_seq in Hj'.
    assert (j = j') by lia. subst j'. rewrite G1 in G1'. lia. }
  split; [exact La|]. split; [|split; [exact Hnd|]].
  - apply Forall_nth. intros i d Hi. rewrite La in Hi.
    rewrite (nth_indep a d (-1)%Z) by lia. apply Hrange. exact Hi.
  - destruct (Nat.le_gt_cases nr nc) as [Hc|Hc].
    + (* rows <= cols: every row is assigned *)
      rewrite Nat.min_l by exact Hc.
      rewrite assigned_all; [exact La|].
      intros x Hx. destruct (In_nth _ _ (-1)%Z Hx) as (i & Hi & <-). rewrite La in Hi.
      destruct (Hchar i Hi) as [[_ Hno]|(j & Hj & _ & E)].
      * exfalso. destruct (Hsur (S i)) as (j & Hj & Hj0 & E); [lia|].
        apply (Hno j); [apply in_seq; lia | split; [exact E | lia]].
      * rewrite E. lia.
    + (* cols < rows: the assigned entries are exactly the columns 0..nc-1 *)
      rewrite Nat.min_r by lia.
      assert (I1 : incl (assigned a) (map Z.of_nat (seq 0 nc))).
      { intros x Hx. unfold assigned in Hx. apply filter_In in Hx. destruct Hx as [Hx Hx1].
        apply negb_true_iff, Z.eqb_neq in Hx1.
        destruct (In_nth _ _ (-1)%Z Hx) as (i & Hi & <-). rewrite La in Hi.
        destruct (Hrange i Hi) as [X|X]; [congruence|].
        apply in_map_iff. exists (Z.to_nat (nth i a (-1)%Z)). split; [lia | apply in_seq; lia]. }
      assert (I2 : incl (map Z.of_nat (seq 0 nc)) (assigned a)).
      { intros x Hx. apply in_map_iff in Hx. destruct Hx as (c & <- & Hc0). apply in_seq in Hc0.
        assert (Hj : 1 <= S c <= n) by lia.
        pose proof (all_matched n p Hh (S c) Hj) as Hnz.
        assert (Hr : nth (S c) p 0 <= n) by (apply Hle; lia).
        set (i := nth (S c) p 0 - 1).
        assert (Hi : i < nr) by (unfold i; lia).
        assert (G : good p nc (S c) i) by (unfold good, i; split; lia).
        destruct (Hchar i Hi) as [[_ Hno]|(j & Hj' & [G1 G2] & E)].
        - exfalso. apply (Hno (S c)); [apply in_seq; lia | exact G].
        - apply in_seq in Hj'. destruct G as [G1' _].
          assert (j = S c) by (apply Hinj; try lia; congruence). subst j.
          unfold assigned. apply filter_In. split.
          + replace (Z.of_nat c) with (nth i a (-1)%Z) by (rewrite E; f_equal; lia).
            apply nth_In. lia.
          + apply negb_true_iff, Z.eqb_neq. lia. }
      assert (N2 : NoDup (map Z.of_nat (seq 0 nc))).
      { apply NoDup_map_on; [apply seq_NoDup|]. intros x y _ _ E. lia. }
      pose proof (NoDup_incl_length Hnd I1) as H1.
      pose proof (NoDup_incl_length N2 I2) as H2.
      rewrite map_length, seq_length in H1, H2. lia.
Qed.

(* which cell of the original matrix the assignment picks in row i *)
Lemma extract_char n p nr nc :
  n = Nat.max nr nc -> hole_inv n n p 0 ->
  forall i c, i < nr -> c < nc ->
  (nth i (extract p nr nc n) (-1)%Z = Z.of_nat c <-> nth (S c) p 0 = S i).
Proof.
  intros Hn Hh i c Hi Hc. pose proof Hh as [Hl Hinj Hsur Hle].
  unfold extract.
  destruct (extract_fold_char p nr nc (seq 1 n) (repeat (-1)%Z nr) (repeat_length _ _) i Hi)
    as [[E Hno]|(j & Hj & [G1 G2] & E)].
  - rewrite E, nth_repeat_any. split; [lia|].
    intros G. exfalso. apply (Hno (S c)); [apply in_seq; lia | split; [exact G | lia]].
  - rewrite E. apply in_seq in Hj. split.
    + intros X. assert (j = S c) by lia. subst j. exact G1.
    + intros G. assert (j = S c) by (apply Hinj; try lia; congruence). subst j. f_equal. lia.
Qed.

(* ---------- lines 122-125: the objective *)
Lemma total_cost_from M nc : forall a i acc,
  Forall (fun x => x = (-1)%Z \/ (0 <= x < Z.of_nat nc)%Z) a ->
  fold_left (total_step M nc) (combine (seq i (length a)) a) acc = (acc + cost_from M i a)%Z.
Proof.
  induction a as [|x t IH]; intros i acc H; [simpl; lia|].
  inversion H as [|x' t' Hx Ht]; subst.
  cbn [length seq combine fold_left cost_from].
  rewrite IH by exact Ht. unfold total_step.
  destruct (x =? -1)%Z eqn:E; simpl.
  - lia.
  - apply Z.eqb_neq in E. assert (Hlt : (x <? Z.of_nat nc)%Z = true) by (apply Z.ltb_lt; lia).
    rewrite Hlt. lia.
Qed.

Lemma total_cost_spec M a :
  Forall (fun x => x = (-1)%Z \/ (0 <= x < Z.of_nat (n_cols M))%Z) a -> total_cost M a = cost_of M a.
Proof. intros H. unfold total_cost, cost_of. rewrite total_cost_from by exact H. lia. Qed.

(* ---------- matrices without columns: every row stays unassigned *)
Lemma assigned_repeat k : assigned (repeat (-1)%Z k) = [].
Proof. induction k as [|k IH]; [reflexivity | exact IH]. Qed.

Lemma cost_from_repeat M k : forall i, cost_from M i (repeat (-1)%Z k) = 0%Z.
Proof. induction k as [|k IH]; intros i; simpl; [reflexivity | rewrite IH; reflexivity]. Qed.

Lemma zero_cols_matching M : n_cols M = 0 -> matching_spec M (repeat (-1)%Z (n_rows M)).
Proof.
  intros H. constructor.
  - apply repeat_length.
  - apply Forall_forall. intros x Hx. apply repeat_spec in Hx. left. exact Hx.
  - rewrite assigned_repeat. constructor.
  - rewrite assigned_repeat, H, Nat.min_0_r. reflexivity.
Qed.

Lemma zero_cols_cost M b : n_cols M = 0 -> matching_spec M b -> cost_of M b = 0%Z.
Proof.
  intros H [_ Hr _ _]. rewrite H in Hr. unfold cost_of. generalize 0 as i.
  induction b as [|x t IH]; intros i; simpl; [reflexivity|].
  inversion Hr as [|x' t' Hx Ht]; subst.
  assert (x = (-1)%Z) by (simpl in Hx; lia). subst x. simpl. apply IH. exact Ht.
Qed.

(* ---------- solve_hungarian: always returns, the result is a matching, the objective is its cost *)
Lemma solve_shape M minimize :
  exists a, solve M minimize = Some (a, cost_of M a) /\ matching_spec M a.
Proof.
  destruct M as [|[|x r] rest].
  - exists []. split; [reflexivity|]. constructor; simpl; constructor.
  - exists (repeat (-1)%Z (n_rows ([] :: rest))). split.
    + unfold solve, solve_gen, cost_of. rewrite cost_from_repeat. reflexivity.
    + apply zero_cols_matching. reflexivity.
  - set (M := (x :: r) :: rest) in *.
    unfold solve, solve_gen. fold M.
    destruct (core_ok (padded M minimize) (Nat.max (n_rows M) (n_cols M))) as ([[[u v] p] way] & E & [Hh _]).
    rewrite E.
    destruct (extract_matching _ p (n_rows M) (n_cols M) eq_refl Hh) as (H1 & H2 & H3 & H4).
    exists (extract p (n_rows M) (n_cols M) (Nat.max (n_rows M) (n_cols M))). split.
    + rewrite total_cost_spec by exact H2. reflexivity.
    + constructor; assumption.
Qed.
