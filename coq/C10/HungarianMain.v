(* Statements of the C10 theorems in the form used by Props/C10.v. *)
From Coq Require Import List Arith ZArith Bool Lia.
From SV Require Import C10.Hungarian C10.HungarianSpec C10.HungarianMatching C10.HungarianExtract
     C10.HungarianCert C10.HungarianPad C10.HungarianGlue.
Import ListNotations.
Local Open Scope Z_scope.

Lemma matching_lemma : forall M minimize,
  exists a c, solve M minimize = Some (a, c) /\ matching_spec M a.
Proof.
  intros M mz. destruct (solve_shape M mz) as (a & E & Hm). exists a, (cost_of M a). split; assumption.
Qed.

Lemma objective_lemma : forall M minimize a c,
  solve M minimize = Some (a, c) -> objective_spec M (a, c).
Proof.
  intros M mz a c E. destruct (solve_shape M mz) as (a' & E' & _).
  rewrite E in E'. inversion E'; subst. reflexivity.
Qed.

(* the behaviour before fix 05cf383 (solve_pinned): r > 0 rows of length 0 gave [] instead of [-1]*r *)
Lemma zero_cols_pinned_refuted_lemma :
  exists M, wf M = true /\ has_cols M = false /\
            exists a c, solve_pinned M true = Some (a, c) /\ ~ matching_spec M a.
Proof.
  exists [[]; []]. split; [reflexivity|]. split; [reflexivity|].
  exists [], 0. split; [reflexivity|]. intros [Hl _ _ _]. simpl in Hl. discriminate.
Qed.

Lemma pad_ok_lemma : forall M m a,
  represents M m a ->
  (forall m', pmatch (Nat.max (n_rows M) (n_cols M)) m' -> mcost (padded M true) m <= mcost (padded M true) m') ->
  forall b, matching_spec M b -> cost_of M a <= cost_of M b.
Proof. intros M m a Hr Ho b Hb. exact (pad_max_ok M true m a Hr Ho b Hb). Qed.

Lemma max_ok_lemma : forall M m a,
  represents M m a ->
  (forall m', pmatch (Nat.max (n_rows M) (n_cols M)) m' -> mcost (padded M false) m <= mcost (padded M false) m') ->
  forall b, matching_spec M b -> cost_of M b <= cost_of M a.
Proof. intros M m a Hr Ho b Hb. exact (pad_max_ok M false m a Hr Ho b Hb). Qed.

