(* The outer loop of solve_hungarian keeps col_match a partial injection that matches rows 1..i;
   the augmenting walk terminates within fuel n+1.  No arithmetic on the costs here. *)
From Coq Require Import List Arith ZArith Bool Lia.
From SV Require Import C10.Hungarian C10.HungarianLists C10.HungarianScan C10.HungarianInner.
Import ListNotations.
Local Open Scope nat_scope.

(* col_match restricted to the columns 0..n other than the "hole" c is injective on non-zero rows,
   covers the rows 1..i and has no other rows.  With c = 0 this is the loop invariant of the outer loop. *)
Record hole_inv (n i : nat) (p : list nat) (c : nat) : Prop := {
  hi_len : length p = S n;
  hi_inj : forall j j', j <= n -> j' <= n -> j <> c -> j' <> c ->
                        nth j p 0 = nth j' p 0 -> nth j p 0 <> 0 -> j = j';
  hi_sur : forall r, 1 <= r <= i -> exists j, j <= n /\ j <> c /\ nth j p 0 = r;
  hi_le : forall j, j <= n -> j <> c -> nth j p 0 <= i
}.

Lemma hole_step n i p c w :
  hole_inv n i p c -> c <= n -> w <= n -> w <> c ->
  hole_inv n i (upd p c (nth w p 0)) w.
Proof.
  intros [Hl Hinj Hsur Hle] Hc Hw Hwc.
  assert (Hsame : nth c (upd p c (nth w p 0)) 0 = nth w p 0) by (apply nth_upd_same; lia).
  assert (Hoth : forall j, j <> c -> nth j (upd p c (nth w p 0)) 0 = nth j p 0)
    by (intros j Hj; apply nth_upd_other; exact Hj).
  constructor.
  - rewrite upd_length. exact Hl.
  - intros j j' Hj Hj' Hjw Hj'w E Hnz.
    destruct (Nat.eq_dec j c) as [->|Hjc]; destruct (Nat.eq_dec j' c) as [->|Hj'c]; try reflexivity.
    + rewrite Hsame, (Hoth j' Hj'c) in E. rewrite Hsame in Hnz.
      exfalso. apply Hj'w. symmetry. apply Hinj; auto.
    + rewrite Hsame, (Hoth j Hjc) in E. rewrite (Hoth j Hjc) in Hnz.
      exfalso. apply Hjw. apply Hinj; auto.
    + rewrite (Hoth j Hjc), (Hoth j' Hj'c) in E. rewrite (Hoth j Hjc) in Hnz. apply Hinj; auto.
  - intros r Hr. destruct (Hsur r Hr) as (j & Hj & Hjc & E).
    destruct (Nat.eq_dec j w) as [->|Hjw].
    + exists c. repeat split; [exact Hc | congruence | rewrite Hsame; exact E].
    + exists j. repeat split; [exact Hj | exact Hjw | rewrite (Hoth j Hjc); exact E].
  - intros j Hj Hjw. destruct (Nat.eq_dec j c) as [->|Hjc].
    + rewrite Hsame. apply Hle; auto.
    + rewrite (Hoth j Hjc). apply Hle; auto.
Qed.

(* lines 112-115 *)
Lemma augment_ok n i way : forall m c rest p f,
  length rest < m -> good_ord way (c :: rest) -> (forall j, In j (c :: rest) -> j <= n) ->
  hole_inv n i p c -> f > length rest ->
  exists p', augment f way p c = Some p' /\ hole_inv n i p' 0.
Proof.
  induction m as [|m IH]; intros c rest p f Hm Hg Hb Hh Hf; [lia|].
  destruct f as [|f]; [lia|]. simpl.
  destruct (c =? 0) eqn:Ec.
  - apply Nat.eqb_eq in Ec. subst c. exists p. split; [reflexivity | exact Hh].
  - apply Nat.eqb_neq in Ec.
    inversion Hg as [|c' rest' Hc0 Hnin Hin Hg']; subst; [congruence|].
    destruct (good_ord_suffix _ _ Hg' _ Hin) as (L1 & L2 & E & G).
    assert (Hlen : length L2 < length rest) by (rewrite E, app_length; simpl; lia).
    apply (IH (nth c way 0) L2); try lia; try exact G.
    + intros j Hj. apply Hb. right. rewrite E. apply in_or_app. right. exact Hj.
    + apply hole_step; auto.
      * apply Hb. left. reflexivity.
      * apply Hb. right. exact Hin.
      * intros X. apply Hnin. rewrite <- X. exact Hin.
Qed.

(* ---------- pigeonhole helpers *)
Lemma NoDup_map_on {A B} (f : A -> B) l :
  NoDup l -> (forall x y, In x l -> In y l -> f x = f y -> x = y) -> NoDup (map f l).
Proof.
  induction 1 as [|x l Hn Hd IH]; intros Hinj; simpl; constructor.
  - intros Hin. apply in_map_iff in Hin. destruct Hin as (y & E & Hy).
    assert (y = x) by (apply Hinj; [right; exact Hy | left; reflexivity | exact E]). subst y. contradiction.
  - apply IH. intros a b Ha Hb. apply Hinj; right; assumption.
Qed.

Lemma find_zero (f : nat -> nat) l : (forall j, In j l -> f j <> 0) \/ (exists j, In j l /\ f j = 0).
Proof.
  induction l as [|x l IH]; [left; intros j []|].
  destruct (Nat.eq_dec (f x) 0) as [E|E]; [right; exists x; split; [left; reflexivity | exact E]|].
  destruct IH as [IH|(j & Hj & Ej)].
  - left. intros j [<-|Hj]; [exact E | apply IH; exact Hj].
  - right. exists j. split; [right; exact Hj | exact Ej].
Qed.

(* fewer rows matched than columns: some column 1..n is free *)
Lemma free_column n i p : hole_inv n i p 0 -> i < n -> exists j, 1 <= j <= n /\ nth j p 0 = 0.
Proof.
  intros [Hl Hinj Hsur Hle] Hi.
  destruct (find_zero (fun j => nth j p 0) (seq 1 n)) as [Hall|(j & Hj & E)].
  - exfalso.
    assert (Hnd : NoDup (map (fun j => nth j p 0) (seq 1 n))).
    { apply NoDup_map_on; [apply seq_NoDup|].
      intros x y Hx Hy E. apply in_seq in Hx. apply in_seq in Hy.
      apply Hinj; try lia. apply Hall. apply in_seq. lia. }
    assert (Hincl : incl (map (fun j => nth j p 0) (seq 1 n)) (seq 1 i)).
    { intros r Hr. apply in_map_iff in Hr. destruct Hr as (j & <- & Hj).
      specialize (Hall j Hj). apply in_seq in Hj. apply in_seq.
      assert (nth j p 0 <= i) by (apply Hle; lia). lia. }
    pose proof (NoDup_incl_length Hnd Hincl) as Hlen.
    rewrite map_length, !seq_length in Hlen. lia.
  - exists j. apply in_seq in Hj. split; [lia | exact E].
Qed.

(* all n rows matched: every column 1..n is matched *)
Lemma all_matched n p : hole_inv n n p 0 -> forall j, 1 <= j <= n -> nth j p 0 <> 0.
Proof.
  intros [Hl Hinj Hsur Hle] j Hj E.
  set (L := seq 1 (j - 1) ++ seq (S j) (n - j)).
  assert (Hincl : incl (seq 1 n) (map (fun k => nth k p 0) L)).
  { intros r Hr. apply in_seq in Hr. destruct (Hsur r) as (k & Hk & Hk0 & Ek); [lia|].
    apply in_map_iff. exists k. split; [exact Ek|].
    assert (k <> j) by (intros ->; lia).
    unfold L. apply in_or_app. destruct (Nat.lt_ge_cases k j); [left | right]; apply in_seq; lia. }
  pose proof (NoDup_incl_length (seq_NoDup n 1) Hincl) as Hlen.
  unfold L in Hlen. rewrite map_length, app_length, !seq_length in Hlen. lia.
Qed.

(* ---------- one iteration of the outer loop (lines 80-115) *)
Definition outer_inv (n i : nat) (st : hstate) : Prop :=
  match st with (u, v, p, way) => hole_inv n i p 0 /\ length way = S n end.

Lemma outer_step_ok C n i st :
  outer_inv n i st -> i < n ->
  exists st', outer_step C n (Some st) (S i) = Some st' /\ outer_inv n (S i) st'.
Proof.
  destruct st as [[[u v] p] way]. intros [Hh Hlw] Hi.
  pose proof Hh as [Hl Hinj Hsur Hle].
  set (p0 := upd p 0 (S i)).
  assert (Hl0 : length p0 = S n) by (unfold p0; rewrite upd_length; exact Hl).
  assert (Hp00 : nth 0 p0 0 = S i) by (unfold p0; apply nth_upd_same; lia).
  assert (Hp0j : forall j, j <> 0 -> nth j p0 0 = nth j p 0) by (intros j Hj; unfold p0; apply nth_upd_other; exact Hj).
  assert (Hfree : exists j, 1 <= j <= n /\ nth j p0 0 = 0).
  { destruct (free_column n i p Hh Hi) as (j & Hj & E). exists j. split; [exact Hj|]. rewrite Hp0j by lia. exact E. }
  set (st0 := (u, v, repeat (@None Z) (S n), way, repeat false (S n), 0) : istate).
  assert (HI0 : inner_inv n p0 st0 []).
  { constructor; unfold st0; cbn [st_j0].
    - apply repeat_length.
    - exact Hlw.
    - apply repeat_length.
    - lia.
    - apply nth_repeat_any.
    - intros j. rewrite nth_repeat_any. simpl. split; [discriminate | tauto].
    - intros j [].
    - constructor.
    - left. split; reflexivity.
    - intros j _ Hm. exfalso. apply Hm. apply (nth_repeat_any (@None Z)). }
  destruct (inner_generic C n p0 (inner_inv n p0) (inner_inv_bound n p0)
              (fun st ord => round_inv C n p0 st ord Hl0 Hfree) (S n) st0 [] HI0) as (st' & ord' & Hrun & Hend & HI');
    [simpl; lia|].
  destruct st' as [[[[[u1 v1] minv1] way1] used1] jf].
  pose proof (inner_inv_bound _ _ _ _ HI') as [Hnd Hb].
  destruct HI' as [_ Lw' _ Hjf _ _ _ _ Hchain _]. cbn [st_j0 st_out] in *.
  assert (Hjf0 : jf <> 0) by (intros ->; rewrite Hp00 in Hend; discriminate).
  destruct Hchain as [[_ X]|(G & _ & Hin)]; [congruence|].
  assert (Gf : good_ord way1 (jf :: ord')).
  { constructor; auto. inversion Hnd; assumption. }
  assert (Hh0 : hole_inv n (S i) p0 jf).
  { constructor.
    - exact Hl0.
    - intros j j' Hj Hj' Hjc Hj'c E Hnz.
      destruct (Nat.eq_dec j 0) as [->|J0]; destruct (Nat.eq_dec j' 0) as [->|J'0]; try reflexivity.
      + rewrite Hp00, (Hp0j j' J'0) in E. assert (nth j' p 0 <= i) by (apply Hle; lia). lia.
      + rewrite Hp00, (Hp0j j J0) in E. assert (nth j p 0 <= i) by (apply Hle; lia). lia.
      + rewrite (Hp0j j J0), (Hp0j j' J'0) in E. rewrite (Hp0j j J0) in Hnz. apply Hinj; auto.
    - intros r Hr. destruct (Nat.eq_dec r (S i)) as [->|Hne].
      + exists 0. repeat split; [lia | congruence | exact Hp00].
      + destruct (Hsur r) as (j & Hj & Hj0 & E); [lia|].
        exists j. repeat split; [exact Hj | | rewrite (Hp0j j Hj0); exact E].
        intros ->. rewrite (Hp0j jf Hjf0) in Hend. lia.
    - intros j Hj Hjc. destruct (Nat.eq_dec j 0) as [->|J0]; [rewrite Hp00; lia|].
      rewrite (Hp0j j J0). assert (nth j p 0 <= i) by (apply Hle; lia). lia. }
  pose proof (nodup_bounded_length _ n Hnd Hb) as Hlen. simpl in Hlen.
  destruct (augment_ok n (S i) way1 (S (length ord')) jf ord' p0 (S n)) as (p1 & Ha & Hh1); auto; try lia.
  exists (u1, v1, p1, way1). split; [|split; assumption].
  unfold outer_step. fold p0.
  change (inner (S n) C n p0 u v (repeat None (S n)) way (repeat false (S n)) 0) with (inner_st (S n) C n p0 st0).
  rewrite Hrun. rewrite Ha. reflexivity.
Qed.

Lemma init_inv n : outer_inv n 0 (init_state n).
Proof.
  unfold init_state, outer_inv. split; [|apply repeat_length].
  constructor.
  - apply repeat_length.
  - intros j j' _ _ _ _ _ Hnz. rewrite nth_repeat_any in Hnz. congruence.
  - intros r Hr. lia.
  - intros j _ _. rewrite nth_repeat_any. lia.
Qed.

Lemma core_prefix_ok C n : forall k, k <= n ->
  exists st, fold_left (outer_step C n) (seq 1 k) (Some (init_state n)) = Some st /\ outer_inv n k st.
Proof.
  induction k as [|k IH]; intros Hk.
  - exists (init_state n). split; [reflexivity | apply init_inv].
  - destruct IH as (st & E & HI); [lia|].
    destruct (outer_step_ok C n k st HI) as (st' & E' & HI'); [lia|].
    exists st'. split; [|exact HI'].
    rewrite seq_S, fold_left_app, E. simpl. exact E'.
Qed.

Lemma core_ok C n : exists st, core C n = Some st /\ outer_inv n n st.
Proof. apply core_prefix_ok. lia. Qed.
