(* List lemmas used by the C10 proofs: upd / nth, pigeonhole helpers. *)
From Coq Require Import List Arith ZArith Bool Lia Permutation.
From SV Require Import C10.Hungarian.
Import ListNotations.

Lemma upd_length {A} (l : list A) k x : length (upd l k x) = length l.
Proof.
  revert k; induction l as [|h t IH]; intros k; simpl; [reflexivity|].
  destruct k; simpl; [reflexivity | rewrite IH; reflexivity].
Qed.

Lemma nth_upd_same {A} (l : list A) k x d : (k < length l)%nat -> nth k (upd l k x) d = x.
Proof.
  revert k; induction l as [|h t IH]; intros k Hk; simpl in *; [lia|].
  destruct k; simpl; [reflexivity | apply IH; lia].
Qed.

Lemma nth_upd_other {A} (l : list A) k j x d : j <> k -> nth j (upd l k x) d = nth j l d.
Proof.
  revert k j; induction l as [|h t IH]; intros k j Hjk; simpl.
  - reflexivity.
  - destruct k; destruct j; simpl; try reflexivity; try lia.
    apply IH. lia.
Qed.

Lemma nth_repeat_any {A} (a : A) n k : nth k (repeat a n) a = a.
Proof.
  revert k; induction n as [|n IH]; intros k; simpl; destruct k; try reflexivity. apply IH.
Qed.

(* a duplicate-free list of numbers <= n has at most n+1 elements *)
Lemma nodup_bounded_length (l : list nat) n :
  NoDup l -> (forall x, In x l -> (x <= n)%nat) -> (length l <= S n)%nat.
Proof.
  intros Hnd Hb.
  rewrite <- (seq_length (S n) 0).
  apply NoDup_incl_length; [exact Hnd|].
  intros x Hx. apply in_seq. specialize (Hb x Hx). lia.
Qed.

Lemma in_split_suffix {A} (x : A) l : In x l -> exists l1 l2, l = l1 ++ x :: l2.
Proof. apply in_split. Qed.
