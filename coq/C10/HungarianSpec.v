(* Readable specification of property C10 and its boolean checker.
   An assignment is the list returned by solve_hungarian: a.(i) = column of row i, or -1. *)
From Coq Require Import List Arith ZArith Bool Lia.
From SV Require Import C10.Hungarian.
Import ListNotations.
Open Scope Z_scope.

(* well-formed input: every row has the length of the first one *)
Definition wf (M : list (list Z)) : bool :=
  forallb (fun row => (length row =? n_cols M)%nat) M.
(* no rows, or a non-empty first row.  Before fix 05cf383 the code returned [] for r > 0 rows of length 0
   (see C10_zero_cols_pinned_refuted); no theorem about the current code needs this predicate. *)
Definition has_cols (M : list (list Z)) : bool :=
  match M with
  | [] => true
  | [] :: _ => false
  | _ => true
  end.

Definition assigned (a : list Z) : list Z := filter (fun x => negb (x =? -1)) a.

(* total cost of the chosen entries of the ORIGINAL matrix *)
Fixpoint cost_from (M : list (list Z)) (i : nat) (a : list Z) : Z :=
  match a with
  | [] => 0
  | x :: t => (if x =? -1 then 0 else entry M i (Z.to_nat x)) + cost_from M (S i) t
  end.
Definition cost_of (M : list (list Z)) (a : list Z) : Z := cost_from M 0 a.

Record matching_spec (M : list (list Z)) (a : list Z) : Prop := {
  ms_len : length a = n_rows M;                                            (* one entry per row *)
  ms_range : Forall (fun x => x = -1 \/ 0 <= x < Z.of_nat (n_cols M)) a;   (* -1 or a column index *)
  ms_nodup : NoDup (assigned a);                                           (* no column twice *)
  ms_count : length (assigned a) = Nat.min (n_rows M) (n_cols M)           (* min(rows, cols) pairs *)
}.

Definition objective_spec (M : list (list Z)) (o : list Z * Z) : Prop :=
  snd o = cost_of M (fst o).

Definition optimal_spec (M : list (list Z)) (minimize : bool) (a : list Z) : Prop :=
  forall b, matching_spec M b ->
    if minimize then cost_of M a <= cost_of M b else cost_of M b <= cost_of M a.

(* ---------- boolean checker for (input, output) pairs, independent of the model *)
Fixpoint nodup_zb (l : list Z) : bool :=
  match l with
  | [] => true
  | x :: t => negb (existsb (Z.eqb x) t) && nodup_zb t
  end.

Definition in_range (nc : nat) (x : Z) : bool :=
  (x =? -1) || ((0 <=? x) && (x <? Z.of_nat nc)).

Definition matching_check (M : list (list Z)) (a : list Z) : bool :=
  (length a =? n_rows M)%nat
  && forallb (in_range (n_cols M)) a
  && nodup_zb (assigned a)
  && (length (assigned a) =? Nat.min (n_rows M) (n_cols M))%nat.

Definition spec_check (M : list (list Z)) (o : list Z * Z) : bool :=
  matching_check M (fst o) && (snd o =? cost_of M (fst o)).

Lemma nodup_zb_sound l : nodup_zb l = true -> NoDup l.
Proof.
  induction l as [|x t IH]; intros H; [constructor|].
  simpl in H. apply andb_true_iff in H. destruct H as [H1 H2].
  constructor; [|apply IH; exact H2].
  intros Hin. apply negb_true_iff in H1.
  assert (E : existsb (Z.eqb x) t = true).
  { apply existsb_exists. exists x. split; [exact Hin | apply Z.eqb_refl]. }
  rewrite E in H1. discriminate.
Qed.

Lemma nodup_zb_complete l : NoDup l -> nodup_zb l = true.
Proof.
  induction 1 as [|x t Hn Hd IH]; [reflexivity|].
  simpl. rewrite IH, andb_true_r. apply negb_true_iff.
  destruct (existsb (Z.eqb x) t) eqn:E; [|reflexivity].
  apply existsb_exists in E. destruct E as [y [Hy Hxy]]. apply Z.eqb_eq in Hxy. subst y. contradiction.
Qed.

Lemma matching_check_sound M a : matching_check M a = true -> matching_spec M a.
Proof.
  unfold matching_check. intros H.
  repeat (apply andb_true_iff in H; destruct H as [H ?]).
  constructor.
  - apply Nat.eqb_eq; assumption.
  - apply Forall_forall. intros x Hx.
    match goal with Hf : forallb _ a = true |- _ => rewrite forallb_forall in Hf; specialize (Hf x Hx) end.
    unfold in_range in *. lia.
  - apply nodup_zb_sound; assumption.
  - apply Nat.eqb_eq; assumption.
Qed.

Lemma matching_check_complete M a : matching_spec M a -> matching_check M a = true.
Proof.
  intros [H1 H2 H3 H4]. unfold matching_check.
  rewrite H1, Nat.eqb_refl, H4, Nat.eqb_refl, (nodup_zb_complete _ H3). simpl.
  rewrite !andb_true_r. apply forallb_forall. intros x Hx.
  rewrite Forall_forall in H2. specialize (H2 x Hx). unfold in_range. lia.
Qed.

Lemma spec_check_sound M o :
  spec_check M o = true -> matching_spec M (fst o) /\ objective_spec M o.
Proof.
  unfold spec_check. intros H. apply andb_true_iff in H. destruct H as [H1 H2].
  split; [apply matching_check_sound; exact H1 | apply Z.eqb_eq; exact H2].
Qed.
