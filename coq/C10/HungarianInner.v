(* The inner while loop of solve_hungarian: termination within fuel n+1, finiteness of delta, and the
   structure of augment_path (a chain of used columns leading back to column 0). *)
From Coq Require Import List Arith ZArith Bool Lia.
From SV Require Import C10.Hungarian C10.HungarianLists C10.HungarianScan.
Import ListNotations.
Local Open Scope nat_scope.

(* ord = the used columns, most recently used first; column 0 is used first.  Every used column j <> 0
   points (augment_path[j]) to a column used before it. *)
Inductive good_ord (way : list nat) : list nat -> Prop :=
| go0 : good_ord way [0]
| goS j rest : j <> 0 -> ~ In j rest -> In (nth j way 0) rest -> good_ord way rest -> good_ord way (j :: rest).

Lemma good_ord_ext way way' L :
  good_ord way L -> (forall j, In j L -> nth j way' 0 = nth j way 0) -> good_ord way' L.
Proof.
  induction 1 as [|j rest Hj Hn Hin Hg IH]; intros He; [constructor|].
  constructor; auto.
  - rewrite He by (left; reflexivity). exact Hin.
  - apply IH. intros k Hk. apply He. right. exact Hk.
Qed.

Lemma good_ord_suffix way L :
  good_ord way L -> forall x, In x L -> exists L1 L2, L = L1 ++ x :: L2 /\ good_ord way (x :: L2).
Proof.
  induction 1 as [|j rest Hj Hn Hin Hg IH]; intros x Hx.
  - destruct Hx as [<-|[]]. exists [], []. split; [reflexivity | constructor].
  - destruct Hx as [<-|Hx].
    + exists [], rest. split; [reflexivity | constructor; assumption].
    + destruct (IH x Hx) as (L1 & L2 & E & G). exists (j :: L1), L2. split; [rewrite E; reflexivity | exact G].
Qed.

Lemma good_ord_zero way rest : good_ord way (0 :: rest) -> rest = [].
Proof. intros H. inversion H; subst; [reflexivity | congruence]. Qed.

Lemma good_ord_nonnil way L : good_ord way L -> L <> [].
Proof. intros H. inversion H; discriminate. Qed.

(* ---------- one round of the loop body as a function *)
Definition istate : Type := list Z * list Z * list ez * list nat * list bool * nat.

Definition round (C : list (list Z)) (n : nat) (p : list nat) (st : istate) : option istate :=
  match st with
  | (u, v, minv, way, used, j0) =>
      let used1 := upd used j0 true in
      match scan C u v used1 (nth j0 p 0) j0 (seq 1 n) minv way None 0 with
      | (minv1, way1, None, _) => None
      | (minv1, way1, Some d, j1) =>
          match update p used1 d (seq 0 (S n)) u v minv1 with
          | (u1, v1, minv2) => Some (u1, v1, minv2, way1, used1, j1)
          end
      end
  end.

Definition inner_st (f : nat) C n p (st : istate) :=
  match st with (u, v, minv, way, used, j0) => inner f C n p u v minv way used j0 end.
Definition st_j0 (st : istate) : nat := match st with (_, _, _, _, _, j0) => j0 end.
Definition st_out (st : istate) : list Z * list Z * list nat * nat :=
  match st with (u, v, _, way, _, j0) => (u, v, way, j0) end.

Lemma inner_unfold f C n p st :
  inner_st (S f) C n p st =
  if nth (st_j0 st) p 0 =? 0 then Some (st_out st)
  else match round C n p st with None => None | Some st' => inner_st f C n p st' end.
Proof.
  destruct st as [[[[[u v] minv] way] used] j0].
  unfold inner_st, round, st_j0, st_out. cbn [inner].
  destruct (nth j0 p 0 =? 0); [reflexivity|].
  destruct (scan C u v (upd used j0 true) (nth j0 p 0) j0 (seq 1 n) minv way None 0) as [[[minv1 way1] [d|]] j1]; [|reflexivity].
  destruct (update p (upd used j0 true) d (seq 0 (S n)) u v minv1) as [[u1 v1] minv2]. reflexivity.
Qed.

(* ---------- generic invariant rule for the loop: I st ord, ord = ghost list of used columns *)
Section Generic.
Variables (C : list (list Z)) (n : nat) (p : list nat).
Variable I : istate -> list nat -> Prop.
Hypothesis I_bound : forall st ord, I st ord ->
  NoDup (st_j0 st :: ord) /\ (forall j, In j (st_j0 st :: ord) -> j <= n).
Hypothesis I_round : forall st ord, I st ord -> nth (st_j0 st) p 0 <> 0 ->
  exists st', round C n p st = Some st' /\ I st' (st_j0 st :: ord).

Lemma inner_generic : forall f st ord,
  I st ord -> f + length ord >= S n ->
  exists st' ord', inner_st f C n p st = Some (st_out st') /\ nth (st_j0 st') p 0 = 0 /\ I st' ord'.
Proof.
  induction f as [|f IH]; intros st ord HI Hf.
  - exfalso. destruct (I_bound _ _ HI) as [Hnd Hb].
    pose proof (nodup_bounded_length _ n Hnd Hb) as Hl. simpl in Hl, Hf. lia.
  - rewrite inner_unfold. destruct (nth (st_j0 st) p 0 =? 0) eqn:E.
    + apply Nat.eqb_eq in E. exists st, ord. auto.
    + apply Nat.eqb_neq in E. destruct (I_round _ _ HI E) as (st' & Hr & HI').
      rewrite Hr. apply (IH st' (st_j0 st :: ord) HI'). simpl. lia.
Qed.
End Generic.

(* ---------- the structural invariant *)
Record inner_inv (n : nat) (p : list nat) (st : istate) (ord : list nat) : Prop := {
  ii_lm : length (match st with (_, _, minv, _, _, _) => minv end) = S n;
  ii_lw : length (match st with (_, _, _, way, _, _) => way end) = S n;
  ii_lu : length (match st with (_, _, _, _, used, _) => used end) = S n;
  ii_j0 : st_j0 st <= n;
  ii_j0u : nth (st_j0 st) (match st with (_, _, _, _, used, _) => used end) false = false;
  ii_used : forall j, nth j (match st with (_, _, _, _, used, _) => used end) false = true <-> In j ord;
  ii_ord : forall j, In j ord -> j <= n /\ nth j p 0 <> 0;
  ii_nd : NoDup ord;
  ii_chain : (ord = [] /\ st_j0 st = 0)
             \/ (good_ord (match st with (_, _, _, way, _, _) => way end) ord /\ st_j0 st <> 0
                 /\ In (nth (st_j0 st) (match st with (_, _, _, way, _, _) => way end) 0) ord);
  ii_slack : forall j, nth j (match st with (_, _, _, _, used, _) => used end) false = false ->
                       nth j (match st with (_, _, minv, _, _, _) => minv end) None <> None ->
                       In (nth j (match st with (_, _, _, way, _, _) => way end) 0) ord
}.

Lemma inner_inv_bound n p st ord : inner_inv n p st ord ->
  NoDup (st_j0 st :: ord) /\ (forall j, In j (st_j0 st :: ord) -> j <= n).
Proof.
  intros H. split.
  - constructor; [|exact (ii_nd _ _ _ _ H)].
    intros Hin. apply (ii_used _ _ _ _ H) in Hin. rewrite (ii_j0u _ _ _ _ H) in Hin. discriminate.
  - intros j [<-|Hj]; [exact (ii_j0 _ _ _ _ H) | apply (ii_ord _ _ _ _ H j Hj)].
Qed.

(* what one round does to the structural part; also exposes the scan / update results for later use *)
Lemma round_inv C n p st ord :
  length p = S n ->
  (exists j, 1 <= j <= n /\ nth j p 0 = 0) ->
  inner_inv n p st ord -> nth (st_j0 st) p 0 <> 0 ->
  exists st', round C n p st = Some st' /\ inner_inv n p st' (st_j0 st :: ord).
Proof.
  intros Hlp [jf [Hjf Hpjf]] HI Hp.
  destruct st as [[[[[u v] minv] way] used] j0].
  destruct HI as [Lm Lw Lu Hj0 Hj0u Hused Hord Hnd Hchain Hslack]. cbn [st_j0] in *.
  set (used1 := upd used j0 true).
  destruct (scan C u v used1 (nth j0 p 0) j0 (seq 1 n) minv way None 0) as [[[minv1 way1] delta] j1] eqn:Hs.
  assert (Hu1 : forall j, nth j used1 false = true <-> In j (j0 :: ord)).
  { intros j. unfold used1. destruct (Nat.eq_dec j j0) as [->|Hne].
    - rewrite nth_upd_same by lia. simpl. tauto.
    - rewrite nth_upd_other by exact Hne. rewrite Hused. simpl. split; [tauto | intros [E|E]; [congruence | exact E]]. }
  assert (Hu1f : forall j, nth j used1 false = false -> nth j used false = false).
  { intros j Hj. destruct (nth j used false) eqn:E; [|reflexivity].
    apply Hused in E. assert (X : nth j used1 false = true) by (apply Hu1; right; exact E). congruence. }
  pose proof (scan_struct _ _ _ _ _ _ _ _ _ _ _ _ _ _ _ Hs) as Hss.
  destruct Hss as (L1 & L2 & B & Cc & D & E); [intros j Hj; apply in_seq in Hj; lia|].
  assert (Hfree : nth jf used1 false = false).
  { destruct (nth jf used1 false) eqn:X; [|reflexivity]. apply Hu1 in X.
    destruct X as [<-|X]; [congruence | apply Hord in X; tauto]. }
  assert (Hd : delta <> None).
  { apply D. right. exists jf. split; [apply in_seq; lia | exact Hfree]. }
  destruct delta as [d|]; [|congruence].
  destruct E as [[E _]|(E1 & E2 & E3)]; [discriminate|].
  destruct (update p used1 d (seq 0 (S n)) u v minv1) as [[u1 v1] minv2] eqn:Hup.
  pose proof (update_struct _ _ _ _ _ _ _ _ _ _ Hup) as (_ & _ & L3 & F).
  exists (u1, v1, minv2, way1, used1, j1). split.
  { unfold round. fold used1. rewrite Hs, Hup. reflexivity. }
  apply in_seq in E1.
  assert (Hj0o : ~ In j0 ord).
  { intros X. apply Hused in X. congruence. }
  assert (Hway_used : forall j, In j (j0 :: ord) -> nth j way1 0 = nth j way 0).
  { intros j Hj. apply Hu1 in Hj. destruct (Cc j) as [[_ X]|(X & _)]; [exact X | congruence]. }
  constructor; cbn [st_j0].
  - lia.
  - lia.
  - unfold used1. rewrite upd_length. exact Lu.
  - lia.
  - exact E2.
  - exact Hu1.
  - intros j [<-|Hj]; [split; [exact Hj0 | exact Hp] | apply Hord; exact Hj].
  - constructor; assumption.
  - right. split; [|split].
    + destruct Hchain as [[-> ->]|(G & Hne & Hin)].
      * constructor.
      * constructor; auto.
        -- rewrite Hway_used by (left; reflexivity). exact Hin.
        -- apply (good_ord_ext way); [exact G|]. intros j Hj. apply Hway_used. right. exact Hj.
    + lia.
    + (* the selected column has a finite slack, so its augment_path entry is a used column *)
      destruct (Cc j1) as [[X1 X2]|(_ & X2 & _)].
      * right. rewrite X2. apply Hslack; [apply Hu1f; exact E2 | rewrite <- X1; exact E3].
      * left. symmetry. exact X2.
  - intros j Hj Hm.
    assert (Hm1 : nth j minv1 None <> None) by (intros X; apply Hm; apply F; exact X).
    destruct (Cc j) as [[X1 X2]|(_ & X2 & _)].
    + right. rewrite X2. apply Hslack; [apply Hu1f; exact Hj | rewrite <- X1; exact Hm1].
    + left. symmetry. exact X2.
Qed.
