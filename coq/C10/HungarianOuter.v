(* The outer loop maintains dual feasibility on the inserted rows and tightness of the matched pairs;
   at the end the potentials certify optimality: C10_optimal. *)
From Coq Require Import List Arith ZArith Bool Lia.
From SV Require Import C10.Hungarian C10.HungarianSpec C10.HungarianLists C10.HungarianScan C10.HungarianInner
     C10.HungarianMatching C10.HungarianExtract C10.HungarianGlue C10.HungarianNum C10.HungarianRound.
Import ListNotations.
Local Open Scope nat_scope.

Lemma augment_tight C n u v way (p0 : list nat) : forall m c rest p f p',
  length rest < m -> good_ord way (c :: rest) -> (forall k, In k (c :: rest) -> k <= n) ->
  length p = S n ->
  (forall k, In k (c :: rest) -> nth k p 0 = nth k p0 0) ->
  (forall j, In j (c :: rest) -> j <> 0 -> rc C u v (nth (nth j way 0) p0 0) j = 0%Z) ->
  (forall j, 1 <= j <= n -> j <> c -> nth j p 0 <> 0 -> rc C u v (nth j p 0) j = 0%Z) ->
  augment f way p c = Some p' ->
  forall j, 1 <= j <= n -> nth j p' 0 <> 0 -> rc C u v (nth j p' 0) j = 0%Z.
Proof.
  induction m as [|m IH]; intros c rest p f p' Hm Hg Hb Hl Hag Hw Ht Ha; [lia|].
  destruct f as [|f]; [discriminate|]. simpl in Ha.
  destruct (c =? 0) eqn:Ec.
  - apply Nat.eqb_eq in Ec. subst c. inversion Ha; subst p'. intros j Hj. apply Ht; lia.
  - apply Nat.eqb_neq in Ec.
    inversion Hg as [|c' rest' Hc0 Hnin Hin Hg']; subst; [congruence|].
    destruct (good_ord_suffix _ _ Hg' _ Hin) as (L1 & L2 & E & G).
    assert (Hsub : forall k, In k (nth c way 0 :: L2) -> In k rest).
    { intros k Hk. rewrite E. apply in_or_app. right. exact Hk. }
    assert (Hcn : c < length p) by (specialize (Hb c (or_introl eq_refl)); lia).
    apply (IH (nth c way 0) L2 (upd p c (nth (nth c way 0) p 0)) f p'); auto.
    + rewrite E, app_length in Hm. simpl in Hm. lia.
    + intros k Hk. apply Hb. right. apply Hsub. exact Hk.
    + rewrite upd_length. exact Hl.
    + intros k Hk. rewrite nth_upd_other; [apply Hag; right; apply Hsub; exact Hk|].
      intros ->. apply Hnin. apply Hsub. exact Hk.
    + intros j Hj. apply Hw. right. apply Hsub. exact Hj.
    + intros j Hj Hjw Hnz. destruct (Nat.eq_dec j c) as [->|Hjc].
      * rewrite nth_upd_same by exact Hcn. rewrite (Hag (nth c way 0) (or_intror Hin)).
        apply Hw; [left; reflexivity | exact Ec].
      * rewrite nth_upd_other in * by exact Hjc. apply Ht; assumption.
Qed.

Definition onum (C : list (list Z)) (n i : nat) (st : hstate) : Prop :=
  match st with
  | (u, v, p, way) =>
      length u = S n /\ length v = S n /\
      (forall r j, 1 <= r <= i -> 1 <= j <= n -> (0 <= rc C u v r j)%Z) /\
      (forall j, 1 <= j <= n -> nth j p 0 <> 0 -> rc C u v (nth j p 0) j = 0%Z)
  end.

Lemma outer_step_full C n i st :
  outer_inv n i st -> onum C n i st -> i < n ->
  exists st', outer_step C n (Some st) (S i) = Some st' /\ outer_inv n (S i) st' /\ onum C n (S i) st'.
Proof.
  destruct st as [[[u v] p] way]. intros [Hh Hlw] (Lu & Lv & ONF & ONT) Hi.
  pose proof Hh as [Hl Hinj Hsur Hle].
  set (p0 := upd p 0 (S i)).
  assert (Hl0 : length p0 = S n) by (unfold p0; rewrite upd_length; exact Hl).
  assert (Hp00 : nth 0 p0 0 = S i) by (unfold p0; apply nth_upd_same; lia).
  assert (Hp0j : forall j, j <> 0 -> nth j p0 0 = nth j p 0) by (intros j Hj; unfold p0; apply nth_upd_other; exact Hj).
  assert (Hfree : exists j, 1 <= j <= n /\ nth j p0 0 = 0).
  { destruct (free_column n i p Hh Hi) as (j & Hj & E). exists j. split; [exact Hj|]. rewrite Hp0j by lia. exact E. }
  assert (Pinj : forall j j', j <= n -> j' <= n -> nth j p0 0 = nth j' p0 0 -> nth j p0 0 <> 0 -> j = j').
  { intros j j' Hj Hj' E Hnz.
    destruct (Nat.eq_dec j 0) as [->|J0]; destruct (Nat.eq_dec j' 0) as [->|J'0]; try reflexivity.
    + rewrite Hp00, (Hp0j j' J'0) in E. assert (nth j' p 0 <= i) by (apply Hle; lia). lia.
    + rewrite Hp00, (Hp0j j J0) in E. assert (nth j p 0 <= i) by (apply Hle; lia). lia.
    + rewrite (Hp0j j J0), (Hp0j j' J'0) in E. rewrite (Hp0j j J0) in Hnz. apply Hinj; auto. }
  assert (Prow : forall k, 1 <= k <= n -> nth k p0 0 <= i).
  { intros k Hk. rewrite Hp0j by lia. apply Hle; lia. }
  assert (Prng : forall j, j <= n -> nth j p0 0 <= n).
  { intros j Hj. destruct (Nat.eq_dec j 0) as [->|J0]; [rewrite Hp00; lia|]. specialize (Prow j ltac:(lia)). lia. }
  set (st0 := (u, v, repeat (@None Z) (S n), way, repeat false (S n), 0) : istate).
  assert (HI0 : full_inv C n p0 i st0 []).
  { split.
    - constructor; unfold st0; cbn [st_j0].
      + apply repeat_length.
      + exact Hlw.
      + apply repeat_length.
      + lia.
      + apply nth_repeat_any.
      + intros j. rewrite nth_repeat_any. simpl. split; [discriminate | tauto].
      + intros j [].
      + constructor.
      + left. split; reflexivity.
      + intros j _ Hm. exfalso. apply Hm. apply (nth_repeat_any (@None Z)).
    - unfold st0, num_inv. split; [split; assumption|]. split; [|split; [|split; [|split]]].
      + intros r j [Hr|[_ []]] Hj. apply ONF; assumption.
      + intros j Hj Hnz. rewrite Hp0j in * by lia. apply ONT; assumption.
      + intros j [<-|[]] Hj0. congruence.
      + intros j _ _ k [].
      + intros j _ _ m Em. rewrite (nth_repeat_any (@None Z)) in Em. discriminate. }
  destruct (inner_generic C n p0 (full_inv C n p0 i) (full_inv_bound C n p0 i)
              (fun st ord => round_full C n p0 Hl0 Pinj Prng Hfree i Hp00 Prow st ord) (S n) st0 [] HI0)
    as (st' & ord' & Hrun & Hend & [HI' HN']); [simpl; lia|].
  destruct st' as [[[[[u1 v1] minv1] way1] used1] jf].
  pose proof (inner_inv_bound _ _ _ _ HI') as [Hnd Hb].
  destruct HI' as [_ Lw' _ Hjf _ _ _ _ Hchain _]. cbn [st_j0 st_out] in *.
  destruct HN' as ((Lu1 & Lv1) & NF & NT & NW & _ & _).
  assert (Hjf0 : jf <> 0) by (intros ->; rewrite Hp00 in Hend; discriminate).
  destruct Hchain as [[_ X]|(G & _ & Hin)]; [congruence|].
  assert (Gf : good_ord way1 (jf :: ord')).
  { constructor; auto. inversion Hnd; assumption. }
  assert (Hh0 : hole_inv n (S i) p0 jf).
  { constructor.
    - exact Hl0.
    - intros j j' Hj Hj' _ _ E Hnz. apply Pinj; assumption.
    - intros r Hr. destruct (Nat.eq_dec r (S i)) as [->|Hne].
      + exists 0. repeat split; [lia | congruence | exact Hp00].
      + destruct (Hsur r) as (j & Hj & Hj0 & E); [lia|].
        exists j. repeat split; [exact Hj | | rewrite (Hp0j j Hj0); exact E].
        intros ->. rewrite (Hp0j jf Hjf0) in Hend. lia.
    - intros j Hj Hjc. destruct (Nat.eq_dec j 0) as [->|J0]; [rewrite Hp00; lia|].
      specialize (Prow j ltac:(lia)). lia. }
  pose proof (nodup_bounded_length _ n Hnd Hb) as Hlen. simpl in Hlen.
  destruct (augment_ok n (S i) way1 (S (length ord')) jf ord' p0 (S n)) as (p1 & Ha & Hh1); auto; try lia.
  exists (u1, v1, p1, way1). split; [|split; [split; assumption|]].
  - unfold outer_step. fold p0.
    change (inner (S n) C n p0 u v (repeat None (S n)) way (repeat false (S n)) 0) with (inner_st (S n) C n p0 st0).
    rewrite Hrun. rewrite Ha. reflexivity.
  - split; [exact Lu1|]. split; [exact Lv1|]. split.
    + intros r j Hr Hj. apply NF; [|exact Hj].
      destruct (Nat.eq_dec r (S i)) as [->|Hne]; [right; split; [reflexivity | apply (good_ord_has0 way1 ord' G)] | left; lia].
    + apply (augment_tight C n u1 v1 way1 p0 (S (length ord')) jf ord' p0 (S n) p1); auto;
        intros j Hj _ Hnz; apply NT; assumption.
Qed.

Lemma core_prefix_full C n : forall k, k <= n ->
  exists st, fold_left (outer_step C n) (seq 1 k) (Some (init_state n)) = Some st /\ outer_inv n k st /\ onum C n k st.
Proof.
  induction k as [|k IH]; intros Hk.
  - exists (init_state n). split; [reflexivity|]. split; [apply init_inv|].
    unfold init_state, onum. split; [apply repeat_length|]. split; [apply repeat_length|]. split.
    + intros r j Hr. lia.
    + intros j _ Hnz. rewrite nth_repeat_any in Hnz. congruence.
  - destruct IH as (st & E & HI & HN); [lia|].
    destruct (outer_step_full C n k st HI HN) as (st' & E' & HI' & HN'); [lia|].
    exists st'. split; [|split; assumption].
    rewrite seq_S, fold_left_app, E. simpl. exact E'.
Qed.

(* C10_optimal: for every matrix, the returned assignment is a matching of optimal total cost *)
Lemma solve_optimal M mz :
  exists a, solve M mz = Some (a, cost_of M a) /\ matching_spec M a /\ optimal_spec M mz a.
Proof.
  destruct M as [|[|x r] rest].
  - exists []. split; [reflexivity|]. split; [constructor; simpl; constructor|].
    intros b Hb. destruct b as [|y b]; [destruct mz; simpl; lia|].
    destruct Hb as [Hl _ _ _]. simpl in Hl. discriminate.
  - destruct (solve_shape ([] :: rest) mz) as (a & E & Hm). exists a. split; [exact E|]. split; [exact Hm|].
    intros b Hb. rewrite (zero_cols_cost ([] :: rest) a eq_refl Hm), (zero_cols_cost ([] :: rest) b eq_refl Hb). destruct mz; lia.
  - set (M := (x :: r) :: rest) in *.
    unfold solve, solve_gen. fold M. set (n := Nat.max (n_rows M) (n_cols M)).
    destruct (core_prefix_full (padded M mz) n n (le_n n)) as ([[[u v] p] way] & E & [Hh _] & (_ & _ & ONF & ONT)).
    unfold core. rewrite E.
    destruct (extract_matching n p (n_rows M) (n_cols M) eq_refl Hh) as (H1 & H2 & H3 & H4).
    exists (extract p (n_rows M) (n_cols M) n). split; [|split].
    + rewrite total_cost_spec by exact H2. reflexivity.
    + constructor; assumption.
    + apply (model_optimal M mz u v p); [exact Hh | |].
      * intros i j Hi Hj. specialize (ONF i j Hi Hj). unfold rc in ONF. lia.
      * intros j Hj. specialize (ONT j Hj (all_matched n p Hh j Hj)). unfold rc in ONT. lia.
Qed.
