(* Model of solvor/hungarian.py: solve_hungarian (lines 50-131).  Definitions only.

   Numbers.  The code only adds, subtracts and compares cost entries, so on integer matrices every
   intermediate value (potentials, slacks, delta, max_val - c) is an integer and the binary64
   computation is exact (below 2^53); costs are modelled by Z.  `float("inf")` is modelled by
   `None : option Z` (type ez).  The only arithmetic the code can do on an infinite value is
   `min_slack[j] -= delta` (inf - finite = inf, modelled) and an update with an infinite delta, which
   would produce nan; that case is an explicit error value (`None` result) and the theorems show it is
   never reached.  The two `while` loops run on explicit fuel n+1; exhaustion is `None` as well.

   Indices are exactly those of the code: arrays of length n+1, rows and columns numbered from 1,
   column 0 is the virtual column holding the row being inserted. *)
From Coq Require Import List Arith ZArith Bool.
Import ListNotations.
Open Scope Z_scope.

(* ---------- list helpers (Python list indexing / item assignment) *)
Fixpoint upd {A} (l : list A) (k : nat) (x : A) : list A :=
  match l, k with
  | [], _ => []
  | _ :: t, O => x :: t
  | h :: t, S k' => h :: upd t k' x
  end.

(* cost_matrix[i][j] *)
Definition entry (M : list (list Z)) (i j : nat) : Z := nth j (nth i M []) 0.

(* ---------- extended numbers: None = float("inf") *)
Definition ez := option Z.
(* x < m   for a finite x *)
Definition z_lt_ez (x : Z) (m : ez) : bool :=
  match m with None => true | Some y => x <? y end.
(* a < b *)
Definition ez_lt (a b : ez) : bool :=
  match a, b with
  | Some x, Some y => x <? y
  | Some _, None => true
  | None, _ => false
  end.
(* a - d for a finite d *)
Definition ez_sub (a : ez) (d : Z) : ez :=
  match a with None => None | Some x => Some (x - d) end.

(* ---------- lines 56-72: padding to n x n, max turned into min *)
Definition n_rows (M : list (list Z)) : nat := length M.
Definition n_cols (M : list (list Z)) : nat := length (hd [] M).

(* max(cost_matrix[i][j] for i in range(n_rows) for j in range(n_cols)); the generator is not empty
   because the early return excluded n_rows = 0 and n_cols = 0 *)
Definition max_val (M : list (list Z)) : Z :=
  fold_left (fun acc i => fold_left (fun acc' j => Z.max acc' (entry M i j)) (seq 0 (n_cols M)) acc)
            (seq 0 (n_rows M)) (entry M 0 0).

Definition padded (M : list (list Z)) (minimize : bool) : list (list Z) :=
  let nr := n_rows M in
  let nc := n_cols M in
  let n := Nat.max nr nc in
  let mv := max_val M in
  map (fun i => map (fun j =>
        if (i <? nr)%nat && (j <? nc)%nat
        then (if minimize then entry M i j else mv - entry M i j)
        else 0) (seq 0 n)) (seq 0 n).

(* ---------- lines 93-101: the scan  `for j in range(1, n + 1): if not used[j]: ...`
   r = matched_row, j0 = current_col; state = (min_slack, augment_path, delta, next_col) *)
Fixpoint scan (C : list (list Z)) (u v : list Z) (used : list bool) (r j0 : nat) (js : list nat)
         (minv : list ez) (way : list nat) (delta : ez) (j1 : nat) : list ez * list nat * ez * nat :=
  match js with
  | [] => (minv, way, delta, j1)
  | j :: js' =>
      if nth j used false then scan C u v used r j0 js' minv way delta j1
      else
        let rc := entry C (r - 1) (j - 1) - nth r u 0 - nth j v 0 in
        let lt := z_lt_ez rc (nth j minv None) in
        let minv1 := if lt then upd minv j (Some rc) else minv in
        let way1 := if lt then upd way j j0 else way in
        let lt2 := ez_lt (nth j minv1 None) delta in
        let delta1 := if lt2 then nth j minv1 None else delta in
        let j11 := if lt2 then j else j1 in
        scan C u v used r j0 js' minv1 way1 delta1 j11
  end.

(* ---------- lines 103-108: `for j in range(n + 1): if used[j]: ... else: min_slack[j] -= delta` *)
Fixpoint update (p : list nat) (used : list bool) (d : Z) (js : list nat)
         (u v : list Z) (minv : list ez) : list Z * list Z * list ez :=
  match js with
  | [] => (u, v, minv)
  | j :: js' =>
      if nth j used false
      then update p used d js' (upd u (nth j p O) (nth (nth j p O) u 0 + d)) (upd v j (nth j v 0 - d)) minv
      else update p used d js' u v (upd minv j (ez_sub (nth j minv None) d))
  end.

(* ---------- lines 86-110: `while col_match[current_col] != 0:` *)
Fixpoint inner (fuel : nat) (C : list (list Z)) (n : nat) (p : list nat) (u v : list Z)
         (minv : list ez) (way : list nat) (used : list bool) (j0 : nat)
  : option (list Z * list Z * list nat * nat) :=
  match fuel with
  | O => None
  | S f =>
      if (nth j0 p O =? 0)%nat then Some (u, v, way, j0)
      else
        let used1 := upd used j0 true in
        let r := nth j0 p O in
        match scan C u v used1 r j0 (seq 1 n) minv way None O with
        | (minv1, way1, None, _) => None          (* delta = inf: nan arithmetic, not modelled *)
        | (minv1, way1, Some d, j1) =>
            match update p used1 d (seq 0 (S n)) u v minv1 with
            | (u1, v1, minv2) => inner f C n p u1 v1 minv2 way1 used1 j1
            end
        end
  end.

(* ---------- lines 112-115: `while current_col != 0:` *)
Fixpoint augment (fuel : nat) (way : list nat) (p : list nat) (j0 : nat) : option (list nat) :=
  match fuel with
  | O => None
  | S f =>
      if (j0 =? 0)%nat then Some p
      else let j1 := nth j0 way O in augment f way (upd p j0 (nth j1 p O)) j1
  end.

(* ---------- lines 74-115: the outer loop; state (row_potential, col_potential, col_match, augment_path) *)
Definition hstate : Type := list Z * list Z * list nat * list nat.

Definition outer_step (C : list (list Z)) (n : nat) (st : option hstate) (i : nat) : option hstate :=
  match st with
  | None => None
  | Some (u, v, p, way) =>
      let p0 := upd p O i in
      match inner (S n) C n p0 u v (repeat None (S n)) way (repeat false (S n)) O with
      | None => None
      | Some (u1, v1, way1, j0) =>
          match augment (S n) way1 p0 j0 with
          | None => None
          | Some p1 => Some (u1, v1, p1, way1)
          end
      end
  end.

Definition init_state (n : nat) : hstate :=
  (repeat 0 (S n), repeat 0 (S n), repeat O (S n), repeat O (S n)).

Definition core (C : list (list Z)) (n : nat) : option hstate :=
  fold_left (outer_step C n) (seq 1 n) (Some (init_state n)).

(* ---------- lines 117-120: extraction, dummy rows / columns ignored *)
Definition extract_step (p : list nat) (nr nc : nat) (a : list Z) (j : nat) : list Z :=
  let r := nth j p O in
  if negb (r =? 0)%nat && (r <=? nr)%nat && (j <=? nc)%nat then upd a (r - 1) (Z.of_nat (j - 1)) else a.

Definition extract (p : list nat) (nr nc n : nat) : list Z :=
  fold_left (extract_step p nr nc) (seq 1 n) (repeat (-1) nr).

(* ---------- lines 122-125: objective from the ORIGINAL matrix *)
Definition total_step (M : list (list Z)) (nc : nat) (acc : Z) (ix : nat * Z) : Z :=
  let '(i, x) := ix in
  if negb (x =? -1) && (x <? Z.of_nat nc) then acc + entry M i (Z.to_nat x) else acc.

Definition total_cost (M : list (list Z)) (a : list Z) : Z :=
  fold_left (total_step M (n_cols M)) (combine (seq 0 (length a)) a) 0.

(* ---------- solve_hungarian: Some (assignment, objective), None = fuel / inf error.
   `pinned = true` is the behaviour of the tree before fix 05cf383 (early return `Result([], 0.0, 0, 0)`),
   `pinned = false` the current code: `Result([-1] * len(cost_matrix), 0.0, 0, 0)`. *)
Definition solve_gen (pinned : bool) (M : list (list Z)) (minimize : bool) : option (list Z * Z) :=
  match M with
  | [] => Some ([], 0)
  | [] :: _ => Some (if pinned then [] else repeat (-1) (length M), 0)   (* `not cost_matrix[0]` *)
  | _ =>
      let nr := n_rows M in
      let nc := n_cols M in
      let n := Nat.max nr nc in
      match core (padded M minimize) n with
      | None => None
      | Some (u, v, p, way) =>
          let a := extract p nr nc n in
          Some (a, total_cost M a)
      end
  end.

Definition solve : list (list Z) -> bool -> option (list Z * Z) := solve_gen false.
Definition solve_pinned : list (list Z) -> bool -> option (list Z * Z) := solve_gen true.

(* final potentials and matching, for the per-run optimality certificate *)
Definition solve_state (M : list (list Z)) (minimize : bool) : option hstate :=
  core (padded M minimize) (Nat.max (n_rows M) (n_cols M)).


(* ---------- per-run optimality certificate on the FINAL potentials of the model (boolean):
   dual feasibility u_i + v_j <= C_ij on the padded matrix, every column 1..n matched to a row in 1..n,
   tightness on the matched pairs, rows pairwise distinct. *)
Fixpoint nodup_natb (l : list nat) : bool :=
  match l with
  | [] => true
  | x :: t => negb (existsb (Nat.eqb x) t) && nodup_natb t
  end.

Definition cert_check (C : list (list Z)) (n : nat) (st : hstate) : bool :=
  match st with
  | (u, v, p, way) =>
      forallb (fun i => forallb (fun j => nth i u 0 + nth j v 0 <=? entry C (i - 1) (j - 1)) (seq 1 n)) (seq 1 n)
      && forallb (fun j => let r := nth j p O in
                           negb (r =? 0)%nat && (r <=? n)%nat
                           && (nth r u 0 + nth j v 0 =? entry C (r - 1) (j - 1))) (seq 1 n)
      && nodup_natb (map (fun j => nth j p O) (seq 1 n))
  end.

Definition solve_cert (M : list (list Z)) (minimize : bool) : bool :=
  match solve_state M minimize with
  | None => false
  | Some st => cert_check (padded M minimize) (Nat.max (n_rows M) (n_cols M)) st
  end.

(* observable comparison used by the correspondence lemmas *)
Definition zlist_eqb (a b : list Z) : bool :=
  (length a =? length b)%nat && forallb (fun xy => fst xy =? snd xy) (combine a b).

Definition obs_eqb (m : option (list Z * Z)) (o : list Z * Z) : bool :=
  match m with
  | None => false
  | Some (a, c) => zlist_eqb a (fst o) && (c =? snd o)
  end.
