(* Structural facts about one round of the inner loop of solve_hungarian (scan + update):
   which entries of min_slack / augment_path change, that delta is finite when an unused column exists,
   and that the selected next column is unused with a finite slack.  No arithmetic on the costs here. *)
From Coq Require Import List Arith ZArith Bool Lia.
From SV Require Import C10.Hungarian C10.HungarianLists.
Import ListNotations.
Local Open Scope nat_scope.

Section Scan.
Variables (C : list (list Z)) (u v : list Z) (used : list bool) (r j0 : nat).

Definition scan_post (js : list nat) (minv : list ez) (way : list nat) (delta : ez) (j1 : nat)
           (minv' : list ez) (way' : list nat) (delta' : ez) (j1' : nat) : Prop :=
  length minv' = length minv /\ length way' = length way /\
  (forall j, nth j minv None <> None -> nth j minv' None <> None) /\
  (forall j, (nth j minv' None = nth j minv None /\ nth j way' O = nth j way O)
          \/ (nth j used false = false /\ nth j way' O = j0 /\ nth j minv' None <> None)) /\
  ((delta <> None \/ exists j, In j js /\ nth j used false = false) -> delta' <> None) /\
  ((delta' = delta /\ j1' = j1) \/ (In j1' js /\ nth j1' used false = false /\ nth j1' minv' None <> None)).

Lemma scan_struct : forall js minv way delta j1 minv' way' delta' j1',
  scan C u v used r j0 js minv way delta j1 = (minv', way', delta', j1') ->
  (forall j, In j js -> j < length minv /\ j < length way) ->
  scan_post js minv way delta j1 minv' way' delta' j1'.
Proof.
  induction js as [|j js IH]; intros minv way delta j1 minv' way' delta' j1' Hs Hlen.
  - simpl in Hs. inversion Hs; subst. unfold scan_post.
    repeat split; auto.
    intros [H|[j [[] _]]]; exact H.
  - simpl in Hs.
    destruct (nth j used false) eqn:Hu.
    + (* used: skipped *)
      apply IH in Hs; [|intros j' Hj'; apply Hlen; right; exact Hj'].
      destruct Hs as (L1 & L2 & B & Cc & D & E).
      unfold scan_post. repeat split; auto.
      * intros [H|[j' [[Hj'|Hj'] Hf]]]; apply D.
        -- left; exact H.
        -- subst j'. rewrite Hu in Hf. discriminate.
        -- right. exists j'. split; assumption.
      * destruct E as [E|(E1 & E2 & E3)]; [left; exact E | right; repeat split; auto; right; exact E1].
    + (* not used *)
      remember (entry C (r - 1) (j - 1) - nth r u 0%Z - nth j v 0%Z)%Z as rc.
      remember (z_lt_ez rc (nth j minv None)) as lt.
      remember (if lt then upd minv j (Some rc) else minv) as minv1.
      remember (if lt then upd way j j0 else way) as way1.
      remember (ez_lt (nth j minv1 None) delta) as lt2.
      remember (if lt2 then nth j minv1 None else delta) as delta1.
      remember (if lt2 then j else j1) as j11.
      destruct (Hlen j (or_introl eq_refl)) as [Hjm Hjw].
      assert (Lm1 : length minv1 = length minv) by (subst minv1; destruct lt; [apply upd_length | reflexivity]).
      assert (Lw1 : length way1 = length way) by (subst way1; destruct lt; [apply upd_length | reflexivity]).
      assert (Hm1j : nth j minv1 None <> None).
      { subst minv1. destruct lt.
        - rewrite nth_upd_same by exact Hjm. discriminate.
        - unfold z_lt_ez in Heqlt. destruct (nth j minv None); congruence. }
      assert (Hmono1 : forall j', nth j' minv None <> None -> nth j' minv1 None <> None).
      { intros j' Hj'. destruct (Nat.eq_dec j' j) as [->|Hne]; [exact Hm1j|].
        subst minv1. destruct lt; [rewrite nth_upd_other by exact Hne|]; exact Hj'. }
      assert (Hch1 : forall j', (nth j' minv1 None = nth j' minv None /\ nth j' way1 O = nth j' way O)
                             \/ (nth j' used false = false /\ nth j' way1 O = j0 /\ nth j' minv1 None <> None)).
      { intros j'. subst minv1 way1. destruct lt.
        - destruct (Nat.eq_dec j' j) as [->|Hne].
          + right. rewrite !nth_upd_same by assumption. repeat split; [exact Hu | discriminate].
          + left. rewrite !nth_upd_other by exact Hne. split; reflexivity.
        - left. split; reflexivity. }
      assert (Hd1 : delta1 <> None).
      { subst delta1. destruct lt2; [exact Hm1j|].
        destruct (nth j minv1 None) eqn:Em; [|contradiction].
        destruct delta; [discriminate | simpl in Heqlt2; discriminate]. }
      apply IH in Hs; [|intros j' Hj'; rewrite Lm1, Lw1; apply Hlen; right; exact Hj'].
      destruct Hs as (L1 & L2 & B & Cc & D & E).
      unfold scan_post. repeat split.
      * rewrite L1; exact Lm1.
      * rewrite L2; exact Lw1.
      * intros j' Hj'. apply B, Hmono1, Hj'.
      * intros j'. destruct (Cc j') as [[C1 C2]|(C1 & C2 & C3)].
        -- destruct (Hch1 j') as [[H1 H2]|(H1 & H2 & H3)].
           ++ left. split; congruence.
           ++ right. repeat split; [exact H1 | congruence | rewrite C1; exact H3].
        -- right. repeat split; assumption.
      * intros _. apply D. left. exact Hd1.
      * destruct E as [[E1 E2]|(E1 & E2 & E3)].
        -- subst delta1 j11. destruct lt2.
           ++ right. subst j1'. repeat split; [left; reflexivity | exact Hu | apply B; exact Hm1j].
           ++ left. split; assumption.
        -- right. repeat split; auto. right; exact E1.
Qed.
End Scan.

(* the update loop keeps lengths and finiteness of the slacks *)
Lemma update_struct p used d : forall js u v minv u' v' minv',
  update p used d js u v minv = (u', v', minv') ->
  length u' = length u /\ length v' = length v /\ length minv' = length minv /\
  (forall j, nth j minv' None = None <-> nth j minv None = None).
Proof.
  induction js as [|j js IH]; intros u v minv u' v' minv' H; simpl in H.
  - inversion H; subst. repeat split; auto.
  - destruct (nth j used false).
    + apply IH in H. destruct H as (H1 & H2 & H3 & H4).
      rewrite upd_length in H1, H2. split; [exact H1|]. split; [exact H2|]. split; [exact H3|]. exact H4.
    + apply IH in H. destruct H as (H1 & H2 & H3 & H4).
      rewrite upd_length in H3. split; [exact H1|]. split; [exact H2|]. split; [exact H3|].
      intros k. rewrite H4.
      destruct (Nat.eq_dec k j) as [->|Hne].
      * destruct (Nat.lt_ge_cases j (length minv)) as [Hl|Hl].
        -- rewrite nth_upd_same by exact Hl. destruct (nth j minv None); simpl; split; congruence.
        -- rewrite !nth_overflow; [tauto | exact Hl | rewrite upd_length; exact Hl].
      * rewrite nth_upd_other by exact Hne. tauto.
Qed.
