(* C09 deepening - residual walks of a residual graph (arcs, res), their cost, "no negative-cost residual cycle",
   potentials imply it, and loop erasure: without negative cycles every residual walk a ~> b can be replaced by one
   that visits no node twice (hence has at most n-1 edges) and is not more expensive. *)
From Coq Require Import List ZArith Bool Arith Lia.
From SV Require Import C09.Mcf C09.McfSpec C09.McfAug.
Import ListNotations.
Open Scope Z_scope.
Import Mcf McfSpec.

(* cost of a list of residual edges *)
Fixpoint pcost (arcs : list arc) (p : list edge) : Z :=
  match p with [] => 0 | e :: p' => e_cost arcs e + pcost arcs p' end.

(* residual edge of positive residual capacity *)
Definition redge (arcs : list arc) (res : resid) (e : edge) : Prop :=
  (fst e < length arcs)%nat /\ 0 < e_res res e.

(* residual walk a ~> b *)
Definition rwalk (arcs : list arc) (res : resid) (a : nat) (p : list edge) (b : nat) : Prop :=
  chain arcs a p b /\ Forall (redge arcs res) p.

(* no closed residual walk of negative cost *)
Definition NoNegCycle (arcs : list arc) (res : resid) : Prop :=
  forall v p, rwalk arcs res v p v -> 0 <= pcost arcs p.

(* nodes visited by a walk that starts in a *)
Definition nodes (arcs : list arc) (a : nat) (p : list edge) : list nat := a :: map (e_head arcs) p.

Section Walks.
Variable arcs : list arc.
Variable res : resid.

Lemma pcost_app p q : pcost arcs (p ++ q) = pcost arcs p + pcost arcs q.
Proof. induction p as [|e p IH]; cbn [app pcost]; [lia|]. rewrite IH. lia. Qed.

Lemma chain_cat : forall p a m q b, chain arcs a p m -> chain arcs m q b -> chain arcs a (p ++ q) b.
Proof.
  induction p as [|e p IH]; intros a m q b H1 H2; cbn [chain app] in *.
  - subst. exact H2.
  - destruct H1 as [Ht H1]. split; [exact Ht|]. exact (IH _ _ _ _ H1 H2).
Qed.

Lemma chain_cat_inv : forall p a q b, chain arcs a (p ++ q) b -> exists m, chain arcs a p m /\ chain arcs m q b.
Proof.
  induction p as [|e p IH]; intros a q b H; cbn [chain app] in *.
  - exists a. split; [reflexivity|exact H].
  - destruct H as [Ht H]. destruct (IH _ _ _ H) as (m & H1 & H2). exists m. split; [split; assumption|exact H2].
Qed.

Lemma rwalk_nil a : rwalk arcs res a [] a.
Proof. split; [reflexivity|constructor]. Qed.

Lemma rwalk_cat a p m q b : rwalk arcs res a p m -> rwalk arcs res m q b -> rwalk arcs res a (p ++ q) b.
Proof.
  intros [H1 F1] [H2 F2]. split; [exact (chain_cat _ _ _ _ _ H1 H2)|]. apply Forall_app. split; assumption.
Qed.

Lemma rwalk_cat_inv a p q b : rwalk arcs res a (p ++ q) b ->
  exists m, rwalk arcs res a p m /\ rwalk arcs res m q b.
Proof.
  intros [H F]. apply Forall_app in F. destruct F as [F1 F2].
  destruct (chain_cat_inv _ _ _ _ H) as (m & H1 & H2). exists m. split; split; assumption.
Qed.

Lemma rwalk_one e : redge arcs res e -> rwalk arcs res (e_tail arcs e) [e] (e_head arcs e).
Proof. intros H. split; [cbn [chain]; split; reflexivity|]. constructor; [exact H|constructor]. Qed.

Lemma rwalk_snoc a p e : rwalk arcs res a p (e_tail arcs e) -> redge arcs res e ->
  rwalk arcs res a (p ++ [e]) (e_head arcs e).
Proof. intros H He. exact (rwalk_cat _ _ _ _ _ H (rwalk_one e He)). Qed.

Lemma rwalk_snoc_inv a p e b : rwalk arcs res a (p ++ [e]) b ->
  rwalk arcs res a p (e_tail arcs e) /\ redge arcs res e /\ e_head arcs e = b.
Proof.
  intros H. destruct (rwalk_cat_inv _ _ _ _ H) as (m & H1 & [H2 F2]).
  cbn [chain] in H2. destruct H2 as [Ht Hh]. subst m.
  split; [exact H1|]. split; [|exact Hh]. inversion F2; assumption.
Qed.

Lemma rwalk_cons_inv a e p b : rwalk arcs res a (e :: p) b ->
  e_tail arcs e = a /\ redge arcs res e /\ rwalk arcs res (e_head arcs e) p b.
Proof.
  intros [H F]. cbn [chain] in H. destruct H as [Ht H]. inversion F as [|? ? He F']; subst.
  split; [reflexivity|]. split; [exact He|]. split; assumption.
Qed.

(* ---------------- potentials exclude negative cycles *)
Lemma potentials_walk (pi : nat -> Z) :
  (forall e, redge arcs res e -> pi (e_head arcs e) <= pi (e_tail arcs e) + e_cost arcs e) ->
  forall p a b, rwalk arcs res a p b -> pi b <= pi a + pcost arcs p.
Proof.
  intros Hpi. induction p as [|e p IH]; intros a b H.
  - destruct H as [H _]. cbn [chain] in H. subst. cbn [pcost]. lia.
  - apply rwalk_cons_inv in H. destruct H as (Ht & He & H). subst a.
    specialize (IH _ _ H). specialize (Hpi e He). cbn [pcost]. lia.
Qed.

Lemma potentials_nnc (pi : nat -> Z) :
  (forall e, redge arcs res e -> pi (e_head arcs e) <= pi (e_tail arcs e) + e_cost arcs e) ->
  NoNegCycle arcs res.
Proof. intros Hpi v p H. pose proof (potentials_walk pi Hpi p v v H). lia. Qed.

(* ---------------- loop erasure *)
Lemma nodup_suffix {A} (l m : list A) : NoDup (l ++ m) -> NoDup m.
Proof. induction l as [|x l IH]; cbn [app]; intros H; [exact H|]. inversion H; subst. apply IH. assumption. Qed.

Lemma split_at : forall q a b x, rwalk arcs res a q b -> In x (nodes arcs a q) ->
  exists q1 q2 l, q = q1 ++ q2 /\ rwalk arcs res a q1 x /\ rwalk arcs res x q2 b /\
                  nodes arcs a q = l ++ nodes arcs x q2.
Proof.
  induction q as [|e q IH]; intros a b x H Hin.
  - destruct Hin as [<-|[]]. exists [], [], []. split; [reflexivity|]. split; [apply rwalk_nil|]. split; [exact H|reflexivity].
  - destruct (Nat.eq_dec a x) as [->|Hne].
    + exists [], (e :: q), []. split; [reflexivity|]. split; [apply rwalk_nil|]. split; [exact H|reflexivity].
    + destruct Hin as [Heq|Hin]; [contradiction|].
      pose proof H as H0. apply rwalk_cons_inv in H. destruct H as (Ht & He & H).
      destruct (IH _ _ x H Hin) as (q1 & q2 & l & Hq & H1 & H2 & Hn).
      exists (e :: q1), q2, (a :: l). split; [cbn [app]; rewrite Hq; reflexivity|].
      split; [|split; [exact H2|]].
      * subst a. exact (rwalk_cat _ _ _ _ _ (rwalk_one e He) H1).
      * unfold nodes in *. cbn [map app]. rewrite Hn. reflexivity.
Qed.

Lemma loop_erase : NoNegCycle arcs res ->
  forall p a b, rwalk arcs res a p b ->
  exists q, rwalk arcs res a q b /\ NoDup (nodes arcs a q) /\ pcost arcs q <= pcost arcs p.
Proof.
  intros Hnn. induction p as [|e p IH]; intros a b H.
  - exists []. split; [exact H|]. split; [|lia]. unfold nodes. cbn [map]. constructor; [intros []|constructor].
  - pose proof H as H0. apply rwalk_cons_inv in H. destruct H as (Ht & He & H).
    destruct (IH _ _ H) as (q & Hq & Hnd & Hc).
    destruct (in_dec Nat.eq_dec a (nodes arcs (e_head arcs e) q)) as [Hin|Hnin].
    + destruct (split_at q _ _ a Hq Hin) as (q1 & q2 & l & Hqq & H1 & H2 & Hn).
      exists q2. split; [exact H2|]. split.
      * rewrite Hn in Hnd. exact (nodup_suffix _ _ Hnd).
      * assert (Hcyc : rwalk arcs res a (e :: q1) a).
        { subst a. exact (rwalk_cat _ _ _ _ _ (rwalk_one e He) H1). }
        specialize (Hnn _ _ Hcyc). cbn [pcost] in *. rewrite Hqq, pcost_app in Hc. lia.
    + exists (e :: q). split; [|split].
      * subst a. exact (rwalk_cat _ _ _ _ _ (rwalk_one e He) Hq).
      * unfold nodes in *. cbn [map]. constructor; assumption.
      * cbn [pcost]. lia.
Qed.

(* all nodes of a walk are < n when its start and the heads of all arcs are *)
Lemma short_walk n : NoNegCycle arcs res ->
  (forall e, (fst e < length arcs)%nat -> (e_head arcs e < n)%nat) ->
  forall p a b, (a < n)%nat -> rwalk arcs res a p b ->
  exists q, rwalk arcs res a q b /\ (S (length q) <= n)%nat /\ pcost arcs q <= pcost arcs p.
Proof.
  intros Hnn Hh p a b Ha H. destruct (loop_erase Hnn p a b H) as (q & Hq & Hnd & Hc).
  exists q. split; [exact Hq|]. split; [|exact Hc].
  assert (Hincl : incl (nodes arcs a q) (seq 0 n)).
  { intros x Hx. apply in_seq. split; [lia|]. cbn [plus]. destruct Hx as [<-|Hx]; [exact Ha|].
    apply in_map_iff in Hx. destruct Hx as (e & <- & He). apply Hh.
    destruct Hq as [_ F]. rewrite Forall_forall in F. exact (proj1 (F e He)). }
  pose proof (NoDup_incl_length Hnd Hincl) as Hl. unfold nodes in Hl. cbn [length] in Hl.
  rewrite map_length, seq_length in Hl. exact Hl.
Qed.

End Walks.
