(* C09 - generic lemmas for the assignment theorem: finite sums of functions, net outflow as
   (sum of pair flows out) - (sum of pair flows in), structure of the pooled dictionary, and what `extract` computes. *)
From Coq Require Import List ZArith Bool Arith Lia.
From SV Require Import C09.Mcf C09.McfSpec C09.AssignSpec C09.McfCert C09.McfAug C09.McfProofs.
Import ListNotations.
Open Scope Z_scope.
Import Mcf McfSpec AssignSpec.


Lemma zsumf_ext g h N : (forall w, (w < N)%nat -> g w = h w) -> zsumf g N = zsumf h N.
Proof. induction N as [|k IH]; intros H; cbn [zsumf]; [reflexivity|]. rewrite IH by (intros; apply H; lia). rewrite (H k) by lia. reflexivity. Qed.

Lemma zsumf_add g h N : zsumf (fun w => g w + h w) N = zsumf g N + zsumf h N.
Proof. induction N as [|k IH]; cbn [zsumf]; [reflexivity|]. rewrite IH. lia. Qed.

Lemma zsumf_zero N : zsumf (fun _ => 0) N = 0.
Proof. induction N as [|k IH]; cbn [zsumf]; [reflexivity|]. rewrite IH. lia. Qed.

Lemma zsumf_nonneg g N : (forall w, (w < N)%nat -> 0 <= g w) -> 0 <= zsumf g N.
Proof. induction N as [|k IH]; intros H; cbn [zsumf]; [lia|]. specialize (IH ltac:(intros; apply H; lia)). specialize (H k ltac:(lia)). lia. Qed.

Lemma zsumf_ge_term g N j : (forall w, (w < N)%nat -> 0 <= g w) -> (j < N)%nat -> g j <= zsumf g N.
Proof.
  induction N as [|k IH]; intros H Hj; [lia|]. cbn [zsumf].
  destruct (Nat.eq_dec j k) as [->|Hne].
  - pose proof (zsumf_nonneg g k ltac:(intros; apply H; lia)). lia.
  - specialize (IH ltac:(intros; apply H; lia) ltac:(lia)). specialize (H k ltac:(lia)). lia.
Qed.

Lemma zsumf_ge_two g N j j' : (forall w, (w < N)%nat -> 0 <= g w) -> (j < N)%nat -> (j' < N)%nat -> j <> j' ->
  g j + g j' <= zsumf g N.
Proof.
  induction N as [|k IH]; intros H Hj Hj' Hne; [lia|]. cbn [zsumf].
  assert (Hk : forall w, (w < k)%nat -> 0 <= g w) by (intros; apply H; lia).
  destruct (Nat.eq_dec j k) as [->|Hjk]; [|destruct (Nat.eq_dec j' k) as [->|Hj'k]].
  - pose proof (zsumf_ge_term g k j' Hk ltac:(lia)). lia.
  - pose proof (zsumf_ge_term g k j Hk ltac:(lia)). lia.
  - specialize (IH Hk ltac:(lia) ltac:(lia) Hne). specialize (H k ltac:(lia)). lia.
Qed.

Lemma zsumf_single g N u0 : (u0 < N)%nat -> (forall w, (w < N)%nat -> w <> u0 -> g w = 0) -> zsumf g N = g u0.
Proof.
  induction N as [|k IH]; intros Hu H; [lia|]. cbn [zsumf].
  destruct (Nat.eq_dec u0 k) as [->|Hne].
  - rewrite (zsumf_ext g (fun _ => 0) k) by (intros; apply H; lia). rewrite zsumf_zero. lia.
  - rewrite IH by (try lia; intros; apply H; lia). rewrite (H k) by lia. lia.
Qed.

Lemma zsumf_all_zero g N : (forall w, (w < N)%nat -> g w = 0) -> zsumf g N = 0.
Proof. intros H. rewrite (zsumf_ext g (fun _ => 0) N H). apply zsumf_zero. Qed.

Lemma zsumf_pos_ex g N : 1 <= zsumf g N -> exists w, (w < N)%nat /\ g w <> 0.
Proof.
  induction N as [|k IH]; cbn [zsumf]; intros H; [lia|].
  destruct (Z.eq_dec (g k) 0) as [Hz|Hnz].
  - destruct (IH ltac:(lia)) as (w & Hw & Hg). exists w. split; [lia|exact Hg].
  - exists k. split; [lia|exact Hnz].
Qed.

Lemma zsumf_app g N1 N2 : zsumf g (N1 + N2) = zsumf g N1 + zsumf (fun k => g (N1 + k)%nat) N2.
Proof.
  induction N2 as [|k IH]; [rewrite Nat.add_0_r; cbn [zsumf]; lia|].
  rewrite Nat.add_succ_r. cbn [zsumf]. rewrite IH. lia.
Qed.

(* ---------------- net outflow through pair flows *)
Lemma pair_sum_cons a arcs x f u v :
  pair_sum (a :: arcs) (x :: f) u v = (if Nat.eqb (a_u a) u then delta (a_v a) x v else 0) + pair_sum arcs f u v.
Proof. cbn [pair_sum]. unfold delta. destruct (Nat.eqb (a_u a) u); destruct (Nat.eqb (a_v a) v); reflexivity. Qed.

Lemma zsumf_delta u x N : (u < N)%nat -> zsumf (delta u x) N = x.
Proof.
  intros H. rewrite (zsumf_single (delta u x) N u H).
  - unfold delta. rewrite Nat.eqb_refl. reflexivity.
  - intros w _ Hne. unfold delta. destruct (Nat.eqb_spec u w); [congruence|reflexivity].
Qed.

Definition labels_lt (N : nat) (arcs : list arc) : Prop := forall a, In a arcs -> (a_u a < N)%nat /\ (a_v a < N)%nat.

Lemma netout_pairs N arcs : forall f w, labels_lt N arcs ->
  netout arcs f w = zsumf (pair_sum arcs f w) N - zsumf (fun u => pair_sum arcs f u w) N.
Proof.
  induction arcs as [|a arcs IH]; intros f w HL.
  - cbn [netout pair_sum]. rewrite zsumf_zero. lia.
  - destruct f as [|x f]; [cbn [netout pair_sum]; rewrite zsumf_zero; lia|].
    destruct (HL a (or_introl eq_refl)) as [Hu Hv].
    cbn [netout]. rewrite (IH f w) by (intros b Hb; apply HL; right; exact Hb).
    rewrite (zsumf_ext (pair_sum (a :: arcs) (x :: f) w)
                       (fun v => (if Nat.eqb (a_u a) w then delta (a_v a) x v else 0) + pair_sum arcs f w v))
      by (intros; apply pair_sum_cons).
    rewrite (zsumf_ext (fun u => pair_sum (a :: arcs) (x :: f) u w)
                       (fun u => (if Nat.eqb (a_v a) w then delta (a_u a) x u else 0) + pair_sum arcs f u w)).
    2:{ intros u _. cbn [pair_sum]. unfold delta. destruct (Nat.eqb (a_u a) u); destruct (Nat.eqb (a_v a) w); reflexivity. }
    rewrite !zsumf_add.
    destruct (Nat.eqb (a_u a) w); destruct (Nat.eqb (a_v a) w); cbv beta iota;
      rewrite ?(zsumf_ext (fun v => delta (a_v a) x v) (delta (a_v a) x)) by reflexivity;
      rewrite ?(zsumf_ext (fun u => delta (a_u a) x u) (delta (a_u a) x)) by reflexivity;
      rewrite ?zsumf_delta by assumption; rewrite ?zsumf_zero; lia.
Qed.

Lemma pair_sum_nonneg arcs : forall f u v, bounded arcs f -> 0 <= pair_sum arcs f u v.
Proof.
  induction arcs as [|a arcs IH]; intros [|x f] u v Hb; cbn [pair_sum]; try lia.
  cbn [bounded] in Hb. destruct Hb as [Hx Hb]. specialize (IH f u v Hb).
  destruct (Nat.eqb (a_u a) u && Nat.eqb (a_v a) v)%bool; lia.
Qed.

(* with at most one arc per (u,v) key, the pair flow is bounded by that arc's capacity *)
Definition akey (a : arc) : nat * nat := (a_u a, a_v a).

Lemma pair_sum_le_cap arcs : forall f a, NoDup (map akey arcs) -> bounded arcs f -> In a arcs ->
  pair_sum arcs f (a_u a) (a_v a) <= a_cap a.
Proof.
  induction arcs as [|a0 arcs IH]; intros f a Hnd Hb Hin; [contradiction|].
  destruct f as [|x f]; [contradiction|]. cbn [bounded] in Hb. destruct Hb as [Hx Hb].
  cbn [map] in Hnd. inversion Hnd as [|? ? Hnotin Hnd']; subst. cbn [pair_sum].
  destruct Hin as [->|Hin].
  - rewrite !Nat.eqb_refl. cbn [andb].
    rewrite pair_sum_absent; [lia|].
    destruct (existsb (fun b => (Nat.eqb (a_u b) (a_u a) && Nat.eqb (a_v b) (a_v a))%bool) arcs) eqn:E; [|reflexivity].
    exfalso. apply existsb_exists in E. destruct E as (b & Hb' & Hk). apply Hnotin.
    apply andb_prop in Hk. destruct Hk as [H1 H2]. apply Nat.eqb_eq in H1. apply Nat.eqb_eq in H2.
    apply in_map_iff. exists b. split; [unfold akey; rewrite H1, H2; reflexivity|exact Hb'].
  - destruct (Nat.eqb_spec (a_u a0) (a_u a)) as [E1|]; destruct (Nat.eqb_spec (a_v a0) (a_v a)) as [E2|]; cbn [andb];
      try (specialize (IH f a Hnd' Hb Hin); lia).
    exfalso. apply Hnotin. apply in_map_iff. exists a. split; [unfold akey; rewrite E1, E2; reflexivity|exact Hin].
Qed.

Lemma pair_sum_pos_arc arcs f u v : pair_sum arcs f u v <> 0 -> exists a, In a arcs /\ a_u a = u /\ a_v a = v.
Proof.
  intros H. destruct (existsb (fun a => (Nat.eqb (a_u a) u && Nat.eqb (a_v a) v)%bool) arcs) eqn:E.
  - apply existsb_exists in E. destruct E as (a & Ha & Hk). apply andb_prop in Hk. destruct Hk as [H1 H2].
    apply Nat.eqb_eq in H1. apply Nat.eqb_eq in H2. exists a. auto.
  - exfalso. apply H. apply pair_sum_absent. exact E.
Qed.

(* ---------------- the pooled dictionary has unique keys *)
Definition dkey (x : nat * nat * Z) : nat * nat := (fst (fst x), snd (fst x)).

Lemma dict_add_keys d : forall u v x k, In k (map dkey (dict_add d u v x)) -> In k (map dkey d) \/ k = (u, v).
Proof.
  induction d as [|[[u0 v0] y] d IH]; intros u v x k H; cbn [dict_add] in H.
  - cbn in H. destruct H as [<-|[]]. right. reflexivity.
  - destruct (Nat.eqb u u0 && Nat.eqb v v0)%bool; cbn [map] in *; [left; exact H|].
    destruct H as [H|H]; [left; left; exact H|]. destruct (IH _ _ _ _ H) as [H'|H']; [left; right; exact H'|right; exact H'].
Qed.

Lemma dict_add_nodup d : forall u v x, NoDup (map dkey d) -> NoDup (map dkey (dict_add d u v x)).
Proof.
  induction d as [|[[u0 v0] y] d IH]; intros u v x Hnd; cbn [dict_add].
  - cbn. constructor; [intros []|constructor].
  - destruct (Nat.eqb_spec u u0) as [Eu|Eu]; destruct (Nat.eqb_spec v v0) as [Ev|Ev]; cbn [andb map] in *;
      try exact Hnd; inversion Hnd as [|? ? Hnotin Hnd']; subst;
      (constructor; [|apply IH; exact Hnd']); intros Hin; destruct (dict_add_keys _ _ _ _ _ Hin) as [H|H];
      try (apply Hnotin; exact H); unfold dkey in H; cbn [fst snd] in H; inversion H; congruence.
Qed.

Lemma pool_nodup : forall arcs res d0, NoDup (map dkey d0) -> NoDup (map dkey (pool arcs res d0)).
Proof.
  induction arcs as [|a arcs IH]; intros res d0 Hnd; [exact Hnd|].
  destruct res as [|[rf rb] res]; [exact Hnd|]. cbn [pool]. apply IH.
  destruct (0 <? rb); [apply dict_add_nodup; exact Hnd|exact Hnd].
Qed.

Lemma dict_get_nodup d : forall u v y, NoDup (map dkey d) -> In (u, v, y) d -> dict_get d u v = Some y.
Proof.
  induction d as [|[[u0 v0] y0] d IH]; intros u v y Hnd Hin; [contradiction|].
  cbn [map] in Hnd. inversion Hnd as [|? ? Hnotin Hnd']; subst. cbn [dict_get].
  destruct Hin as [Heq|Hin].
  - inversion Heq; subst. rewrite !Nat.eqb_refl. reflexivity.
  - destruct (Nat.eqb_spec u u0) as [->|]; destruct (Nat.eqb_spec v v0) as [->|]; cbn [andb]; try (apply IH; assumption).
    exfalso. apply Hnotin. apply in_map_iff. exists (u0, v0, y). split; [reflexivity|exact Hin].
Qed.

(* ---------------- extract *)
Definition qual (n : nat) (x : nat * nat * Z) : bool :=
  let '(u, v, f) := x in ((0 <? f) && Nat.leb 2 u && Nat.ltb u (2 + n) && Nat.leb (2 + n) v)%bool.

Definition estep (n : nat) (asg : list Z) (x : nat * nat * Z) : list Z :=
  let '(u, v, f) := x in if qual n x then upd asg (u - 2) (Z.of_nat (v - (2 + n))) else asg.

Lemma fold_left_ext {A B} (f g : A -> B -> A) : (forall a x, f a x = g a x) ->
  forall l a, fold_left f l a = fold_left g l a.
Proof. intros H. induction l as [|x l IH]; intros a; cbn [fold_left]; [reflexivity|]. rewrite H. apply IH. Qed.

Lemma extract_fold n m d : extract n m d = fold_left (estep n) d (repeat (-1) n).
Proof. unfold extract. apply fold_left_ext. intros a [[u v] f]. reflexivity. Qed.

(* under row-uniqueness of the qualifying entries, entry i of the result is decided by ANY qualifying entry of row i *)
Lemma estep_length n asg x : length (estep n asg x) = length asg.
Proof. destruct x as [[u v] f]. unfold estep. destruct (qual n (u, v, f)); [apply length_upd|reflexivity]. Qed.

Lemma fold_estep_length n : forall d asg, length (fold_left (estep n) d asg) = length asg.
Proof. induction d as [|x d IH]; intros asg; cbn [fold_left]; [reflexivity|]. rewrite IH. apply estep_length. Qed.

Definition row_unique (n : nat) (d : list (nat * nat * Z)) : Prop :=
  forall u v y v' y', In (u, v, y) d -> In (u, v', y') d -> qual n (u, v, y) = true -> qual n (u, v', y') = true -> v = v'.

Lemma fold_estep_none n i : forall d asg,
  (forall u v y, In (u, v, y) d -> qual n (u, v, y) = true -> (u - 2)%nat <> i) ->
  nth i (fold_left (estep n) d asg) (-1) = nth i asg (-1).
Proof.
  induction d as [|[[u v] y] d IH]; intros asg H; cbn [fold_left]; [reflexivity|].
  rewrite IH by (intros u' v' y' Hin; apply H; right; exact Hin).
  unfold estep. destruct (qual n (u, v, y)) eqn:Q; [|reflexivity].
  apply nth_upd_other. intros Heq. apply (H u v y (or_introl eq_refl) Q). symmetry. exact Heq.
Qed.

Lemma fold_estep_some n i : forall d asg u v y,
  row_unique n d -> (i < length asg)%nat ->
  In (u, v, y) d -> qual n (u, v, y) = true -> (u - 2)%nat = i ->
  nth i (fold_left (estep n) d asg) (-1) = Z.of_nat (v - (2 + n)).
Proof.
  induction d as [|[[u0 v0] y0] d IH]; intros asg u v y Hru Hi Hin Q Hu; [contradiction|].
  cbn [fold_left].
  assert (Hru' : row_unique n d).
  { intros a b c b' c' H1 H2. apply (Hru a b c b' c'); right; assumption. }
  destruct Hin as [Heq|Hin].
  - inversion Heq; subst u0 v0 y0. unfold estep at 2. rewrite Q.
    (* later qualifying entries of the same row carry the same v *)
    destruct (existsb (fun x => (qual n x && Nat.eqb (fst (fst x) - 2) i)%bool) d) eqn:E.
    + apply existsb_exists in E. destruct E as ([[u1 v1] y1] & Hin1 & Hq1). apply andb_prop in Hq1. destruct Hq1 as [Q1 E1].
      cbn [fst] in E1. apply Nat.eqb_eq in E1.
      assert (u1 = u).
      { unfold qual in Q, Q1. apply andb_prop in Q. destruct Q as [Q _]. apply andb_prop in Q. destruct Q as [Q _]. apply andb_prop in Q. destruct Q as [_ Q].
        apply andb_prop in Q1. destruct Q1 as [Q1 _]. apply andb_prop in Q1. destruct Q1 as [Q1 _]. apply andb_prop in Q1. destruct Q1 as [_ Q1].
        apply Nat.leb_le in Q. apply Nat.leb_le in Q1. lia. }
      subst u1.
      assert (v1 = v) by (apply (Hru u v1 y1 v y); [right; exact Hin1|left; reflexivity|assumption|assumption]).
      subst v1. apply (IH _ u v y1 Hru'); [rewrite length_upd; exact Hi|exact Hin1|assumption|exact Hu].
    + rewrite fold_estep_none.
      * rewrite <- Hu. apply nth_upd_same. rewrite Hu. exact Hi.
      * intros u1 v1 y1 Hin1 Q1 E1.
        assert (Hex : existsb (fun x => (qual n x && Nat.eqb (fst (fst x) - 2) i)%bool) d = true).
        { apply existsb_exists. exists (u1, v1, y1). split; [exact Hin1|]. rewrite Q1. cbn [fst andb]. apply Nat.eqb_eq. exact E1. }
        rewrite Hex in E. discriminate.
  - apply (IH _ u v y Hru'); [rewrite estep_length; exact Hi|exact Hin|exact Q|exact Hu].
Qed.
