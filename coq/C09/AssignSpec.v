(* C09 - solve_assignment: the per-arc flow on the network Mcf.assign_arcs that an assignment vector denotes,
   and the boolean checker used on the implementation's answers (sound: AssignProofs.assignment_check_sound). *)
From Coq Require Import List ZArith Bool Arith Lia.
From SV Require Import C09.Mcf C09.McfSpec.
Import ListNotations.
Open Scope Z_scope.

Module AssignSpec.
Import Mcf McfSpec.

Definition rows (M : list (list Z)) : nat := length M.
Definition cols (M : list (list Z)) : nat := match M with [] => O | r :: _ => length r end.

(* flow 1 on source->L_i iff row i is assigned, on L_i->R_j iff asg[i] = j, on R_j->sink iff column j is used *)
Definition asg_flow (n m : nat) (asg : list Z) : list Z :=
  map (fun i => if nth i asg (-1) =? -1 then 0 else 1) (seq 0 n)
  ++ flat_map (fun i => map (fun j => if nth i asg (-1) =? Z.of_nat j then 1 else 0) (seq 0 m)) (seq 0 n)
  ++ map (fun j => if existsb (fun x => x =? Z.of_nat j) asg then 1 else 0) (seq 0 m).

Definition assign_b (n m : nat) : nat -> Z := demand_b 0 1 (Z.of_nat (Nat.min n m)).

(* the assignment vector has one entry per row, entries are -1 or a column index; its flow is a feasible flow of
   min(n,m) units on the unit network (hence a matching of min(n,m) pairs), of the reported cost, and the
   potentials pi certify that no feasible flow is cheaper *)
Definition assignment_check (M : list (list Z)) (asg : list Z) (cost : Z) (pi : list Z) : bool :=
  let n := rows M in let m := cols M in
  (Nat.eqb (length asg) n
   && forallb (fun x => (-1 <=? x) && (x <? Z.of_nat m))%bool asg
   && cert_check (2 + n + m) (assign_arcs n m M) (assign_b n m) (asg_flow n m asg) pi
   && (cost =? flow_cost (assign_arcs n m M) (asg_flow n m asg)))%bool.

(* ---------------- what "a matching of min(n,m) pairs" means for an assignment vector *)
Fixpoint zsumf (g : nat -> Z) (N : nat) : Z :=
  match N with O => 0 | S k => zsumf g k + g k end.

Definition assigned (asg : list Z) (i : nat) : Z := if nth i asg (-1) =? -1 then 0 else 1.

Record matching (n m : nat) (asg : list Z) : Prop := {
  mt_len : length asg = n;                                   (* one entry per row *)
  mt_range : forall i, (i < n)%nat -> nth i asg (-1) = -1 \/ 0 <= nth i asg (-1) < Z.of_nat m;
  mt_inj : forall i i', (i < n)%nat -> (i' < n)%nat ->       (* no column twice *)
           nth i asg (-1) <> -1 -> nth i asg (-1) = nth i' asg (-1) -> i = i';
  mt_count : zsumf (assigned asg) n = Z.of_nat (Nat.min n m) (* exactly min(n,m) rows are assigned *)
}.

End AssignSpec.
