(* C09 deepening, round 2 - network_simplex: the tree walks of one pivot.
   find_join returns the join of the two tree paths (node-disjoint chains first ~> join, second ~> join);
   the ratio test returns the minimum residual along the cycle and an arc attaining it;
   push changes the flow of each cycle arc once, by delta, in the direction whose residual was tested,
   and leaves the net outflow of every node unchanged once the cycle is closed.
   Also: what the pricing rule returns. *)
From Coq Require Import List ZArith Bool Arith Lia.
From SV Require Import C09.Mcf C09.McfSpec C09.McfAug C09.NetSimplex C09.DeepNS2Base.
Import ListNotations.
Open Scope Z_scope.
Import Mcf McfSpec NetSimplex.

Section Walk.
Variable C : consts.
Local Notation n := (c_n C).
Local Notation T := (c_m C + c_n C)%nat.
Local Notation src a := (nn (c_src C) a).
Local Notation tgt a := (nn (c_tgt C) a).
Local Notation cap a := (nz (c_cap C) a).
Variable s : st.
Hypothesis HT : TreeOK C s.
Local Notation par v := (nn (parent s) v).
Local Notation prd v := (nn (pred s) v).
Local Notation dep v := (nz (depth s) v).

(* ---------------- _find_join *)
Lemma find_join_spec : forall f u v j, (u <= n)%nat -> (v <= n)%nat -> find_join f s u v = Some j ->
  exists pu pv, chain C s u pu j /\ chain C s v pv j /\ (forall x, In x pu -> In x pv -> False).
Proof.
  assert (Hbase : forall u j, Some u = Some j ->
            exists pu pv : list nat, chain C s u pu j /\ chain C s u pv j /\ (forall x, In x pu -> In x pv -> False)).
  { intros u j H. inversion H; subst. exists [], []. split; [constructor|]. split; [constructor|]. intros x []. }
  induction f as [|f IH]; intros u v j Hu Hv H; cbn [find_join] in H.
  - destruct (Nat.eqb_spec u v) as [->|Hne]; [|discriminate]. apply Hbase. exact H.
  - destruct (Nat.eqb_spec u v) as [->|Hne]; [apply Hbase; exact H|].
    destruct (Z.ltb_spec (dep v) (dep u)) as [Hlt|Hge].
    + assert (Hun : (u < n)%nat).
      { destruct (Nat.eq_dec u n) as [->|]; [|lia]. rewrite (t_dep0 C s HT) in Hlt. pose proof (t_depnn C s HT v Hv). lia. }
      destruct (IH _ _ _ (t_par C s HT u Hun) Hv H) as (pu & pv & H1 & H2 & H3).
      exists (u :: pu), pv. split; [constructor; assumption|]. split; [exact H2|].
      intros x [<-|Hx] Hxv; [|exact (H3 x Hx Hxv)].
      destruct (chain_in C s HT _ _ _ H2 u Hxv) as (_ & _ & [E|Hd]); [congruence|lia].
    + assert (Hvn : (v < n)%nat).
      { destruct (Nat.eq_dec v n) as [->|]; [|lia]. rewrite (t_dep0 C s HT) in Hge.
        destruct (Nat.eq_dec u n) as [->|]; [congruence|]. pose proof (dep_pos C s HT u ltac:(lia)). lia. }
      destruct (IH _ _ _ Hu (t_par C s HT v Hvn) H) as (pu & pv & H1 & H2 & H3).
      exists pu, (v :: pv). split; [exact H1|]. split; [constructor; assumption|].
      intros x Hx [<-|Hxv]; [|exact (H3 x Hx Hxv)].
      destruct (chain_in C s HT _ _ _ H1 v Hx) as (_ & _ & [E|Hd]); [congruence|lia].
Qed.

(* ---------------- the ratio test *)
Definition res1 (b : bool) (x : nat) : Z := residual C s (prd x) (if b then x else par x).

Definition rstep (b : bool) (acc : Z * nat * bool) (x : nat) : Z * nat * bool :=
  if res1 b x <? fst (fst acc) then (res1 b x, prd x, b) else acc.

Lemma ratio_chain : forall f b node join acc r p, chain C s node p join ->
  ratio C f s b node join acc = Some r -> r = fold_left (rstep b) p acc.
Proof.
  induction f as [|f IH]; intros b node join acc r p Hc H; cbn [ratio] in H.
  - destruct (Nat.eqb_spec node join) as [E|Hne]; [|discriminate]. inversion H; subst r.
    destruct p as [|x p]; [reflexivity|]. exfalso. exact (chain_head_ne C s HT _ _ _ Hc ltac:(discriminate) E).
  - destruct (Nat.eqb_spec node join) as [E|Hne].
    + inversion H; subst r. destruct p as [|x p]; [reflexivity|]. exfalso.
      exact (chain_head_ne C s HT _ _ _ Hc ltac:(discriminate) E).
    + inversion Hc as [|? p' ? Hn Hc']; subst; [congruence|].
      destruct acc as [[delta leaving] lf]. cbn [fold_left]. apply (IH _ _ _ _ _ _ Hc') in H. rewrite H.
      unfold rstep at 2, res1. cbn [fst]. reflexivity.
Qed.

Lemma rfold_spec b : forall p acc,
  fst (fst (fold_left (rstep b) p acc)) <= fst (fst acc) /\
  (forall x, In x p -> fst (fst (fold_left (rstep b) p acc)) <= res1 b x) /\
  (fold_left (rstep b) p acc = acc \/ exists x, In x p /\ fold_left (rstep b) p acc = (res1 b x, prd x, b)).
Proof.
  induction p as [|x p IH]; intros acc; cbn [fold_left].
  - split; [lia|]. split; [intros x []|left; reflexivity].
  - destruct (IH (rstep b acc x)) as (H1 & H2 & H3).
    assert (Hs : fst (fst (rstep b acc x)) <= fst (fst acc) /\ fst (fst (rstep b acc x)) <= res1 b x /\
                 (rstep b acc x = acc \/ rstep b acc x = (res1 b x, prd x, b))).
    { unfold rstep. destruct (Z.ltb_spec (res1 b x) (fst (fst acc))); cbn [fst]; repeat split; try lia; auto. }
    destruct Hs as (S1 & S2 & S3). split; [lia|]. split.
    + intros y [<-|Hy]; [lia|exact (H2 y Hy)].
    + destruct H3 as [H3|(y & Hy & H3)]; [|right; exists y; split; [right; exact Hy|exact H3]].
      rewrite H3. destruct S3 as [S3|S3]; [left; exact S3|right; exists x; split; [left; reflexivity|exact S3]].
Qed.

(* ---------------- push *)
Definition pval (b : bool) (delta : Z) (fl : list Z) (x : nat) : Z :=
  if Bool.eqb (Nat.eqb (src (prd x)) x) b then nz fl (prd x) - delta else nz fl (prd x) + delta.

Definition pstep (b : bool) (delta : Z) (fl : list Z) (x : nat) : list Z := upd fl (prd x) (pval b delta fl x).

Lemma push_chain : forall f b node join delta fl fl' p, chain C s node p join ->
  push C f s b node join delta fl = Some fl' -> fl' = fold_left (pstep b delta) p fl.
Proof.
  induction f as [|f IH]; intros b node join delta fl fl' p Hc H; cbn [push] in H.
  - destruct (Nat.eqb_spec node join) as [E|Hne]; [|discriminate]. inversion H; subst fl'.
    destruct p as [|x p]; [reflexivity|]. exfalso. exact (chain_head_ne C s HT _ _ _ Hc ltac:(discriminate) E).
  - destruct (Nat.eqb_spec node join) as [E|Hne].
    + inversion H; subst fl'. destruct p as [|x p]; [reflexivity|]. exfalso.
      exact (chain_head_ne C s HT _ _ _ Hc ltac:(discriminate) E).
    + inversion Hc as [|? p' ? Hn Hc']; subst; [congruence|].
      cbn [fold_left]. apply (IH _ _ _ _ _ _ _ Hc') in H. rewrite H. reflexivity.
Qed.

Lemma pfold_len b delta : forall p fl, length (fold_left (pstep b delta) p fl) = length fl.
Proof. induction p as [|x p IH]; intros fl; cbn [fold_left]; [reflexivity|]. rewrite IH. apply length_upd. Qed.

Lemma pfold_other b delta : forall p fl a, (forall x, In x p -> prd x <> a) ->
  nz (fold_left (pstep b delta) p fl) a = nz fl a.
Proof.
  induction p as [|x p IH]; intros fl a H; cbn [fold_left]; [reflexivity|].
  rewrite IH by (intros y Hy; apply H; right; exact Hy). unfold pstep. apply nz_upd_other.
  intros E. apply (H x); [left; reflexivity|]. symmetry. exact E.
Qed.

Lemma pfold_at b delta : forall p fl x, NoDup p -> (forall y, In y p -> (y < n)%nat) -> In x p ->
  (prd x < length fl)%nat -> nz (fold_left (pstep b delta) p fl) (prd x) = pval b delta fl x.
Proof.
  induction p as [|x0 p IH]; intros fl x Hnd Hlt Hx Hl; [contradiction|]. cbn [fold_left].
  inversion Hnd as [|? ? Hn0 Hnd']; subst.
  assert (Hinj : forall y, In y p -> y <> x -> prd y <> prd x).
  { intros y Hy Hne E. apply Hne. apply (pred_inj C s HT); [apply Hlt; right; exact Hy|apply Hlt; exact Hx|exact E]. }
  destruct (Nat.eq_dec x x0) as [->|Hne].
  - rewrite pfold_other.
    + unfold pstep. apply nz_upd_same. exact Hl.
    + intros y Hy. apply Hinj; [exact Hy|]. intros ->. contradiction.
  - destruct Hx as [E|Hx]; [congruence|].
    rewrite IH; [|exact Hnd'|intros y Hy; apply Hlt; right; exact Hy|exact Hx|unfold pstep; rewrite length_upd; exact Hl].
    assert (Hne' : prd x0 <> prd x).
    { intros E. apply Hne. symmetry. apply (pred_inj C s HT); [apply Hlt; left; reflexivity|apply Hlt; right; exact Hx|exact E]. }
    unfold pval, pstep. rewrite nz_upd_other by (intros E; apply Hne'; symmetry; exact E). reflexivity.
Qed.

(* the new value of a path arc and the residual that the ratio test read for it *)
Lemma pval_res b delta fl x : (x < n)%nat -> nz fl (prd x) = nz (flow s) (prd x) ->
  (pval b delta fl x = nz (flow s) (prd x) - delta /\ res1 b x = nz (flow s) (prd x)) \/
  (pval b delta fl x = nz (flow s) (prd x) + delta /\ res1 b x = cap (prd x) - nz (flow s) (prd x)).
Proof.
  intros Hx Hfl. destruct (t_pred C s HT x Hx) as [_ J]. pose proof (par_ne C s HT x Hx) as Hne.
  unfold pval, res1, residual. rewrite Hfl.
  destruct J as [[J1 J2]|[J1 J2]].
  - rewrite J1, Nat.eqb_refl. destruct b; cbn [Bool.eqb].
    + rewrite Nat.eqb_refl. left. split; reflexivity.
    + destruct (Nat.eqb_spec x (par x)) as [E|_]; [congruence|]. right. split; reflexivity.
  - rewrite J1. destruct b; cbn [Bool.eqb].
    + destruct (Nat.eqb_spec (par x) x) as [E|_]; [congruence|]. right. split; reflexivity.
    + destruct (Nat.eqb_spec (par x) x) as [E|_]; [congruence|]. rewrite Nat.eqb_refl. left. split; reflexivity.
Qed.

(* net outflow: one walk moves delta units of excess between its two ends *)
Lemma pfold_netx b delta : forall node p join, chain C s node p join -> forall fl, length fl = T -> forall w,
  netx C (fold_left (pstep b delta) p fl) w =
  netx C fl w + (if b then 1 else -1) * delta * ((if Nat.eqb join w then 1 else 0) - (if Nat.eqb node w then 1 else 0)).
Proof.
  induction 1 as [u|u p j Hu Hc IH]; intros fl Hl w; cbn [fold_left]; [lia|].
  destruct (t_pred C s HT u Hu) as [Ha J]. pose proof (par_ne C s HT u Hu) as Hne.
  rewrite IH by (unfold pstep; rewrite length_upd; exact Hl).
  assert (Hstep : netx C (pstep b delta fl u) w =
                  netx C fl w + (if b then 1 else -1) * delta * ((if Nat.eqb (par u) w then 1 else 0) - (if Nat.eqb u w then 1 else 0))).
  { unfold pstep, pval.
    destruct J as [[J1 J2]|[J1 J2]].
    - rewrite J1, Nat.eqb_refl. destruct b; cbn [Bool.eqb].
      + replace (nz fl (prd u) - delta) with (nz fl (prd u) + - delta) by lia.
        rewrite netx_upd by lia. unfold coef. rewrite J1, J2. lia.
      + rewrite netx_upd by lia. unfold coef. rewrite J1, J2. lia.
    - rewrite J1. destruct (Nat.eqb_spec (par u) u) as [E|_]; [congruence|]. destruct b; cbn [Bool.eqb].
      + rewrite netx_upd by lia. unfold coef. rewrite J1, J2. lia.
      + replace (nz fl (prd u) - delta) with (nz fl (prd u) + - delta) by lia.
        rewrite netx_upd by lia. unfold coef. rewrite J1, J2. lia. }
  rewrite Hstep. lia.
Qed.

End Walk.

(* ---------------- the pricing rule *)
Section Pricing.
Variable C : consts.
Variable s : st.
Local Notation T := (c_m C + c_n C)%nat.

Definition prstep (acc : option nat * Z) (arc : nat) : option nat * Z :=
  let '(ent, best) := acc in
  let sa := nz (state s) arc in
  if sa =? 0 then acc
  else let rc := redcost C s arc in
       if ((sa =? 1) && (rc <? best))%bool then (Some arc, rc)
       else if ((sa =? -1) && (- rc <? best))%bool then (Some arc, - rc)
       else acc.

Definition price_ok (e : nat) : Prop :=
  (nz (state s) e = 1 /\ redcost C s e < 0) \/ (nz (state s) e = -1 /\ 0 < redcost C s e).

Lemma prfold : forall l acc, snd acc <= 0 -> (forall e, fst acc = Some e -> (e < T)%nat /\ price_ok e) ->
  (forall a, In a l -> (a < T)%nat) ->
  forall e, fst (fold_left prstep l acc) = Some e -> (e < T)%nat /\ price_ok e.
Proof.
  induction l as [|x l IH]; intros acc Hb Ha Hl e He; cbn [fold_left] in He; [exact (Ha e He)|].
  apply (IH (prstep acc x)); [| |intros a Hin; apply Hl; right; exact Hin|exact He].
  - destruct acc as [ent best]. cbn [snd] in Hb. unfold prstep.
    destruct (nz (state s) x =? 0); [exact Hb|].
    destruct (Z.eqb_spec (nz (state s) x) 1); cbn [andb].
    + destruct (Z.ltb_spec (redcost C s x) best); [cbn [snd]; lia|].
      destruct (Z.eqb_spec (nz (state s) x) (-1)); cbn [andb]; [|exact Hb].
      destruct (Z.ltb_spec (- redcost C s x) best); [cbn [snd]; lia|exact Hb].
    + destruct (Z.eqb_spec (nz (state s) x) (-1)); cbn [andb]; [|exact Hb].
      destruct (Z.ltb_spec (- redcost C s x) best); [cbn [snd]; lia|exact Hb].
  - destruct acc as [ent best]. cbn [snd fst] in Hb, Ha. unfold prstep.
    assert (Hx : (x < T)%nat) by (apply Hl; left; reflexivity).
    destruct (nz (state s) x =? 0); [exact Ha|].
    destruct (Z.eqb_spec (nz (state s) x) 1) as [E1|E1]; cbn [andb].
    + destruct (Z.ltb_spec (redcost C s x) best) as [Hlt|Hge].
      * cbn [fst]. intros e' E. inversion E; subst e'. split; [exact Hx|]. left. split; [exact E1|lia].
      * destruct (Z.eqb_spec (nz (state s) x) (-1)) as [E2|E2]; cbn [andb]; [lia|exact Ha].
    + destruct (Z.eqb_spec (nz (state s) x) (-1)) as [E2|E2]; cbn [andb]; [|exact Ha].
      destruct (Z.ltb_spec (- redcost C s x) best) as [Hlt|Hge]; [|exact Ha].
      cbn [fst]. intros e' E. inversion E; subst e'. split; [exact Hx|]. right. split; [exact E2|lia].
Qed.

Lemma pricing_some e : pricing C s = Some e -> (e < T)%nat /\ price_ok e.
Proof.
  intros H. apply (prfold (seq 0 T) (None, 0)); [cbn; lia|cbn; discriminate| |exact H].
  intros a Ha. apply in_seq in Ha. lia.
Qed.

End Pricing.
