(* C09 deepening, round 2 - network_simplex: from the invariant to the property.
   Every state the main loop reaches satisfies NSInv (DeepNS2Init.init_inv, DeepNS2Step.loop_inv); when the pricing rule
   finds no entering arc and no artificial arc carries flow, the flows of the original arcs are feasible for the supplies
   and the negated potentials certify minimality (McfCert.cert_optimal). *)
From Coq Require Import List ZArith Bool Arith Lia.
From SV Require Import C09.Mcf C09.McfSpec C09.McfCert C09.McfAug C09.McfProofs C09.NetSimplex C09.NetSimplexProofs C09.DeepPot C09.DeepNS.
From SV Require Import C09.DeepNS2Base C09.DeepNS2Step C09.DeepNS2Init.
Import ListNotations.
Open Scope Z_scope.
Import Mcf McfSpec NetSimplex.

Lemma bounded_nth : forall arcs f, length f = length arcs ->
  (forall k, (k < length arcs)%nat -> 0 <= nth k f 0 <= a_cap (nth k arcs arc0)) -> bounded arcs f.
Proof.
  induction arcs as [|a arcs IH]; intros f Hl H; destruct f as [|x f]; cbn [length] in Hl; try discriminate; cbn [bounded]; [exact I|].
  split; [exact (H 0%nat ltac:(cbn; lia))|]. apply IH; [lia|]. intros k Hk. exact (H (S k) ltac:(cbn [length]; lia)).
Qed.

Lemma netout_nsum w : forall arcs f, length f = length arcs ->
  netout arcs f w =
  nsum (fun k => ((if Nat.eqb (a_u (nth k arcs arc0)) w then 1 else 0) - (if Nat.eqb (a_v (nth k arcs arc0)) w then 1 else 0)) * nth k f 0)
       (length arcs).
Proof.
  induction arcs as [|a arcs IH]; intros f Hl; destruct f as [|x f]; cbn [length] in Hl; try discriminate; [reflexivity|].
  cbn [netout length]. rewrite nsum_shift. cbn [nth]. rewrite IH by lia.
  destruct (Nat.eqb (a_u a) w); destruct (Nat.eqb (a_v a) w); lia.
Qed.

Lemma firstn_nth_lt {A} (d : A) : forall k l i, (i < k)%nat -> nth i (firstn k l) d = nth i l d.
Proof.
  induction k as [|k IH]; intros l i Hi; [lia|]. destruct l as [|x l]; [reflexivity|]. destruct i as [|i]; [reflexivity|].
  cbn [firstn nth]. apply IH. lia.
Qed.

Lemma skipn_nth_in {A} (d : A) : forall k l i, (k + i < length l)%nat -> In (nth (k + i) l d) (skipn k l).
Proof.
  induction k as [|k IH]; intros l i Hi; [cbn [skipn Nat.add]; apply nth_In; exact Hi|].
  destruct l as [|x l]; [cbn in Hi; lia|]. cbn [skipn Nat.add nth]. apply IH. cbn [length] in Hi. lia.
Qed.

Lemma bounded_b_complete : forall arcs f, bounded arcs f -> bounded_b arcs f = true.
Proof.
  induction arcs as [|a arcs IH]; intros [|x f] Hb; cbn [bounded bounded_b] in *; try contradiction; [reflexivity|].
  destruct Hb as [Hx Hb]. rewrite (IH f Hb). replace (0 <=? x) with true by (symmetry; apply Z.leb_le; lia).
  replace (x <=? a_cap a) with true by (symmetry; apply Z.leb_le; lia). reflexivity.
Qed.

Section Exit.
Variables (n : nat) (arcs : list arc) (sup : list Z).
Local Notation C := (mk_consts n arcs sup).
Local Notation m := (length arcs).
Local Notation s0 := (init_st n arcs sup).
Hypothesis Hv : valid_arcs n arcs = true.

(* every state the loop reaches *)
Theorem loop_state_inv : forall fuel mi stt s it,
  loop C fuel mi s0 0 = Some (stt, s, it) -> NSInv C (netx C (flow s0)) s.
Proof.
  intros fuel mi stt s it H. exact (loop_inv C (consts_ok n arcs sup Hv) _ _ _ _ _ _ _ _ (init_inv n arcs sup Hv) H).
Qed.

Section Final.
Variable s : st.
Hypothesis I : NSInv C (netx C (flow s0)) s.
Hypothesis Hnoart : forall x, In x (skipn m (flow s)) -> x <= 0.

Lemma art_zero i : (i < n)%nat -> nz (flow s) (m + i) = 0.
Proof.
  intros Hi. pose proof (i_bounds C _ s I (m + i)%nat ltac:(rewrite cm_eq, cn_eq; lia)) as Hb.
  assert (Hin : In (nz (flow s) (m + i)) (skipn m (flow s))).
  { apply skipn_nth_in. rewrite (i_lflow C _ s I), cm_eq, cn_eq. lia. }
  specialize (Hnoart _ Hin). lia.
Qed.

Lemma final_feasible : feasible n arcs (supply_b sup) (firstn m (flow s)).
Proof.
  assert (Hlen : length (firstn m (flow s)) = m).
  { rewrite firstn_length, (i_lflow C _ s I), cm_eq, cn_eq. lia. }
  split.
  - apply bounded_nth; [exact Hlen|]. intros k Hk. rewrite (firstn_nth_lt 0) by exact Hk.
    pose proof (i_bounds C _ s I k ltac:(rewrite cm_eq, cn_eq; lia)) as Hb. rewrite cap_orig in Hb by exact Hk. exact Hb.
  - intros w Hw. rewrite (netout_nsum w arcs _ Hlen). unfold supply_b. change (nth w sup 0) with (nz sup w).
    rewrite <- (init_netx n arcs sup w Hw). rewrite <- (i_cons C _ s I w).
    unfold netx. rewrite cm_eq, cn_eq, nsum_app.
    rewrite (nsum_zero (fun i => coef C w (m + i) * nz (flow s) (m + i))) by (intros i Hi; rewrite art_zero by exact Hi; lia).
    rewrite Z.add_0_r. apply nsum_ext. intros k Hk. rewrite (firstn_nth_lt 0) by exact Hk.
    unfold coef. rewrite src_orig, tgt_orig by exact Hk. reflexivity.
Qed.

Lemma final_reduced : pricing C s = None ->
  reduced_ok (fun w => - nz (pi s) w) arcs (firstn m (flow s)).
Proof.
  intros Hp. apply reduced_ok_nth. intros k Hk _. rewrite (firstn_nth_lt 0) by exact Hk.
  assert (HkT : (k < c_m C + c_n C)%nat) by (rewrite cm_eq, cn_eq; lia).
  destruct (pricing_none C s Hp k HkT) as [S1 S2].
  rewrite <- (redcost_orig n arcs sup s k Hk). rewrite <- (cap_orig n arcs sup k Hk).
  pose proof (i_bounds C _ s I k HkT) as Hb. fold (nz (flow s) k).
  destruct (i_st3 C _ s I k HkT) as [E|[E|E]].
  - rewrite (i_lower C _ s I k HkT E). specialize (S1 E). split; intros; lia.
  - rewrite (inv_tree_rc C _ s I k HkT E). split; intros; lia.
  - rewrite (i_upper C _ s I k HkT E). specialize (S2 E). split; intros; lia.
Qed.

Lemma final_min_cost : pricing C s = None -> min_cost n arcs (supply_b sup) (firstn m (flow s)).
Proof.
  intros Hp. split; [exact final_feasible|].
  exact (cert_optimal n arcs _ _ _ Hv final_feasible (final_reduced Hp)).
Qed.

(* the boolean test of the previous round (DeepNS.ns_final_ok_b) always passes *)
Lemma final_ok_b : ns_final_ok_b n arcs sup s = true.
Proof.
  unfold ns_final_ok_b. rewrite Hv. cbn [andb]. apply andb_true_intro. split.
  - destruct final_feasible as [Hb Hbal]. unfold feasible_b. apply andb_true_intro. split.
    + apply bounded_b_complete. exact Hb.
    + unfold balanced_b. apply forallb_forall. intros w Hw. apply in_seq in Hw. apply Z.eqb_eq. apply Hbal. lia.
  - unfold state_ok_b. apply forallb_forall. intros k Hk. apply in_seq in Hk. cbv zeta.
    assert (HkT : (k < c_m C + c_n C)%nat) by (rewrite cm_eq, cn_eq; lia).
    change (nth k (flow s) 0) with (nz (flow s) k). change (nth k (state s) 0) with (nz (state s) k).
    rewrite <- (cap_orig n arcs sup k ltac:(lia)).
    destruct (i_st3 C _ s I k HkT) as [E|[E|E]]; rewrite E.
    + rewrite (i_lower C _ s I k HkT E). reflexivity.
    + rewrite (inv_tree_rc C _ s I k HkT E). reflexivity.
    + rewrite (i_upper C _ s I k HkT E), !Z.eqb_refl. reflexivity.
Qed.

End Final.

(* the statement kept as a Definition in Props/C09_deep.v (its hypothesis `length sup = n` is not needed) *)
Theorem ns_optimal_run : forall max_iter fl it,
  ns_run n arcs sup max_iter = Some (OPTIMAL, fl, it) ->
  (forall x, In x (skipn m fl) -> x <= 0) ->
  min_cost n arcs (supply_b sup) (firstn m fl).
Proof.
  intros mi fl it H Hno. unfold ns_run in H.
  destruct (loop C (Z.to_nat (Z.min mi 5000)) mi s0 0) as [[[stt s] it0]|] eqn:El; [|discriminate].
  inversion H; subst stt fl it0.
  apply (final_min_cost s (loop_state_inv _ _ _ _ _ El) Hno). exact (loop_optimal C _ _ _ _ _ _ El).
Qed.

Theorem loop_final_ok : forall fuel mi stt s it,
  loop C fuel mi s0 0 = Some (stt, s, it) ->
  (forall x, In x (skipn m (flow s)) -> x <= 0) ->
  ns_final_ok_b n arcs sup s = true.
Proof. intros fuel mi stt s it H Hno. exact (final_ok_b s (loop_state_inv _ _ _ _ _ H) Hno). Qed.

End Exit.

Lemma pair_sum_firstn u v : forall arcs f, pair_sum arcs (firstn (length arcs) f) u v = pair_sum arcs f u v.
Proof. induction arcs as [|a arcs IH]; intros [|x f]; cbn [length firstn pair_sum]; try reflexivity. rewrite IH. reflexivity. Qed.

Lemma flow_cost_firstn : forall arcs f, flow_cost arcs (firstn (length arcs) f) = flow_cost arcs f.
Proof. induction arcs as [|a arcs IH]; intros [|x f]; cbn [length firstn flow_cost]; try reflexivity. rewrite IH. reflexivity. Qed.

(* the public result: status OPTIMAL => the dictionary and the objective are those of a minimum-cost feasible flow *)
Theorem ns_optimal : forall n arcs sup max_iter r,
  valid_arcs n arcs = true ->
  network_simplex n arcs sup max_iter = Some r -> r_status r = OPTIMAL ->
  exists sol, r_sol r = Some sol /\ optimal_answer n arcs (supply_b sup) sol (r_obj r).
Proof.
  intros n arcs sup mi r Hv H Hst.
  destruct (ns_gate n arcs sup mi r H Hst) as [(-> & Hz & Hsol & Hobj)|(fl & it & Hrun & Hno & Hsol & Hobj & Hpool)].
  - exists []. split; [exact Hsol|]. exists []. split; [|split].
    + split; [split; [exact I|]|].
      * intros w _. cbn [netout]. unfold supply_b. rewrite forallb_forall in Hz.
        destruct (Nat.lt_ge_cases w (length sup)) as [Hw|Hw]; [|rewrite nth_overflow by exact Hw; reflexivity].
        specialize (Hz _ (nth_In sup 0 Hw)). apply Z.eqb_eq in Hz. symmetry. exact Hz.
      * intros f' _. destruct f'; cbn [flow_cost]; lia.
    + intros u v. reflexivity.
    + rewrite Hobj. reflexivity.
  - pose proof (ns_optimal_run n arcs sup Hv mi fl it Hrun Hno) as Hmin.
    exists (flow_dict arcs fl []). split; [exact Hsol|]. exists (firstn (length arcs) fl). split; [exact Hmin|]. split.
    + assert (Hnn : Forall (fun x => 0 <= x) (firstn (length arcs) fl)).
      { destruct Hmin as [[Hb _] _]. clear - Hb. revert Hb. generalize (firstn (length arcs) fl). induction arcs as [|a arcs IH]; intros [|x f] Hb;
          cbn [bounded] in Hb; try contradiction; constructor; [lia|apply IH; tauto]. }
      intros u v. rewrite (Hpool Hnn u v). symmetry. apply pair_sum_firstn.
    + rewrite Hobj. symmetry. apply flow_cost_firstn.
Qed.
