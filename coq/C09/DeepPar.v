(* C09 deepening - the parent table of Bellman-Ford (parent edges are residual edges with
   dist[tail] + cost <= dist[head]; tight at a fixpoint), completeness of the relaxed edge list, and the exactness
   theorem instantiated for the model's call (single source) *)
From Coq Require Import List ZArith Bool Arith Lia.
From SV Require Import C09.Mcf C09.McfSpec C09.McfAug C09.McfBF C09.DeepWalk C09.DeepBF.
Import ListNotations.
Open Scope Z_scope.
Import Mcf McfSpec.

(* ---------------- every edge of the arc list is relaxed *)
Lemma res_edges_in : forall arcs res k j (b : bool), (j < length arcs)%nat -> (j < length res)%nat ->
  In ((k + j)%nat, b,
      (if b then a_v (nth j arcs arc0) else a_u (nth j arcs arc0)),
      (if b then a_u (nth j arcs arc0) else a_v (nth j arcs arc0)),
      (if b then - a_c (nth j arcs arc0) else a_c (nth j arcs arc0)),
      (if b then snd (nth j res (0, 0)) else fst (nth j res (0, 0)))) (res_edges k arcs res).
Proof.
  induction arcs as [|a arcs IH]; intros res k j b Hj Hr; [cbn in Hj; lia|].
  destruct res as [|[rf rb] res]; [cbn in Hr; lia|]. cbn [res_edges].
  destruct j as [|j].
  - rewrite Nat.add_0_r. cbn [nth fst snd]. destruct b; [right; left; reflexivity|left; reflexivity].
  - right. right. cbn [nth]. replace (k + S j)%nat with (S k + j)%nat by lia.
    apply IH; cbn [length] in *; lia.
Qed.

Lemma res_edges_complete arcs res e : length res = length arcs -> (fst e < length arcs)%nat ->
  In (e, e_tail arcs e, e_head arcs e, e_cost arcs e, e_res res e) (res_edges 0 arcs res).
Proof.
  intros Hlen Hk. destruct e as [j b]. cbn [fst] in Hk.
  pose proof (res_edges_in arcs res 0 j b Hk ltac:(lia)) as H. cbn [plus] in H.
  unfold e_tail, e_head, e_cost, e_res. cbn [fst snd]. exact H.
Qed.

Lemma valid_arcs_ends n arcs : valid_arcs n arcs = true ->
  forall e, (fst e < length arcs)%nat -> (e_tail arcs e < n)%nat /\ (e_head arcs e < n)%nat.
Proof.
  intros Hv e Hk. unfold valid_arcs in Hv. rewrite forallb_forall in Hv.
  specialize (Hv _ (nth_In arcs arc0 Hk)).
  apply andb_prop in Hv. destruct Hv as [Hv _]. apply andb_prop in Hv. destruct Hv as [Hu Hv].
  apply Nat.ltb_lt in Hu. apply Nat.ltb_lt in Hv. unfold e_tail, e_head. destruct (snd e); split; assumption.
Qed.

Section Par.
Variable arcs : list arc.
Variable res : resid.
Hypothesis Hnn : NoNegCycle arcs res.

Definition PI (dist : list (option Z)) (par : list (option edge)) : Prop :=
  length par = length dist /\
  forall v e, nth v par None = Some e ->
    redge arcs res e /\ e_head arcs e = v /\
    exists du dv, nth (e_tail arcs e) dist None = Some du /\ nth v dist None = Some dv /\ du + e_cost arcs e <= dv.

Lemma relax_PI dist par fl e u v c r d' p' fl' :
  edge_ok arcs res (e, u, v, c, r) -> PI dist par ->
  relax (dist, par, fl) (e, u, v, c, r) = (d', p', fl') -> PI d' p'.
Proof.
  intros (Hu & Hv & Hc & Hr & Hk) [Hlen HP] E.
  destruct (relax_cases dist par fl e u v c r) as [[E' _]|(du & Hpos & Edu & Hwhy & E')];
    rewrite E' in E; inversion E; subst d' p' fl'; clear E; [split; assumption|].
  assert (He : redge arcs res e) by (split; [exact Hk|rewrite <- Hr; exact Hpos]).
  assert (Hle : le_lab dist (upd dist v (Some (du + c)))).
  { apply le_lab_upd. destruct Hwhy as [Hn|(dv & Hn & Hlt)]; [left; exact Hn|right; exists dv; split; [exact Hn|lia]]. }
  split; [rewrite !length_upd; exact Hlen|].
  intros w ew Hw. rewrite nth_upd in Hw.
  destruct (Nat.eqb w v && Nat.ltb v (length par))%bool eqn:Eb.
  - inversion Hw; subst ew. apply andb_prop in Eb. destruct Eb as [Eb Ebl].
    apply Nat.eqb_eq in Eb. subst w. apply Nat.ltb_lt in Ebl.
    split; [exact He|]. split; [symmetry; exact Hv|].
    destruct (Nat.eq_dec u v) as [Huv|Huv].
    + (* a self loop that improves its own label has negative cost *)
      exfalso. assert (Hcyc : rwalk arcs res v [e] v).
      { pose proof (rwalk_one arcs res e He) as H1. rewrite <- Hu, <- Hv, Huv in H1. exact H1. }
      specialize (Hnn _ _ Hcyc). cbn [pcost] in Hnn. rewrite <- Hc in Hnn.
      rewrite Huv in Edu. destruct Hwhy as [Hn|(dv & Hn & Hlt)]; [congruence|].
      rewrite Edu in Hn. inversion Hn; subst dv. lia.
    + exists du, (du + c). rewrite <- Hu. split; [rewrite nth_upd_other by exact Huv; exact Edu|].
      split; [apply nth_upd_same; lia|lia].
  - destruct (HP _ _ Hw) as (He' & Hh' & du0 & dv0 & Et & Ew & Hle0).
    split; [exact He'|]. split; [exact Hh'|].
    destruct (proj2 Hle _ _ Et) as (du1 & Et1 & Hle1).
    exists du1, dv0. split; [exact Et1|]. split; [|lia].
    rewrite nth_upd, <- Hlen, Eb. exact Ew.
Qed.

Lemma fold_PI : forall l dist par fl d' p' fl',
  (forall x, In x l -> edge_ok arcs res x) -> PI dist par ->
  fold_left relax l (dist, par, fl) = (d', p', fl') -> PI d' p'.
Proof.
  induction l as [|[[[[e u] v] c] r] l IH]; intros dist par fl d' p' fl' Hok HP E.
  - cbn [fold_left] in E. inversion E; subst. exact HP.
  - cbn [fold_left] in E. destruct (relax (dist, par, fl) (e, u, v, c, r)) as [[d1 p1] fl1] eqn:E1.
    apply (IH d1 p1 fl1 d' p' fl'); [intros x Hx; apply Hok; right; exact Hx| |exact E].
    exact (relax_PI _ _ _ _ _ _ _ _ _ _ _ (Hok _ (or_introl eq_refl)) HP E1).
Qed.

Lemma rounds_PI es : (forall x, In x es -> edge_ok arcs res x) ->
  forall k dist par d' p', PI dist par -> bf_rounds k es dist par = (d', p') -> PI d' p'.
Proof.
  intros Hok. induction k as [|k IH]; intros dist par d' p' HP E.
  - cbn [bf_rounds] in E. inversion E; subst. exact HP.
  - cbn [bf_rounds] in E. unfold bf_round in E.
    destruct (fold_left relax es (dist, par, false)) as [[d1 p1] fl1] eqn:E1.
    pose proof (fold_PI _ _ _ _ _ _ _ Hok HP E1) as HP1.
    destruct fl1; [exact (IH _ _ _ _ HP1 E)|inversion E; subst; exact HP1].
Qed.

(* at a fixpoint the parent edges are tight *)
Lemma PI_tight dist par : FP arcs res dist -> PI dist par ->
  forall v e, nth v par None = Some e ->
    redge arcs res e /\ e_head arcs e = v /\
    exists du dv, nth (e_tail arcs e) dist None = Some du /\ nth v dist None = Some dv /\ dv = du + e_cost arcs e.
Proof.
  intros HF [_ HP] v e Hv. destruct (HP _ _ Hv) as (He & Hh & du & dv & Et & Ev & Hle).
  split; [exact He|]. split; [exact Hh|]. exists du, dv. split; [exact Et|]. split; [exact Ev|].
  destruct (HF e du He Et) as (dv' & Ev' & Hle'). rewrite Hh, Ev in Ev'. inversion Ev'; subst dv'. lia.
Qed.

End Par.

Lemma PI_init arcs res n s : PI arcs res (upd (repeat None n) s (Some 0)) (repeat None n).
Proof.
  split; [rewrite length_upd, !repeat_length; reflexivity|]. intros v e H. rewrite nth_repeat_none in H. discriminate.
Qed.

(* the edges of the reconstructed path are parent edges *)
Lemma walk_parents arcs par : forall p f x, walk arcs par f x = Some p ->
  forall e, In e p -> exists v, nth v par None = Some e.
Proof.
  induction p as [|e0 p IH]; intros f x H e Hin; [contradiction|].
  apply walk_cons in H. destruct H as [Hx [f' H']].
  destruct Hin as [<-|Hin]; [exists x; exact Hx|exact (IH _ _ H' e Hin)].
Qed.

(* ---------------- the model's call: single source s *)
Definition dist0 (n s : nat) : list (option Z) := upd (repeat None n) s (Some 0).

Lemma dist0_Lw arcs res n s : Lw arcs res (eq s) (dist0 n s).
Proof.
  intros v dv H. unfold dist0 in H. rewrite nth_upd in H.
  destruct (Nat.eqb v s && Nat.ltb s (length (repeat None n)))%bool eqn:E; [|rewrite nth_repeat_none in H; discriminate].
  apply andb_prop in E. destruct E as [E _]. apply Nat.eqb_eq in E. subst v. inversion H; subst dv.
  exists s, []. split; [reflexivity|]. split; [apply rwalk_nil|reflexivity].
Qed.

Lemma dist0_Uw arcs res n s : (s < n)%nat -> Uw arcs res (eq s) 0 (dist0 n s).
Proof.
  intros Hs a p v <- [Hc _] Hl. destruct p as [|e p]; [|cbn [length] in Hl; lia].
  cbn [chain] in Hc. subst v. exists 0. split; [|cbn [pcost]; lia].
  unfold dist0. apply nth_upd_same. rewrite repeat_length. exact Hs.
Qed.

Theorem bf_model : forall n arcs res s dist par,
  valid_arcs n arcs = true -> length res = length arcs -> (s < n)%nat ->
  NoNegCycle arcs res ->
  bf_rounds (n - 1) (res_edges 0 arcs res) (dist0 n s) (repeat None n) = (dist, par) ->
  length dist = n /\ Lw arcs res (eq s) dist /\ Uall arcs res (eq s) dist /\ FP arcs res dist /\
  PI arcs res dist par /\ ParOK arcs s dist par.
Proof.
  intros n arcs res s dist par Hva Hlen Hs Hnn E.
  destruct (bf_final arcs res n (eq s) (res_edges 0 arcs res) (res_edges_ok arcs res)
              (fun e => res_edges_complete arcs res e Hlen)
              (fun e Hk => proj2 (valid_arcs_ends n arcs Hva e Hk))
              (dist0 n s) (repeat None n) dist par Hnn)
    as (H1 & H2 & H3 & H4 & _); try assumption.
  - intros a <-. exact Hs.
  - unfold dist0. rewrite length_upd, repeat_length. reflexivity.
  - apply dist0_Lw.
  - apply dist0_Uw. exact Hs.
  - split; [exact H1|]. split; [exact H2|]. split; [exact H3|]. split; [exact H4|]. split.
    + exact (rounds_PI arcs res Hnn _ (res_edges_ok arcs res) _ _ _ _ _ (PI_init arcs res n s) E).
    + pose proof (bf_rounds_ok arcs s res (res_edges 0 arcs res) (res_edges_ok arcs res) (n - 1) _ _ (init_ok arcs s n)) as Hok.
      unfold dist0 in E. rewrite E in Hok. exact Hok.
Qed.

(* (1) the statement in words: the final labels are the minimum costs of residual walks from the source, None exactly
   on the nodes no residual walk reaches, and they are feasible potentials on every residual edge *)
Theorem bf_exact : forall n arcs res s dist par,
  valid_arcs n arcs = true -> length res = length arcs -> (s < n)%nat ->
  NoNegCycle arcs res ->
  bf_rounds (n - 1) (res_edges 0 arcs res) (upd (repeat None n) s (Some 0)) (repeat None n) = (dist, par) ->
  (forall v dv, nth v dist None = Some dv <->
     (exists p, rwalk arcs res s p v /\ pcost arcs p = dv) /\
     (forall p, rwalk arcs res s p v -> dv <= pcost arcs p)) /\
  (forall v, nth v dist None = None <-> ~ exists p, rwalk arcs res s p v) /\
  (forall e du, redge arcs res e -> nth (e_tail arcs e) dist None = Some du ->
     exists dv, nth (e_head arcs e) dist None = Some dv /\ dv <= du + e_cost arcs e).
Proof.
  intros n arcs res s dist par Hva Hlen Hs Hnn E.
  destruct (bf_model n arcs res s dist par Hva Hlen Hs Hnn E) as (_ & HL & HU & HF & _).
  split; [|split; [|exact HF]].
  - intros v dv. split.
    + intros Hd. split.
      * destruct (HL _ _ Hd) as (a & p & <- & Hp & Hc). exists p. split; assumption.
      * intros p Hp. destruct (HU s p v eq_refl Hp) as (dv' & Hd' & Hle). rewrite Hd in Hd'. inversion Hd'; subst. exact Hle.
    + intros [(p & Hp & Hc) Hmin]. destruct (HU s p v eq_refl Hp) as (dv' & Hd' & Hle).
      destruct (HL _ _ Hd') as (a & q & <- & Hq & Hcq). specialize (Hmin q Hq).
      rewrite Hd'. f_equal. lia.
  - intros v. split.
    + intros Hd (p & Hp). destruct (HU s p v eq_refl Hp) as (dv' & Hd' & _). congruence.
    + intros Hno. destruct (nth v dist None) as [dv|] eqn:Hd; [|reflexivity].
      exfalso. apply Hno. destruct (HL _ _ Hd) as (a & p & <- & Hp & _). exists p. exact Hp.
Qed.
