(* C09 deepening - (4) the model never runs out of fuel when the input network has no negative cycle:
   * the parent pointers never contain a cycle (closing one by parent[v] := e would exhibit a negative residual cycle:
     along parent edges dist[tail] + cost <= dist[head], and the new edge strictly improves dist[v]), so the walk from
     the sink ends, visits distinct nodes, and fits in the n steps of fuel;
   * every augmentation ships >= 1 unit (the path edges have positive integer residual capacity), so at most
     `demand` augmentations happen. *)
From Coq Require Import List ZArith Bool Arith Lia.
From SV Require Import C09.Mcf C09.McfSpec C09.McfCert C09.McfAug C09.McfBF C09.McfProofs C09.McfInfeasible.
From SV Require Import C09.DeepWalk C09.DeepBF C09.DeepPar C09.DeepPot C09.DeepSSP C09.DeepOpt.
Import ListNotations.
Open Scope Z_scope.
Import Mcf McfSpec.

Section Walk.
Variable arcs : list arc.

Lemma walk_none par f x : nth x par None = None -> walk arcs par f x = Some [].
Proof. intros H. destruct f; cbn [walk]; rewrite H; reflexivity. Qed.

Lemma walk_nil_inv par f x : walk arcs par f x = Some [] -> nth x par None = None.
Proof.
  intros H. destruct (nth x par None) as [e|] eqn:E; [|reflexivity].
  destruct f; cbn [walk] in H; rewrite E in H; [discriminate|].
  destruct (walk arcs par f (e_tail arcs e)); discriminate.
Qed.

Lemma walk_fuel par : forall p f x, walk arcs par f x = Some p ->
  forall f', (length p <= f')%nat -> walk arcs par f' x = Some p.
Proof.
  induction p as [|e p IH]; intros f x H f' Hl.
  - apply walk_none. exact (walk_nil_inv par f x H).
  - apply walk_cons in H. destruct H as [Hx [f1 H1]].
    destruct f' as [|f']; [cbn [length] in Hl; lia|]. cbn [walk]. rewrite Hx.
    rewrite (IH _ _ H1 f') by (cbn [length] in Hl; lia). reflexivity.
Qed.

Definition Acyclic (par : list (option edge)) : Prop := forall v, exists f p, walk arcs par f v = Some p.

Lemma acyclic_init n : Acyclic (repeat None n).
Proof. intros v. exists O, []. apply walk_none. apply nth_repeat_none. Qed.

Variable res : resid.
Hypothesis Hnn : NoNegCycle arcs res.

(* going back along a parent walk: forward it is a residual walk along which the labels grow at least by the cost *)
Lemma walk_back dist par : PI arcs res dist par ->
  forall p f x, walk arcs par f x = Some p ->
  forall y, In y (x :: map (e_tail arcs) p) ->
  y = x \/ exists q dy dx, rwalk arcs res y q x /\ nth y dist None = Some dy /\ nth x dist None = Some dx /\
                          dy + pcost arcs q <= dx.
Proof.
  intros [_ HP]. induction p as [|e p IH]; intros f x H y Hin.
  - destruct Hin as [<-|[]]. left. reflexivity.
  - destruct Hin as [<-|Hin]; [left; reflexivity|]. right.
    apply walk_cons in H. destruct H as [Hx [f1 H1]].
    destruct (HP _ _ Hx) as (He & Hh & du & dv & Et & Ev & Hle).
    cbn [map] in Hin. destruct (IH _ _ H1 y Hin) as [->|(q & dy & dx & Hq & Ey & Ex & Hle')].
    + exists [e], du, dv. split; [rewrite <- Hh; apply rwalk_one; exact He|].
      split; [exact Et|]. split; [exact Ev|]. cbn [pcost]. lia.
    + exists (q ++ [e]), dy, dv. split; [rewrite <- Hh; apply rwalk_snoc; assumption|].
      split; [exact Ey|]. split; [exact Ev|]. rewrite pcost_app. cbn [pcost].
      rewrite Et in Ex. inversion Ex; subst dx. lia.
Qed.

Lemma walk_same par v e : forall p f x, walk arcs par f x = Some p ->
  ~ In v (x :: map (e_tail arcs) p) -> exists f', walk arcs (upd par v (Some e)) f' x = Some p.
Proof.
  induction p as [|e1 p IH]; intros f x H Hn.
  - exists O. apply walk_none. rewrite nth_upd_other by (intros ->; apply Hn; left; reflexivity).
    exact (walk_nil_inv par f x H).
  - apply walk_cons in H. destruct H as [Hx [f1 H1]].
    destruct (IH _ _ H1) as [f' H']; [intros Hin; apply Hn; right; exact Hin|].
    exists (S f'). cbn [walk]. rewrite nth_upd_other by (intros ->; apply Hn; left; reflexivity).
    rewrite Hx, H'. reflexivity.
Qed.

Lemma relax_acyclic dist par fl e u v c r d' p' fl' :
  edge_ok arcs res (e, u, v, c, r) -> PI arcs res dist par -> Acyclic par ->
  relax (dist, par, fl) (e, u, v, c, r) = (d', p', fl') -> Acyclic p'.
Proof.
  intros (Hu & Hv & Hc & Hr & Hk) HP HA E.
  destruct (relax_cases dist par fl e u v c r) as [[E' _]|(du & Hpos & Edu & Hwhy & E')];
    rewrite E' in E; inversion E; subst d' p' fl'; clear E; [exact HA|].
  destruct (Nat.lt_ge_cases v (length par)) as [Hvl|Hvl]; [|rewrite upd_ge by exact Hvl; exact HA].
  assert (He : redge arcs res e) by (split; [exact Hk|rewrite <- Hr; exact Hpos]).
  destruct (HA u) as (fu & pu & Hwu).
  assert (Hnotin : ~ In v (u :: map (e_tail arcs) pu)).
  { intros Hin. destruct (walk_back dist par HP pu fu u Hwu v Hin) as [Heq|(q & dy & dx & Hq & Ey & Ex & Hle)].
    - assert (Hcyc : rwalk arcs res v [e] v).
      { pose proof (rwalk_one arcs res e He) as H1. rewrite <- Hu, <- Hv, <- Heq in H1. exact H1. }
      specialize (Hnn _ _ Hcyc). cbn [pcost] in Hnn. rewrite <- Hc in Hnn.
      rewrite <- Heq in Edu. destruct Hwhy as [Hn|(dv & Hn & Hlt)]; [congruence|].
      rewrite Edu in Hn. inversion Hn; subst dv. lia.
    - assert (Hcyc : rwalk arcs res v (q ++ [e]) v).
      { pose proof (rwalk_snoc arcs res v q e) as H1. rewrite <- Hu, <- Hv in H1. exact (H1 Hq He). }
      specialize (Hnn _ _ Hcyc). rewrite pcost_app in Hnn. cbn [pcost] in Hnn. rewrite <- Hc in Hnn.
      rewrite Edu in Ex. inversion Ex; subst dx.
      destruct Hwhy as [Hn|(dv & Hn & Hlt)]; [congruence|].
      rewrite Ey in Hn. inversion Hn; subst dv. lia. }
  destruct (walk_same par v e pu fu u Hwu Hnotin) as [fu' Hwu'].
  assert (Hv' : walk arcs (upd par v (Some e)) (S fu') v = Some (e :: pu)).
  { cbn [walk]. rewrite nth_upd_same by exact Hvl. rewrite <- Hu, Hwu'. reflexivity. }
  assert (Hall : forall p f x, walk arcs par f x = Some p ->
                 exists f' p', walk arcs (upd par v (Some e)) f' x = Some p').
  { induction p as [|e1 p IH]; intros f x H.
    - destruct (Nat.eq_dec x v) as [->|Hne]; [exists (S fu'), (e :: pu); exact Hv'|].
      exists O, []. apply walk_none. rewrite nth_upd_other by exact Hne. exact (walk_nil_inv par f x H).
    - destruct (Nat.eq_dec x v) as [->|Hne]; [exists (S fu'), (e :: pu); exact Hv'|].
      apply walk_cons in H. destruct H as [Hx [f1 H1]]. destruct (IH _ _ H1) as (f' & p' & H').
      exists (S f'), (e1 :: p'). cbn [walk]. rewrite nth_upd_other by exact Hne. rewrite Hx, H'. reflexivity. }
  intros x. destruct (HA x) as (f & p & H). exact (Hall p f x H).
Qed.

Lemma fold_acyclic : forall l dist par fl d' p' fl',
  (forall x, In x l -> edge_ok arcs res x) -> PI arcs res dist par -> Acyclic par ->
  fold_left relax l (dist, par, fl) = (d', p', fl') -> PI arcs res d' p' /\ Acyclic p'.
Proof.
  induction l as [|[[[[e u] v] c] r] l IH]; intros dist par fl d' p' fl' Hok HP HA E.
  - cbn [fold_left] in E. inversion E; subst. split; assumption.
  - cbn [fold_left] in E. destruct (relax (dist, par, fl) (e, u, v, c, r)) as [[d1 p1] fl1] eqn:E1.
    apply (IH d1 p1 fl1 d' p' fl'); [intros x Hx; apply Hok; right; exact Hx| | |exact E].
    + exact (relax_PI arcs res Hnn _ _ _ _ _ _ _ _ _ _ _ (Hok _ (or_introl eq_refl)) HP E1).
    + exact (relax_acyclic _ _ _ _ _ _ _ _ _ _ _ (Hok _ (or_introl eq_refl)) HP HA E1).
Qed.

Lemma rounds_acyclic es : (forall x, In x es -> edge_ok arcs res x) ->
  forall k dist par d' p', PI arcs res dist par -> Acyclic par ->
  bf_rounds k es dist par = (d', p') -> Acyclic p'.
Proof.
  intros Hok. induction k as [|k IH]; intros dist par d' p' HP HA E.
  - cbn [bf_rounds] in E. inversion E; subst. exact HA.
  - cbn [bf_rounds] in E. unfold bf_round in E.
    destruct (fold_left relax es (dist, par, false)) as [[d1 p1] fl1] eqn:E1.
    destruct (fold_acyclic _ _ _ _ _ _ _ Hok HP HA E1) as [HP1 HA1].
    destruct fl1; [exact (IH _ _ _ _ HP1 HA1 E)|inversion E; subst; exact HA1].
Qed.

End Walk.

(* the path reconstruction never exhausts its n steps *)
Theorem bf_no_hang : forall n arcs res s t,
  valid_arcs n arcs = true -> length res = length arcs -> (s < n)%nat -> (t < n)%nat ->
  NoNegCycle arcs res -> bellman_ford n arcs res s t <> BFHang.
Proof.
  intros n arcs res s t Hva Hlen Hs Ht Hnn. unfold bellman_ford.
  destruct (bf_rounds (n - 1) (res_edges 0 arcs res) (upd (repeat None n) s (Some 0)) (repeat None n)) as [dist par] eqn:E.
  pose proof (rounds_acyclic arcs res Hnn _ (res_edges_ok arcs res) _ _ _ _ _ (PI_init arcs res n s) (acyclic_init arcs n) E) as HA.
  destruct (bf_model n arcs res s dist par Hva Hlen Hs Hnn E) as (_ & _ & _ & _ & _ & Hok).
  destruct (nth t dist None) as [dt|]; [|discriminate].
  destruct (HA t) as (f & p & Hw).
  assert (Hl : (S (length p) <= n)%nat).
  { pose proof (walk_nodup_nodes arcs par p f t Hw) as Hnd.
    assert (Hincl : incl (t :: map (e_tail arcs) p) (seq 0 n)).
    { intros x Hx. apply in_seq. split; [lia|]. cbn [plus]. destruct Hx as [<-|Hx]; [exact Ht|].
      apply in_map_iff in Hx. destruct Hx as (e & <- & He).
      destruct (walk_parents arcs par p f t Hw e He) as (v & Hv).
      destruct Hok as (_ & Ha & _). destruct (Ha _ _ Hv) as (_ & _ & Hk).
      exact (proj1 (valid_arcs_ends n arcs Hva e Hk)). }
    pose proof (NoDup_incl_length Hnd Hincl) as Hl. cbn [length] in Hl.
    rewrite map_length, seq_length in Hl. exact Hl. }
  rewrite (walk_fuel arcs par p f t Hw n) by lia. discriminate.
Qed.

(* every augmentation ships at least one unit *)
Lemma bottleneck_pos n arcs res s t path d0 rest :
  valid_arcs n arcs = true -> length res = length arcs -> (s < n)%nat -> NoNegCycle arcs res ->
  bellman_ford n arcs res s t = BFPath path d0 -> 1 <= rest -> 1 <= bottleneck res path rest.
Proof.
  intros Hva Hlen Hs Hnn Ebf Hrest.
  destruct (bf_path_tight n arcs res s t path d0 Hva Hlen Hs Hnn Ebf) as (dist & _ & Hre & _).
  unfold bottleneck. apply fold_min_ge; [exact Hrest|]. intros e He. destruct (Hre e He) as [_ Hpos]. lia.
Qed.

Lemma loop_terminates n arcs s t d : valid_arcs n arcs = true -> (s < n)%nat -> (t < n)%nat ->
  forall fuel res tc tf it,
  LoopInv arcs s t d res tc tf -> NoNegCycle arcs res -> d - tf <= Z.of_nat fuel ->
  mcf_loop fuel n arcs s t d res tc tf it <> None.
Proof.
  intros Hva Hs Ht. induction fuel as [|fuel IH]; intros res tc tf it Hinv Hnn Hf.
  - cbn [mcf_loop]. destruct (Z.ltb_spec tf d); [lia|discriminate].
  - cbn [mcf_loop]. destruct (Z.ltb_spec tf d) as [E|E]; [|discriminate].
    pose proof (proj1 (li_res _ _ _ _ _ _ _ Hinv)) as Hlen.
    destruct (bellman_ford n arcs res s t) as [| |path d0] eqn:Ebf; [discriminate| |].
    + exfalso. exact (bf_no_hang n arcs res s t Hva Hlen Hs Ht Hnn Ebf).
    + destruct (step_inv n arcs s t d res tc tf path d0 Hinv E Ebf) as [Hinv' _].
      pose proof (ssp_invariant n arcs res s t path d0 (bottleneck res path (d - tf)) tc Hva Hlen Hs Hnn Ebf) as Hnn'.
      pose proof (bottleneck_pos n arcs res s t path d0 (d - tf) Hva Hlen Hs Hnn Ebf ltac:(lia)) as Hpos.
      destruct (augment arcs res path (bottleneck res path (d - tf)) tc) as [res' tc'] eqn:Ea.
      cbn [fst snd] in Hinv', Hnn'. apply IH; [exact Hinv'|exact Hnn'|lia].
Qed.

(* (4) *)
Theorem mcf_terminates_nnc : forall n arcs s t d,
  valid_input n arcs s t d = true -> NoNegCycle arcs (init_res arcs) ->
  mcf_run n arcs s t d <> None.
Proof.
  intros n arcs s t d Hvi Hnn. destruct (valid_input_parts _ _ _ _ _ Hvi) as (Hva & Hs & Ht & _ & Hd).
  unfold mcf_run. apply (loop_terminates n arcs s t d Hva Hs Ht).
  - exact (init_inv arcs s t d (valid_arcs_caps n arcs Hva) Hd).
  - exact Hnn.
  - lia.
Qed.

Theorem mcf_terminates_full : forall n arcs s t d pi0,
  valid_input n arcs s t d = true ->
  reduced_b (pot pi0) arcs (map (fun _ => 0) arcs) = true ->
  mcf_run n arcs s t d <> None.
Proof.
  intros n arcs s t d pi0 Hvi Hpi. apply mcf_terminates_nnc; [exact Hvi|].
  exact (input_nnc n arcs pi0 (proj1 (valid_input_parts _ _ _ _ _ Hvi)) Hpi).
Qed.

Theorem mcf_terminates_b : forall n arcs s t d,
  valid_input n arcs s t d = true -> no_neg_cycle_b n arcs (init_res arcs) = true ->
  mcf_run n arcs s t d <> None.
Proof.
  intros n arcs s t d Hvi Hb. apply mcf_terminates_nnc; [exact Hvi|].
  apply (no_neg_cycle_b_sound n); [unfold init_res; apply map_length|exact Hb].
Qed.

Theorem mcf_public_terminates : forall n arcs s t d,
  valid_input n arcs s t d = true -> no_neg_cycle_b n arcs (init_res arcs) = true ->
  mcf n arcs s t d <> None.
Proof.
  intros n arcs s t d Hvi Hb. pose proof (mcf_terminates_b n arcs s t d Hvi Hb) as H. unfold mcf.
  destruct (mcf_run n arcs s t d) as [k|]; [|contradiction]. destruct (k_status k); discriminate.
Qed.
