(* C09 deepening - (2) the successive-shortest-path invariant: augmenting (by any amount) along a path whose edges
   are tight for labels that are a Bellman-Ford fixpoint keeps the residual graph free of negative cycles.
   With R = nodes of finite label: every edge of the new residual graph that leaves R is either an old residual edge
   (fixpoint inequality) or a path edge or the reverse of a path edge (tight, both ends in R), so a closed walk through R
   telescopes to cost >= 0; no new edge leaves or enters the complement of R, so a closed walk outside R is a closed walk of
   the old residual graph. *)
From Coq Require Import List ZArith Bool Arith Lia.
From SV Require Import C09.Mcf C09.McfSpec C09.McfAug C09.McfBF C09.DeepWalk C09.DeepBF C09.DeepPar.
Import ListNotations.
Open Scope Z_scope.
Import Mcf McfSpec.

Lemma augment_res_other arcs : forall path res pf tc e, ~ In (fst e) (map fst path) ->
  e_res (fst (augment arcs res path pf tc)) e = e_res res e.
Proof.
  induction path as [|e0 path IH]; intros res pf tc e Hn; [reflexivity|].
  rewrite augment_cons, IH.
  - apply aug1_e_res_other. intros Heq. apply Hn. left. symmetry. exact Heq.
  - intros Hin. apply Hn. right. exact Hin.
Qed.

Lemma same_arc_ends arcs (e e0 : edge) : fst e0 = fst e ->
  (e_tail arcs e = e_tail arcs e0 /\ e_head arcs e = e_head arcs e0 /\ e_cost arcs e = e_cost arcs e0) \/
  (e_tail arcs e = e_head arcs e0 /\ e_head arcs e = e_tail arcs e0 /\ e_cost arcs e = - e_cost arcs e0).
Proof.
  destruct e as [k b], e0 as [k0 b0]. cbn [fst]. intros ->. unfold e_tail, e_head, e_cost. cbn [fst snd].
  destruct b, b0; [left|right|right|left]; repeat split; lia.
Qed.

Section SSP.
Variable arcs : list arc.
Variable res : resid.
Variable dist : list (option Z).
Variable path : list edge.
Hypothesis HF : FP arcs res dist.
Hypothesis Htight : forall e, In e path ->
  exists du dv, nth (e_tail arcs e) dist None = Some du /\ nth (e_head arcs e) dist None = Some dv /\
                dv = du + e_cost arcs e.

Definition good (e : edge) : Prop :=
  forall du, nth (e_tail arcs e) dist None = Some du ->
  exists dv, nth (e_head arcs e) dist None = Some dv /\ dv <= du + e_cost arcs e.

Lemma on_path_arc e : In (fst e) (map fst path) ->
  good e /\ nth (e_tail arcs e) dist None <> None.
Proof.
  intros Hin. apply in_map_iff in Hin. destruct Hin as (e0 & Hfst & Hin).
  destruct (Htight e0 Hin) as (du0 & dv0 & Et & Eh & Heq).
  destruct (same_arc_ends arcs e e0 Hfst) as [(H1 & H2 & H3)|(H1 & H2 & H3)].
  - split; [|rewrite H1, Et; discriminate]. intros du Hdu. rewrite H1, Et in Hdu. inversion Hdu; subst du.
    exists dv0. split; [rewrite H2; exact Eh|lia].
  - split; [|rewrite H1, Eh; discriminate]. intros du Hdu. rewrite H1, Eh in Hdu. inversion Hdu; subst du.
    exists du0. split; [rewrite H2; exact Et|lia].
Qed.

Variable pf tc : Z.
Let res' := fst (augment arcs res path pf tc).

Lemma new_edge_good e : redge arcs res' e -> good e.
Proof.
  intros [Hk Hpos]. destruct (in_dec Nat.eq_dec (fst e) (map fst path)) as [Hin|Hnin].
  - exact (proj1 (on_path_arc e Hin)).
  - unfold res' in Hpos. rewrite augment_res_other in Hpos by exact Hnin.
    intros du Hdu. exact (HF e du (conj Hk Hpos) Hdu).
Qed.

Lemma inside_walk : forall p a b da, rwalk arcs res' a p b -> nth a dist None = Some da ->
  exists db, nth b dist None = Some db /\ db <= da + pcost arcs p.
Proof.
  induction p as [|e p IH]; intros a b da Hw Ha.
  - destruct Hw as [Hc _]. cbn [chain] in Hc. subst b. exists da. split; [exact Ha|cbn [pcost]; lia].
  - apply rwalk_cons_inv in Hw. destruct Hw as (Ht & He & Hw). subst a.
    destruct (new_edge_good e He da Ha) as (dh & Hh & Hle). destruct (IH _ _ _ Hw Hh) as (db & Hb & Hle').
    exists db. split; [exact Hb|cbn [pcost]; lia].
Qed.

Lemma outside_walk : forall p a b, rwalk arcs res' a p b -> nth b dist None = None ->
  nth a dist None = None /\ rwalk arcs res a p b.
Proof.
  induction p as [|e p IH]; intros a b Hw Hb.
  - destruct Hw as [Hc _]. cbn [chain] in Hc. subst b. split; [exact Hb|apply rwalk_nil].
  - apply rwalk_cons_inv in Hw. destruct Hw as (Ht & He & Hw). subst a.
    destruct (IH _ _ Hw Hb) as [Hh Hw'].
    assert (Htl : nth (e_tail arcs e) dist None = None).
    { destruct (nth (e_tail arcs e) dist None) as [du|] eqn:Edu; [|reflexivity].
      destruct (new_edge_good e He du Edu) as (dv & Edv & _). congruence. }
    split; [exact Htl|].
    assert (Hnin : ~ In (fst e) (map fst path)).
    { intros Hin. exact (proj2 (on_path_arc e Hin) Htl). }
    assert (He' : redge arcs res e).
    { destruct He as [Hk Hpos]. split; [exact Hk|]. unfold res' in Hpos. rewrite augment_res_other in Hpos by exact Hnin. exact Hpos. }
    exact (rwalk_cat arcs res _ _ _ _ _ (rwalk_one arcs res e He') Hw').
Qed.

Theorem ssp_nnc : NoNegCycle arcs res -> NoNegCycle arcs res'.
Proof.
  intros Hnn v p Hw. destruct (nth v dist None) as [dv|] eqn:Ev.
  - destruct (inside_walk p v v dv Hw Ev) as (dv' & Ev' & Hle). rewrite Ev in Ev'. inversion Ev'; subst dv'. lia.
  - destruct (outside_walk p v v Hw Ev) as [_ Hw']. exact (Hnn v p Hw').
Qed.

End SSP.

(* what the model's Bellman-Ford returns, under the no-negative-cycle hypothesis: a path of residual edges of positive
   capacity that are tight for the final labels, which are a fixpoint *)
Lemma bf_path_tight : forall n arcs res s t path d,
  valid_arcs n arcs = true -> length res = length arcs -> (s < n)%nat -> NoNegCycle arcs res ->
  bellman_ford n arcs res s t = BFPath path d ->
  exists dist, FP arcs res dist /\
    (forall e, In e path -> redge arcs res e) /\
    (forall e, In e path ->
       exists du dv, nth (e_tail arcs e) dist None = Some du /\ nth (e_head arcs e) dist None = Some dv /\
                     dv = du + e_cost arcs e).
Proof.
  intros n arcs res s t path d Hva Hlen Hs Hnn H. unfold bellman_ford in H.
  destruct (bf_rounds (n - 1) (res_edges 0 arcs res) (upd (repeat None n) s (Some 0)) (repeat None n)) as [dist par] eqn:E.
  destruct (bf_model n arcs res s dist par Hva Hlen Hs Hnn E) as (_ & _ & _ & HF & HP & _).
  destruct (nth t dist None) as [dt|]; [|discriminate].
  destruct (walk arcs par n t) as [p|] eqn:Ew; [|discriminate]. inversion H; subst path d.
  exists dist. split; [exact HF|].
  assert (Hpar : forall e, In e (rev p) -> exists v, nth v par None = Some e).
  { intros e He. apply in_rev in He. exact (walk_parents arcs par p n t Ew e He). }
  split.
  - intros e He. destruct (Hpar e He) as (v & Hv). exact (proj1 (PI_tight arcs res dist par HF HP v e Hv)).
  - intros e He. destruct (Hpar e He) as (v & Hv).
    destruct (PI_tight arcs res dist par HF HP v e Hv) as (_ & Hh & du & dv & Et & Ev & Heq).
    exists du, dv. rewrite Hh. auto.
Qed.

(* (2) *)
Theorem ssp_invariant : forall n arcs res s t path d pf tc,
  valid_arcs n arcs = true -> length res = length arcs -> (s < n)%nat ->
  NoNegCycle arcs res ->
  bellman_ford n arcs res s t = BFPath path d ->
  NoNegCycle arcs (fst (augment arcs res path pf tc)).
Proof.
  intros n arcs res s t path d pf tc Hva Hlen Hs Hnn H.
  destruct (bf_path_tight n arcs res s t path d Hva Hlen Hs Hnn H) as (dist & HF & _ & Ht).
  exact (ssp_nnc arcs res dist path HF Ht pf tc Hnn).
Qed.
