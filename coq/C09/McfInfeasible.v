(* C09 - INFEASIBLE is sound: when Bellman-Ford leaves the sink at distance inf, the nodes at finite distance
   are closed under residual edges of positive residual capacity (n-1 rounds reach everything reachable: each
   round either adds a node or the set is already closed), so they form a saturated cut whose capacity is the
   amount shipped so far, which is below the demand: no feasible flow of that demand exists. *)
From Coq Require Import List ZArith Bool Arith Lia.
From SV Require Import C09.Mcf C09.McfSpec C09.McfCert C09.McfAug C09.McfBF C09.McfProofs.
Import ListNotations.
Open Scope Z_scope.
Import Mcf McfSpec.

Definition fin (l : list (option Z)) (i : nat) : Prop := nth i l None <> None.

Definition edge5 := (edge * nat * nat * Z * Z)%type.

Definition Closed (edges : list edge5) (dist : list (option Z)) : Prop :=
  forall e u v c r, In (e, u, v, c, r) edges -> 0 < r -> fin dist u -> fin dist v.

Lemma fin_lt l i : fin l i -> (i < length l)%nat.
Proof. unfold fin. intros H. destruct (Nat.lt_ge_cases i (length l)) as [|Hge]; [assumption|]. rewrite nth_overflow in H by exact Hge. contradiction. Qed.

Lemma fin_upd_some l j x i : fin l i -> fin (upd l j (Some x)) i.
Proof. unfold fin. rewrite nth_upd. destruct (Nat.eqb i j && Nat.ltb j (length l))%bool; [discriminate|auto]. Qed.

Lemma fin_upd_same l j x : (j < length l)%nat -> fin (upd l j (Some x)) j.
Proof. unfold fin. intros H. rewrite nth_upd_same by exact H. discriminate. Qed.

Lemma fin_upd_inv l j x i : fin (upd l j (Some x)) i -> fin l i \/ i = j.
Proof.
  unfold fin. rewrite nth_upd. destruct (Nat.eqb_spec i j) as [->|]; [right; reflexivity|]. cbn [andb]. auto.
Qed.

(* ---------------- one relaxation *)
Lemma relax_facts dist par fl e u v c r :
  let '(d', p', fl') := relax (dist, par, fl) (e, u, v, c, r) in
  length d' = length dist /\
  (forall i, fin dist i -> fin d' i) /\
  (0 < r -> fin dist u -> (v < length dist)%nat -> fin d' v) /\
  (fl' = false -> fl = false /\ d' = dist /\ p' = par /\ (0 < r -> fin dist u -> (v < length dist)%nat -> fin dist v)) /\
  (forall i, fin d' i -> fin dist i \/ (i = v /\ 0 < r /\ fin dist u)).
Proof.
  unfold relax. destruct (Z.ltb_spec 0 r) as [Hr|Hr].
  - destruct (nth u dist None) as [du|] eqn:Eu.
    + assert (Hfu : fin dist u) by (unfold fin; rewrite Eu; discriminate).
      destruct (nth v dist None) as [dv|] eqn:Ev.
      * assert (Hfv : fin dist v) by (unfold fin; rewrite Ev; discriminate).
        destruct (du + c <? dv).
        -- split; [apply length_upd|]. split; [intros i; apply fin_upd_some|]. split; [intros _ _ Hv; apply fin_upd_same; exact Hv|].
           split; [discriminate|]. intros i Hi. destruct (fin_upd_inv _ _ _ _ Hi) as [ | -> ]; auto.
        -- split; [reflexivity|]. split; [auto|]. split; [auto|]. split; [auto|]. auto.
      * split; [apply length_upd|]. split; [intros i; apply fin_upd_some|]. split; [intros _ _ Hv; apply fin_upd_same; exact Hv|].
        split; [discriminate|]. intros i Hi. destruct (fin_upd_inv _ _ _ _ Hi) as [ | -> ]; auto.
    + split; [reflexivity|]. split; [auto|]. split; [intros _ Hf; unfold fin in Hf; rewrite Eu in Hf; contradiction|].
      split; [|auto]. intros ->. repeat split. intros _ Hf. unfold fin in Hf. rewrite Eu in Hf. contradiction.
  - split; [reflexivity|]. split; [auto|]. split; [lia|]. split; [|auto]. intros ->. repeat split. lia.
Qed.

(* ---------------- one round *)
Lemma fold_facts : forall (es : list edge5) dist par fl,
  let '(d', p', fl') := fold_left relax es (dist, par, fl) in
  length d' = length dist /\
  (forall i, fin dist i -> fin d' i) /\
  (forall e u v c r, In (e, u, v, c, r) es -> 0 < r -> fin dist u -> (v < length dist)%nat -> fin d' v) /\
  (fl' = false -> fl = false /\ d' = dist /\ p' = par /\
     forall e u v c r, In (e, u, v, c, r) es -> 0 < r -> fin dist u -> (v < length dist)%nat -> fin dist v).
Proof.
  induction es as [|[[[[e u] v] c] r] es IH]; intros dist par fl.
  - cbn [fold_left]. split; [reflexivity|]. split; [auto|]. split; [intros ? ? ? ? ? []|].
    intros ->. repeat split. intros ? ? ? ? ? [].
  - cbn [fold_left]. pose proof (relax_facts dist par fl e u v c r) as R.
    destruct (relax (dist, par, fl) (e, u, v, c, r)) as [[d1 p1] fl1].
    destruct R as (Rl & Rm & Rs & Rf & _).
    specialize (IH d1 p1 fl1). destruct (fold_left relax es (d1, p1, fl1)) as [[d' p'] fl'].
    destruct IH as (Il & Im & Is & If).
    split; [lia|]. split; [auto|]. split.
    + intros e0 u0 v0 c0 r0 [Heq|Hin] Hr0 Hu0 Hv0.
      * inversion Heq; subst. apply Im. apply Rs; assumption.
      * apply (Is e0 u0 v0 c0 r0 Hin Hr0); [apply Rm; exact Hu0|lia].
    + intros Hfl. destruct (If Hfl) as (F1 & F2 & F3 & F4). destruct (Rf F1) as (G1 & G2 & G3 & G4).
      subst. repeat split. intros e0 u0 v0 c0 r0 [Heq|Hin] Hr0 Hu0 Hv0.
      * inversion Heq; subst. apply G4; assumption.
      * apply (F4 e0 u0 v0 c0 r0 Hin Hr0 Hu0 Hv0).
Qed.

(* starting inside a closed set D, a sweep stays inside D *)
Lemma fold_inside (all : list edge5) D : Closed all D ->
  forall (es : list edge5) dist par fl, (forall x, In x es -> In x all) ->
  (forall i, fin dist i -> fin D i) ->
  forall i, fin (fst (fst (fold_left relax es (dist, par, fl)))) i -> fin D i.
Proof.
  intros HC. induction es as [|[[[[e u] v] c] r] es IH]; intros dist par fl Hsub Hin i Hi; [apply Hin; exact Hi|].
  cbn [fold_left] in Hi. pose proof (relax_facts dist par fl e u v c r) as R.
  destruct (relax (dist, par, fl) (e, u, v, c, r)) as [[d1 p1] fl1]. destruct R as (_ & _ & _ & _ & Rg).
  apply (IH d1 p1 fl1); [intros x Hx; apply Hsub; right; exact Hx| |exact Hi].
  intros j Hj. destruct (Rg j Hj) as [Hd|(-> & Hr & Hu)]; [apply Hin; exact Hd|].
  apply (HC e u v c r); [apply Hsub; left; reflexivity|exact Hr|apply Hin; exact Hu].
Qed.

(* ---------------- counting finite entries *)
Fixpoint cnt (l : list (option Z)) : nat :=
  match l with [] => O | Some _ :: t => S (cnt t) | None :: t => cnt t end.

Lemma cnt_le_length l : (cnt l <= length l)%nat.
Proof. induction l as [|[x|] l IH]; cbn [cnt length]; lia. Qed.

Lemma cnt_mono : forall l l', length l = length l' -> (forall i, fin l i -> fin l' i) ->
  (cnt l <= cnt l')%nat /\ ((cnt l' <= cnt l)%nat -> forall i, fin l' i -> fin l i).
Proof.
  induction l as [|h l IH]; intros [|h' l'] Hlen Hsub; try discriminate.
  - split; [cbn; lia|]. intros _ i Hi. exact Hi.
  - cbn [length] in Hlen. assert (Hlen' : length l = length l') by lia.
    assert (Hsub' : forall i, fin l i -> fin l' i) by (intros i Hi; exact (Hsub (S i) Hi)).
    destruct (IH l' Hlen' Hsub') as [IH1 IH2].
    destruct h as [x|]; destruct h' as [x'|]; cbn [cnt].
    + split; [lia|]. intros Hc [|i] Hi; [unfold fin; cbn; discriminate|]. apply (IH2 ltac:(lia) i Hi).
    + exfalso. apply (Hsub 0%nat); [unfold fin; cbn; discriminate|reflexivity].
    + split; [lia|]. intros Hc. lia.
    + split; [lia|]. intros Hc [|i] Hi; [exact Hi|]. apply (IH2 Hc i Hi).
Qed.

Lemma cnt_full : forall l, cnt l = length l -> forall i, (i < length l)%nat -> fin l i.
Proof.
  induction l as [|[x|] l IH]; intros Hc i Hi; cbn [cnt length] in *; [lia| |].
  - destruct i as [|i]; [unfold fin; cbn; discriminate|]. apply (IH ltac:(lia) i). lia.
  - pose proof (cnt_le_length l). lia.
Qed.

Lemma cnt_pos l i : fin l i -> (1 <= cnt l)%nat.
Proof.
  revert i. induction l as [|[x|] l IH]; intros i Hi; cbn [cnt].
  - unfold fin in Hi. destruct i; cbn in Hi; contradiction.
  - lia.
  - destruct i as [|i]; [unfold fin in Hi; cbn in Hi; contradiction|]. exact (IH i Hi).
Qed.

(* ---------------- all rounds *)
Section Rounds.
Variable es : list edge5.
Variable n : nat.
Hypothesis Hheads : forall e u v c r, In (e, u, v, c, r) es -> (v < n)%nat.

Lemma closed_same_fin d d' : (forall i, fin d i <-> fin d' i) -> Closed es d -> Closed es d'.
Proof. intros H HC e u v c r Hin Hr Hu. apply H. apply (HC e u v c r Hin Hr). apply H. exact Hu. Qed.

Lemma round_closed dist par : length dist = n -> Closed es dist ->
  Closed es (fst (fst (bf_round es dist par))).
Proof.
  intros Hlen HC. unfold bf_round.
  pose proof (fold_facts es dist par false) as F.
  pose proof (fold_inside es dist HC es dist par false (fun x H => H) (fun i H => H)) as G.
  destruct (fold_left relax es (dist, par, false)) as [[d' p'] fl']. cbn [fst] in *.
  destruct F as (_ & Fm & _). apply (closed_same_fin dist); [|exact HC].
  intros i. split; [apply Fm|apply G].
Qed.

Lemma rounds_closed : forall r dist par, length dist = n -> Closed es dist ->
  Closed es (fst (bf_rounds r es dist par)).
Proof.
  induction r as [|r IH]; intros dist par Hlen HC; [exact HC|].
  cbn [bf_rounds]. pose proof (round_closed dist par Hlen HC) as H1.
  pose proof (fold_facts es dist par false) as F. unfold bf_round in *.
  destruct (fold_left relax es (dist, par, false)) as [[d' p'] fl']. cbn [fst] in H1.
  destruct F as (Fl & _). destruct fl'; [apply IH; [lia|exact H1]|exact H1].
Qed.

Lemma rounds_progress : forall r dist par, length dist = n ->
  length (fst (bf_rounds r es dist par)) = n /\
  (forall i, fin dist i -> fin (fst (bf_rounds r es dist par)) i) /\
  (Closed es (fst (bf_rounds r es dist par)) \/ (cnt dist + r <= cnt (fst (bf_rounds r es dist par)))%nat).
Proof.
  induction r as [|r IH]; intros dist par Hlen.
  - cbn [bf_rounds fst]. split; [exact Hlen|]. split; [auto|]. right. lia.
  - cbn [bf_rounds]. pose proof (fold_facts es dist par false) as F. unfold bf_round.
    destruct (fold_left relax es (dist, par, false)) as [[d1 p1] fl1] eqn:Ef.
    destruct F as (Fl & Fm & Fs & Ff). destruct fl1.
    + destruct (IH d1 p1 ltac:(lia)) as (I1 & I2 & I3).
      split; [exact I1|]. split; [intros i Hi; apply I2; apply Fm; exact Hi|].
      destruct I3 as [I3|I3]; [left; exact I3|].
      destruct (cnt_mono dist d1 ltac:(lia) Fm) as [C1 C2].
      destruct (Nat.lt_ge_cases (cnt dist) (cnt d1)) as [Hgrow|Hsame]; [right; lia|].
      left. apply rounds_closed; [lia|].
      (* no new finite node in this round: dist was closed already, and d1 has the same finite set *)
      apply (closed_same_fin dist); [intros i; split; [apply Fm|apply (C2 Hsame)]|].
      intros e u v c rr Hin Hr Hu. apply (C2 Hsame). apply (Fs e u v c rr Hin Hr Hu).
      rewrite Hlen. exact (Hheads _ _ _ _ _ Hin).
    + cbn [fst]. split; [lia|]. split; [exact Fm|]. left.
      destruct (Ff eq_refl) as (_ & -> & _ & F4).
      intros e u v c rr Hin Hr Hu. apply (F4 e u v c rr Hin Hr Hu). rewrite Hlen. exact (Hheads _ _ _ _ _ Hin).
Qed.

Lemma rounds_reach_closed dist par s : length dist = n -> fin dist s ->
  Closed es (fst (bf_rounds (n - 1) es dist par)).
Proof.
  intros Hlen Hs. destruct (rounds_progress (n - 1) dist par Hlen) as (H1 & _ & [H3|H3]); [exact H3|].
  pose proof (cnt_pos dist s Hs) as Hp. pose proof (fin_lt dist s Hs) as Hsn.
  pose proof (cnt_le_length (fst (bf_rounds (n - 1) es dist par))) as Hle.
  intros e u v c r Hin _ _. apply cnt_full; [lia|]. rewrite H1. exact (Hheads _ _ _ _ _ Hin).
Qed.

End Rounds.

(* ---------------- the saturated cut *)
Definition fin_set (dist : list (option Z)) : list bool :=
  map (fun o => match o with Some _ => true | None => false end) dist.

Lemma inS_fin_set dist w : inS (fin_set dist) w = true <-> fin dist w.
Proof.
  unfold inS, fin_set, fin. revert w. induction dist as [|[x|] dist IH]; intros [|w]; cbn [map nth];
    try (split; [discriminate|intros H; contradiction]);
    try (split; [intros _; discriminate|reflexivity]); try apply IH.
Qed.

Lemma resinv_cons a arcs p res : ResInv (a :: arcs) (p :: res) ->
  (fst p + snd p = a_cap a /\ 0 <= fst p /\ 0 <= snd p) /\ ResInv arcs res.
Proof.
  intros [Hlen H]. split.
  - exact (H 0%nat ltac:(cbn; lia)).
  - split; [cbn [length] in Hlen; lia|]. intros k Hk. exact (H (S k) (proj1 (Nat.succ_lt_mono _ _) Hk)).
Qed.

Lemma closed_cut C dist : (forall w, inS C w = true <-> fin dist w) ->
  forall arcs res k, ResInv arcs res -> Closed (res_edges k arcs res) dist ->
  psum (piS C) arcs (flows res) = cut_cap C arcs.
Proof.
  intros HS. induction arcs as [|a arcs IH]; intros res k Hinv HC.
  - reflexivity.
  - destruct res as [|[rf rb] res]; [destruct Hinv as [Hl _]; discriminate|].
    apply resinv_cons in Hinv. destruct Hinv as ((Hsum & Hrf & Hrb) & Hinv). cbn [fst snd] in *.
    cbn [flows map psum cut_cap snd]. fold (flows res).
    rewrite (IH res (S k) Hinv).
    2:{ intros e u v c r Hin. apply (HC e u v c r). cbn [res_edges]. right. right. exact Hin. }
    assert (H1 : 0 < rf -> inS C (a_u a) = true -> inS C (a_v a) = true).
    { intros Hr Hu. apply HS. apply (HC (k, false) (a_u a) (a_v a) (a_c a) rf); [cbn [res_edges]; left; reflexivity|exact Hr|apply HS; exact Hu]. }
    assert (H2 : 0 < rb -> inS C (a_v a) = true -> inS C (a_u a) = true).
    { intros Hr Hv. apply HS. apply (HC (k, true) (a_v a) (a_u a) (- a_c a) rb); [cbn [res_edges]; right; left; reflexivity|exact Hr|apply HS; exact Hv]. }
    unfold piS. destruct (inS C (a_u a)) eqn:Eu; destruct (inS C (a_v a)) eqn:Ev; cbn [andb negb]; lia.
Qed.

Lemma sum_b_demand S s t x n : (s < n)%nat -> (t < n)%nat -> inS S s = true -> inS S t = false ->
  sum_b (demand_b s t x) S n = x.
Proof.
  intros Hs Ht HSs HSt. rewrite <- wsum_piS.
  rewrite (wsum_ext (piS S) _ (fun w => delta s x w - delta t x w)).
  - rewrite wsum_sub, !wsum_delta by assumption. unfold piS. rewrite HSs, HSt. lia.
  - intros w _. unfold demand_b, delta. rewrite (Nat.eqb_sym w s), (Nat.eqb_sym w t). reflexivity.
Qed.

Lemma valid_arcs_heads n arcs res : valid_arcs n arcs = true ->
  forall e u v c r, In (e, u, v, c, r) (res_edges 0 arcs res) -> (v < n)%nat.
Proof.
  intros Hv e u v c r Hin. destruct (res_edges_ok arcs res _ Hin) as (_ & Hh & _ & _ & Hk).
  unfold valid_arcs in Hv. rewrite forallb_forall in Hv.
  specialize (Hv _ (nth_In arcs arc0 Hk)).
  apply andb_prop in Hv. destruct Hv as [Hv _]. apply andb_prop in Hv. destruct Hv as [Hu Hv].
  apply Nat.ltb_lt in Hu. apply Nat.ltb_lt in Hv. subst v. unfold e_head. destruct (snd e); assumption.
Qed.

Lemma valid_arcs_caps n arcs : valid_arcs n arcs = true -> caps_ok arcs = true.
Proof.
  unfold valid_arcs, caps_ok. intros H. rewrite forallb_forall in *. intros a Ha.
  specialize (H a Ha). apply andb_prop in H. exact (proj2 H).
Qed.

Theorem mcf_infeasible_sound : forall n arcs s t d k,
  valid_input n arcs s t d = true ->
  mcf_run n arcs s t d = Some k -> k_status k = INFEASIBLE ->
  infeasible n arcs (demand_b s t d).
Proof.
  intros n arcs s t d k Hvi Hrun Hst. unfold valid_input in Hvi.
  apply andb_prop in Hvi. destruct Hvi as [Hvi Hd]. apply andb_prop in Hvi. destruct Hvi as [Hvi _].
  apply andb_prop in Hvi. destruct Hvi as [Hvi Ht]. apply andb_prop in Hvi. destruct Hvi as [Hva Hs].
  apply Nat.ltb_lt in Hs. apply Nat.ltb_lt in Ht. apply Z.leb_le in Hd.
  destruct (mcf_run_sound n arcs s t d k (valid_arcs_caps n arcs Hva) Hd Hrun) as (Hinv & _ & Hnet & _ & _ & Hinf).
  destruct (Hinf Hst) as [Hlt Hbf]. set (res := k_res k) in *. set (tf := k_flow k) in *.
  unfold bellman_ford in Hbf.
  set (dist0 := upd (repeat None n) s (Some 0)) in *.
  assert (Hlen0 : length dist0 = n) by (unfold dist0; rewrite length_upd, repeat_length; reflexivity).
  assert (Hfs0 : fin dist0 s) by (unfold dist0; apply fin_upd_same; rewrite repeat_length; exact Hs).
  pose proof (rounds_reach_closed (res_edges 0 arcs res) n (valid_arcs_heads n arcs res Hva) dist0 (repeat None n) s Hlen0 Hfs0) as HC.
  destruct (rounds_progress (res_edges 0 arcs res) n (valid_arcs_heads n arcs res Hva) (n - 1) dist0 (repeat None n) Hlen0) as (_ & Hmono & _).
  destruct (bf_rounds (n - 1) (res_edges 0 arcs res) dist0 (repeat None n)) as [dist par]. cbn [fst] in HC, Hmono.
  destruct (nth t dist None) as [dt|] eqn:Et; [destruct (walk arcs par n t); discriminate|].
  set (S := fin_set dist).
  assert (HSs : inS S s = true) by (apply inS_fin_set; apply Hmono; exact Hfs0).
  assert (HSt : inS S t = false).
  { destruct (inS S t) eqn:E; [|reflexivity]. apply inS_fin_set in E. unfold fin in E. rewrite Et in E. contradiction. }
  apply (cut_check_sound n arcs (demand_b s t d) S). unfold cut_check. rewrite Hva. cbn [andb].
  apply orb_true_intro. left. apply Z.ltb_lt.
  rewrite (sum_b_demand S s t d n Hs Ht HSs HSt).
  rewrite <- (closed_cut S dist (inS_fin_set dist) arcs res 0 Hinv HC).
  rewrite <- (wsum_netout (piS S) n arcs (flows res) Hva).
  rewrite (wsum_ext (piS S) _ (demand_b s t tf)) by (intros w _; apply Hnet).
  rewrite wsum_piS, (sum_b_demand S s t tf n Hs Ht HSs HSt). exact Hlt.
Qed.

(* public form *)
Theorem mcf_public_infeasible : forall n arcs s t d r,
  valid_input n arcs s t d = true ->
  mcf n arcs s t d = Some r -> r_status r = INFEASIBLE ->
  infeasible n arcs (demand_b s t d).
Proof.
  intros n arcs s t d r Hv H Hst. unfold mcf in H.
  destruct (mcf_run n arcs s t d) as [k|] eqn:Ek; [|discriminate].
  destruct (k_status k) eqn:Es; inversion H; subst r; cbn [r_status] in Hst; [discriminate|].
  exact (mcf_infeasible_sound n arcs s t d k Hv Ek Es).
Qed.

(* optimality of the model's answer, conditional on a reduced-cost test for some potentials *)
Theorem mcf_optimal_partial : forall n arcs s t d k pi,
  valid_input n arcs s t d = true ->
  mcf_run n arcs s t d = Some k -> k_status k = OPTIMAL ->
  reduced_b (pot pi) arcs (flows (k_res k)) = true ->
  min_cost n arcs (demand_b s t d) (flows (k_res k)).
Proof.
  intros n arcs s t d k pi Hvi Hrun Hst Hred. unfold valid_input in Hvi.
  apply andb_prop in Hvi. destruct Hvi as [Hvi Hd]. apply andb_prop in Hvi. destruct Hvi as [Hvi _].
  apply andb_prop in Hvi. destruct Hvi as [Hvi _]. apply andb_prop in Hvi. destruct Hvi as [Hva _].
  apply Z.leb_le in Hd.
  pose proof (mcf_run_feasible n arcs s t d k (valid_arcs_caps n arcs Hva) Hd Hrun Hst) as Hf.
  split; [exact Hf|]. exact (cert_optimal n arcs _ _ (pot pi) Hva Hf (reduced_b_sound _ _ _ Hred)).
Qed.
