(* C09 deepening, round 2 - network_simplex: one pass of the main loop keeps the invariant NSInv, hence every state
   the loop reaches satisfies it. *)
From Coq Require Import List ZArith Bool Arith Lia.
From SV Require Import C09.Mcf C09.McfSpec C09.McfAug C09.NetSimplex.
From SV Require Import C09.DeepNS2Base C09.DeepNS2Walk C09.DeepNS2Flow C09.DeepNS2Rehang C09.DeepNS2Tree.
Import ListNotations.
Open Scope Z_scope.
Import Mcf McfSpec NetSimplex.

(* ---------------- tree_adj[node].discard(arc) / .add(arc) *)
Definition adj_discard (adj : list (list nat)) (node arc : nat) : list (list nat) :=
  upd adj node (filter (fun a => negb (Nat.eqb a arc)) (nth node adj [])).
Definition adj_add (adj : list (list nat)) (node arc : nat) : list (list nat) :=
  if existsb (Nat.eqb arc) (nth node adj []) then adj else upd adj node (nth node adj [] ++ [arc]).

Lemma adj_discard_len adj node arc : length (adj_discard adj node arc) = length adj.
Proof. apply length_upd. Qed.
Lemma adj_add_len adj node arc : length (adj_add adj node arc) = length adj.
Proof. unfold adj_add. destruct (existsb _ _); [reflexivity|apply length_upd]. Qed.

Lemma adj_discard_spec adj node arc w : (node < length adj)%nat ->
  (NoDup (nth w adj []) -> NoDup (nth w (adj_discard adj node arc) [])) /\
  forall a, In a (nth w (adj_discard adj node arc) []) <-> In a (nth w adj []) /\ ~ (w = node /\ a = arc).
Proof.
  intros Hn. unfold adj_discard. destruct (Nat.eq_dec w node) as [->|Hne].
  - rewrite nth_upd_same by exact Hn. split; [apply NoDup_filter|].
    intros a. rewrite filter_In. destruct (Nat.eqb_spec a arc); cbn [negb]; intuition congruence.
  - rewrite nth_upd_other by exact Hne. split; [auto|]. intros a. intuition.
Qed.

Lemma adj_add_spec adj node arc w : (node < length adj)%nat ->
  (NoDup (nth w adj []) -> NoDup (nth w (adj_add adj node arc) [])) /\
  forall a, In a (nth w (adj_add adj node arc) []) <-> In a (nth w adj []) \/ (w = node /\ a = arc).
Proof.
  intros Hn. unfold adj_add. destruct (existsb (Nat.eqb arc) (nth node adj [])) eqn:Ex.
  - split; [auto|]. intros a. split; [auto|]. intros [H|[-> ->]]; [exact H|].
    apply existsb_exists in Ex. destruct Ex as (y & Hy & E). apply Nat.eqb_eq in E. subst y. exact Hy.
  - assert (Hnot : ~ In arc (nth node adj [])).
    { intros Hin. assert (existsb (Nat.eqb arc) (nth node adj []) = true); [|congruence].
      apply existsb_exists. exists arc. split; [exact Hin|apply Nat.eqb_refl]. }
    destruct (Nat.eq_dec w node) as [->|Hne].
    + rewrite nth_upd_same by exact Hn. split.
      * intros Hnd. apply NoDup_app_intro; [exact Hnd|constructor; [intros []|constructor]|].
        intros x Hx [<-|[]]. contradiction.
      * intros a. rewrite in_app_iff. cbn [In]. intuition.
    + rewrite nth_upd_other by exact Hne. split; [auto|]. intros a. intuition.
Qed.

Section Step.
Variable C : consts.
Local Notation n := (c_n C).
Local Notation T := (c_m C + c_n C)%nat.
Local Notation src a := (nn (c_src C) a).
Local Notation tgt a := (nn (c_tgt C) a).
Local Notation cap a := (nz (c_cap C) a).
Local Notation cst a := (nz (c_cost C) a).
Hypothesis HC : ConstOK C.
Variable b : nat -> Z.

Definition new_adj (s : st) (l e : nat) : list (list nat) :=
  adj_add (adj_add (adj_discard (adj_discard (tadj s) (src l) l) (tgt l) l) (src e) e) (tgt e) e.

(* ---------------- the three outcomes of a pass, with the let-bound lambdas of the model named *)
Definition reflow (s : st) (fl : list Z) : st :=
  {| flow := fl; parent := parent s; pred := pred s; depth := depth s; tadj := tadj s; pi := pi s; state := state s |}.

Definition pivot_tree (s : st) (e l : nat) (lf : bool) (first second : nat) (fl2 : list Z) : step_res :=
  let q := if lf then first else second in
  let pn := if lf then second else first in
  match rehang C (n + 2) (new_adj s l e) [q] (upd (parent s) q pn, upd (pred s) q e, depth s, pi s) with
  | None => Hang
  | Some (par', prd', dep', p') =>
      Next {| flow := fl2; parent := par'; pred := prd'; depth := dep'; tadj := new_adj s l e; pi := p';
              state := upd (upd (state s) e 0) l (if nz fl2 l =? 0 then 1 else -1) |}
  end.

Definition pivot (s : st) (e : nat) (neg : bool) (first second join : nat) (delta : Z) (l : nat) (lf : bool) : step_res :=
  if ((delta =? 0) && Nat.eqb l e)%bool then Next (flip s e)
  else
    match push C (2 * (n + 1) + 2) s true first join delta
            (upd (flow s) e (if neg then nz (flow s) e + delta else nz (flow s) e - delta)) with
    | None => Hang
    | Some fl1 =>
        match push C (2 * (n + 1) + 2) s false second join delta fl1 with
        | None => Hang
        | Some fl2 => if Nat.eqb l e then Next (flip (reflow s fl2) e) else pivot_tree s e l lf first second fl2
        end
    end.

Definition step2 (s : st) : step_res :=
  match pricing C s with
  | None => Optimal
  | Some e =>
      let neg := redcost C s e <? 0 in
      let first := if neg then src e else tgt e in
      let second := if neg then tgt e else src e in
      let delta0 := if neg then cap e - nz (flow s) e else nz (flow s) e in
      match find_join (2 * (n + 1) + 2) s first second with
      | None => Hang
      | Some join =>
          match ratio C (2 * (n + 1) + 2) s true first join (delta0, e, true) with
          | None => Hang
          | Some acc1 =>
              match ratio C (2 * (n + 1) + 2) s false second join acc1 with
              | None => Hang
              | Some (delta, l, lf) => pivot s e neg first second join delta l lf
              end
          end
      end
  end.

Lemma step_eq s : step C s = step2 s.
Proof. reflexivity. Qed.

(* ---------------- outcome 1 and 2: the entering arc changes its bound, the tree stays *)
Lemma inv_reflow_flip s e fl : NSInv C b s -> (e < T)%nat ->
  nz (state s) e = 1 \/ nz (state s) e = -1 ->
  length fl = T -> (forall a, (a < T)%nat -> 0 <= nz fl a <= cap a) ->
  (forall w, netx C fl w = netx C (flow s) w) ->
  (forall a, a <> e -> nz (state s) a <> 0 -> nz fl a = nz (flow s) a) ->
  (nz (state s) e = 1 -> nz fl e = cap e) -> (nz (state s) e = -1 -> nz fl e = 0) ->
  NSInv C b (flip (reflow s fl) e).
Proof.
  intros I He Hst Hl Hb Hnet Hsame Hup Hlo.
  set (st' := upd (state s) e (- nz (state s) e)).
  assert (Hst' : forall a, nz st' a = if Nat.eqb a e then - nz (state s) e else nz (state s) a).
  { intros a. unfold st'. destruct (Nat.eqb_spec a e) as [->|Hne].
    - apply nz_upd_same. rewrite (i_lstate C b s I). exact He.
    - apply nz_upd_other. exact Hne. }
  assert (Hz : forall a, nz st' a = 0 <-> nz (state s) a = 0).
  { intros a. rewrite Hst'. destruct (Nat.eqb_spec a e) as [->|Hne]; [lia|tauto]. }
  constructor; cbn [flip reflow flow parent pred depth tadj pi state]; fold st'.
  - exact Hl.
  - unfold st'. rewrite length_upd. apply (i_lstate C b s I).
  - apply (i_lpar C b s I).
  - apply (i_lpred C b s I).
  - apply (i_ldep C b s I).
  - apply (i_lpi C b s I).
  - apply (i_ladj C b s I).
  - exact Hb.
  - intros w. rewrite Hnet. apply (i_cons C b s I).
  - intros a Ha. rewrite Hst'. destruct (Nat.eqb_spec a e) as [->|Hne]; [lia|apply (i_st3 C b s I a Ha)].
  - intros a Ha. rewrite Hst'. destruct (Nat.eqb_spec a e) as [->|Hne]; intros H1; [apply Hlo; lia|].
    rewrite Hsame by (try exact Hne; lia). apply (i_lower C b s I a Ha H1).
  - intros a Ha. rewrite Hst'. destruct (Nat.eqb_spec a e) as [->|Hne]; intros H1; [apply Hup; lia|].
    rewrite Hsame by (try exact Hne; lia). apply (i_upper C b s I a Ha H1).
  - rewrite <- (i_cnt C b s I). apply nsum_ext. intros a Ha.
    pose proof (Hz a) as Hza. destruct (Z.eqb_spec (nz st' a) 0) as [E|E];
      destruct (Z.eqb_spec (nz (state s) a) 0) as [E'|E']; tauto.
  - intros v Hv. apply Hz. apply (i_predst C b s I v Hv).
  - destruct (i_tree C b s I) as [t1 t2 t3 t4 t5]. constructor; assumption.
  - apply (i_pi C b s I).
  - apply (i_pi0 C b s I).
  - intros w Hw. destruct (i_adj C b s I w Hw) as [Hnd Hiff]. split; [exact Hnd|]. intros a. rewrite Hiff, Hz. tauto.
Qed.

(* ---------------- the adjacency lists after a basis change *)
Lemma new_adj_spec s l e w : NSInv C b s -> (l < T)%nat -> (e < T)%nat -> (w <= n)%nat ->
  length (new_adj s l e) = S n /\
  NoDup (nth w (new_adj s l e) []) /\
  forall a, In a (nth w (new_adj s l e) []) <->
            (In a (nth w (tadj s) []) /\ a <> l) \/ (a = e /\ (src e = w \/ tgt e = w)).
Proof.
  intros I Hl He Hw. destruct (HC l Hl) as (Hl1 & Hl2 & _). destruct (HC e He) as (He1 & He2 & _).
  pose proof (i_ladj C b s I) as Hlen. destruct (i_adj C b s I w Hw) as [Hnd Hiff].
  unfold new_adj.
  set (a1 := adj_discard (tadj s) (src l) l). set (a2 := adj_discard a1 (tgt l) l). set (a3 := adj_add a2 (src e) e).
  assert (L1 : length a1 = S n) by (unfold a1; rewrite adj_discard_len; exact Hlen).
  assert (L2 : length a2 = S n) by (unfold a2; rewrite adj_discard_len; exact L1).
  assert (L3 : length a3 = S n) by (unfold a3; rewrite adj_add_len; exact L2).
  destruct (adj_discard_spec (tadj s) (src l) l w ltac:(lia)) as [N1 S1]. fold a1 in N1, S1.
  destruct (adj_discard_spec a1 (tgt l) l w ltac:(lia)) as [N2 S2]. fold a2 in N2, S2.
  destruct (adj_add_spec a2 (src e) e w ltac:(lia)) as [N3 S3]. fold a3 in N3, S3.
  destruct (adj_add_spec a3 (tgt e) e w ltac:(lia)) as [N4 S4].
  split; [rewrite adj_add_len; exact L3|]. split; [auto|].
  intros a. rewrite S4, S3, S2, S1. split.
  - intros [[[[H1 H2] H3]|[-> ->]]|[-> ->]]; [left|right; auto|right; auto].
    split; [exact H1|]. intros ->. apply Hiff in H1. destruct H1 as (_ & _ & [E|E]); [apply H2|apply H3]; auto.
  - intros [[H1 H2]|[-> [E|E]]]; [left; left; split; [split; [exact H1|]|]; intros [_ E]; contradiction| |]; auto.
Qed.

(* ---------------- one pass *)
Theorem step_inv s s' : NSInv C b s -> step C s = Next s' -> NSInv C b s'.
Proof.
  intros I H. rewrite step_eq in H. unfold step2 in H.
  destruct (pricing C s) as [e|] eqn:Ep; [|discriminate].
  destruct (pricing_some C s e Ep) as [He Hprice].
  pose proof (i_tree C b s I) as HT.
  set (neg := redcost C s e <? 0) in *.
  set (first := if neg then src e else tgt e) in *.
  set (second := if neg then tgt e else src e) in *.
  set (delta0 := if neg then cap e - nz (flow s) e else nz (flow s) e) in *.
  cbv zeta in H.
  destruct (HC e He) as (He1 & He2 & _).
  assert (Hf : (first <= n)%nat) by (unfold first; destruct neg; assumption).
  assert (Hs : (second <= n)%nat) by (unfold second; destruct neg; assumption).
  destruct (find_join _ s first second) as [join|] eqn:Ej; [|discriminate].
  destruct (find_join_spec C s HT _ _ _ _ Hf Hs Ej) as (p1 & p2 & Hc1 & Hc2 & Hdisj).
  destruct (ratio C _ s true first join (delta0, e, true)) as [acc1|] eqn:Er1; [|discriminate].
  destruct (ratio C _ s false second join acc1) as [[[delta l] lf]|] eqn:Er2; [|discriminate].
  apply (ratio_chain C s HT _ _ _ _ _ _ _ Hc1) in Er1. apply (ratio_chain C s HT _ _ _ _ _ _ _ Hc2) in Er2.
  rewrite Er1 in Er2. clear Er1 acc1. symmetry in Er2.
  pose proof (flow_facts C b s I e He Hprice p1 p2 join Hc1 Hc2 Hdisj delta l lf Er2 _ eq_refl) as FF.
  fold neg in FF. fold delta0 in FF.
  destruct FF as (Hest & Hnp & Hd0 & Hd & Rl & P1lt & P2lt & FF).
  assert (Hest0 : nz (state s) e <> 0) by lia.
  assert (Hle : l = e -> delta = cap e).
  { intros E. destruct Rl as [[_ Hx]|[(x & Hx & _ & E' & _)|(x & Hx & _ & E' & _)]]; [lia| |]; exfalso.
    - apply (Hnp x (P1lt x Hx)). congruence.
    - apply (Hnp x (P2lt x Hx)). congruence. }
  unfold pivot in H.
  destruct ((delta =? 0) && Nat.eqb l e)%bool eqn:Edeg.
  { (* degenerate: flip only *)
    apply andb_prop in Edeg. destruct Edeg as [Ed El]. apply Z.eqb_eq in Ed. apply Nat.eqb_eq in El.
    inversion H; subst s'. specialize (Hle El).
    change (flip s e) with (flip (reflow s (flow s)) e).
    apply inv_reflow_flip; try assumption.
    - apply (i_lflow C b s I).
    - apply (i_bounds C b s I).
    - reflexivity.
    - reflexivity.
    - intros Hx. pose proof (i_lower C b s I e He Hx). lia.
    - intros Hx. pose proof (i_upper C b s I e He Hx). lia. }
  destruct (push C _ s true first join delta _) as [fl1|] eqn:Ep1; [|discriminate].
  destruct (push C _ s false second join delta fl1) as [fl2|] eqn:Ep2; [|discriminate].
  apply (push_chain C s HT _ _ _ _ _ _ _ _ Hc1) in Ep1. apply (push_chain C s HT _ _ _ _ _ _ _ _ Hc2) in Ep2.
  rewrite Ep1 in Ep2. clear Ep1 fl1.
  rewrite <- Ep2 in FF. destruct FF as (F1 & F2 & F3 & F4 & F5 & F6).
  destruct (Nat.eqb_spec l e) as [El|El].
  { (* the entering arc jumps to its other bound *)
    inversion H; subst s'. specialize (Hle El). apply inv_reflow_flip; try assumption.
    - intros Hx. destruct F5 as [[_ F5]|[F5 _]]; [lia|exact F5|lia].
    - intros Hx. destruct F5 as [[F5 _]|[_ F5]]; [lia|lia|exact F5]. }
  (* the basis change *)
  assert (Hlx : exists x, l = nn (pred s) x /\ (if lf then In x p1 else In x p2) /\
                  ((In x p1 /\ delta = res1 C s true x) \/ (In x p2 /\ delta = res1 C s false x))).
  { destruct Rl as [[E _]|[(x & Hx & -> & E' & E'')|(x & Hx & -> & E' & E'')]]; [contradiction|exists x; auto|exists x; auto]. }
  destruct Hlx as (x & Hlx & Hxin & Hxres).
  specialize (F6 x Hxres). rewrite <- Hlx in F6.
  unfold pivot_tree in H. cbv zeta in H.
  set (q := if lf then first else second) in *. set (pn := if lf then second else first) in *.
  destruct (rehang C _ (new_adj s l e) [q] _) as [[[[par' prd'] dep'] p']|] eqn:Erh; [|discriminate].
  inversion H; subst s'; clear H.
  assert (Hxq : exists pq po, chain C s q pq join /\ chain C s pn po join /\ In x pq /\ (forall y, In y pq -> In y po -> False)).
  { unfold q, pn. destruct lf; [exists p1, p2|exists p2, p1]; repeat split; try assumption.
    intros y Hy1 Hy2. exact (Hdisj y Hy2 Hy1). }
  destruct Hxq as (pq & po & Hcq & Hcp & Hxpq & Hdq).
  destruct (chain_in C s HT _ _ _ Hcq x Hxpq) as (Hxn & Hxd & _).
  destruct (chain_split C s _ _ _ Hcq x Hxpq) as (A & rest & _ & HcA & _).
  assert (HpS : ~ Sset C s x pn).
  { intros [B HB]. destruct (chain_det C s _ _ _ HB _ _ Hcp) as [Hin|[Hin|Hin]].
    - exact (Hdq x Hxpq Hin).
    - rewrite Hin in Hxpq. exact (chain_notin C s HT _ _ _ Hcq Hxpq).
    - destruct (chain_in C s HT _ _ _ HB join Hin) as (_ & Hlt & _). lia. }
  assert (Hje : joins C e q pn) by (unfold joins, q, pn, first, second; destruct lf; destruct neg; auto).
  assert (Hpn : (pn <= n)%nat) by (unfold pn; destruct lf; assumption).
  assert (Hl : (l < T)%nat) by (rewrite Hlx; apply (t_pred C s HT x Hxn)).
  assert (Hadj4 : forall w, (w <= n)%nat -> NoDup (nth w (new_adj s l e) []) /\
         forall a, In a (nth w (new_adj s l e) []) <->
            (In a (nth w (tadj s) []) /\ a <> nn (pred s) x) \/ (a = e /\ (src e = w \/ tgt e = w))).
  { intros w Hw. rewrite <- Hlx. apply (new_adj_spec s l e w I Hl He Hw). }
  destruct (rehang_tree C b s I e x q pn A He Hest0 Hxn Hpn Hje HcA HpS (new_adj s l e) Hadj4 _ _ _ _ _ Erh)
    as (L1 & L2 & L3 & L4 & Htab & Hd0' & Hdnn & Hp0).
  rewrite <- Hlx in Htab.
  assert (Hl0 : nz (state s) l = 0) by (rewrite Hlx; apply (i_predst C b s I x Hxn)).
  set (z := if nz fl2 l =? 0 then 1 else -1) in *.
  assert (Hst2 : forall a, nz (upd (upd (state s) e 0) l z) a = if Nat.eqb a l then z else if Nat.eqb a e then 0 else nz (state s) a).
  { intros a. destruct (Nat.eqb_spec a l) as [->|Hal].
    - apply nz_upd_same. rewrite length_upd, (i_lstate C b s I). exact Hl.
    - rewrite nz_upd_other by exact Hal. destruct (Nat.eqb_spec a e) as [->|Hae].
      + apply nz_upd_same. rewrite (i_lstate C b s I). exact He.
      + apply nz_upd_other. exact Hae. }
  assert (Hz : z = 1 \/ z = -1) by (unfold z; destruct (nz fl2 l =? 0); auto).
  assert (Hz2 : forall a, nz (upd (upd (state s) e 0) l z) a = 0 <-> (nz (state s) a = 0 /\ a <> l) \/ a = e).
  { intros a. rewrite Hst2. destruct (Nat.eqb_spec a l) as [->|Hal]; [lia|].
    destruct (Nat.eqb_spec a e) as [->|Hae]; tauto. }
  constructor; cbn [flow parent pred depth tadj pi state].
  - exact F1.
  - rewrite !length_upd. apply (i_lstate C b s I).
  - exact L1.
  - exact L2.
  - exact L3.
  - exact L4.
  - apply (new_adj_spec s l e 0%nat I Hl He ltac:(lia)).
  - exact F2.
  - intros w. rewrite F3. apply (i_cons C b s I).
  - intros a Ha. rewrite Hst2. destruct (Nat.eqb_spec a l) as [->|Hal]; [lia|].
    destruct (Nat.eqb_spec a e) as [->|Hae]; [lia|]. apply (i_st3 C b s I a Ha).
  - intros a Ha. rewrite Hst2. destruct (Nat.eqb_spec a l) as [->|Hal].
    + unfold z. destruct (Z.eqb_spec (nz fl2 l) 0); intros; lia.
    + destruct (Nat.eqb_spec a e) as [->|Hae]; [intros; lia|]. intros Hx1.
      rewrite F4 by (try exact Hae; lia). apply (i_lower C b s I a Ha Hx1).
  - intros a Ha. rewrite Hst2. destruct (Nat.eqb_spec a l) as [->|Hal].
    + unfold z. destruct (Z.eqb_spec (nz fl2 l) 0); intros; lia.
    + destruct (Nat.eqb_spec a e) as [->|Hae]; [intros; lia|]. intros Hx1.
      rewrite F4 by (try exact Hae; lia). apply (i_upper C b s I a Ha Hx1).
  - rewrite <- (i_cnt C b s I).
    rewrite (nsum_one (fun a => if nz (upd (state s) e 0) a =? 0 then 1 else 0)
                      (fun a => if nz (upd (upd (state s) e 0) l z) a =? 0 then 1 else 0) T l (-1) Hl).
    + rewrite (nsum_one (fun a => if nz (state s) a =? 0 then 1 else 0)
                        (fun a => if nz (upd (state s) e 0) a =? 0 then 1 else 0) T e 1 He); [lia| |].
      * intros i _ Hi. rewrite nz_upd_other by exact Hi. reflexivity.
      * rewrite nz_upd_same by (rewrite (i_lstate C b s I); exact He).
        destruct (Z.eqb_spec (nz (state s) e) 0); [lia|reflexivity].
    + intros i _ Hi. rewrite (nz_upd_other _ i l) by exact Hi. reflexivity.
    + rewrite nz_upd_same by (rewrite length_upd, (i_lstate C b s I); exact Hl).
      rewrite (nz_upd_other _ l e) by exact El. rewrite Hl0. destruct Hz as [-> | ->]; reflexivity.
  - intros v Hv. destruct (Htab v Hv) as (_ & _ & _ & _ & [Q|[Q1 Q2]] & _); apply Hz2; [right; exact Q|left; split; assumption].
  - constructor.
    + intros v Hv. apply (Htab v Hv).
    + intros v Hv. apply (Htab v Hv).
    + exact Hd0'.
    + exact Hdnn.
    + intros v Hv. split; apply (Htab v Hv).
  - intros v Hv. apply (Htab v Hv).
  - exact Hp0.
  - intros w Hw. destruct (Hadj4 w Hw) as [Hnd Hiff]. split; [exact Hnd|]. intros a. rewrite Hiff, Hz2, <- Hlx.
    destruct (i_adj C b s I w Hw) as [_ Hold]. rewrite Hold. split.
    + intros [[(Q1 & Q2 & Q3) Q4]|[-> Q]].
      * split; [exact Q1|]. split; [left; split; assumption|exact Q3].
      * split; [exact He|]. split; [right; reflexivity|exact Q].
    + intros (Q1 & [[Q2 Q4]|Q2] & Q3).
      * left. split; [split; [exact Q1|split; assumption]|exact Q4].
      * right. subst a. split; [reflexivity|exact Q3].
Qed.

(* ---------------- the loop *)
Theorem loop_inv : forall fuel mi s it stt s' it', NSInv C b s ->
  loop C fuel mi s it = Some (stt, s', it') -> NSInv C b s'.
Proof.
  induction fuel as [|fuel IH]; intros mi s it stt s' it' I H; cbn [loop] in H.
  - destruct (it <? mi); [discriminate|]. inversion H; subst. exact I.
  - destruct (it <? mi); [|inversion H; subst; exact I].
    destruct (step C s) as [| |s1] eqn:Es; [inversion H; subst; exact I|discriminate|].
    exact (IH _ _ _ _ _ _ (step_inv s s1 I Es) H).
Qed.

End Step.
