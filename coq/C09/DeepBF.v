(* C09 deepening - exactness of the model's Bellman-Ford (in place, edges in list order, at most n-1 rounds, early
   exit when a round changes nothing) on a residual graph without negative-cost cycle.
   Labels are related to residual walks that start in a set of sources Src (the model: Src = {source}; all nodes as
   sources give feasible potentials for any graph without negative cycle):
     Lw   : every finite label is the cost of some residual walk from a source          (labels >= true distances)
     Uw r : every label is <= the cost of every residual walk from a source with <= r edges
   A round turns Uw r into Uw (r+1) (in place only helps: labels never increase inside a round); a round that changes
   nothing is a fixpoint FP (dist[head] <= dist[tail] + cost on every residual edge), which gives Uw r for all r;
   n-1 full rounds give Uw (n-1), which is Uw r for all r by loop erasure (DeepWalk.short_walk). *)
From Coq Require Import List ZArith Bool Arith Lia.
From SV Require Import C09.Mcf C09.McfSpec C09.McfAug C09.McfBF C09.DeepWalk.
Import ListNotations.
Open Scope Z_scope.
Import Mcf McfSpec.

Definition edge5 := (edge * nat * nat * Z * Z)%type.

(* relax either does nothing (for one of three reasons) or updates dist[v], parent[v] and sets the flag *)
Lemma relax_cases dist par fl e u v c r :
  (relax (dist, par, fl) (e, u, v, c, r) = (dist, par, fl) /\
     (r <= 0 \/ nth u dist None = None \/
      exists du dv, nth u dist None = Some du /\ nth v dist None = Some dv /\ dv <= du + c))
  \/ (exists du, 0 < r /\ nth u dist None = Some du /\
        (nth v dist None = None \/ exists dv, nth v dist None = Some dv /\ du + c < dv) /\
        relax (dist, par, fl) (e, u, v, c, r) = (upd dist v (Some (du + c)), upd par v (Some e), true)).
Proof.
  unfold relax. destruct (Z.ltb_spec 0 r) as [Hr|Hr]; [|left; split; [reflexivity|left; lia]].
  destruct (nth u dist None) as [du|] eqn:Eu; [|left; split; [reflexivity|right; left; reflexivity]].
  destruct (nth v dist None) as [dv|] eqn:Ev.
  - destruct (Z.ltb_spec (du + c) dv) as [Hlt|Hge].
    + right. exists du. split; [exact Hr|]. split; [reflexivity|].
      split; [right; exists dv; split; [reflexivity|exact Hlt]|reflexivity].
    + left. split; [reflexivity|]. right. right. exists du, dv. auto.
  - right. exists du. split; [exact Hr|]. split; [reflexivity|]. split; [left; reflexivity|reflexivity].
Qed.

(* labels only decrease *)
Definition le_lab (d d' : list (option Z)) : Prop :=
  length d' = length d /\
  forall v dv, nth v d None = Some dv -> exists dv', nth v d' None = Some dv' /\ dv' <= dv.

Lemma le_lab_refl d : le_lab d d.
Proof. split; [reflexivity|]. intros v dv H. exists dv. split; [exact H|lia]. Qed.

Lemma le_lab_trans d1 d2 d3 : le_lab d1 d2 -> le_lab d2 d3 -> le_lab d1 d3.
Proof.
  intros [L1 H1] [L2 H2]. split; [congruence|]. intros v dv H.
  destruct (H1 _ _ H) as (dv' & H' & Hle). destruct (H2 _ _ H') as (dv'' & H'' & Hle'). exists dv''. split; [exact H''|lia].
Qed.

Lemma le_lab_upd d v x :
  (nth v d None = None \/ exists dv, nth v d None = Some dv /\ x <= dv) -> le_lab d (upd d v (Some x)).
Proof.
  intros Hv. split; [apply length_upd|]. intros w dw Hw. rewrite nth_upd.
  destruct (Nat.eqb w v && Nat.ltb v (length d))%bool eqn:E.
  - apply andb_prop in E. destruct E as [E _]. apply Nat.eqb_eq in E. subst w.
    exists x. split; [reflexivity|]. destruct Hv as [Hv|(dv & Hv & Hle)]; [congruence|].
    rewrite Hv in Hw. inversion Hw; subst. exact Hle.
  - exists dw. split; [exact Hw|lia].
Qed.

Section BFExact.
Variable arcs : list arc.
Variable res : resid.
Variable n : nat.
Variable Src : nat -> Prop.
Variable es : list edge5.
Hypothesis Hes_ok : forall x, In x es -> edge_ok arcs res x.
Hypothesis Hes_complete : forall e, (fst e < length arcs)%nat ->
  In (e, e_tail arcs e, e_head arcs e, e_cost arcs e, e_res res e) es.
Hypothesis Hhead : forall e, (fst e < length arcs)%nat -> (e_head arcs e < n)%nat.

Definition Lw (dist : list (option Z)) : Prop :=
  forall v dv, nth v dist None = Some dv ->
  exists a p, Src a /\ rwalk arcs res a p v /\ pcost arcs p = dv.

Definition Uw (r : nat) (dist : list (option Z)) : Prop :=
  forall a p v, Src a -> rwalk arcs res a p v -> (length p <= r)%nat ->
  exists dv, nth v dist None = Some dv /\ dv <= pcost arcs p.

Definition Uall (dist : list (option Z)) : Prop :=
  forall a p v, Src a -> rwalk arcs res a p v ->
  exists dv, nth v dist None = Some dv /\ dv <= pcost arcs p.

(* the labels are feasible potentials on the part they reach *)
Definition FP (dist : list (option Z)) : Prop :=
  forall e du, redge arcs res e -> nth (e_tail arcs e) dist None = Some du ->
  exists dv, nth (e_head arcs e) dist None = Some dv /\ dv <= du + e_cost arcs e.

Lemma Uw_le r d d' : Uw r d -> le_lab d d' -> Uw r d'.
Proof.
  intros HU [_ Hle] a p v Ha Hw Hl. destruct (HU a p v Ha Hw Hl) as (dv & Hd & Hc).
  destruct (Hle _ _ Hd) as (dv' & Hd' & Hc'). exists dv'. split; [exact Hd'|lia].
Qed.

(* ---------------- one relaxation *)
Lemma relax_step dist par fl e u v c r d' p' fl' :
  edge_ok arcs res (e, u, v, c, r) ->
  relax (dist, par, fl) (e, u, v, c, r) = (d', p', fl') ->
  le_lab dist d' /\ (Lw dist -> Lw d') /\
  (0 < r -> forall du, nth u dist None = Some du -> (v < length dist)%nat ->
     exists dv', nth v d' None = Some dv' /\ dv' <= du + c) /\
  (fl' = false -> fl = false /\ d' = dist /\ p' = par /\
     (0 < r -> forall du, nth u dist None = Some du -> exists dv, nth v dist None = Some dv /\ dv <= du + c)).
Proof.
  intros (Hu & Hv & Hc & Hr & Hk) E.
  destruct (relax_cases dist par fl e u v c r) as [[E' Hwhy]|(du & Hpos & Edu & Hwhy & E')];
    rewrite E' in E; inversion E; subst d' p' fl'; clear E.
  - assert (Hthird : 0 < r -> forall du, nth u dist None = Some du ->
              exists dv, nth v dist None = Some dv /\ dv <= du + c).
    { intros Hpos du Edu. destruct Hwhy as [Hw|[Hw|(du0 & dv & Hw1 & Hw2 & Hw3)]]; [lia|congruence|].
      rewrite Hw1 in Edu. inversion Edu; subst du0. exists dv. split; assumption. }
    split; [apply le_lab_refl|]. split; [auto|]. split; [intros Hpos du0 Edu _; exact (Hthird Hpos du0 Edu)|].
    intros ->. repeat split. exact Hthird.
  - split; [|split; [|split]].
    + apply le_lab_upd. destruct Hwhy as [Hn|(dv & Hn & Hlt)]; [left; exact Hn|right; exists dv; split; [exact Hn|lia]].
    + intros HL w dw Hw. rewrite nth_upd in Hw.
      destruct (Nat.eqb w v && Nat.ltb v (length dist))%bool eqn:Eb; [|exact (HL _ _ Hw)].
      apply andb_prop in Eb. destruct Eb as [Eb _]. apply Nat.eqb_eq in Eb. subst w. inversion Hw; subst dw.
      destruct (HL _ _ Edu) as (a & p & Ha & Hp & Hcost).
      exists a, (p ++ [e]). split; [exact Ha|]. split.
      * rewrite Hv. apply rwalk_snoc; [rewrite <- Hu; exact Hp|]. split; [exact Hk|]. rewrite <- Hr. exact Hpos.
      * rewrite pcost_app. cbn [pcost]. rewrite <- Hc. lia.
    + intros _ du0 Edu0 Hvl. rewrite Edu in Edu0. inversion Edu0; subst du0.
      exists (du + c). split; [apply nth_upd_same; exact Hvl|lia].
    + discriminate.
Qed.

(* ---------------- one sweep over a list of edges *)
Lemma fold_step : forall l dist par fl d' p' fl',
  (forall x, In x l -> edge_ok arcs res x) ->
  fold_left relax l (dist, par, fl) = (d', p', fl') ->
  le_lab dist d' /\ (Lw dist -> Lw d') /\
  (forall e u v c r, In (e, u, v, c, r) l -> 0 < r -> forall du, nth u dist None = Some du ->
     (v < length dist)%nat -> exists dv', nth v d' None = Some dv' /\ dv' <= du + c) /\
  (fl' = false -> fl = false /\ d' = dist /\ p' = par /\
     forall e u v c r, In (e, u, v, c, r) l -> 0 < r -> forall du, nth u dist None = Some du ->
       exists dv, nth v dist None = Some dv /\ dv <= du + c).
Proof.
  induction l as [|[[[[e u] v] c] r] l IH]; intros dist par fl d' p' fl' Hok E.
  - cbn [fold_left] in E. inversion E; subst d' p' fl'. split; [apply le_lab_refl|]. split; [auto|].
    split; [intros ? ? ? ? ? []|]. intros ->. repeat split. intros ? ? ? ? ? [].
  - cbn [fold_left] in E. destruct (relax (dist, par, fl) (e, u, v, c, r)) as [[d1 p1] fl1] eqn:E1.
    destruct (relax_step _ _ _ _ _ _ _ _ _ _ _ (Hok _ (or_introl eq_refl)) E1) as (S1 & S2 & S3 & S4).
    destruct (IH _ _ _ _ _ _ (fun x Hx => Hok x (or_intror Hx)) E) as (I1 & I2 & I3 & I4).
    split; [exact (le_lab_trans _ _ _ S1 I1)|]. split; [auto|]. split.
    + intros e0 u0 v0 c0 r0 [Heq|Hin] Hpos du Edu Hvl.
      * inversion Heq; subst e0 u0 v0 c0 r0. destruct (S3 Hpos du Edu Hvl) as (dv1 & Hd1 & Hle1).
        destruct (proj2 I1 _ _ Hd1) as (dv' & Hd' & Hle'). exists dv'. split; [exact Hd'|lia].
      * destruct (proj2 S1 _ _ Edu) as (du1 & Edu1 & Hle1).
        destruct (I3 e0 u0 v0 c0 r0 Hin Hpos du1 Edu1) as (dv' & Hd' & Hle'); [rewrite (proj1 S1); exact Hvl|].
        exists dv'. split; [exact Hd'|lia].
    + intros Hfl. destruct (I4 Hfl) as (F1 & F2 & F3 & F4). destruct (S4 F1) as (G1 & G2 & G3 & G4).
      subst d' p' d1 p1. repeat split; [exact G1|].
      intros e0 u0 v0 c0 r0 [Heq|Hin] Hpos du Edu.
      * inversion Heq; subst e0 u0 v0 c0 r0. exact (G4 Hpos du Edu).
      * exact (F4 e0 u0 v0 c0 r0 Hin Hpos du Edu).
Qed.

(* ---------------- one round *)
Lemma round_U r dist par d' p' fl' : length dist = n -> Uw r dist ->
  fold_left relax es (dist, par, false) = (d', p', fl') -> Uw (S r) d'.
Proof.
  intros Hlen HU E. destruct (fold_step _ _ _ _ _ _ _ Hes_ok E) as (I1 & _ & I3 & _).
  intros a p v Ha Hw Hl. destruct (Nat.le_gt_cases (length p) r) as [Hle|Hgt].
  - exact (Uw_le r dist d' HU I1 a p v Ha Hw Hle).
  - destruct p as [|e0 p0] using rev_ind; [cbn [length] in Hgt; lia|]. clear IHp0.
    rewrite app_length in Hl. cbn [length] in Hl.
    apply rwalk_snoc_inv in Hw. destruct Hw as (Hw & He & Hh). subst v.
    destruct (HU a p0 _ Ha Hw ltac:(lia)) as (du & Edu & Hcu).
    destruct (I3 _ _ _ _ _ (Hes_complete e0 (proj1 He)) (proj2 He) du Edu) as (dv' & Hd' & Hle').
    { rewrite Hlen. apply Hhead. exact (proj1 He). }
    exists dv'. split; [exact Hd'|]. rewrite pcost_app. cbn [pcost]. lia.
Qed.

Lemma round_noupdate dist par d' p' :
  fold_left relax es (dist, par, false) = (d', p', false) -> d' = dist /\ p' = par /\ FP dist.
Proof.
  intros E. destruct (fold_step _ _ _ _ _ _ _ Hes_ok E) as (_ & _ & _ & I4).
  destruct (I4 eq_refl) as (_ & -> & -> & F). split; [reflexivity|]. split; [reflexivity|].
  intros e du He Edu. exact (F _ _ _ _ _ (Hes_complete e (proj1 He)) (proj2 He) du Edu).
Qed.

(* a fixpoint whose sources have label <= 0 is below every walk *)
Lemma FP_walk dist : FP dist -> forall p a b da, rwalk arcs res a p b -> nth a dist None = Some da ->
  exists db, nth b dist None = Some db /\ db <= da + pcost arcs p.
Proof.
  intros HF. induction p as [|e p IH]; intros a b da Hw Ha.
  - destruct Hw as [Hc _]. cbn [chain] in Hc. subst b. exists da. split; [exact Ha|cbn [pcost]; lia].
  - apply rwalk_cons_inv in Hw. destruct Hw as (Ht & He & Hw). subst a.
    destruct (HF e da He Ha) as (dh & Hh & Hle). destruct (IH _ _ _ Hw Hh) as (db & Hb & Hle').
    exists db. split; [exact Hb|cbn [pcost]; lia].
Qed.

Lemma FP_Uall dist : FP dist -> Uw 0 dist -> Uall dist.
Proof.
  intros HF H0 a p v Ha Hw. destruct (H0 a [] a Ha (rwalk_nil arcs res a) (Nat.le_refl _)) as (da & Eda & Hle).
  cbn [pcost] in Hle. destruct (FP_walk dist HF p a v da Hw Eda) as (dv & Edv & Hle'). exists dv. split; [exact Edv|lia].
Qed.

Lemma Uall_FP dist : Lw dist -> Uall dist -> FP dist.
Proof.
  intros HL HU e du He Edu. destruct (HL _ _ Edu) as (a & p & Ha & Hp & Hc).
  destruct (HU a (p ++ [e]) _ Ha (rwalk_snoc _ _ _ _ _ Hp He)) as (dv & Edv & Hle).
  exists dv. split; [exact Edv|]. rewrite pcost_app in Hle. cbn [pcost] in Hle. lia.
Qed.

(* ---------------- all rounds *)
Lemma rounds_props : forall k r dist par d' p', length dist = n -> Lw dist -> Uw r dist ->
  bf_rounds k es dist par = (d', p') ->
  length d' = n /\ Lw d' /\ le_lab dist d' /\ (FP d' \/ Uw (r + k) d').
Proof.
  induction k as [|k IH]; intros r dist par d' p' Hlen HL HU E.
  - cbn [bf_rounds] in E. inversion E; subst d' p'. split; [exact Hlen|]. split; [exact HL|]. split; [apply le_lab_refl|].
    right. rewrite Nat.add_0_r. exact HU.
  - cbn [bf_rounds] in E. unfold bf_round in E.
    destruct (fold_left relax es (dist, par, false)) as [[d1 p1] fl1] eqn:E1.
    destruct (fold_step _ _ _ _ _ _ _ Hes_ok E1) as (I1 & I2 & _ & _).
    destruct fl1.
    + pose proof (round_U r dist par d1 p1 true Hlen HU E1) as HU1.
      destruct (IH (S r) d1 p1 d' p' ltac:(rewrite (proj1 I1); exact Hlen) (I2 HL) HU1 E) as (J1 & J2 & J3 & J4).
      split; [exact J1|]. split; [exact J2|]. split; [exact (le_lab_trans _ _ _ I1 J3)|].
      replace (r + S k)%nat with (S r + k)%nat by lia. exact J4.
    + inversion E; subst d' p'. destruct (round_noupdate _ _ _ _ E1) as (-> & _ & HF).
      split; [exact Hlen|]. split; [exact HL|]. split; [apply le_lab_refl|]. left. exact HF.
Qed.

(* the missing lemma: without negative cycle, <= n-1 in-place rounds with early exit end in exact labels *)
Theorem bf_final dist0 par0 d' p' :
  NoNegCycle arcs res -> (forall a, Src a -> (a < n)%nat) ->
  length dist0 = n -> Lw dist0 -> Uw 0 dist0 ->
  bf_rounds (n - 1) es dist0 par0 = (d', p') ->
  length d' = n /\ Lw d' /\ Uall d' /\ FP d' /\ le_lab dist0 d'.
Proof.
  intros Hnn Hsrc Hlen HL HU0 E.
  destruct (rounds_props (n - 1) 0 dist0 par0 d' p' Hlen HL HU0 E) as (J1 & J2 & J3 & J4).
  assert (HUall : Uall d').
  { destruct J4 as [HF|HU].
    - apply FP_Uall; [exact HF|]. exact (Uw_le 0 _ _ HU0 J3).
    - intros a p v Ha Hw.
      destruct (short_walk arcs res n Hnn Hhead p a v (Hsrc a Ha) Hw) as (q & Hq & Hlq & Hcq).
      destruct (HU a q v Ha Hq ltac:(cbn [plus]; lia)) as (dv & Edv & Hle). exists dv. split; [exact Edv|lia]. }
  split; [exact J1|]. split; [exact J2|]. split; [exact HUall|]. split; [exact (Uall_FP d' J2 HUall)|exact J3].
Qed.

End BFExact.
