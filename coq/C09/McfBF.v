(* C09 - Bellman-Ford of min_cost_flow: invariants of the (dist, parent) tables and what the
   reconstructed path is: a chain of residual edges from source to sink that uses every arc at most once
   (in either direction) - the latter only because the parent walk terminated. *)
From Coq Require Import List ZArith Bool Arith Lia.
From SV Require Import C09.Mcf C09.McfSpec C09.McfAug.
Import ListNotations.
Open Scope Z_scope.
Import Mcf McfSpec.

Definition edge_ok (arcs : list arc) (res : resid) (x : edge * nat * nat * Z * Z) : Prop :=
  let '(e, u, v, c, r) := x in
  u = e_tail arcs e /\ v = e_head arcs e /\ c = e_cost arcs e /\ r = e_res res e /\ (fst e < length arcs)%nat.

Lemma res_edges_ok_gen : forall suf rsuf pre rpre, length pre = length rpre ->
  forall x, In x (res_edges (length pre) suf rsuf) -> edge_ok (pre ++ suf) (rpre ++ rsuf) x.
Proof.
  induction suf as [|a suf IH]; intros rsuf pre rpre Hlen x Hin; [contradiction|].
  destruct rsuf as [|[rf rb] rsuf]; [contradiction|].
  cbn [res_edges] in Hin.
  assert (Ha : nth (length pre) (pre ++ a :: suf) arc0 = a) by apply nth_middle.
  assert (Hr : nth (length pre) (rpre ++ (rf, rb) :: rsuf) (0, 0) = (rf, rb)) by (rewrite Hlen; apply nth_middle).
  assert (Hk : (length pre < length (pre ++ a :: suf))%nat) by (rewrite app_length; cbn [length]; lia).
  destruct Hin as [<-|[<-|Hin]].
  - unfold edge_ok, e_tail, e_head, e_cost, e_res. cbn [fst snd]. rewrite Ha, Hr. cbn [fst snd]. auto.
  - unfold edge_ok, e_tail, e_head, e_cost, e_res. cbn [fst snd]. rewrite Ha, Hr. cbn [fst snd]. auto.
  - specialize (IH rsuf (pre ++ [a]) (rpre ++ [(rf, rb)])).
    rewrite !app_length in IH. cbn [length] in IH. rewrite Nat.add_1_r in IH.
    rewrite <- !app_assoc in IH. cbn [app] in IH. apply IH; [lia|exact Hin].
Qed.

Lemma res_edges_ok arcs res x : In x (res_edges 0 arcs res) -> edge_ok arcs res x.
Proof. intros H. exact (res_edges_ok_gen arcs res [] [] eq_refl x H). Qed.

Section BF.
Variable arcs : list arc.
Variable source : nat.

Definition ParOK (dist : list (option Z)) (par : list (option edge)) : Prop :=
  length dist = length par /\
  (forall v e, nth v par None = Some e ->
     e_head arcs e = v /\ nth (e_tail arcs e) dist None <> None /\ (fst e < length arcs)%nat) /\
  (forall v, nth v dist None <> None -> nth v par None = None -> v = source).

Lemma upd_ok dist par e u v du nd :
  ParOK dist par -> nth u dist None = Some du -> u = e_tail arcs e -> v = e_head arcs e ->
  (fst e < length arcs)%nat ->
  ParOK (upd dist v (Some nd)) (upd par v (Some e)).
Proof.
  intros (Hlen & Ha & Hb) Hu Htail Hhead Hk. split; [rewrite !length_upd; exact Hlen|]. split.
  - intros v' e' H. rewrite nth_upd in H.
    destruct (Nat.eqb v' v && Nat.ltb v (length par))%bool eqn:E.
    + inversion H; subst e'. apply andb_prop in E. destruct E as [E _]. apply Nat.eqb_eq in E. subst v'.
      split; [symmetry; exact Hhead|]. split; [|exact Hk]. rewrite <- Htail. rewrite nth_upd.
      destruct (Nat.eqb u v && Nat.ltb v (length dist))%bool; [discriminate|]. rewrite Hu. discriminate.
    + destruct (Ha _ _ H) as (H1 & H2 & H3). split; [exact H1|]. split; [|exact H3]. rewrite nth_upd.
      destruct (Nat.eqb (e_tail arcs e') v && Nat.ltb v (length dist))%bool; [discriminate|exact H2].
  - intros v' Hd Hp. rewrite nth_upd in Hd. rewrite nth_upd in Hp. rewrite Hlen in Hd.
    destruct (Nat.eqb v' v && Nat.ltb v (length par))%bool; [discriminate|]. apply Hb; assumption.
Qed.

Lemma relax_ok res dist par fl x :
  edge_ok arcs res x -> ParOK dist par ->
  let '(d', p', _) := relax (dist, par, fl) x in ParOK d' p'.
Proof.
  destruct x as [[[[e u] v] c] r]. intros (Hu & Hv & _ & _ & Hk) Hok. unfold relax.
  destruct (0 <? r); [|exact Hok].
  destruct (nth u dist None) as [du|] eqn:Edu; [|exact Hok].
  destruct (nth v dist None) as [dv|].
  - destruct (du + c <? dv); [|exact Hok]. exact (upd_ok _ _ _ _ _ _ _ Hok Edu Hu Hv Hk).
  - exact (upd_ok _ _ _ _ _ _ _ Hok Edu Hu Hv Hk).
Qed.

Lemma fold_relax_ok res : forall edges st,
  (forall x, In x edges -> edge_ok arcs res x) ->
  ParOK (fst (fst st)) (snd (fst st)) ->
  ParOK (fst (fst (fold_left relax edges st))) (snd (fst (fold_left relax edges st))).
Proof.
  induction edges as [|x edges IH]; intros st Hall Hok; [exact Hok|].
  cbn [fold_left]. apply IH; [intros y Hy; apply Hall; right; exact Hy|].
  destruct st as [[dist par] fl]. cbn [fst snd] in Hok.
  pose proof (relax_ok res dist par fl x (Hall x (or_introl eq_refl)) Hok) as H.
  destruct (relax (dist, par, fl) x) as [[d' p'] fl']. exact H.
Qed.

Lemma bf_rounds_ok res edges : (forall x, In x edges -> edge_ok arcs res x) ->
  forall rounds dist par, ParOK dist par ->
  ParOK (fst (bf_rounds rounds edges dist par)) (snd (bf_rounds rounds edges dist par)).
Proof.
  intros Hall. induction rounds as [|r IH]; intros dist par Hok; [exact Hok|].
  cbn [bf_rounds]. unfold bf_round.
  pose proof (fold_relax_ok res edges (dist, par, false) Hall Hok) as H.
  destruct (fold_left relax edges (dist, par, false)) as [[d' p'] updd]. cbn [fst snd] in H.
  destruct updd; [apply IH; exact H|exact H].
Qed.

Lemma nth_repeat_none {A} n i : nth i (repeat (@None A) n) None = None.
Proof. revert i. induction n as [|n IH]; intros [|i]; cbn; auto. Qed.

Lemma init_ok n : ParOK (upd (repeat None n) source (Some 0)) (repeat None n).
Proof.
  split; [rewrite length_upd, !repeat_length; reflexivity|]. split.
  - intros v e H. rewrite nth_repeat_none in H. discriminate.
  - intros v Hd _. rewrite nth_upd in Hd.
    destruct (Nat.eqb v source && Nat.ltb source (length (repeat None n)))%bool eqn:E.
    + apply andb_prop in E. destruct E as [E _]. apply Nat.eqb_eq in E. exact E.
    + rewrite nth_repeat_none in Hd. contradiction.
Qed.

(* ---------------- the parent walk *)
Variable dist : list (option Z).
Variable par : list (option edge).
Hypothesis Hok : ParOK dist par.

Lemma walk_det : forall f f' x p p',
  walk arcs par f x = Some p -> walk arcs par f' x = Some p' -> p = p'.
Proof.
  induction f as [|f IH]; intros f' x p p' H H'.
  - cbn [walk] in H. destruct f'; cbn [walk] in H'; destruct (nth x par None); congruence.
  - cbn [walk] in H. destruct (nth x par None) as [e|] eqn:E.
    + destruct f' as [|f']; cbn [walk] in H'; rewrite E in H'; [discriminate|].
      destruct (walk arcs par f (e_tail arcs e)) as [q|] eqn:Eq; [|discriminate].
      destruct (walk arcs par f' (e_tail arcs e)) as [q'|] eqn:Eq'; [|discriminate].
      inversion H; inversion H'; subst. f_equal. exact (IH _ _ _ _ Eq Eq').
    + destruct f'; cbn [walk] in H'; rewrite E in H'; congruence.
Qed.

Lemma walk_cons : forall f x e p, walk arcs par f x = Some (e :: p) ->
  nth x par None = Some e /\ exists f', walk arcs par f' (e_tail arcs e) = Some p.
Proof.
  intros [|f] x e p H; cbn [walk] in H; destruct (nth x par None) as [e0|] eqn:E; try discriminate.
  destruct (walk arcs par f (e_tail arcs e0)) as [q|] eqn:Eq; [|discriminate].
  inversion H; subst. split; [reflexivity|]. exists f. exact Eq.
Qed.

(* the walk from any visited node is not longer than the walk itself *)
Lemma walk_sub : forall p f y, walk arcs par f y = Some p ->
  forall x, In x (y :: map (e_tail arcs) p) ->
  exists q f', walk arcs par f' x = Some q /\ (length q <= length p)%nat.
Proof.
  induction p as [|e p IH]; intros f y H x Hin.
  - destruct Hin as [<-|[]]. exists [], f. split; [exact H|lia].
  - destruct Hin as [<-|Hin]; [exists (e :: p), f; split; [exact H|lia]|].
    apply walk_cons in H. destruct H as [_ [f' H']].
    cbn [map] in Hin. destruct (IH f' _ H' x Hin) as (q & f'' & Hq & Hl).
    exists q, f''. split; [exact Hq|cbn [length]; lia].
Qed.

Lemma walk_nodup_nodes : forall p f x, walk arcs par f x = Some p -> NoDup (x :: map (e_tail arcs) p).
Proof.
  induction p as [|e p IH]; intros f x H.
  - cbn. constructor; [intros []|constructor].
  - pose proof H as H0. apply walk_cons in H. destruct H as [_ [f' H']].
    cbn [map]. constructor; [|exact (IH _ _ H')].
    intros Hin. destruct (walk_sub p f' _ H' x Hin) as (q & f'' & Hq & Hl).
    rewrite (walk_det _ _ _ _ _ Hq H0) in Hl. cbn [length] in Hl. lia.
Qed.

Lemma walk_heads : forall p f x, walk arcs par f x = Some p ->
  forall e, In e p -> In (e_head arcs e) (x :: map (e_tail arcs) p).
Proof.
  induction p as [|e0 p IH]; intros f x H e Hin; [contradiction|].
  apply walk_cons in H. destruct H as [Hx [f' H']].
  destruct Hin as [<-|Hin].
  - left. destruct Hok as (_ & Ha & _). destruct (Ha _ _ Hx) as [Hh _]. symmetry. exact Hh.
  - right. cbn [map]. exact (IH _ _ H' e Hin).
Qed.

Lemma same_arc e e' : fst e = fst e' ->
  e_head arcs e' = e_head arcs e \/ e_tail arcs e' = e_head arcs e.
Proof.
  destruct e as [k b], e' as [k' b']. cbn [fst]. intros <-. unfold e_head, e_tail. cbn [fst snd].
  destruct b, b'; auto.
Qed.

Lemma walk_nodup_arcs : forall p f x, walk arcs par f x = Some p -> NoDup (map fst p).
Proof.
  induction p as [|e p IH]; intros f x H; [constructor|].
  pose proof (walk_nodup_nodes _ _ _ H) as Hnd.
  pose proof H as H0. apply walk_cons in H. destruct H as [Hx [f' H']].
  cbn [map]. constructor; [|exact (IH _ _ H')].
  intros Hin. apply in_map_iff in Hin. destruct Hin as (e' & Hfst & He').
  destruct Hok as (_ & Ha & _). destruct (Ha _ _ Hx) as [Hh _].
  cbn [map] in Hnd. inversion Hnd as [|? ? Hnotin Hnd']; subst.
  destruct (same_arc e e' (eq_sym Hfst)) as [Hc|Hc].
  - (* e' has the head of e = x, but heads of p are visited later *)
    apply Hnotin. rewrite <- Hc. exact (walk_heads _ _ _ H' e' He').
  - apply Hnotin. right. rewrite <- Hc. apply in_map. exact He'.
Qed.

(* reversed chain: heads first *)
Fixpoint rchain (x : nat) (p : list edge) (y : nat) : Prop :=
  match p with
  | [] => x = y
  | e :: p' => e_head arcs e = x /\ rchain (e_tail arcs e) p' y
  end.

Lemma walk_rchain : forall p f x, nth x dist None <> None ->
  walk arcs par f x = Some p -> rchain x p source.
Proof.
  induction p as [|e p IH]; intros f x Hd H.
  - cbn [rchain]. destruct Hok as (_ & _ & Hb). apply Hb; [exact Hd|].
    destruct f; cbn [walk] in H; destruct (nth x par None) as [e|]; try reflexivity; try discriminate.
    destruct (walk arcs par f (e_tail arcs e)); discriminate.
  - apply walk_cons in H. destruct H as [Hx [f' H']].
    destruct Hok as (_ & Ha & _). destruct (Ha _ _ Hx) as (Hh & Hdt & _).
    cbn [rchain]. split; [exact Hh|]. exact (IH _ _ Hdt H').
Qed.

End BF.

Lemma chain_app arcs : forall p a b e,
  chain arcs a p b -> e_tail arcs e = b -> chain arcs a (p ++ [e]) (e_head arcs e).
Proof.
  induction p as [|e0 p IH]; intros a b e Hc Ht; cbn [chain app] in *.
  - subst. split; reflexivity.
  - destruct Hc as [H1 H2]. split; [exact H1|]. exact (IH _ _ _ H2 Ht).
Qed.

Lemma rchain_rev arcs : forall p x y, rchain arcs x p y -> chain arcs y (rev p) x.
Proof.
  induction p as [|e p IH]; intros x y H; cbn [rchain rev] in *.
  - cbn [chain]. symmetry. exact H.
  - destruct H as [Hh Hr]. rewrite <- Hh. apply (chain_app arcs _ _ (e_tail arcs e)); [|reflexivity].
    exact (IH _ _ Hr).
Qed.

(* what bellman_ford returns *)
Theorem bellman_ford_path : forall n arcs res s t path d,
  bellman_ford n arcs res s t = BFPath path d ->
  chain arcs s path t /\ NoDup (map fst path) /\ (forall e, In e path -> (fst e < length arcs)%nat).
Proof.
  intros n arcs res s t path d H. unfold bellman_ford in H.
  pose proof (bf_rounds_ok arcs s res (res_edges 0 arcs res) (res_edges_ok arcs res) (n - 1) _ _ (init_ok arcs s n)) as Hok.
  destruct (bf_rounds (n - 1) (res_edges 0 arcs res) (upd (repeat None n) s (Some 0)) (repeat None n)) as [dist par].
  cbn [fst snd] in Hok.
  destruct (nth t dist None) as [dt|] eqn:Edt; [|discriminate].
  destruct (walk arcs par n t) as [p|] eqn:Ew; [|discriminate].
  inversion H; subst path d. split; [|split].
  - apply rchain_rev. apply (walk_rchain arcs s dist par Hok p n t); [rewrite Edt; discriminate|exact Ew].
  - rewrite map_rev. apply NoDup_rev. exact (walk_nodup_arcs arcs s dist par Hok _ _ _ Ew).
  - intros e He. apply in_rev in He. clear H Edt.
    revert t Ew He. generalize n. induction p as [|e0 p IH]; intros n0 t0 Ew He; [contradiction|].
    apply (walk_cons arcs par) in Ew. destruct Ew as [Hx [f' H']].
    destruct He as [<-|He].
    + destruct Hok as (_ & Ha & _). destruct (Ha _ _ Hx) as (_ & _ & Hk). exact Hk.
    + exact (IH _ _ H' He).
Qed.
