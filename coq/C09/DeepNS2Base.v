(* C09 deepening, round 2 - network_simplex: the state invariant NSInv of the pivots.
   This file: vocabulary (sums over arc ids, net outflow over the extended arc set, tree chains), the invariant,
   and the facts about a valid basis tree that the pivot proofs use (pred is injective, every arc in state 0 is
   a pred arc, chains are deterministic). *)
From Coq Require Import List ZArith Bool Arith Lia.
From SV Require Import C09.Mcf C09.McfSpec C09.McfAug C09.NetSimplex.
Import ListNotations.
Open Scope Z_scope.
Import Mcf McfSpec NetSimplex.

(* ---------------- list reads *)
Lemma nn_upd_same l i x : (i < length l)%nat -> nn (upd l i x) i = x.
Proof. apply nth_upd_same. Qed.
Lemma nn_upd_other l i j x : i <> j -> nn (upd l j x) i = nn l i.
Proof. apply nth_upd_other. Qed.
Lemma nz_upd_same l i x : (i < length l)%nat -> nz (upd l i x) i = x.
Proof. apply nth_upd_same. Qed.
Lemma nz_upd_other l i j x : i <> j -> nz (upd l j x) i = nz l i.
Proof. apply nth_upd_other. Qed.

(* ---------------- sums over 0..k-1 *)
Fixpoint nsum (f : nat -> Z) (k : nat) : Z :=
  match k with O => 0 | S k' => nsum f k' + f k' end.

Lemma nsum_ext f g k : (forall i, (i < k)%nat -> f i = g i) -> nsum f k = nsum g k.
Proof.
  induction k as [|k IH]; intros H; cbn [nsum]; [reflexivity|].
  rewrite IH by (intros i Hi; apply H; lia). rewrite (H k) by lia. reflexivity.
Qed.

Lemma nsum_one f g k a d : (a < k)%nat -> (forall i, (i < k)%nat -> i <> a -> g i = f i) -> g a = f a + d ->
  nsum g k = nsum f k + d.
Proof.
  induction k as [|k IH]; intros Ha Hne Hd; [lia|]. cbn [nsum].
  destruct (Nat.eq_dec a k) as [->|Hak].
  - rewrite (nsum_ext g f k) by (intros i Hi; apply Hne; lia). lia.
  - rewrite IH by (try lia; intros i Hi; apply Hne; lia). rewrite (Hne k) by lia. lia.
Qed.

Lemma nsum_zero f k : (forall i, (i < k)%nat -> f i = 0) -> nsum f k = 0.
Proof. induction k as [|k IH]; intros H; cbn [nsum]; [reflexivity|]. rewrite IH, (H k) by (intros; try apply H; lia). lia. Qed.

Lemma nsum_app f k j : nsum f (k + j) = nsum f k + nsum (fun i => f (k + i)%nat) j.
Proof.
  induction j as [|j IH]; cbn [nsum]; [rewrite Nat.add_0_r; lia|].
  rewrite Nat.add_succ_r. cbn [nsum]. rewrite IH. lia.
Qed.

Lemma nsum_shift f k : nsum f (S k) = f 0%nat + nsum (fun i => f (S i)) k.
Proof. induction k as [|k IH]; [cbn; lia|]. cbn [nsum] in *. rewrite IH. lia. Qed.

Lemma nsum_nonneg f k : (forall i, (i < k)%nat -> 0 <= f i) -> 0 <= nsum f k.
Proof.
  induction k as [|k IH]; intros H; cbn [nsum]; [lia|].
  specialize (IH ltac:(intros i Hi; apply H; lia)). specialize (H k ltac:(lia)). lia.
Qed.

(* the number of indices below k satisfying p, as a filter *)
Lemma nsum_filter (p : nat -> bool) k :
  nsum (fun a => if p a then 1 else 0) k = Z.of_nat (length (filter p (seq 0 k))).
Proof.
  induction k as [|k IH]; [reflexivity|]. cbn [nsum]. rewrite seq_S, filter_app, app_length, IH. cbn [filter Nat.add].
  destruct (p k); cbn [length]; lia.
Qed.

Lemma NoDup_map_in {A B} (f : A -> B) : forall l, NoDup l ->
  (forall x y, In x l -> In y l -> f x = f y -> x = y) -> NoDup (map f l).
Proof.
  induction l as [|a l IH]; intros Hnd Hinj; [constructor|]. inversion Hnd as [|? ? Hna Hnd']; subst.
  cbn [map]. constructor.
  - intros Hin. apply in_map_iff in Hin. destruct Hin as (y & Hy & Hyl).
    assert (y = a) by (apply Hinj; [right; exact Hyl|left; reflexivity|exact Hy]). subst y. contradiction.
  - apply IH; [exact Hnd'|]. intros x y Hx Hy. apply Hinj; right; assumption.
Qed.

Section WithC.
Variable C : consts.
Local Notation n := (c_n C).
Local Notation T := (c_m C + c_n C)%nat.
Local Notation src a := (nn (c_src C) a).
Local Notation tgt a := (nn (c_tgt C) a).
Local Notation cap a := (nz (c_cap C) a).
Local Notation cst a := (nz (c_cost C) a).

(* what the proofs need to know about the arc tables: end points are nodes 0..n, capacities are non-negative *)
Definition ConstOK : Prop :=
  forall a, (a < T)%nat -> (src a <= n)%nat /\ (tgt a <= n)%nat /\ 0 <= cap a.

(* net outflow of node w over ALL arcs (original and artificial) *)
Definition coef (w a : nat) : Z := (if Nat.eqb (src a) w then 1 else 0) - (if Nat.eqb (tgt a) w then 1 else 0).
Definition netx (fl : list Z) (w : nat) : Z := nsum (fun a => coef w a * nz fl a) T.

Lemma netx_upd fl a d w : (a < T)%nat -> (a < length fl)%nat ->
  netx (upd fl a (nz fl a + d)) w = netx fl w + coef w a * d.
Proof.
  intros Ha Hl. unfold netx. apply (nsum_one _ _ T a); [exact Ha| |].
  - intros i _ Hi. rewrite nz_upd_other by exact Hi. reflexivity.
  - rewrite nz_upd_same by exact Hl. lia.
Qed.

(* arc a joins the nodes v and w *)
Definition joins (a v w : nat) : Prop := (src a = v /\ tgt a = w) \/ (src a = w /\ tgt a = v).

Lemma joins_sym a v w : joins a v w -> joins a w v.
Proof. unfold joins. tauto. Qed.

(* the other end of arc a seen from node v (the code: target if source == node else source) *)
Definition other (a v : nat) : nat := if Nat.eqb (src a) v then tgt a else src a.

Lemma joins_other a v w : joins a v w -> v <> w -> other a v = w.
Proof.
  unfold joins, other. intros [[H1 H2]|[H1 H2]] Hne.
  - rewrite H1, Nat.eqb_refl. exact H2.
  - destruct (Nat.eqb_spec (src a) v) as [E|E]; [congruence|exact H1].
Qed.

(* ---------------- the basis tree as the tables describe it *)
Record TreeOK (s : st) : Prop := {
  t_par : forall v, (v < n)%nat -> (nn (parent s) v <= n)%nat;
  t_dep : forall v, (v < n)%nat -> nz (depth s) v = nz (depth s) (nn (parent s) v) + 1;
  t_dep0 : nz (depth s) n = 0;
  t_depnn : forall v, (v <= n)%nat -> 0 <= nz (depth s) v;
  t_pred : forall v, (v < n)%nat -> (nn (pred s) v < T)%nat /\ joins (nn (pred s) v) v (nn (parent s) v)
}.

(* chain s u p j: following parent links from u reaches j; p = the nodes passed, j excluded *)
Inductive chain (s : st) : nat -> list nat -> nat -> Prop :=
| chain_nil u : chain s u [] u
| chain_cons u p j : (u < n)%nat -> chain s (nn (parent s) u) p j -> chain s u (u :: p) j.

Section Tree.
Variable s : st.
Hypothesis HT : TreeOK s.
Local Notation par v := (nn (parent s) v).
Local Notation prd v := (nn (pred s) v).
Local Notation dep v := (nz (depth s) v).

Lemma par_ne v : (v < n)%nat -> par v <> v.
Proof. intros Hv E. pose proof (t_dep s HT v Hv) as H. rewrite E in H. lia. Qed.

Lemma dep_pos v : (v < n)%nat -> 0 < dep v.
Proof. intros Hv. pose proof (t_dep s HT v Hv). pose proof (t_depnn s HT (par v) (t_par s HT v Hv)). lia. Qed.

Lemma chain_le u p j : chain s u p j -> (u <= n)%nat -> (j <= n)%nat.
Proof. induction 1 as [u|u p j Hu Hc IH]; intros H; [exact H|]. apply IH. apply (t_par s HT). exact Hu. Qed.

Lemma chain_dep_le u p j : chain s u p j -> dep j <= dep u.
Proof. induction 1 as [u|u p j Hu Hc IH]; [lia|]. pose proof (t_dep s HT u Hu). lia. Qed.

Lemma chain_in u p j : chain s u p j -> forall x, In x p -> (x < n)%nat /\ dep j < dep x /\ (x = u \/ dep x < dep u).
Proof.
  induction 1 as [u|u p j Hu Hc IH]; intros x Hx; [contradiction|].
  pose proof (t_dep s HT u Hu) as Hd. pose proof (chain_dep_le _ _ _ Hc) as Hle.
  destruct Hx as [<-|Hx]; [split; [exact Hu|split; [lia|left; reflexivity]]|].
  destruct (IH x Hx) as (H1 & H2 & H3). split; [exact H1|]. split; [exact H2|]. right. destruct H3 as [->|H3]; lia.
Qed.

Lemma chain_notin u p j : chain s u p j -> ~ In j p.
Proof. intros Hc Hin. destruct (chain_in _ _ _ Hc j Hin) as (_ & H & _). lia. Qed.

Lemma chain_nodup u p j : chain s u p j -> NoDup p.
Proof.
  induction 1 as [u|u p j Hu Hc IH]; [constructor|]. constructor; [|exact IH].
  intros Hin. destruct (chain_in _ _ _ Hc u Hin) as (_ & _ & H3). pose proof (t_dep s HT u Hu).
  destruct H3 as [E|H3]; [|lia]. symmetry in E. exact (par_ne u Hu E).
Qed.

Lemma chain_head_ne u p j : chain s u p j -> p <> [] -> u <> j.
Proof.
  intros Hc Hp E. destruct Hc as [u|u p j Hu Hc]; [contradiction|]. subst j.
  pose proof (chain_dep_le _ _ _ Hc). pose proof (t_dep s HT u Hu). lia.
Qed.

(* two chains from the same node: one is an initial part of the other *)
Lemma chain_det u B x : chain s u B x -> forall P j, chain s u P j -> In x P \/ x = j \/ In j B.
Proof.
  induction 1 as [u|u B x Hu Hc IH]; intros P j HP.
  - destruct HP as [u|u P j _ _]; [right; left; reflexivity|left; left; reflexivity].
  - inversion HP as [|? P' ? _ HP']; subst.
    + right; right; left; reflexivity.
    + destruct (IH _ _ HP') as [H|[H|H]]; [left; right; exact H|right; left; exact H|right; right; right; exact H].
Qed.

(* splitting a chain at one of its nodes *)
Lemma chain_split u p j : chain s u p j -> forall x, In x p ->
  exists p1 p2, p = p1 ++ x :: p2 /\ chain s u p1 x /\ chain s x (x :: p2) j.
Proof.
  induction 1 as [u|u p j Hu Hc IH]; intros x Hx; [contradiction|].
  destruct (Nat.eq_dec x u) as [->|Hne].
  - exists [], p. split; [reflexivity|]. split; [constructor|constructor; assumption].
  - destruct Hx as [E|Hx]; [congruence|]. destruct (IH x Hx) as (p1 & p2 & E & H1 & H2).
    exists (u :: p1), p2. split; [rewrite E; reflexivity|]. split; [constructor; assumption|exact H2].
Qed.

Lemma chain_app u p1 x p2 j : chain s u p1 x -> chain s x p2 j -> chain s u (p1 ++ p2) j.
Proof. induction 1 as [u|u p x Hu Hc IH]; intros H2; [exact H2|]. cbn [app]. constructor; [exact Hu|apply IH; exact H2]. Qed.

(* pred is injective on the non-root nodes *)
Lemma pred_inj v w : (v < n)%nat -> (w < n)%nat -> prd v = prd w -> v = w.
Proof.
  intros Hv Hw E. destruct (t_pred s HT v Hv) as [_ Jv]. destruct (t_pred s HT w Hw) as [_ Jw].
  rewrite <- E in Jw. pose proof (t_dep s HT v Hv). pose proof (t_dep s HT w Hw).
  unfold joins in Jv, Jw. destruct Jv as [[A1 A2]|[A1 A2]]; destruct Jw as [[B1 B2]|[B1 B2]]; try congruence.
  - assert (v = par w) by congruence. assert (par v = w) by congruence. exfalso.
    replace (dep (par v)) with (dep w) in * by congruence. replace (dep (par w)) with (dep v) in * by congruence. lia.
  - assert (v = par w) by congruence. assert (par v = w) by congruence. exfalso.
    replace (dep (par v)) with (dep w) in * by congruence. replace (dep (par w)) with (dep v) in * by congruence. lia.
Qed.

End Tree.

(* ---------------- the invariant *)
Record NSInv (b : nat -> Z) (s : st) : Prop := {
  i_lflow : length (flow s) = T;
  i_lstate : length (state s) = T;
  i_lpar : length (parent s) = S n;
  i_lpred : length (pred s) = S n;
  i_ldep : length (depth s) = S n;
  i_lpi : length (pi s) = S n;
  i_ladj : length (tadj s) = S n;
  (* (a) *)
  i_bounds : forall a, (a < T)%nat -> 0 <= nz (flow s) a <= cap a;
  i_cons : forall w, netx (flow s) w = b w;
  (* (b) *)
  i_st3 : forall a, (a < T)%nat -> nz (state s) a = 1 \/ nz (state s) a = 0 \/ nz (state s) a = -1;
  i_lower : forall a, (a < T)%nat -> nz (state s) a = 1 -> nz (flow s) a = 0;
  i_upper : forall a, (a < T)%nat -> nz (state s) a = -1 -> nz (flow s) a = cap a;
  i_cnt : nsum (fun a => if nz (state s) a =? 0 then 1 else 0) T = Z.of_nat n;
  i_predst : forall v, (v < n)%nat -> nz (state s) (nn (pred s) v) = 0;
  (* (c) *)
  i_tree : TreeOK s;
  (* (d) *)
  i_pi : forall v, (v < n)%nat ->
           nz (pi s) v = if Nat.eqb (src (nn (pred s) v)) v
                         then nz (pi s) (nn (parent s) v) + cst (nn (pred s) v)
                         else nz (pi s) (nn (parent s) v) - cst (nn (pred s) v);
  i_pi0 : nz (pi s) n = 0;
  (* tree_adj[w] = the arcs in state 0 that touch w *)
  i_adj : forall w, (w <= n)%nat ->
            NoDup (nth w (tadj s) []) /\
            forall a, In a (nth w (tadj s) []) <-> (a < T)%nat /\ nz (state s) a = 0 /\ (src a = w \/ tgt a = w)
}.

(* every arc in state 0 is the pred arc of a node: n distinct pred arcs among exactly n arcs in state 0 *)
Lemma tree_arc_is_pred stl prl (HTp : forall v w, (v < n)%nat -> (w < n)%nat -> nn prl v = nn prl w -> v = w) :
  nsum (fun a => if nz stl a =? 0 then 1 else 0) T = Z.of_nat n ->
  (forall v, (v < n)%nat -> (nn prl v < T)%nat /\ nz stl (nn prl v) = 0) ->
  forall a, (a < T)%nat -> nz stl a = 0 -> exists v, (v < n)%nat /\ nn prl v = a.
Proof.
  intros Hcnt Hpred a Ha Hst.
  rewrite (nsum_filter (fun a => nz stl a =? 0)) in Hcnt. apply Nat2Z.inj in Hcnt.
  set (L := map (fun v => nn prl v) (seq 0 n)). set (F := filter (fun a => nz stl a =? 0) (seq 0 T)) in *.
  assert (Hnd : NoDup L).
  { apply NoDup_map_in; [apply seq_NoDup|]. intros x y Hx Hy. apply in_seq in Hx, Hy. apply HTp; lia. }
  assert (Hincl : incl L F).
  { intros y Hy. apply in_map_iff in Hy. destruct Hy as (v & <- & Hv). apply in_seq in Hv.
    destruct (Hpred v ltac:(lia)) as [H1 H2]. apply filter_In. split; [apply in_seq; lia|]. rewrite H2. reflexivity. }
  assert (Hlen : (length F <= length L)%nat) by (unfold L; rewrite map_length, seq_length; lia).
  pose proof (NoDup_length_incl Hnd Hlen Hincl) as Hback.
  assert (HaF : In a F) by (apply filter_In; split; [apply in_seq; lia|rewrite Hst; reflexivity]).
  apply Hback in HaF. apply in_map_iff in HaF. destruct HaF as (v & E & Hv). apply in_seq in Hv.
  exists v. split; [lia|exact E].
Qed.

Lemma inv_tree_arc b s : NSInv b s -> forall a, (a < T)%nat -> nz (state s) a = 0 ->
  exists v, (v < n)%nat /\ nn (pred s) v = a.
Proof.
  intros I. apply tree_arc_is_pred.
  - intros v w Hv Hw. apply (pred_inj s (i_tree b s I)); assumption.
  - apply (i_cnt b s I).
  - intros v Hv. split; [apply (t_pred s (i_tree b s I) v Hv)|apply (i_predst b s I v Hv)].
Qed.

(* reduced cost 0 on every arc in state 0 *)
Lemma inv_tree_rc b s : NSInv b s -> forall a, (a < T)%nat -> nz (state s) a = 0 -> redcost C s a = 0.
Proof.
  intros I a Ha Hst. destruct (inv_tree_arc b s I a Ha Hst) as (v & Hv & <-).
  pose proof (i_pi b s I v Hv) as Hp. destruct (t_pred s (i_tree b s I) v Hv) as [_ J].
  pose proof (par_ne s (i_tree b s I) v Hv) as Hne. unfold redcost.
  destruct J as [[J1 J2]|[J1 J2]].
  - rewrite J1, Nat.eqb_refl in Hp. rewrite J1, J2. lia.
  - destruct (Nat.eqb_spec (src (nn (pred s) v)) v) as [E|E]; [congruence|]. rewrite J1, J2. lia.
Qed.

End WithC.
