(* C09 deepening, round 2 - network_simplex: the basis change.  Removing the leaving arc pred[x] cuts off the subtree
   Sset below x, which holds the end q of the entering arc e; the other end pnode lies outside.  The new tree arc set
   (old - leaving + entering) is described by the new parent function np: q hangs below pnode by e, the parent links on
   the old path q ~> x are reversed, every other node of Sset keeps its parent.  This file checks the hypotheses of
   DeepNS2Rehang.rehang_correct for np and concludes that the tables written by the traversal describe a tree again,
   with potentials giving reduced cost 0 on its arcs. *)
From Coq Require Import List ZArith Bool Arith Lia.
From SV Require Import C09.Mcf C09.McfSpec C09.McfAug C09.NetSimplex C09.DeepNS2Base C09.DeepNS2Rehang.
Import ListNotations.
Open Scope Z_scope.
Import Mcf McfSpec NetSimplex.

Section Tree.
Variable C : consts.
Local Notation n := (c_n C).
Local Notation T := (c_m C + c_n C)%nat.
Local Notation src a := (nn (c_src C) a).
Local Notation tgt a := (nn (c_tgt C) a).
Local Notation cst a := (nz (c_cost C) a).
Variable b : nat -> Z.
Variable s : st.
Hypothesis I : NSInv C b s.
Local Notation par v := (nn (parent s) v).
Local Notation prd v := (nn (pred s) v).
Local Notation dep v := (nz (depth s) v).
Let HT : TreeOK C s := i_tree C b s I.

Variables (e x q pnode : nat) (A : list nat).
Hypothesis He : (e < T)%nat.
Hypothesis Hest : nz (state s) e <> 0.
Hypothesis Hx : (x < n)%nat.
Hypothesis Hpn : (pnode <= n)%nat.
Hypothesis Hje : joins C e q pnode.
Hypothesis HcA : chain C s q A x.

Definition Sset (v : nat) : Prop := exists B, chain C s v B x.
Hypothesis HpS : ~ Sset pnode.

Definition onp (v : nat) : Prop := In v A \/ v = x.
Definition childA (v : nat) : option nat := find (fun y => Nat.eqb (par y) v) A.
Definition np (v : nat) : nat :=
  if Nat.eqb v q then pnode else match childA v with Some y => y | None => par v end.
Definition npred (v : nat) : nat :=
  if Nat.eqb v q then e else match childA v with Some y => prd y | None => prd v end.
Definition onpb (v : nat) : bool := (existsb (Nat.eqb v) A || Nat.eqb v x)%bool.
Definition rk (v : nat) : Z := if onpb v then dep q - dep v else dep q + 1 + dep v.

Lemma onpb_spec v : onpb v = true <-> onp v.
Proof.
  unfold onpb, onp. rewrite orb_true_iff, existsb_exists, Nat.eqb_eq. split.
  - intros [(y & Hy & E)|E]; [left; apply Nat.eqb_eq in E; subst y; exact Hy|right; exact E].
  - intros [H|H]; [left; exists v; split; [exact H|apply Nat.eqb_refl]|right; exact H].
Qed.

Lemma onp_dec v : onp v \/ ~ onp v.
Proof. destruct (onpb v) eqn:E; [left; apply onpb_spec; exact E|right; intros H; apply onpb_spec in H; congruence]. Qed.

(* ---- the path q ~> x *)
Lemma A_lt y : In y A -> (y < n)%nat.
Proof. intros H. apply (chain_in C s HT _ _ _ HcA y H). Qed.

Lemma chain_par_in : forall u p j, chain C s u p j -> forall y, In y p -> In (par y) p \/ par y = j.
Proof.
  induction 1 as [u|u p j Hu Hc IH]; intros y Hy; [contradiction|]. destruct Hy as [<-|Hy].
  - destruct Hc as [u'|u' p' j' Hu' Hc']; [right; reflexivity|left; right; left; reflexivity].
  - destruct (IH y Hy) as [H|H]; [left; right; exact H|right; exact H].
Qed.

Lemma chain_has_child : forall u p j, chain C s u p j -> forall v, In v p \/ v = j -> v <> u ->
  exists y, In y p /\ par y = v.
Proof.
  induction 1 as [u|u p j Hu Hc IH]; intros v Hv Hne.
  - destruct Hv as [[]|Hv]; congruence.
  - destruct (Nat.eq_dec v (par u)) as [->|Hne'].
    + exists u. split; [left; reflexivity|reflexivity].
    + destruct (IH v) as (y & Hy & E); [destruct Hv as [[Hv|Hv]|Hv]; [congruence|left; exact Hv|right; exact Hv]|exact Hne'|].
      exists y. split; [right; exact Hy|exact E].
Qed.

Lemma chain_dep_inj : forall u p j, chain C s u p j -> forall y y', In y p -> In y' p -> dep y = dep y' -> y = y'.
Proof.
  induction 1 as [u|u p j Hu Hc IH]; intros y y' Hy Hy' E; [contradiction|].
  pose proof (t_dep C s HT u Hu) as Hd.
  assert (Hlow : forall z, In z p -> dep z < dep u).
  { intros z Hz. destruct (chain_in C s HT _ _ _ Hc z Hz) as (_ & _ & [->|H]); lia. }
  destruct Hy as [<-|Hy]; destruct Hy' as [<-|Hy']; [reflexivity| | |apply IH; assumption].
  - specialize (Hlow _ Hy'). lia.
  - specialize (Hlow _ Hy). lia.
Qed.

Lemma A_par y : In y A -> onp (par y).
Proof. intros H. exact (chain_par_in _ _ _ HcA y H). Qed.

Lemma A_child_unique y y' : In y A -> In y' A -> par y = par y' -> y = y'.
Proof.
  intros Hy Hy' E. apply (chain_dep_inj _ _ _ HcA); [exact Hy|exact Hy'|].
  rewrite (t_dep C s HT y (A_lt y Hy)), (t_dep C s HT y' (A_lt y' Hy')), E. reflexivity.
Qed.

Lemma q_onp : onp q.
Proof.
  unfold onp. pose proof HcA as H. inversion H as [u E1 E2 E3|u p j Hu Hc E1 E2 E3]; [right; reflexivity|left; left; auto].
Qed.

Lemma x_notin_A : ~ In x A.
Proof. apply (chain_notin C s HT _ _ _ HcA). Qed.

Lemma q_no_child y : In y A -> par y <> q.
Proof.
  intros Hy E. pose proof (t_dep C s HT y (A_lt y Hy)) as Hd. rewrite E in Hd.
  destruct (chain_in C s HT _ _ _ HcA y Hy) as (_ & _ & [->|H]); [|lia]. exact (par_ne C s HT q (A_lt q Hy) E).
Qed.

Lemma dep_le_q v : onp v -> dep v <= dep q.
Proof.
  intros [Hv| ->]; [|apply (chain_dep_le C s HT _ _ _ HcA)].
  destruct (chain_in C s HT _ _ _ HcA v Hv) as (_ & _ & [->|H]); lia.
Qed.

(* ---- the three kinds of nodes *)
Lemma np_spec v :
  (v = q /\ np v = pnode /\ npred v = e) \/
  (v <> q /\ exists y, In y A /\ par y = v /\ np v = y /\ npred v = prd y) \/
  (v <> q /\ ~ onp v /\ (forall y, In y A -> par y <> v) /\ np v = par v /\ npred v = prd v).
Proof.
  unfold np, npred, childA. destruct (Nat.eqb_spec v q) as [-> |Hne]; [left; auto|right].
  destruct (find (fun y => Nat.eqb (par y) v) A) as [y|] eqn:Ef.
  - apply find_some in Ef. destruct Ef as [Hy E]. apply Nat.eqb_eq in E. left. split; [exact Hne|]. exists y. auto.
  - right. assert (Hno : forall y, In y A -> par y <> v).
    { intros y Hy E. pose proof (find_none _ _ Ef y Hy) as H. cbv beta in H. apply Nat.eqb_neq in H. contradiction. }
    split; [exact Hne|]. split; [|auto]. intros Hon.
    destruct (chain_has_child _ _ _ HcA v Hon Hne) as (y & Hy & E). exact (Hno y Hy E).
Qed.

(* ---- the cut-off subtree *)
Lemma S_A y : In y A -> Sset y.
Proof.
  intros Hy. destruct (chain_split C s _ _ _ HcA y Hy) as (p1 & p2 & _ & _ & H2). exists (y :: p2). exact H2.
Qed.

Lemma S_x : Sset x.
Proof. exists []. constructor. Qed.

Lemma S_onp v : onp v -> Sset v.
Proof. intros [H| ->]; [apply S_A; exact H|exact S_x]. Qed.

Lemma S_lt v : Sset v -> (v < n)%nat.
Proof. intros [B H]. inversion H; subst; assumption. Qed.

Lemma S_par v : Sset v -> v <> x -> Sset (par v).
Proof. intros [B H] Hne. inversion H as [|? B' ? Hv H']; subst; [congruence|]. exists B'. exact H'. Qed.

Lemma S_child c : (c < n)%nat -> Sset (par c) -> Sset c.
Proof. intros Hc [B H]. exists (c :: B). constructor; assumption. Qed.

Lemma S_q : Sset q.
Proof. exact (S_onp q q_onp). Qed.

Lemma q_ne_pnode : q <> pnode.
Proof. intros E. apply HpS. rewrite <- E. exact S_q. Qed.

Lemma e_not_pred v : (v < n)%nat -> prd v <> e.
Proof. intros Hv E. apply Hest. rewrite <- E. apply (i_predst C b s I v Hv). Qed.

(* ---- tree_adj after the basis change *)
Variable adj4 : list (list nat).
Hypothesis Hadj4 : forall w, (w <= n)%nat ->
  NoDup (nth w adj4 []) /\
  forall a, In a (nth w adj4 []) <->
            (In a (nth w (tadj s) []) /\ a <> prd x) \/ (a = e /\ (src e = w \/ tgt e = w)).

Lemma tadj_iff w a : (w <= n)%nat ->
  (In a (nth w (tadj s) []) <-> exists c, (c < n)%nat /\ a = prd c /\ (w = c \/ w = par c)).
Proof.
  intros Hw. destruct (i_adj C b s I w Hw) as [_ Hiff]. rewrite Hiff. split.
  - intros (Ha & Hst & Hends). destruct (inv_tree_arc C b s I a Ha Hst) as (c & Hc & <-).
    exists c. split; [exact Hc|]. split; [reflexivity|]. destruct (t_pred C s HT c Hc) as [_ [[J1 J2]|[J1 J2]]]; rewrite J1, J2 in Hends; intuition.
  - intros (c & Hc & -> & Hw'). destruct (t_pred C s HT c Hc) as [Ha J]. split; [exact Ha|].
    split; [apply (i_predst C b s I c Hc)|]. destruct J as [[J1 J2]|[J1 J2]]; rewrite J1, J2; intuition.
Qed.

Lemma Hadj_child : forall v a, Sset v -> In a (nth v adj4 []) -> a <> npred v ->
  exists c, Sset c /\ np c = v /\ npred c = a /\ other C a v = c.
Proof.
  intros v a Hv Ha Hne. pose proof (S_lt v Hv) as Hvn.
  destruct (Hadj4 v ltac:(lia)) as [_ Hiff]. apply Hiff in Ha. destruct Ha as [[Ha Hal]|[-> Hends]].
  - apply tadj_iff in Ha; [|lia]. destruct Ha as (c & Hc & -> & Hvc).
    assert (Hcx : c <> x) by (intros ->; apply Hal; reflexivity).
    destruct (t_pred C s HT c Hc) as [_ J]. pose proof (par_ne C s HT c Hc) as Hpc.
    destruct Hvc as [->| ->].
    + (* the arc to the old parent of c = v *)
      destruct (np_spec c) as [(E & _ & N2)|[(Hcq & y & Hy & E & N1 & N2)|(Hcq & Hoff & Hno & N1 & N2)]].
      * (* c = q: then c is in A, its old parent takes it as new child *)
        assert (HcA' : In c A).
        { destruct q_onp as [H|H]; [rewrite E; exact H|congruence]. }
        set (w := par c). assert (Hw : onp w) by (apply A_par; exact HcA').
        assert (Hwq : w <> q) by (apply q_no_child; exact HcA').
        destruct (np_spec w) as [(Ew & _)|[(_ & y & Hy & Ey & M1 & M2)|(_ & Hoff & _)]]; [congruence| |contradiction].
        assert (Hyc : y = c) by (apply A_child_unique; assumption). rewrite Hyc in *.
        exists w. split; [apply S_onp; exact Hw|]. split; [exact M1|]. split; [exact M2|].
        apply joins_other; [exact J|]. intros E'. apply Hpc. symmetry. exact E'.
      * (* c on the path, not q *)
        assert (Hon : onp c) by (rewrite <- E; apply A_par; exact Hy).
        assert (HcA' : In c A) by (destruct Hon as [H|H]; [exact H|congruence]).
        set (w := par c). assert (Hw : onp w) by (apply A_par; exact HcA').
        assert (Hwq : w <> q) by (apply q_no_child; exact HcA').
        destruct (np_spec w) as [(Ew & _)|[(_ & y' & Hy' & Ey' & M1 & M2)|(_ & Hoff & _)]]; [congruence| |contradiction].
        assert (Hyc : y' = c) by (apply A_child_unique; assumption). rewrite Hyc in *.
        exists w. split; [apply S_onp; exact Hw|]. split; [exact M1|]. split; [exact M2|].
        apply joins_other; [exact J|]. intros E'. apply Hpc. symmetry. exact E'.
      * exfalso. apply Hne. symmetry. exact N2.
    + (* c is an old child of v = par c *)
      assert (HcS : Sset c) by (apply S_child; assumption).
      destruct (in_dec Nat.eq_dec c A) as [HcA'|HcA'].
      * exfalso. assert (Hvq : par c <> q) by (apply q_no_child; exact HcA').
        destruct (np_spec (par c)) as [(Ew & _)|[(_ & y & Hy & Ey & M1 & M2)|(_ & Hoff & _)]]; [congruence| |].
        -- assert (Hyc : y = c) by (apply A_child_unique; assumption). rewrite Hyc in *. apply Hne. symmetry. exact M2.
        -- apply Hoff. apply A_par. exact HcA'.
      * assert (Hoffc : ~ onp c) by (intros [H|H]; contradiction).
        destruct (np_spec c) as [(E & _)|[(_ & y & Hy & E & _)|(_ & _ & _ & N1 & N2)]].
        -- exfalso. apply Hoffc. rewrite E. exact q_onp.
        -- exfalso. apply Hoffc. rewrite <- E. apply A_par. exact Hy.
        -- exists c. split; [exact HcS|]. split; [exact N1|]. split; [exact N2|].
           apply joins_other; [apply joins_sym; exact J|exact Hpc].
  - exfalso. assert (Hvq : v = q).
    { destruct Hje as [[J1 J2]|[J1 J2]]; rewrite J1, J2 in Hends; destruct Hends as [E|E]; try (symmetry; exact E);
        exfalso; apply HpS; rewrite E; exact Hv. }
    destruct (np_spec v) as [(_ & _ & N2)|[(Hvq' & _)|(Hvq' & _)]]; [|contradiction|contradiction].
    apply Hne. symmetry. exact N2.
Qed.

Lemma npred_in v : Sset v -> Sset (np v) -> In (npred v) (nth (np v) (tadj s) []) /\ npred v <> prd x.
Proof.
  intros Hv Hnv. pose proof (S_lt _ Hnv) as Hlt.
  destruct (np_spec v) as [(E & N1 & _)|[(Hvq & y & Hy & E & N1 & N2)|(Hvq & Hoff & Hno & N1 & N2)]].
  - exfalso. rewrite N1 in Hnv. contradiction.
  - rewrite N1, N2. split.
    + apply tadj_iff; [pose proof (A_lt y Hy); lia|]. exists y. split; [apply A_lt; exact Hy|]. auto.
    + intros E'. apply (pred_inj C s HT) in E'; [|apply A_lt; exact Hy|exact Hx]. rewrite E' in Hy. exact (x_notin_A Hy).
  - rewrite N1, N2. pose proof (S_lt v Hv) as Hvn. split.
    + apply tadj_iff; [rewrite N1 in Hlt; lia|]. exists v. auto.
    + intros E'. apply (pred_inj C s HT) in E'; [|exact Hvn|exact Hx]. apply Hoff. right. exact E'.
Qed.

Lemma Hadj_all : forall c, Sset c -> Sset (np c) -> In (npred c) (nth (np c) adj4 []) /\ npred c <> npred (np c).
Proof.
  intros c Hc Hnc. destruct (npred_in c Hc Hnc) as [Hin Hnl]. pose proof (S_lt c Hc) as Hcn. pose proof (S_lt _ Hnc) as Hncn.
  split.
  { destruct (Hadj4 (np c) ltac:(lia)) as [_ Hiff]. apply Hiff. left. split; assumption. }
  destruct (np_spec c) as [(E & N1 & _)|[(Hcq & y & Hy & E & N1 & N2)|(Hcq & Hoff & Hno & N1 & N2)]].
  - exfalso. rewrite N1 in Hnc. contradiction.
  - rewrite N1, N2. pose proof (A_lt y Hy) as Hyn.
    destruct (np_spec y) as [(_ & _ & M2)|[(_ & y' & Hy' & E' & M1 & M2)|(_ & Hoffy & _)]].
    + rewrite M2. apply e_not_pred. exact Hyn.
    + rewrite M2. intros Ep. apply (pred_inj C s HT) in Ep; [|exact Hyn|apply A_lt; exact Hy']. rewrite <- Ep in E'.
      exact (par_ne C s HT y Hyn E').
    + exfalso. apply Hoffy. left. exact Hy.
  - rewrite N1, N2. rewrite N1 in Hncn.
    destruct (np_spec (par c)) as [(_ & _ & M2)|[(_ & y' & Hy' & E' & M1 & M2)|(_ & _ & _ & M1 & M2)]].
    + rewrite M2. apply e_not_pred. exact Hcn.
    + rewrite M2. intros Ep. apply (pred_inj C s HT) in Ep; [|exact Hcn|apply A_lt; exact Hy']. rewrite <- Ep in Hy'.
      apply Hoff. left. exact Hy'.
    + rewrite M2. intros Ep. apply (pred_inj C s HT) in Ep; [|exact Hcn|exact Hncn]. exact (par_ne C s HT c Hcn (eq_sym Ep)).
Qed.

Lemma Hinj : forall c1 c2, Sset c1 -> Sset c2 -> npred c1 = npred c2 -> c1 = c2.
Proof.
  intros c1 c2 H1 H2 E. pose proof (S_lt _ H1) as L1. pose proof (S_lt _ H2) as L2.
  destruct (np_spec c1) as [(E1 & _ & N2)|[(_ & y1 & Hy1 & E1 & _ & N2)|(_ & Hoff1 & _ & _ & N2)]];
  destruct (np_spec c2) as [(E2 & _ & M2)|[(_ & y2 & Hy2 & E2 & _ & M2)|(_ & Hoff2 & _ & _ & M2)]];
  rewrite N2, M2 in E.
  - congruence.
  - exfalso. exact (e_not_pred y2 (A_lt y2 Hy2) (eq_sym E)).
  - exfalso. exact (e_not_pred c2 L2 (eq_sym E)).
  - exfalso. exact (e_not_pred y1 (A_lt y1 Hy1) E).
  - apply (pred_inj C s HT) in E; [|apply A_lt; exact Hy1|apply A_lt; exact Hy2]. congruence.
  - apply (pred_inj C s HT) in E; [|apply A_lt; exact Hy1|exact L2]. exfalso. apply Hoff2. left. rewrite <- E. exact Hy1.
  - exfalso. exact (e_not_pred c1 L1 E).
  - apply (pred_inj C s HT) in E; [|exact L1|apply A_lt; exact Hy2]. exfalso. apply Hoff1. left. rewrite E. exact Hy2.
  - apply (pred_inj C s HT) in E; assumption.
Qed.

Lemma Hnp : forall v, Sset v -> v <> q -> Sset (np v).
Proof.
  intros v Hv Hne. destruct (np_spec v) as [(E & _)|[(_ & y & Hy & _ & N1 & _)|(_ & Hoff & _ & N1 & _)]]; [contradiction| |].
  - rewrite N1. apply S_A. exact Hy.
  - rewrite N1. apply S_par; [exact Hv|]. intros ->. apply Hoff. right. reflexivity.
Qed.

Lemma Hrk : forall v, Sset v -> Sset (np v) -> 0 <= rk (np v) < rk v.
Proof.
  intros v Hv Hnv. pose proof (S_lt v Hv) as Hvn. pose proof (t_depnn C s HT) as Hnn.
  assert (Hq0 : 0 <= dep q) by (apply Hnn; pose proof (S_lt q S_q); lia).
  destruct (np_spec v) as [(E & N1 & _)|[(Hvq & y & Hy & E & N1 & _)|(Hvq & Hoff & _ & N1 & _)]].
  - exfalso. rewrite N1 in Hnv. contradiction.
  - rewrite N1. unfold rk.
    assert (O1 : onpb y = true) by (apply onpb_spec; left; exact Hy).
    assert (O2 : onpb v = true) by (apply onpb_spec; rewrite <- E; apply A_par; exact Hy).
    rewrite O1, O2. pose proof (t_dep C s HT y (A_lt y Hy)) as Hd. rewrite E in Hd.
    pose proof (dep_le_q y (or_introl Hy)). lia.
  - rewrite N1. unfold rk.
    assert (O2 : onpb v = false).
    { destruct (onpb v) eqn:Eo; [|reflexivity]. apply onpb_spec in Eo. contradiction. }
    rewrite O2. pose proof (t_dep C s HT v Hvn) as Hd. pose proof (Hnn (par v) (t_par C s HT v Hvn)) as Hp0.
    destruct (onpb (par v)) eqn:Eo.
    + apply onpb_spec in Eo. pose proof (dep_le_q _ Eo). lia.
    + lia.
Qed.

Lemma np_le v : (v < n)%nat -> (np v <= n)%nat.
Proof.
  intros Hv. destruct (np_spec v) as [(_ & N1 & _)|[(_ & y & Hy & _ & N1 & _)|(_ & _ & _ & N1 & _)]]; rewrite N1.
  - exact Hpn.
  - pose proof (A_lt y Hy). lia.
  - apply (t_par C s HT v Hv).
Qed.

Lemma npred_ok v : (v < n)%nat ->
  (npred v < T)%nat /\ joins C (npred v) v (np v) /\ (npred v = e \/ (nz (state s) (npred v) = 0 /\ (onp v \/ v <> x))).
Proof.
  intros Hv. destruct (np_spec v) as [(E & N1 & N2)|[(_ & y & Hy & E & N1 & N2)|(_ & Hoff & _ & N1 & N2)]]; rewrite N1, N2.
  - split; [exact He|]. split; [rewrite E; exact Hje|left; reflexivity].
  - pose proof (A_lt y Hy) as Hyn. destruct (t_pred C s HT y Hyn) as [Ha J]. split; [exact Ha|].
    split; [rewrite <- E; apply joins_sym; exact J|]. right. split; [apply (i_predst C b s I y Hyn)|].
    left. rewrite <- E. apply A_par. exact Hy.
  - destruct (t_pred C s HT v Hv) as [Ha J]. split; [exact Ha|]. split; [exact J|]. right.
    split; [apply (i_predst C b s I v Hv)|]. right. intros ->. apply Hoff. right. reflexivity.
Qed.

(* the new pred arc of a node is never the leaving arc *)
Lemma npred_not_leaving v : Sset v -> npred v <> prd x.
Proof.
  intros Hv. destruct (np_spec v) as [(E & N1 & N2)|[(_ & y & Hy & E & N1 & N2)|(_ & Hoff & _ & N1 & N2)]]; rewrite N2.
  - intros E'. exact (e_not_pred x Hx (eq_sym E')).
  - intros E'. apply (pred_inj C s HT) in E'; [|apply A_lt; exact Hy|exact Hx]. rewrite E' in Hy. exact (x_notin_A Hy).
  - intros E'. apply (pred_inj C s HT) in E'; [|apply S_lt; exact Hv|exact Hx]. apply Hoff. right. exact E'.
Qed.

(* ---- the traversal *)
Theorem rehang_tree : forall f par' prd' dep' p',
  rehang C f adj4 [q] (upd (parent s) q pnode, upd (pred s) q e, depth s, pi s) = Some (par', prd', dep', p') ->
  length par' = S n /\ length prd' = S n /\ length dep' = S n /\ length p' = S n /\
  (forall v, (v < n)%nat ->
     (nn par' v <= n)%nat /\ (nn prd' v < T)%nat /\ joins C (nn prd' v) v (nn par' v) /\
     nz dep' v = nz dep' (nn par' v) + 1 /\
     (nn prd' v = e \/ (nz (state s) (nn prd' v) = 0 /\ nn prd' v <> prd x)) /\
     nz p' v = (if Nat.eqb (src (nn prd' v)) v then nz p' (nn par' v) + cst (nn prd' v)
                else nz p' (nn par' v) - cst (nn prd' v))) /\
  nz dep' n = 0 /\ (forall v, (v <= n)%nat -> 0 <= nz dep' v) /\ nz p' n = 0.
Proof.
  intros f par' prd' dep' p' H.
  pose proof (S_lt q S_q) as Hqn.
  destruct (rehang_correct C adj4 Sset np npred q pnode rk
              (upd (parent s) q pnode) (upd (pred s) q e) (depth s) (pi s)) with (f := f) (par' := par') (prd' := prd') (dep' := dep') (p' := p')
    as (L1 & L2 & L3 & L4 & Hout & Hin).
  - rewrite length_upd. apply (i_lpar C b s I).
  - rewrite length_upd. apply (i_lpred C b s I).
  - apply (i_ldep C b s I).
  - apply (i_lpi C b s I).
  - exact S_lt.
  - exact HpS.
  - exact S_q.
  - unfold np. rewrite Nat.eqb_refl. reflexivity.
  - exact Hnp.
  - exact Hrk.
  - exact Hadj_child.
  - exact Hadj_all.
  - intros v Hv. apply Hadj4. pose proof (S_lt v Hv). lia.
  - exact Hinj.
  - apply (t_depnn C s HT). exact Hpn.
  - apply nn_upd_same. rewrite (i_lpar C b s I). lia.
  - unfold npred. rewrite Nat.eqb_refl. apply nn_upd_same. rewrite (i_lpred C b s I). lia.
  - exact H.
  - assert (HnS : ~ Sset n) by (intros Hs; apply S_lt in Hs; lia).
    assert (Hold : forall v, ~ Sset v -> nn par' v = par v /\ nn prd' v = prd v /\ nz dep' v = dep v /\ nz p' v = nz (pi s) v).
    { intros v Hv. destruct (Hout v Hv) as (O1 & O2 & O3 & O4).
      assert (Hvq : v <> q) by (intros ->; apply Hv; exact S_q).
      rewrite nn_upd_other in O1, O2 by exact Hvq. auto. }
    assert (Sdec : forall v, (v < n)%nat -> Sset v \/ ~ Sset v).
    { (* by induction on the depth: v is in Sset iff v = x or its parent is *)
      assert (Hd : forall k v, (v <= n)%nat -> dep v < Z.of_nat k -> Sset v \/ ~ Sset v).
      { induction k as [|k IH]; intros v Hv Hk; [pose proof (t_depnn C s HT v Hv); lia|].
        destruct (Nat.eq_dec v x) as [-> |Hne]; [left; exact S_x|].
        destruct (Nat.eq_dec v n) as [->|Hvn]; [right; exact HnS|].
        assert (Hv' : (v < n)%nat) by lia. pose proof (t_dep C s HT v Hv') as Hdv.
        destruct (IH (par v) (t_par C s HT v Hv') ltac:(lia)) as [Hs|Hs].
        - left. apply S_child; assumption.
        - right. intros Hs'. apply Hs. apply S_par; assumption. }
      intros v Hv. apply (Hd (S (Z.to_nat (dep v))) v); [lia|]. pose proof (t_depnn C s HT v ltac:(lia)). lia. }
    split; [exact L1|]. split; [exact L2|]. split; [exact L3|]. split; [exact L4|]. split; [|split; [|split]].
    + intros v Hv. destruct (Sdec v Hv) as [Hs|Hs].
      * destruct (Hin v Hs) as (N1 & N2 & N3 & N4 & N5). unfold pi_rel in N5. rewrite N1, N2.
        destruct (npred_ok v Hv) as (P1 & P2 & P3).
        split; [apply np_le; exact Hv|]. split; [exact P1|]. split; [exact P2|]. split; [exact N4|]. split; [|exact N5].
        destruct P3 as [P3|[P3 _]]; [left; exact P3|right; split; [exact P3|apply npred_not_leaving; exact Hs]].
      * destruct (Hold v Hs) as (O1 & O2 & O3 & O4). rewrite O1, O2, O3, O4.
        assert (HpS' : ~ Sset (par v)) by (intros H'; apply Hs; apply S_child; assumption).
        destruct (Hold (par v) HpS') as (_ & _ & Q3 & Q4). rewrite Q3, Q4.
        destruct (t_pred C s HT v Hv) as [Ha J].
        split; [apply (t_par C s HT v Hv)|]. split; [exact Ha|]. split; [exact J|]. split; [apply (t_dep C s HT v Hv)|].
        split; [|apply (i_pi C b s I v Hv)]. right. split; [apply (i_predst C b s I v Hv)|].
        intros E. apply (pred_inj C s HT) in E; [|exact Hv|exact Hx]. apply Hs. rewrite E. exact S_x.
    + destruct (Hold n HnS) as (_ & _ & O3 & _). rewrite O3. apply (t_dep0 C s HT).
    + intros v Hv. destruct (Nat.eq_dec v n) as [->|Hvn].
      * destruct (Hold n HnS) as (_ & _ & O3 & _). rewrite O3. apply (t_depnn C s HT). lia.
      * destruct (Sdec v ltac:(lia)) as [Hs|Hs].
        -- destruct (Hin v Hs) as (_ & _ & N3 & _). lia.
        -- destruct (Hold v Hs) as (_ & _ & O3 & _). rewrite O3. apply (t_depnn C s HT). exact Hv.
    + destruct (Hold n HnS) as (_ & _ & _ & O4). rewrite O4. apply (i_pi0 C b s I).
Qed.

End Tree.
