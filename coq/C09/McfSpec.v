(* C09 - the specification the property talks about, independent of the model's algorithm:
   feasible integral flows, their cost, minimality, the optimality certificate (node potentials with
   non-negative reduced cost on every residual edge), the infeasibility certificate (a cut of capacity < demand),
   the relation between a per-arc flow and the pooled (u,v) -> flow dictionary that the solvers return,
   and boolean checkers for all of these (soundness lemmas: McfCert.v, McfPool.v).
   Networks: arcs = list of (u, v, cap, cost), nodes = nat < n; a flow = list Z parallel to the arc list.
   One definition serves both solvers: `balanced` takes an arbitrary supply function b (network_simplex);
   min_cost_flow's "ship d from s to t" is b = demand_b s t d. *)
From Coq Require Import List ZArith Bool Arith Lia.
From SV Require Import C09.Mcf.
Import ListNotations.
Open Scope Z_scope.

Module McfSpec.
Import Mcf.

(* net outflow of node w *)
Fixpoint netout (arcs : list arc) (f : list Z) (w : nat) : Z :=
  match arcs, f with
  | a :: arcs', x :: f' =>
      (if Nat.eqb (a_u a) w then x else 0) - (if Nat.eqb (a_v a) w then x else 0) + netout arcs' f' w
  | _, _ => 0
  end.

Fixpoint flow_cost (arcs : list arc) (f : list Z) : Z :=
  match arcs, f with
  | a :: arcs', x :: f' => a_c a * x + flow_cost arcs' f'
  | _, _ => 0
  end.

(* 0 <= f_k <= cap_k for every arc, one flow value per arc *)
Fixpoint bounded (arcs : list arc) (f : list Z) : Prop :=
  match arcs, f with
  | [], [] => True
  | a :: arcs', x :: f' => 0 <= x <= a_cap a /\ bounded arcs' f'
  | _, _ => False
  end.

Definition demand_b (s t : nat) (d : Z) (w : nat) : Z :=
  (if Nat.eqb w s then d else 0) - (if Nat.eqb w t then d else 0).

Definition supply_b (sup : list Z) (w : nat) : Z := nth w sup 0.

Definition balanced (n : nat) (arcs : list arc) (b : nat -> Z) (f : list Z) : Prop :=
  forall w, (w < n)%nat -> netout arcs f w = b w.

(* integrality is in the type (Z) *)
Definition feasible (n : nat) (arcs : list arc) (b : nat -> Z) (f : list Z) : Prop :=
  bounded arcs f /\ balanced n arcs b f.

Definition min_cost (n : nat) (arcs : list arc) (b : nat -> Z) (f : list Z) : Prop :=
  feasible n arcs b f /\ forall f', feasible n arcs b f' -> flow_cost arcs f <= flow_cost arcs f'.

Definition valid_arcs (n : nat) (arcs : list arc) : bool :=
  forallb (fun a => (Nat.ltb (a_u a) n && Nat.ltb (a_v a) n && (0 <=? a_cap a))%bool) arcs.

(* the inputs of min_cost_flow the theorems talk about *)
Definition valid_input (n : nat) (arcs : list arc) (s t : nat) (d : Z) : bool :=
  (valid_arcs n arcs && Nat.ltb s n && Nat.ltb t n && negb (Nat.eqb s t) && (0 <=? d))%bool.

(* ---------------- optimality certificate: potentials pi with
     cost + pi(tail) - pi(head) >= 0 on every residual edge of positive residual capacity,
   i.e. rc_k >= 0 where f_k < cap_k (forward edge) and -rc_k >= 0 where f_k > 0 (backward edge). *)
Definition rc (pi : nat -> Z) (a : arc) : Z := a_c a + pi (a_u a) - pi (a_v a).

Fixpoint reduced_ok (pi : nat -> Z) (arcs : list arc) (f : list Z) : Prop :=
  match arcs, f with
  | a :: arcs', x :: f' =>
      (x < a_cap a -> 0 <= rc pi a) /\ (0 < x -> rc pi a <= 0) /\ reduced_ok pi arcs' f'
  | _, _ => True
  end.

Definition pot (pi : list Z) (w : nat) : Z := nth w pi 0.

(* ---------------- boolean checkers *)
Fixpoint bounded_b (arcs : list arc) (f : list Z) : bool :=
  match arcs, f with
  | [], [] => true
  | a :: arcs', x :: f' => ((0 <=? x) && (x <=? a_cap a) && bounded_b arcs' f')%bool
  | _, _ => false
  end.

Definition balanced_b (n : nat) (arcs : list arc) (b : nat -> Z) (f : list Z) : bool :=
  forallb (fun w => netout arcs f w =? b w) (seq 0 n).

Definition feasible_b (n : nat) (arcs : list arc) (b : nat -> Z) (f : list Z) : bool :=
  (bounded_b arcs f && balanced_b n arcs b f)%bool.

Fixpoint reduced_b (pi : nat -> Z) (arcs : list arc) (f : list Z) : bool :=
  match arcs, f with
  | a :: arcs', x :: f' =>
      ((if x <? a_cap a then 0 <=? rc pi a else true)
       && (if 0 <? x then rc pi a <=? 0 else true) && reduced_b pi arcs' f')%bool
  | _, _ => true
  end.

(* feasibility + reduced costs for the given potentials *)
Definition cert_check (n : nat) (arcs : list arc) (b : nat -> Z) (f : list Z) (pi : list Z) : bool :=
  (valid_arcs n arcs && feasible_b n arcs b f && reduced_b (pot pi) arcs f)%bool.

(* ---------------- infeasibility certificate: a node set S (indicator list) with
   b(S) > capacity of the arcs leaving S  (for s-t demand: s in S, t not in S, cut capacity < d),
   or b(S) < - capacity of the arcs entering S (covers unbalanced supply vectors with S = all nodes) *)
Definition inS (S : list bool) (w : nat) : bool := nth w S false.

Fixpoint cut_cap (S : list bool) (arcs : list arc) : Z :=
  match arcs with
  | [] => 0
  | a :: arcs' => (if (inS S (a_u a) && negb (inS S (a_v a)))%bool then a_cap a else 0) + cut_cap S arcs'
  end.

Fixpoint sum_b (b : nat -> Z) (S : list bool) (n : nat) : Z :=
  match n with
  | O => 0
  | S k => sum_b b S k + (if inS S k then b k else 0)
  end.

(* capacity of the arcs entering S *)
Fixpoint cut_in (S : list bool) (arcs : list arc) : Z :=
  match arcs with
  | [] => 0
  | a :: arcs' => (if (negb (inS S (a_u a)) && inS S (a_v a))%bool then a_cap a else 0) + cut_in S arcs'
  end.

(* S must ship out more than can leave it, or must take in more than can enter it *)
Definition cut_check (n : nat) (arcs : list arc) (b : nat -> Z) (S : list bool) : bool :=
  (valid_arcs n arcs && ((cut_cap S arcs <? sum_b b S n) || (sum_b b S n <? - cut_in S arcs)))%bool.

(* ---------------- pooled dictionaries: value at (u,v) = total flow of the arcs u->v, absent = 0 *)
Fixpoint pair_sum (arcs : list arc) (f : list Z) (u v : nat) : Z :=
  match arcs, f with
  | a :: arcs', x :: f' =>
      (if (Nat.eqb (a_u a) u && Nat.eqb (a_v a) v)%bool then x else 0) + pair_sum arcs' f' u v
  | _, _ => 0
  end.

Definition get0 (d : list (nat * nat * Z)) (u v : nat) : Z :=
  match dict_get d u v with Some y => y | None => 0 end.

Definition pooled (arcs : list arc) (f : list Z) (d : list (nat * nat * Z)) : Prop :=
  forall u v, get0 d u v = pair_sum arcs f u v.

Definition pooled_b (arcs : list arc) (f : list Z) (d : list (nat * nat * Z)) : bool :=
  (forallb (fun a => get0 d (a_u a) (a_v a) =? pair_sum arcs f (a_u a) (a_v a)) arcs
   && forallb (fun x => let '(u, v, _) := x in get0 d u v =? pair_sum arcs f u v) d)%bool.

(* ---------------- what an OPTIMAL answer (pooled dict + objective) must be, and its checker.
   The per-arc flow f and the potentials pi are witnesses supplied from outside (harness); nothing about
   them is trusted. *)
Definition optimal_answer (n : nat) (arcs : list arc) (b : nat -> Z) (d : list (nat * nat * Z)) (cost : Z) : Prop :=
  exists f, min_cost n arcs b f /\ pooled arcs f d /\ cost = flow_cost arcs f.

Definition optimal_check (n : nat) (arcs : list arc) (b : nat -> Z) (d : list (nat * nat * Z)) (cost : Z)
           (f pi : list Z) : bool :=
  (cert_check n arcs b f pi && pooled_b arcs f d && (cost =? flow_cost arcs f))%bool.

Definition infeasible (n : nat) (arcs : list arc) (b : nat -> Z) : Prop :=
  forall f, ~ feasible n arcs b f.

End McfSpec.
