(* C09 - min_cost_flow: the loop invariant of successive shortest paths and the theorems
   feasibility (capacities, conservation, exactly `demand` units, integrality) and cost = sum cost*flow,
   first for the internal per-arc state, then for the public pooled dictionary. *)
From Coq Require Import List ZArith Bool Arith Lia.
From SV Require Import C09.Mcf C09.McfSpec C09.McfAug C09.McfBF.
Import ListNotations.
Open Scope Z_scope.
Import Mcf McfSpec.

Definition caps_ok (arcs : list arc) : bool := forallb (fun a => 0 <=? a_cap a) arcs.

Record LoopInv (arcs : list arc) (s t : nat) (d : Z) (res : resid) (tc tf : Z) : Prop := {
  li_res : ResInv arcs res;
  li_cost : tc = flow_cost arcs (flows res);
  li_net : forall w, netout arcs (flows res) w = demand_b s t tf w;
  li_tf : 0 <= tf <= d
}.

Lemma demand_b_add s t tf pf w :
  demand_b s t (tf + pf) w = demand_b s t tf w + dlt s pf w - dlt t pf w.
Proof.
  unfold demand_b, dlt. rewrite (Nat.eqb_sym w s), (Nat.eqb_sym w t).
  destruct (Nat.eqb s w); destruct (Nat.eqb t w); lia.
Qed.

Lemma loop_inv n arcs s t d : forall fuel res tc tf it k,
  LoopInv arcs s t d res tc tf ->
  mcf_loop fuel n arcs s t d res tc tf it = Some k ->
  LoopInv arcs s t d (k_res k) (k_cost k) (k_flow k) /\
  (k_status k = OPTIMAL -> k_flow k = d) /\
  (k_status k = INFEASIBLE -> k_flow k < d /\ bellman_ford n arcs (k_res k) s t = BFNoPath).
Proof.
  induction fuel as [|fuel IH]; intros res tc tf it k Hinv H.
  - cbn [mcf_loop] in H. destruct (tf <? d) eqn:E; [discriminate|]. inversion H; subst k. cbn.
    apply Z.ltb_ge in E. destruct Hinv. split; [constructor; assumption|]. split; [lia|discriminate].
  - cbn [mcf_loop] in H. destruct (tf <? d) eqn:E.
    + apply Z.ltb_lt in E.
      destruct (bellman_ford n arcs res s t) as [| |path d0] eqn:Ebf.
      * inversion H; subst k. cbn. split; [exact Hinv|]. split; [discriminate|]. intros _. split; [exact E|exact Ebf].
      * discriminate.
      * destruct (bellman_ford_path _ _ _ _ _ _ _ Ebf) as (Hchain & Hnd & _).
        destruct Hinv as [Hres Hcost Hnet Htf].
        set (pf := bottleneck res path (d - tf)) in *.
        destruct (fold_min_le (e_res res) path (d - tf)) as [Hle1 Hle2]. fold (bottleneck res path (d - tf)) in Hle1, Hle2. fold pf in Hle1, Hle2.
        assert (Hpf : 0 <= pf).
        { unfold pf, bottleneck. apply fold_min_ge; [lia|]. intros e _. exact (e_res_nonneg arcs res e Hres). }
        pose proof (augment_inv arcs path res pf tc Hres Hpf Hnd Hle2) as Hres'.
        pose proof (augment_cost arcs path res pf tc (proj1 Hres)) as Hcost'.
        assert (Hnet' : forall w, netout arcs (flows (fst (augment arcs res path pf tc))) w = demand_b s t (tf + pf) w).
        { intros w. rewrite (augment_netout arcs w path res pf tc s t (proj1 Hres) Hchain).
          rewrite Hnet, demand_b_add. reflexivity. }
        destruct (augment arcs res path pf tc) as [res' tc'] eqn:Ea. cbn [fst snd] in *.
        apply (IH res' tc' (tf + pf) (it + 1) k); [|exact H].
        constructor; [exact Hres'|lia|exact Hnet'|lia].
    + inversion H; subst k. cbn. apply Z.ltb_ge in E. destruct Hinv.
      split; [constructor; assumption|]. split; [lia|discriminate].
Qed.

Lemma init_inv arcs s t d : caps_ok arcs = true -> 0 <= d -> LoopInv arcs s t d (init_res arcs) 0 0.
Proof.
  intros Hc Hd. constructor.
  - apply init_res_inv. exact Hc.
  - rewrite init_res_flows, flow_cost_lin, lin_zero. reflexivity.
  - intros w. rewrite init_res_flows, netout_lin, lin_zero. unfold demand_b.
    destruct (Nat.eqb w s); destruct (Nat.eqb w t); reflexivity.
  - lia.
Qed.

Lemma resinv_bounded : forall arcs res, ResInv arcs res -> bounded arcs (flows res).
Proof.
  induction arcs as [|a arcs IH]; intros res [Hlen H].
  - destruct res; [exact I|discriminate].
  - destruct res as [|p res]; [discriminate|]. cbn [flows map bounded]. split.
    + destruct (H 0%nat) as (H1 & H2 & H3); [cbn; lia|]. cbn [nth] in *. lia.
    + apply IH. split; [cbn [length] in Hlen; lia|]. intros k Hk.
      exact (H (S k) (proj1 (Nat.succ_lt_mono _ _) Hk)).
Qed.

(* internal form: the state at the end of the while loop *)
Theorem mcf_run_sound : forall n arcs s t d k,
  caps_ok arcs = true -> 0 <= d ->
  mcf_run n arcs s t d = Some k ->
  ResInv arcs (k_res k) /\
  k_cost k = flow_cost arcs (flows (k_res k)) /\
  (forall w, netout arcs (flows (k_res k)) w = demand_b s t (k_flow k) w) /\
  0 <= k_flow k <= d /\
  (k_status k = OPTIMAL -> k_flow k = d) /\
  (k_status k = INFEASIBLE -> k_flow k < d /\ bellman_ford n arcs (k_res k) s t = BFNoPath).
Proof.
  intros n arcs s t d k Hc Hd H. unfold mcf_run in H.
  destruct (loop_inv n arcs s t d _ _ _ _ _ k (init_inv arcs s t d Hc Hd) H) as ([H1 H2 H3 H4] & H5 & H6).
  split; [exact H1|]. split; [exact H2|]. split; [exact H3|]. split; [exact H4|]. split; [exact H5|exact H6].
Qed.

Theorem mcf_run_feasible : forall n arcs s t d k,
  caps_ok arcs = true -> 0 <= d ->
  mcf_run n arcs s t d = Some k -> k_status k = OPTIMAL ->
  feasible n arcs (demand_b s t d) (flows (k_res k)).
Proof.
  intros n arcs s t d k Hc Hd H Hst.
  destruct (mcf_run_sound n arcs s t d k Hc Hd H) as (H1 & _ & H3 & _ & H5 & _).
  split; [apply resinv_bounded; exact H1|]. intros w _. rewrite H3, (H5 Hst). reflexivity.
Qed.

Theorem mcf_run_cost : forall n arcs s t d k,
  caps_ok arcs = true -> 0 <= d ->
  mcf_run n arcs s t d = Some k -> k_cost k = flow_cost arcs (flows (k_res k)).
Proof.
  intros n arcs s t d k Hc Hd H. exact (proj1 (proj2 (mcf_run_sound n arcs s t d k Hc Hd H))).
Qed.

(* ---------------- the pooled dictionary *)
Lemma get0_dict_add : forall d u v x u' v',
  get0 (dict_add d u v x) u' v' = get0 d u' v' + (if (Nat.eqb u u' && Nat.eqb v v')%bool then x else 0).
Proof.
  unfold get0. induction d as [|[[u0 v0] y] d IH]; intros u v x u' v'.
  - cbn [dict_add dict_get]. rewrite (Nat.eqb_sym u' u), (Nat.eqb_sym v' v).
    destruct (Nat.eqb u u' && Nat.eqb v v')%bool; lia.
  - cbn [dict_add]. destruct (Nat.eqb_spec u u0) as [->|Hu]; destruct (Nat.eqb_spec v v0) as [->|Hv]; cbn [andb dict_get].
    + destruct (Nat.eqb_spec u' u0) as [->|]; destruct (Nat.eqb_spec v' v0) as [->|]; cbn [andb];
        rewrite ?Nat.eqb_refl; cbn [andb]; try lia.
      * destruct (Nat.eqb_spec v0 v'); [congruence|]. cbn [andb]. lia.
      * destruct (Nat.eqb_spec u0 u'); [congruence|]. cbn [andb]. lia.
      * destruct (Nat.eqb_spec u0 u'); [congruence|]. cbn [andb]. lia.
    + destruct (Nat.eqb_spec u' u0) as [->|]; destruct (Nat.eqb_spec v' v0) as [->|]; cbn [andb]; rewrite ?IH; try reflexivity.
      rewrite Nat.eqb_refl. destruct (Nat.eqb_spec v v0); [contradiction|]. cbn [andb]. lia.
    + destruct (Nat.eqb_spec u' u0) as [->|]; destruct (Nat.eqb_spec v' v0) as [->|]; cbn [andb]; rewrite ?IH; try reflexivity.
      destruct (Nat.eqb_spec u u0); [contradiction|]. cbn [andb]. lia.
    + destruct (Nat.eqb_spec u' u0) as [->|]; destruct (Nat.eqb_spec v' v0) as [->|]; cbn [andb]; rewrite ?IH; try reflexivity.
      destruct (Nat.eqb_spec u u0); [contradiction|]. cbn [andb]. lia.
Qed.

Lemma pool_get0 : forall arcs res d0 u v,
  Forall (fun p => 0 <= snd p) res ->
  get0 (pool arcs res d0) u v = get0 d0 u v + pair_sum arcs (flows res) u v.
Proof.
  induction arcs as [|a arcs IH]; intros res d0 u v Hnn.
  - cbn [pool pair_sum]. lia.
  - destruct res as [|[rf rb] res]; [cbn [pool flows map pair_sum]; lia|].
    inversion Hnn as [|? ? Hrb Hnn']; subst. cbn [snd] in Hrb.
    cbn [pool flows map pair_sum snd]. rewrite IH by exact Hnn'. fold (flows res).
    destruct (0 <? rb) eqn:E.
    + rewrite get0_dict_add. lia.
    + apply Z.ltb_ge in E. assert (rb = 0) by lia. subst rb.
      destruct (Nat.eqb (a_u a) u && Nat.eqb (a_v a) v)%bool; lia.
Qed.

Lemma resinv_nonneg arcs res : ResInv arcs res -> Forall (fun p => 0 <= snd p) res.
Proof.
  intros [Hlen H]. apply Forall_forall. intros p Hin.
  destruct (In_nth _ _ (0, 0) Hin) as (k & Hk & <-). rewrite Hlen in Hk. apply (H k Hk).
Qed.

(* public form: what min_cost_flow returns with status OPTIMAL is the pooled dictionary of a feasible integral
   per-arc flow shipping exactly `demand`, and the reported objective is the sum of cost * flow over the arcs *)
Theorem mcf_feasible_cost : forall n arcs s t d r,
  caps_ok arcs = true -> 0 <= d ->
  mcf n arcs s t d = Some r -> r_status r = OPTIMAL ->
  exists f, feasible n arcs (demand_b s t d) f /\ pooled arcs f (r_flows r) /\ r_cost r = flow_cost arcs f.
Proof.
  intros n arcs s t d r Hc Hd H Hst. unfold mcf in H.
  destruct (mcf_run n arcs s t d) as [k|] eqn:Ek; [|discriminate].
  destruct (k_status k) eqn:Es; inversion H; subst r; cbn [r_status r_flows r_cost] in *; [|discriminate].
  exists (flows (k_res k)). split; [exact (mcf_run_feasible _ _ _ _ _ _ Hc Hd Ek Es)|]. split.
  - intros u v. rewrite pool_get0.
    + reflexivity.
    + apply (resinv_nonneg arcs). exact (proj1 (mcf_run_sound _ _ _ _ _ _ Hc Hd Ek)).
  - exact (mcf_run_cost _ _ _ _ _ _ Hc Hd Ek).
Qed.
