(* C09 deepening, round 2 - network_simplex: the flow update of one pivot keeps part (a) of the invariant
   (bounds on every arc, net outflow of every node) and sends the leaving arc to one of its bounds. *)
From Coq Require Import List ZArith Bool Arith Lia.
From SV Require Import C09.Mcf C09.McfSpec C09.McfAug C09.NetSimplex C09.DeepNS2Base C09.DeepNS2Walk.
Import ListNotations.
Open Scope Z_scope.
Import Mcf McfSpec NetSimplex.

Section Flow.
Variable C : consts.
Local Notation n := (c_n C).
Local Notation T := (c_m C + c_n C)%nat.
Local Notation src a := (nn (c_src C) a).
Local Notation tgt a := (nn (c_tgt C) a).
Local Notation cap a := (nz (c_cap C) a).
Variable b : nat -> Z.
Variable s : st.
Hypothesis I : NSInv C b s.
Local Notation par v := (nn (parent s) v).
Local Notation prd v := (nn (pred s) v).
Let HT : TreeOK C s := i_tree C b s I.

Variable e : nat.
Hypothesis He : (e < T)%nat.
Hypothesis Hprice : price_ok C s e.
Let neg : bool := redcost C s e <? 0.
Let delta0 : Z := if neg then cap e - nz (flow s) e else nz (flow s) e.
Let first : nat := if neg then src e else tgt e.
Let second : nat := if neg then tgt e else src e.
Variables (p1 p2 : list nat) (join : nat).
Hypothesis Hc1 : chain C s first p1 join.
Hypothesis Hc2 : chain C s second p2 join.
Hypothesis Hdisj : forall x, In x p1 -> In x p2 -> False.
Variables (delta : Z) (l : nat) (lf : bool).
Hypothesis Hratio : fold_left (rstep C s false) p2 (fold_left (rstep C s true) p1 (delta0, e, true)) = (delta, l, lf).

Let fl0 : list Z := upd (flow s) e (if neg then nz (flow s) e + delta else nz (flow s) e - delta).
Let fl1 : list Z := fold_left (pstep C s true delta) p1 fl0.
Let fl2 : list Z := fold_left (pstep C s false delta) p2 fl1.

Lemma e_state : (nz (state s) e = 1 /\ neg = true) \/ (nz (state s) e = -1 /\ neg = false).
Proof.
  unfold neg. destruct Hprice as [[H1 H2]|[H1 H2]]; [left|right]; (split; [exact H1|]).
  - apply Z.ltb_lt. exact H2.
  - apply Z.ltb_ge. lia.
Qed.

Lemma delta0_val : delta0 = cap e /\ 0 <= delta0.
Proof.
  unfold delta0. pose proof (i_bounds C b s I e He) as Hb.
  destruct e_state as [[H1 H2]|[H1 H2]]; rewrite H2.
  - rewrite (i_lower C b s I e He H1). lia.
  - rewrite (i_upper C b s I e He H1). lia.
Qed.

Lemma e_not_pred x : (x < n)%nat -> prd x <> e.
Proof.
  intros Hx E. pose proof (i_predst C b s I x Hx) as H0. rewrite E in H0.
  destruct e_state as [[H1 _]|[H1 _]]; lia.
Qed.

Lemma res1_nonneg bb x : (x < n)%nat -> 0 <= res1 C s bb x.
Proof.
  intros Hx. destruct (t_pred C s HT x Hx) as [Ha _]. pose proof (i_bounds C b s I _ Ha) as Hb.
  unfold res1, residual. destruct (Nat.eqb (src (prd x)) (if bb then x else par x)); lia.
Qed.

Lemma p1_lt x : In x p1 -> (x < n)%nat.
Proof. intros Hx. apply (chain_in C s HT _ _ _ Hc1 x Hx). Qed.
Lemma p2_lt x : In x p2 -> (x < n)%nat.
Proof. intros Hx. apply (chain_in C s HT _ _ _ Hc2 x Hx). Qed.

(* what the two ratio walks return *)
Lemma ratio_facts :
  0 <= delta <= delta0 /\
  (forall x, In x p1 -> delta <= res1 C s true x) /\
  (forall x, In x p2 -> delta <= res1 C s false x) /\
  ((l = e /\ delta = delta0) \/
   (exists x, In x p1 /\ lf = true /\ l = prd x /\ delta = res1 C s true x) \/
   (exists x, In x p2 /\ lf = false /\ l = prd x /\ delta = res1 C s false x)).
Proof.
  destruct (rfold_spec C s true p1 (delta0, e, true)) as (A1 & A2 & A3).
  destruct (rfold_spec C s false p2 (fold_left (rstep C s true) p1 (delta0, e, true))) as (B1 & B2 & B3).
  rewrite Hratio in B1, B2, B3. cbn [fst] in A1, B1, B2.
  destruct delta0_val as [_ Hd0].
  assert (Hcase : (l = e /\ delta = delta0) \/
   (exists x, In x p1 /\ lf = true /\ l = prd x /\ delta = res1 C s true x) \/
   (exists x, In x p2 /\ lf = false /\ l = prd x /\ delta = res1 C s false x)).
  { destruct B3 as [B3|(x & Hx & B3)].
    - destruct A3 as [A3|(x & Hx & A3)]; rewrite A3 in B3; inversion B3; subst.
      + left. split; reflexivity.
      + right. left. exists x. auto.
    - inversion B3; subst. right. right. exists x. auto. }
  split; [|split; [|split; [exact B2|exact Hcase]]].
  - split; [|lia]. destruct Hcase as [[_ ->]|[(x & Hx & _ & _ & ->)|(x & Hx & _ & _ & ->)]];
      [exact Hd0|apply res1_nonneg; apply p1_lt; exact Hx|apply res1_nonneg; apply p2_lt; exact Hx].
  - intros x Hx. specialize (A2 x Hx). lia.
Qed.

Lemma fl0_len : length fl0 = T.
Proof. unfold fl0. rewrite length_upd. apply (i_lflow C b s I). Qed.
Lemma fl1_len : length fl1 = T.
Proof. unfold fl1. rewrite pfold_len. apply fl0_len. Qed.
Lemma fl2_len : length fl2 = T.
Proof. unfold fl2. rewrite pfold_len. apply fl1_len. Qed.

Lemma fl2_e : nz fl2 e = if neg then nz (flow s) e + delta else nz (flow s) e - delta.
Proof.
  unfold fl2, fl1. rewrite !pfold_other.
  - unfold fl0. apply nz_upd_same. rewrite (i_lflow C b s I). exact He.
  - intros x Hx. apply e_not_pred. apply p1_lt. exact Hx.
  - intros x Hx. apply e_not_pred. apply p2_lt. exact Hx.
Qed.

Lemma fl2_other a : a <> e -> (forall x, In x p1 -> prd x <> a) -> (forall x, In x p2 -> prd x <> a) ->
  nz fl2 a = nz (flow s) a.
Proof.
  intros Hae H1 H2. unfold fl2, fl1. rewrite !pfold_other by assumption. unfold fl0. apply nz_upd_other. exact Hae.
Qed.

Lemma fl2_p1 x : In x p1 ->
  (nz fl2 (prd x) = nz (flow s) (prd x) - delta /\ res1 C s true x = nz (flow s) (prd x)) \/
  (nz fl2 (prd x) = nz (flow s) (prd x) + delta /\ res1 C s true x = cap (prd x) - nz (flow s) (prd x)).
Proof.
  intros Hx. pose proof (p1_lt x Hx) as Hxn. destruct (t_pred C s HT x Hxn) as [Ha _].
  assert (E2 : nz fl2 (prd x) = nz fl1 (prd x)).
  { unfold fl2. apply pfold_other. intros y Hy E. apply (Hdisj x Hx).
    assert (y = x) by (apply (pred_inj C s HT); [apply p2_lt; exact Hy|exact Hxn|exact E]). subst y. exact Hy. }
  assert (E1 : nz fl1 (prd x) = pval C s true delta fl0 x).
  { unfold fl1. apply (pfold_at C s HT); [apply (chain_nodup C s HT _ _ _ Hc1)|exact p1_lt|exact Hx|rewrite fl0_len; exact Ha]. }
  assert (E0 : nz fl0 (prd x) = nz (flow s) (prd x)) by (unfold fl0; apply nz_upd_other; apply e_not_pred; exact Hxn).
  rewrite E2, E1. exact (pval_res C s HT true delta fl0 x Hxn E0).
Qed.

Lemma fl2_p2 x : In x p2 ->
  (nz fl2 (prd x) = nz (flow s) (prd x) - delta /\ res1 C s false x = nz (flow s) (prd x)) \/
  (nz fl2 (prd x) = nz (flow s) (prd x) + delta /\ res1 C s false x = cap (prd x) - nz (flow s) (prd x)).
Proof.
  intros Hx. pose proof (p2_lt x Hx) as Hxn. destruct (t_pred C s HT x Hxn) as [Ha _].
  assert (E2 : nz fl2 (prd x) = pval C s false delta fl1 x).
  { unfold fl2. apply (pfold_at C s HT); [apply (chain_nodup C s HT _ _ _ Hc2)|exact p2_lt|exact Hx|rewrite fl1_len; exact Ha]. }
  assert (E1 : nz fl1 (prd x) = nz (flow s) (prd x)).
  { unfold fl1. rewrite pfold_other.
    - unfold fl0. apply nz_upd_other. apply e_not_pred. exact Hxn.
    - intros y Hy E. apply (Hdisj y Hy).
      assert (y = x) by (apply (pred_inj C s HT); [apply p1_lt; exact Hy|exact Hxn|exact E]). subst y. exact Hx. }
  rewrite E2. exact (pval_res C s HT false delta fl1 x Hxn E1).
Qed.

(* every arc is one of: the entering arc, a path arc, untouched *)
Lemma arc_cases a : a = e \/ (exists x, In x p1 /\ a = prd x) \/ (exists x, In x p2 /\ a = prd x) \/
  (a <> e /\ (forall x, In x p1 -> prd x <> a) /\ (forall x, In x p2 -> prd x <> a)).
Proof.
  destruct (Nat.eq_dec a e) as [->|Hae]; [left; reflexivity|right].
  destruct (in_dec Nat.eq_dec a (map (fun x => prd x) p1)) as [H1|H1].
  { left. apply in_map_iff in H1. destruct H1 as (x & E & Hx). exists x. auto. }
  destruct (in_dec Nat.eq_dec a (map (fun x => prd x) p2)) as [H2|H2].
  { right. left. apply in_map_iff in H2. destruct H2 as (x & E & Hx). exists x. auto. }
  right. right. split; [exact Hae|]. split; intros x Hx E; [apply H1|apply H2]; apply in_map_iff; exists x; auto.
Qed.

Lemma fl2_bounds a : (a < T)%nat -> 0 <= nz fl2 a <= cap a.
Proof.
  intros Ha. destruct ratio_facts as ([R0 R0'] & R1 & R2 & _). destruct delta0_val as [Hd0 _].
  pose proof (i_bounds C b s I a Ha) as Hb.
  destruct (arc_cases a) as [->|[(x & Hx & ->)|[(x & Hx & ->)|(A1 & A2 & A3)]]].
  - rewrite fl2_e. destruct e_state as [[H1 H2]|[H1 H2]]; rewrite H2.
    + rewrite (i_lower C b s I e He H1). lia.
    + rewrite (i_upper C b s I e He H1). lia.
  - specialize (R1 x Hx). destruct (fl2_p1 x Hx) as [[E1 E2]|[E1 E2]]; lia.
  - specialize (R2 x Hx). destruct (fl2_p2 x Hx) as [[E1 E2]|[E1 E2]]; lia.
  - rewrite fl2_other by assumption. exact Hb.
Qed.

Lemma fl2_netx w : netx C fl2 w = netx C (flow s) w.
Proof.
  unfold fl2, fl1. rewrite (pfold_netx C s HT false delta _ _ _ Hc2) by exact fl1_len.
  rewrite (pfold_netx C s HT true delta _ _ _ Hc1) by exact fl0_len.
  assert (E0 : netx C fl0 w = netx C (flow s) w + coef C w e * (if neg then delta else - delta)).
  { unfold fl0. replace (if neg then nz (flow s) e + delta else nz (flow s) e - delta)
      with (nz (flow s) e + (if neg then delta else - delta)) by (destruct neg; lia).
    apply netx_upd; [exact He|rewrite (i_lflow C b s I); exact He]. }
  rewrite E0. unfold coef, first, second. destruct neg;
    destruct (Nat.eqb (src e) w); destruct (Nat.eqb (tgt e) w); destruct (Nat.eqb join w); lia.
Qed.

(* arcs outside the basis other than the entering arc keep their flow *)
Lemma fl2_nonbasic a : a <> e -> nz (state s) a <> 0 -> nz fl2 a = nz (flow s) a.
Proof.
  intros Hae Hst. apply fl2_other; [exact Hae| |]; intros x Hx E; apply Hst; rewrite <- E;
    apply (i_predst C b s I); [apply p1_lt|apply p2_lt]; exact Hx.
Qed.

(* the entering arc goes from one bound to the other when it is its own leaving arc *)
Lemma fl2_e_full : delta = delta0 ->
  (nz (state s) e = 1 /\ nz fl2 e = cap e) \/ (nz (state s) e = -1 /\ nz fl2 e = 0).
Proof.
  intros Hd. rewrite fl2_e, Hd. unfold delta0. destruct e_state as [[H1 H2]|[H1 H2]]; rewrite H2; [left|right]; (split; [exact H1|lia]).
Qed.

(* a leaving tree arc ends at one of its bounds *)
Lemma fl2_leaving x : (In x p1 /\ delta = res1 C s true x) \/ (In x p2 /\ delta = res1 C s false x) ->
  nz fl2 (prd x) = 0 \/ nz fl2 (prd x) = cap (prd x).
Proof.
  intros [[Hx Hd]|[Hx Hd]].
  - destruct (fl2_p1 x Hx) as [[E1 E2]|[E1 E2]]; [left|right]; lia.
  - destruct (fl2_p2 x Hx) as [[E1 E2]|[E1 E2]]; [left|right]; lia.
Qed.


(* everything the pivot proof uses, in one statement *)
Lemma flow_facts fl : fl = fl2 ->
  (nz (state s) e = 1 \/ nz (state s) e = -1) /\
  (forall x, (x < n)%nat -> prd x <> e) /\
  delta0 = cap e /\ 0 <= delta <= delta0 /\
  ((l = e /\ delta = delta0) \/
   (exists x, In x p1 /\ lf = true /\ l = prd x /\ delta = res1 C s true x) \/
   (exists x, In x p2 /\ lf = false /\ l = prd x /\ delta = res1 C s false x)) /\
  (forall x, In x p1 -> (x < n)%nat) /\ (forall x, In x p2 -> (x < n)%nat) /\
  length fl = T /\
  (forall a, (a < T)%nat -> 0 <= nz fl a <= cap a) /\
  (forall w, netx C fl w = netx C (flow s) w) /\
  (forall a, a <> e -> nz (state s) a <> 0 -> nz fl a = nz (flow s) a) /\
  (delta = delta0 -> (nz (state s) e = 1 /\ nz fl e = cap e) \/ (nz (state s) e = -1 /\ nz fl e = 0)) /\
  (forall x, (In x p1 /\ delta = res1 C s true x) \/ (In x p2 /\ delta = res1 C s false x) ->
     nz fl (prd x) = 0 \/ nz fl (prd x) = cap (prd x)).
Proof.
  intros ->. destruct ratio_facts as (R0 & _ & _ & Rl). destruct delta0_val as [D0 _].
  split; [destruct e_state as [[H _]|[H _]]; auto|]. split; [exact e_not_pred|]. split; [exact D0|]. split; [exact R0|].
  split; [exact Rl|]. split; [exact p1_lt|]. split; [exact p2_lt|]. split; [exact fl2_len|]. split; [exact fl2_bounds|].
  split; [exact fl2_netx|]. split; [exact fl2_nonbasic|]. split; [exact fl2_e_full|exact fl2_leaving].
Qed.

End Flow.
