(* C09 - executable Gallina model of solvor/network_simplex.py: network_simplex()
   (state of /repo after fixes 9c0da43 basis-tree re-hang, c7219e2 parallel arcs summed, acf0509 MAX_ITER).

   Representation.
   * nodes 0..n-1, root = n; arcs = list of (u, v, cap, cost) (ids 0..m-1), artificial arc of node i = m+i.
   * all Python lists are Gallina lists read with nth: source/target/pred/parent : list nat, cap/cost/flow/pi/
     depth/state : list Z.  parent[root] = pred[root] = -1 in Python are never read (walks stop at the join);
     here they hold the placeholders n and 0.
   * tree_adj[node] (a Python set of arc ids) is a list; `discard` = filter, `add` = append.  The re-hang traversal
     pops nodes in another order than Python's set iteration would, which cannot change its result: each moved
     node gets parent/pred from the unique tree path to subtree_root and depth/pi from its parent, which was
     finalised before the node was pushed.
   * numbers: Z.  The harness feeds integer costs/supplies; the float potentials then hold integers and the pricing
     tolerance `rc < -1e-9` is `rc < 0`.
   Fuel: main loop min(max_iter, 5000) pivots (more needed = None), tree walks 2(n+1)+2, re-hang n+2 pops. *)
From Coq Require Import List ZArith Bool Arith Lia.
From SV Require Import C09.Mcf.
Import ListNotations.
Open Scope Z_scope.

Module NetSimplex.
Import Mcf.

Definition nn (l : list nat) (i : nat) : nat := nth i l 0%nat.
Definition nz (l : list Z) (i : nat) : Z := nth i l 0.

Record consts := { c_m : nat; c_n : nat; c_src : list nat; c_tgt : list nat; c_cap : list Z; c_cost : list Z }.

Record st := { flow : list Z; parent : list nat; pred : list nat; depth : list Z;
               tadj : list (list nat); pi : list Z; state : list Z }.

Definition zsum (l : list Z) : Z := fold_left Z.add l 0.

Definition mk_consts (n : nat) (arcs : list arc) (sup : list Z) : consts :=
  let m := length arcs in
  let big_m := zsum (map (fun a => Z.abs (a_c a)) arcs) * Z.of_nat n + 1 in
  {| c_m := m; c_n := n;
     c_src := map a_u arcs ++ map (fun i => if 0 <=? nz sup i then i else n) (seq 0 n);
     c_tgt := map a_v arcs ++ map (fun i => if 0 <=? nz sup i then n else i) (seq 0 n);
     c_cap := map a_cap arcs ++ map (fun i => Z.abs (nz sup i) + 1) (seq 0 n);
     c_cost := map a_c arcs ++ repeat big_m n |}.

Definition init_st (n : nat) (arcs : list arc) (sup : list Z) : st :=
  let m := length arcs in
  let big_m := zsum (map (fun a => Z.abs (a_c a)) arcs) * Z.of_nat n + 1 in
  {| flow := repeat 0 m ++ map (fun i => Z.abs (nz sup i)) (seq 0 n);
     parent := repeat n n ++ [n];
     pred := seq m n ++ [0%nat];
     depth := repeat 1 n ++ [0];
     tadj := map (fun i => [(m + i)%nat]) (seq 0 n) ++ [seq m n];
     pi := map (fun i => if 0 <=? nz sup i then big_m else - big_m) (seq 0 n) ++ [0];
     state := repeat 1 m ++ repeat 0 n |}.

Section Run.
Variable C : consts.
Let total_arcs : nat := (c_m C + c_n C)%nat.
Let wfuel : nat := (2 * (c_n C + 1) + 2)%nat.

(* rc = cost[arc] - pi[u] + pi[v] *)
Definition redcost (s : st) (arc : nat) : Z :=
  nz (c_cost C) arc - nz (pi s) (nn (c_src C) arc) + nz (pi s) (nn (c_tgt C) arc).

(* entering arc: most negative reduced cost (state 1) / most positive (state -1), first index on ties *)
Definition pricing (s : st) : option nat :=
  fst (fold_left (fun (acc : option nat * Z) arc =>
         let '(ent, best) := acc in
         let sa := nz (state s) arc in
         if sa =? 0 then acc
         else let rc := redcost s arc in
              if ((sa =? 1) && (rc <? best))%bool then (Some arc, rc)
              else if ((sa =? -1) && (- rc <? best))%bool then (Some arc, - rc)
              else acc)
       (seq 0 total_arcs) (None, 0)).

(* _find_join *)
Fixpoint find_join (fuel : nat) (s : st) (u v : nat) : option nat :=
  if Nat.eqb u v then Some u
  else match fuel with
       | O => None
       | S f => if nz (depth s) v <? nz (depth s) u then find_join f s (nn (parent s) u) v
                else find_join f s u (nn (parent s) v)
       end.

(* _residual(arc, node) *)
Definition residual (s : st) (arc node : nat) : Z :=
  if Nat.eqb (nn (c_src C) arc) node then nz (flow s) arc else nz (c_cap C) arc - nz (flow s) arc.

(* ratio test along first -> join (leaving_first = True) and second -> join (leaving_first = False) *)
Fixpoint ratio (fuel : nat) (s : st) (is_first : bool) (node join : nat) (acc : Z * nat * bool) : option (Z * nat * bool) :=
  if Nat.eqb node join then Some acc
  else match fuel with
       | O => None
       | S f =>
           let arc := nn (pred s) node in
           let d := residual s arc (if is_first then node else nn (parent s) node) in
           let '(delta, leaving, lf) := acc in
           ratio f s is_first (nn (parent s) node) join (if d <? delta then (d, arc, is_first) else acc)
       end.

(* flow update along first -> join (sign = -1 where source[arc] == node) and second -> join (sign = +1) *)
Fixpoint push (fuel : nat) (s : st) (is_first : bool) (node join : nat) (delta : Z) (fl : list Z) : option (list Z) :=
  if Nat.eqb node join then Some fl
  else match fuel with
       | O => None
       | S f =>
           let arc := nn (pred s) node in
           let same := Nat.eqb (nn (c_src C) arc) node in
           let x := nz fl arc in
           push f s is_first (nn (parent s) node) join delta
                (upd fl arc (if Bool.eqb same is_first then x - delta else x + delta))
       end.

(* the re-hang traversal; tb = (parent, pred, depth, pi) *)
Definition tables := (list nat * list nat * list Z * list Z)%type.

Fixpoint rehang (fuel : nat) (adj : list (list nat)) (stack : list nat) (tb : tables) : option tables :=
  match stack with
  | [] => Some tb
  | node :: rest =>
      match fuel with
      | O => None
      | S f =>
          let '(par, prd, dep, p) := tb in
          let arc := nn prd node in
          let dep' := upd dep node (nz dep (nn par node) + 1) in
          let p' := upd p node (if Nat.eqb (nn (c_src C) arc) node then nz p (nn par node) + nz (c_cost C) arc
                                else nz p (nn par node) - nz (c_cost C) arc) in
          let '(par', prd', stack') :=
            fold_left (fun (acc : list nat * list nat * list nat) child_arc =>
                         let '(pa, pr, sk) := acc in
                         if Nat.eqb child_arc arc then acc
                         else let child := if Nat.eqb (nn (c_src C) child_arc) node then nn (c_tgt C) child_arc
                                           else nn (c_src C) child_arc in
                              (upd pa child node, upd pr child child_arc, child :: sk))
                      (nth node adj []) (par, prd, rest) in
          rehang f adj stack' (par', prd', dep', p')
      end
  end.

Definition flip (s : st) (arc : nat) : st :=
  {| flow := flow s; parent := parent s; pred := pred s; depth := depth s; tadj := tadj s; pi := pi s;
     state := upd (state s) arc (- nz (state s) arc) |}.

Inductive step_res := Optimal | Hang | Next (s : st).

(* one pass of the while body after `iterations += 1` *)
Definition step (s : st) : step_res :=
  match pricing s with
  | None => Optimal
  | Some entering =>
      let u := nn (c_src C) entering in
      let v := nn (c_tgt C) entering in
      let rc := redcost s entering in
      let neg := rc <? 0 in
      let delta0 := if neg then nz (c_cap C) entering - nz (flow s) entering else nz (flow s) entering in
      let first := if neg then u else v in
      let second := if neg then v else u in
      match find_join wfuel s first second with
      | None => Hang
      | Some join =>
          match ratio wfuel s true first join (delta0, entering, true) with
          | None => Hang
          | Some acc1 =>
              match ratio wfuel s false second join acc1 with
              | None => Hang
              | Some (delta, leaving, leaving_first) =>
                  if ((delta =? 0) && Nat.eqb leaving entering)%bool then Next (flip s entering)
                  else
                    let fl0 := upd (flow s) entering (if neg then nz (flow s) entering + delta else nz (flow s) entering - delta) in
                    match push wfuel s true first join delta fl0 with
                    | None => Hang
                    | Some fl1 =>
                        match push wfuel s false second join delta fl1 with
                        | None => Hang
                        | Some fl2 =>
                            let s1 := {| flow := fl2; parent := parent s; pred := pred s; depth := depth s;
                                         tadj := tadj s; pi := pi s; state := state s |} in
                            if Nat.eqb leaving entering then Next (flip s1 entering)
                            else
                              let st1 := upd (state s) entering 0 in
                              let st2 := upd st1 leaving (if nz fl2 leaving =? 0 then 1 else -1) in
                              let discard (adj : list (list nat)) (node arc : nat) :=
                                upd adj node (filter (fun a => negb (Nat.eqb a arc)) (nth node adj [])) in
                              let add (adj : list (list nat)) (node arc : nat) :=
                                if existsb (Nat.eqb arc) (nth node adj []) then adj
                                else upd adj node (nth node adj [] ++ [arc]) in
                              let adj1 := discard (tadj s) (nn (c_src C) leaving) leaving in
                              let adj2 := discard adj1 (nn (c_tgt C) leaving) leaving in
                              let adj3 := add adj2 (nn (c_src C) entering) entering in
                              let adj4 := add adj3 (nn (c_tgt C) entering) entering in
                              let subtree_root := if leaving_first then first else second in
                              let new_parent := if leaving_first then second else first in
                              let par1 := upd (parent s) subtree_root new_parent in
                              let prd1 := upd (pred s) subtree_root entering in
                              match rehang (c_n C + 2) adj4 [subtree_root] (par1, prd1, depth s, pi s) with
                              | None => Hang
                              | Some (par', prd', dep', p') =>
                                  Next {| flow := fl2; parent := par'; pred := prd'; depth := dep';
                                          tadj := adj4; pi := p'; state := st2 |}
                              end
                        end
                    end
              end
          end
      end
  end.

Inductive status := OPTIMAL | INFEASIBLE | MAX_ITER.

(* while iterations < max_iter: iterations += 1; ... ; result = (status, final state, iterations) *)
Fixpoint loop (fuel : nat) (max_iter : Z) (s : st) (it : Z) : option (status * st * Z) :=
  if it <? max_iter then
    match fuel with
    | O => None
    | S f =>
        match step s with
        | Optimal => Some (OPTIMAL, s, it + 1)
        | Hang => None
        | Next s' => loop f max_iter s' (it + 1)
        end
    end
  else Some (MAX_ITER, s, it).

End Run.

Record result := { r_status : status; r_sol : option (list (nat * nat * Z)); r_obj : Z; r_iters : Z }.

(* internal run: status of the loop, final flow list (original + artificial arcs), iterations *)
Definition ns_run (n : nat) (arcs : list arc) (sup : list Z) (max_iter : Z) : option (status * list Z * Z) :=
  let C := mk_consts n arcs sup in
  match loop C (Z.to_nat (Z.min max_iter 5000)) max_iter (init_st n arcs sup) 0 with
  | None => None
  | Some (stt, s, it) => Some (stt, flow s, it)
  end.

(* flow_dict[key] = flow_dict.get(key, 0) + flow[i] for the original arcs with flow[i] > 0 *)
Fixpoint flow_dict (arcs : list arc) (fl : list Z) (d : list (nat * nat * Z)) : list (nat * nat * Z) :=
  match arcs, fl with
  | a :: arcs', x :: fl' => flow_dict arcs' fl' (if 0 <? x then dict_add d (a_u a) (a_v a) x else d)
  | _, _ => d
  end.

Fixpoint orig_cost (arcs : list arc) (fl : list Z) : Z :=
  match arcs, fl with
  | a :: arcs', x :: fl' => x * a_c a + orig_cost arcs' fl'
  | _, _ => 0
  end.

Definition network_simplex (n : nat) (arcs : list arc) (sup : list Z) (max_iter : Z) : option result :=
  if negb (zsum sup =? 0) then Some {| r_status := INFEASIBLE; r_sol := None; r_obj := 0; r_iters := 0 |}
  else match arcs with
  | [] => if forallb (fun x => x =? 0) sup
          then Some {| r_status := OPTIMAL; r_sol := Some []; r_obj := 0; r_iters := 0 |}
          else Some {| r_status := INFEASIBLE; r_sol := None; r_obj := 0; r_iters := 0 |}
  | _ =>
      match ns_run n arcs sup max_iter with
      | None => None
      | Some (stt, fl, it) =>
          if existsb (fun x => 0 <? x) (skipn (length arcs) fl)
          then Some {| r_status := match stt with OPTIMAL => INFEASIBLE | x => x end; r_sol := None; r_obj := 0; r_iters := it |}
          else Some {| r_status := stt; r_sol := Some (flow_dict arcs fl []); r_obj := orig_cost arcs fl; r_iters := it |}
      end
  end.

Definition status_eqb (a b : status) : bool :=
  match a, b with OPTIMAL, OPTIMAL => true | INFEASIBLE, INFEASIBLE => true | MAX_ITER, MAX_ITER => true | _, _ => false end.

(* the objective is float("inf") when there is no solution: not compared *)
Definition result_eqb (a b : result) : bool :=
  (status_eqb (r_status a) (r_status b)
   && (match r_sol a, r_sol b with
       | None, None => true
       | Some x, Some y => (dict_eqb x y && Z.eqb (r_obj a) (r_obj b))%bool
       | _, _ => false
       end)
   && Z.eqb (r_iters a) (r_iters b))%bool.

End NetSimplex.
