(* C09 deepening - (5), partial: network_simplex.  The loop answers OPTIMAL only when the pricing rule finds no
   entering arc, i.e. every arc in state 1 (at lower bound) has reduced cost >= 0 and every arc in state -1 (at upper
   bound) has reduced cost <= 0.  Together with three facts about the FINAL state that are boolean-checkable
   (ns_final_ok_b: the original arcs' flows are feasible for the supplies; state 1 => flow 0, state -1 => flow = cap,
   state 0 => reduced cost 0) the negated potentials are an optimality certificate (McfCert.cert_optimal).
   NOT proved: that these three facts are invariants of the pivots (needs the spanning-tree invariants of
   parent/pred/depth/tree_adj through find_join, the ratio test, push and the re-hang traversal). *)
From Coq Require Import List ZArith Bool Arith Lia.
From SV Require Import C09.Mcf C09.McfSpec C09.McfCert C09.NetSimplex C09.DeepPot.
Import ListNotations.
Open Scope Z_scope.
Import Mcf McfSpec NetSimplex.

Section Pricing.
Variable C : consts.
Variable s : st.

Definition pstep (acc : option nat * Z) (arc : nat) : option nat * Z :=
  let '(ent, best) := acc in
  let sa := nz (state s) arc in
  if sa =? 0 then acc
  else let rc := redcost C s arc in
       if ((sa =? 1) && (rc <? best))%bool then (Some arc, rc)
       else if ((sa =? -1) && (- rc <? best))%bool then (Some arc, - rc)
       else acc.

Lemma pricing_fold : pricing C s = fst (fold_left pstep (seq 0 (c_m C + c_n C)) (None, 0)).
Proof. reflexivity. Qed.

Lemma pstep_some : forall l a b, exists a' b', fold_left pstep l (Some a, b) = (Some a', b').
Proof.
  induction l as [|x l IH]; intros a b; [exists a, b; reflexivity|]. cbn [fold_left]. unfold pstep at 2.
  destruct (nz (state s) x =? 0); [apply IH|].
  destruct ((nz (state s) x =? 1) && (redcost C s x <? b))%bool; [apply IH|].
  destruct ((nz (state s) x =? -1) && (- redcost C s x <? b))%bool; apply IH.
Qed.

Definition signs_ok (arc : nat) : Prop :=
  (nz (state s) arc = 1 -> 0 <= redcost C s arc) /\ (nz (state s) arc = -1 -> redcost C s arc <= 0).

Lemma pstep_none : forall l, fst (fold_left pstep l (None, 0)) = None -> forall arc, In arc l -> signs_ok arc.
Proof.
  induction l as [|x l IH]; intros H arc Hin; [contradiction|]. cbn [fold_left] in H. unfold pstep at 2 in H.
  assert (Hsome : forall a b, fst (fold_left pstep l (Some a, b)) = None -> False).
  { intros a b Hf. destruct (pstep_some l a b) as (a' & b' & E). rewrite E in Hf. discriminate. }
  destruct (Z.eqb_spec (nz (state s) x) 0) as [E0|E0].
  - destruct Hin as [<-|Hin]; [split; intros E; rewrite E in E0; discriminate|exact (IH H arc Hin)].
  - destruct (Z.eqb_spec (nz (state s) x) 1) as [E1|E1]; cbn [andb] in H.
    + destruct (Z.ltb_spec (redcost C s x) 0) as [Hlt|Hge]; [exfalso; exact (Hsome _ _ H)|].
      rewrite E1 in H. cbn [Z.eqb andb] in H.
      destruct Hin as [<-|Hin]; [split; [intros _; exact Hge|intros E; rewrite E in E1; discriminate]|exact (IH H arc Hin)].
    + destruct (Z.eqb_spec (nz (state s) x) (-1)) as [E2|E2]; cbn [andb] in H.
      * destruct (Z.ltb_spec (- redcost C s x) 0) as [Hlt|Hge]; [exfalso; exact (Hsome _ _ H)|].
        destruct Hin as [<-|Hin]; [split; [intros E; contradiction|intros _; lia]|exact (IH H arc Hin)].
      * destruct Hin as [<-|Hin]; [split; intros E; contradiction|exact (IH H arc Hin)].
Qed.

(* the exit condition of the pricing rule *)
Lemma pricing_none : pricing C s = None ->
  forall arc, (arc < c_m C + c_n C)%nat -> signs_ok arc.
Proof.
  intros H arc Harc. rewrite pricing_fold in H. apply (pstep_none _ H). apply in_seq. lia.
Qed.

End Pricing.

Lemma step_optimal C s : step C s = Optimal -> pricing C s = None.
Proof.
  unfold step. destruct (pricing C s) as [ent|]; [|reflexivity]. intros H. exfalso.
  repeat match type of H with
         | context [match ?x with _ => _ end] => destruct x; try discriminate
         end.
Qed.

Lemma loop_optimal C : forall fuel mi s it s' it',
  loop C fuel mi s it = Some (OPTIMAL, s', it') -> pricing C s' = None.
Proof.
  induction fuel as [|fuel IH]; intros mi s it s' it' H; cbn [loop] in H.
  - destruct (it <? mi); [discriminate|]. inversion H.
  - destruct (it <? mi); [|inversion H].
    destruct (step C s) as [| |s1] eqn:Es; [|discriminate|exact (IH _ _ _ _ _ H)].
    inversion H; subst s' it'. exact (step_optimal C s Es).
Qed.

(* reduced costs have the right sign on every arc that is not in the basis, whenever the loop answers OPTIMAL *)
Theorem ns_exit_signs : forall n arcs sup fuel mi s it,
  loop (mk_consts n arcs sup) fuel mi (init_st n arcs sup) 0 = Some (OPTIMAL, s, it) ->
  forall arc, (arc < length arcs + n)%nat ->
    (nz (state s) arc = 1 -> 0 <= redcost (mk_consts n arcs sup) s arc) /\
    (nz (state s) arc = -1 -> redcost (mk_consts n arcs sup) s arc <= 0).
Proof.
  intros n arcs sup fuel mi s it H arc Harc.
  exact (pricing_none _ s (loop_optimal _ _ _ _ _ _ _ H) arc Harc).
Qed.

(* ---------------- from the exit condition to optimality, given the (checkable) consistency of the final state *)
Definition state_ok_b (n : nat) (arcs : list arc) (sup : list Z) (s : st) : bool :=
  forallb (fun k => let x := nz (flow s) k in let sa := nz (state s) k in
             (((sa =? 1) && (x =? 0)) || ((sa =? -1) && (x =? a_cap (nth k arcs arc0)))
              || ((sa =? 0) && (redcost (mk_consts n arcs sup) s k =? 0)))%bool)
          (seq 0 (length arcs)).

Definition ns_final_ok_b (n : nat) (arcs : list arc) (sup : list Z) (s : st) : bool :=
  (valid_arcs n arcs && feasible_b n arcs (supply_b sup) (firstn (length arcs) (flow s))
   && state_ok_b n arcs sup s)%bool.

Lemma nth_firstn_lt {A} (d : A) : forall m l k, (k < m)%nat -> nth k (firstn m l) d = nth k l d.
Proof.
  induction m as [|m IH]; intros l k Hk; [lia|]. destruct l as [|x l]; [reflexivity|].
  destruct k as [|k]; [reflexivity|]. cbn [firstn nth]. apply IH. lia.
Qed.

Lemma redcost_orig n arcs sup s k : (k < length arcs)%nat ->
  redcost (mk_consts n arcs sup) s k =
  rc (fun w => - nz (pi s) w) (nth k arcs arc0).
Proof.
  intros Hk. unfold redcost, rc, mk_consts, nz, nn. cbn [c_cost c_src c_tgt].
  rewrite !app_nth1 by (rewrite map_length; exact Hk).
  change 0 with (a_c arc0) at 1. rewrite (map_nth a_c).
  change 0%nat with (a_u arc0) at 1. rewrite (map_nth a_u).
  change 0%nat with (a_v arc0) at 1. rewrite (map_nth a_v). lia.
Qed.

Theorem ns_optimal_partial : forall n arcs sup fuel mi s it,
  loop (mk_consts n arcs sup) fuel mi (init_st n arcs sup) 0 = Some (OPTIMAL, s, it) ->
  ns_final_ok_b n arcs sup s = true ->
  min_cost n arcs (supply_b sup) (firstn (length arcs) (flow s)).
Proof.
  intros n arcs sup fuel mi s it Hloop Hok. unfold ns_final_ok_b in Hok.
  apply andb_prop in Hok. destruct Hok as [Hok Hst]. apply andb_prop in Hok. destruct Hok as [Hva Hfe].
  apply feasible_b_sound in Hfe. split; [exact Hfe|].
  apply (cert_optimal n arcs _ _ (fun w => - nz (pi s) w) Hva Hfe).
  apply reduced_ok_nth. intros k Hk _. rewrite (nth_firstn_lt 0) by exact Hk.
  unfold state_ok_b in Hst. rewrite forallb_forall in Hst. specialize (Hst k ltac:(apply in_seq; lia)). cbv zeta in Hst.
  destruct (ns_exit_signs n arcs sup fuel mi s it Hloop k ltac:(lia)) as [S1 S2].
  rewrite <- (redcost_orig n arcs sup s k Hk). unfold nz in *.
  apply orb_prop in Hst. destruct Hst as [Hst|Hst]; [apply orb_prop in Hst; destruct Hst as [Hst|Hst]|];
    apply andb_prop in Hst; destruct Hst as [Ha Hb]; apply Z.eqb_eq in Ha; apply Z.eqb_eq in Hb.
  - specialize (S1 Ha). split; [intros _; exact S1|intros Hx; lia].
  - specialize (S2 Ha). split; [intros Hx; lia|intros _; exact S2].
  - rewrite Hb. split; intros _; lia.
Qed.
