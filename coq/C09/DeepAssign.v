(* C09 deepening - solve_assignment, unconditionally: the bipartite network source -> L_i -> R_j -> sink has no cycle
   of positive capacity at all (every arc goes one level up), whatever the cost matrix (negative entries included), so
   min_cost_flow terminates on it and an OPTIMAL answer is a minimum-cost flow of min(n,m) units. *)
From Coq Require Import List ZArith Bool Arith Lia.
From SV Require Import C09.Mcf C09.McfSpec C09.McfCert C09.McfAug C09.McfBF C09.McfProofs C09.McfInfeasible.
From SV Require Import C09.AssignSpec C09.AssignGen C09.AssignProofs.
From SV Require Import C09.DeepWalk C09.DeepOpt C09.DeepTerm.
Import ListNotations.
Open Scope Z_scope.
Import Mcf McfSpec AssignSpec.

Lemma init_res_nth arcs k : (k < length arcs)%nat ->
  nth k (init_res arcs) (0, 0) = (a_cap (nth k arcs arc0), 0).
Proof.
  intros Hk. unfold init_res.
  rewrite (nth_indep _ (0, 0) ((fun a => (a_cap a, 0)) arc0)) by (rewrite map_length; exact Hk).
  exact (map_nth (fun a => (a_cap a, 0)) arcs arc0 k).
Qed.

(* a network all of whose arcs go one level up has no residual cycle before the first augmentation *)
Lemma leveled_nnc arcs (level : nat -> nat) :
  (forall a, In a arcs -> level (a_v a) = S (level (a_u a))) -> NoNegCycle arcs (init_res arcs).
Proof.
  intros Hlev.
  assert (Hedge : forall e, redge arcs (init_res arcs) e -> level (e_head arcs e) = S (level (e_tail arcs e))).
  { intros [k b] [Hk Hpos]. cbn [fst] in Hk. unfold e_res in Hpos. rewrite init_res_nth in Hpos by exact Hk.
    cbn [fst snd] in Hpos. destruct b; [lia|]. unfold e_head, e_tail. cbn [fst snd]. apply Hlev. apply nth_In. exact Hk. }
  assert (Hwalk : forall p a b, rwalk arcs (init_res arcs) a p b -> level b = (level a + length p)%nat).
  { induction p as [|e p IH]; intros a b H.
    - destruct H as [Hc _]. cbn [chain] in Hc. subst b. cbn [length]. lia.
    - apply rwalk_cons_inv in H. destruct H as (Ht & He & H). subst a.
      rewrite (IH _ _ H), (Hedge e He). cbn [length]. lia. }
  intros v p H. specialize (Hwalk p v v H). destruct p as [|e p]; [cbn [pcost]; lia|cbn [length] in Hwalk; lia].
Qed.

Definition alevel (n : nat) (w : nat) : nat :=
  if Nat.eqb w 0 then 0%nat else if Nat.eqb w 1 then 3%nat else if Nat.ltb w (2 + n) then 1%nat else 2%nat.

Lemma assign_nnc n m M : NoNegCycle (assign_arcs n m M) (init_res (assign_arcs n m M)).
Proof.
  apply (leveled_nnc _ (alevel n)). intros a Ha. apply in_assign_arcs in Ha. unfold alevel, nL, nR in *.
  destruct Ha as [(i & Hi & ->)|[(i & j & Hi & Hj & ->)|(j & Hj & ->)]]; unfold a_u, a_v; cbn [fst snd].
  - cbn [Nat.eqb]. destruct (Nat.ltb_spec (2 + i) (2 + n)); [reflexivity|lia].
  - cbn [Nat.eqb plus]. destruct (Nat.ltb_spec (S (S i)) (S (S n))); [|lia].
    destruct (Nat.ltb_spec (S (S (n + j))) (S (S n))); [lia|reflexivity].
  - cbn [Nat.eqb plus]. destruct (Nat.ltb_spec (S (S (n + j))) (S (S n))); [lia|reflexivity].
Qed.

Lemma assign_valid_input n m M :
  valid_input (2 + n + m) (assign_arcs n m M) 0 1 (Z.of_nat (Nat.min n m)) = true.
Proof.
  unfold valid_input.
  assert (Hva : valid_arcs (2 + n + m) (assign_arcs n m M) = true).
  { unfold valid_arcs. apply forallb_forall. intros a Ha.
    destruct (assign_labels n m M a Ha) as [Hu Hv].
    pose proof (assign_caps n m M) as Hc. rewrite Forall_forall in Hc. rewrite (Hc a Ha).
    apply Nat.ltb_lt in Hu. apply Nat.ltb_lt in Hv. rewrite Hu, Hv. reflexivity. }
  rewrite Hva. cbn [andb]. assert (H0 : Nat.ltb 0 (2 + n + m) = true) by (apply Nat.ltb_lt; lia).
  assert (H1 : Nat.ltb 1 (2 + n + m) = true) by (apply Nat.ltb_lt; lia). rewrite H0, H1. cbn [andb Nat.eqb negb].
  apply Z.leb_le. lia.
Qed.

(* solve_assignment never runs out of fuel *)
Theorem assignment_terminates : forall M, solve_assignment M <> None.
Proof.
  intros M. unfold solve_assignment.
  set (n := length M). set (m := match M with [] => O | r :: _ => length r end).
  pose proof (mcf_terminates_nnc _ _ _ _ _ (assign_valid_input n m M) (assign_nnc n m M)) as H. unfold mcf.
  destruct (mcf_run (2 + n + m) (assign_arcs n m M) 0 1 (Z.of_nat (Nat.min n m))) as [k|]; [|contradiction].
  destruct (k_status k); discriminate.
Qed.

(* an OPTIMAL answer: the assignment vector is read off (Mcf.extract) the pooled dictionary d of a per-arc flow f that
   is a MINIMUM-COST flow of min(n,m) units on the assignment network, and the reported cost is that flow's cost *)
Theorem assignment_optimal : forall M r,
  solve_assignment M = Some r -> s_status r = OPTIMAL ->
  exists f d,
    min_cost (2 + rows M + cols M) (assign_arcs (rows M) (cols M) M) (assign_b (rows M) (cols M)) f /\
    pooled (assign_arcs (rows M) (cols M) M) f d /\
    s_assign r = extract (rows M) (cols M) d /\
    s_cost r = flow_cost (assign_arcs (rows M) (cols M) M) f.
Proof.
  intros M r H Hst. unfold solve_assignment in H. fold (rows M) in H. fold (cols M) in H.
  set (n := rows M) in *. set (m := cols M) in *.
  destruct (mcf (2 + n + m) (assign_arcs n m M) 0 1 (Z.of_nat (Nat.min n m))) as [r0|] eqn:Em; [|discriminate].
  inversion H; subst r. cbn [s_status s_assign s_cost] in *.
  destruct (mcf_public_optimal_nnc _ _ _ _ _ r0 (assign_valid_input n m M) (assign_nnc n m M) Em Hst)
    as (f & Hmin & Hpool & Hcost).
  exists f, (r_flows r0). split; [exact Hmin|]. split; [exact Hpool|]. split; [reflexivity|exact Hcost].
Qed.
