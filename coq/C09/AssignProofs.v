(* C09 - solve_assignment: the network has unit capacities and one arc per (u,v) pair; the assignment read off the
   optimal flow is a matching of min(n,m) pairs. *)
From Coq Require Import List ZArith Bool Arith Lia.
From SV Require Import C09.Mcf C09.McfSpec C09.AssignSpec C09.McfCert C09.McfAug C09.McfProofs C09.AssignGen.
Import ListNotations.
Open Scope Z_scope.
Import Mcf McfSpec AssignSpec.

Lemma in_assign_arcs n m M a : In a (assign_arcs n m M) ->
  (exists i, (i < n)%nat /\ a = (0%nat, nL i, 1, 0)) \/
  (exists i j, (i < n)%nat /\ (j < m)%nat /\ a = (nL i, nR n j, 1, nth j (nth i M []) 0)) \/
  (exists j, (j < m)%nat /\ a = (nR n j, 1%nat, 1, 0)).
Proof.
  unfold assign_arcs. intros H. apply in_app_or in H. destruct H as [H|H]; [|apply in_app_or in H; destruct H as [H|H]].
  - left. apply in_map_iff in H. destruct H as (i & <- & Hi). apply in_seq in Hi. exists i. split; [lia|reflexivity].
  - right. left. apply in_flat_map in H. destruct H as (i & Hi & H). apply in_map_iff in H. destruct H as (j & <- & Hj).
    apply in_seq in Hi. apply in_seq in Hj. exists i, j. repeat split; lia.
  - right. right. apply in_map_iff in H. destruct H as (j & <- & Hj). apply in_seq in Hj. exists j. split; [lia|reflexivity].
Qed.

Lemma in_assign_src n m M i : (i < n)%nat -> In (0%nat, nL i, 1, 0) (assign_arcs n m M).
Proof. intros H. unfold assign_arcs. apply in_or_app. left. apply in_map_iff. exists i. split; [reflexivity|apply in_seq; lia]. Qed.

Lemma in_assign_snk n m M j : (j < m)%nat -> In (nR n j, 1%nat, 1, 0) (assign_arcs n m M).
Proof.
  intros H. unfold assign_arcs. apply in_or_app. right. apply in_or_app. right.
  apply in_map_iff. exists j. split; [reflexivity|apply in_seq; lia].
Qed.

Lemma assign_caps n m M : Forall (fun a => a_cap a = 1) (assign_arcs n m M).
Proof.
  apply Forall_forall. intros a H. apply in_assign_arcs in H.
  destruct H as [(i & _ & ->)|[(i & j & _ & _ & ->)|(j & _ & ->)]]; reflexivity.
Qed.

Lemma assign_caps_ok n m M : caps_ok (assign_arcs n m M) = true.
Proof.
  unfold caps_ok. apply forallb_forall. intros a H. pose proof (assign_caps n m M) as Hc.
  rewrite Forall_forall in Hc. rewrite (Hc a H). reflexivity.
Qed.

Lemma assign_labels n m M : labels_lt (2 + n + m) (assign_arcs n m M).
Proof.
  intros a H. apply in_assign_arcs in H. unfold nL, nR in H.
  destruct H as [(i & Hi & ->)|[(i & j & Hi & Hj & ->)|(j & Hj & ->)]]; unfold a_u, a_v; cbn [fst snd]; lia.
Qed.

(* one arc per (u,v) pair *)
Lemma NoDup_app_disj {A} (l1 l2 : list A) :
  NoDup l1 -> NoDup l2 -> (forall x, In x l1 -> In x l2 -> False) -> NoDup (l1 ++ l2).
Proof.
  induction l1 as [|x l1 IH]; intros H1 H2 Hd; [exact H2|].
  inversion H1 as [|? ? Hnotin H1']; subst. cbn [app]. constructor.
  - intros Hin. apply in_app_or in Hin. destruct Hin as [Hin|Hin]; [contradiction|]. apply (Hd x); [left; reflexivity|exact Hin].
  - apply IH; [exact H1'|exact H2|]. intros y Hy1 Hy2. apply (Hd y); [right; exact Hy1|exact Hy2].
Qed.

Lemma NoDup_map_seq {A} (g : nat -> A) a len : (forall i j, g i = g j -> i = j) -> NoDup (map g (seq a len)).
Proof.
  intros Hinj. revert a. induction len as [|len IH]; intros a; cbn [seq map]; constructor; [|apply IH].
  intros Hin. apply in_map_iff in Hin. destruct Hin as (j & Hj & Hin). apply in_seq in Hin. apply Hinj in Hj. lia.
Qed.

Lemma a2_nodup n m (M : list (list Z)) : forall len a,
  NoDup (map akey (flat_map (fun i => map (fun j => (nL i, nR n j, 1, nth j (nth i M []) 0)) (seq 0 m)) (seq a len))).
Proof.
  induction len as [|len IH]; intros a; cbn [seq flat_map map]; [constructor|].
  rewrite map_app. apply NoDup_app_disj; [|apply IH|].
  - rewrite map_map. apply NoDup_map_seq. intros i j H. unfold akey, a_u, a_v, nR in H. cbn [fst snd] in H. inversion H. lia.
  - intros x H1 H2. apply in_map_iff in H1. destruct H1 as (a1 & <- & H1). apply in_map_iff in H1. destruct H1 as (j1 & <- & _).
    apply in_map_iff in H2. destruct H2 as (a2 & Hk & H2). apply in_flat_map in H2. destruct H2 as (i2 & Hi2 & H2).
    apply in_map_iff in H2. destruct H2 as (j2 & <- & _). apply in_seq in Hi2.
    unfold akey, a_u, a_v, nL in Hk. cbn [fst snd] in Hk. inversion Hk. lia.
Qed.

Lemma assign_keys_nodup n m M : NoDup (map akey (assign_arcs n m M)).
Proof.
  unfold assign_arcs. rewrite !map_app, map_map.
  apply NoDup_app_disj; [|apply NoDup_app_disj|].
  - apply NoDup_map_seq. intros i j H. unfold akey, a_u, a_v, nL in H. cbn [fst snd] in H. inversion H. lia.
  - apply a2_nodup.
  - rewrite map_map. apply NoDup_map_seq. intros i j H. unfold akey, a_u, a_v, nR in H. cbn [fst snd] in H. inversion H. lia.
  - intros x H1 H2. apply in_map_iff in H1. destruct H1 as (a1 & <- & H1). apply in_flat_map in H1. destruct H1 as (i1 & _ & H1).
    apply in_map_iff in H1. destruct H1 as (j1 & <- & _).
    apply in_map_iff in H2. destruct H2 as (a2 & Hk & H2). apply in_map_iff in H2. destruct H2 as (j2 & <- & _).
    unfold akey, a_u, a_v, nL, nR in Hk. cbn [fst snd] in Hk. inversion Hk.
  - intros x H1 H2. apply in_map_iff in H1. destruct H1 as (i1 & <- & _).
    apply in_app_or in H2. destruct H2 as [H2|H2].
    + apply in_map_iff in H2. destruct H2 as (a2 & Hk & H2). apply in_flat_map in H2. destruct H2 as (i2 & _ & H2).
      apply in_map_iff in H2. destruct H2 as (j2 & <- & _).
      unfold akey, a_u, a_v, nL, nR in Hk. cbn [fst snd] in Hk. inversion Hk.
    + apply in_map_iff in H2. destruct H2 as (a2 & Hk & H2). apply in_map_iff in H2. destruct H2 as (j2 & <- & _).
      unfold akey, a_u, a_v, nL, nR in Hk. cbn [fst snd] in Hk. inversion Hk.
Qed.

Lemma qual_iff n u v y : qual n (u, v, y) = true <-> (0 < y /\ (2 <= u)%nat /\ (u < 2 + n)%nat /\ (2 + n <= v)%nat).
Proof.
  unfold qual. split.
  - intros H. apply andb_prop in H. destruct H as [H H4]. apply andb_prop in H. destruct H as [H H3].
    apply andb_prop in H. destruct H as [H1 H2].
    apply Z.ltb_lt in H1. apply Nat.leb_le in H2. apply Nat.ltb_lt in H3. apply Nat.leb_le in H4. auto.
  - intros (H1 & H2 & H3 & H4). apply Z.ltb_lt in H1. apply Nat.leb_le in H2. apply Nat.ltb_lt in H3. apply Nat.leb_le in H4.
    rewrite H1, H2, H3, H4. reflexivity.
Qed.

Section Main.
Variables (n m : nat) (M : list (list Z)).
Let arcs := assign_arcs n m M.
Let N := (2 + n + m)%nat.
Let D := Z.of_nat (Nat.min n m).
Variable f : list Z.
Variable d : list (nat * nat * Z).
Hypothesis Hb : bounded arcs f.
Hypothesis Hnet : forall w, netout arcs f w = demand_b 0 1 D w.
Hypothesis Hpool : pooled arcs f d.
Hypothesis Hnd : NoDup (map dkey d).
Let P := pair_sum arcs f.
Let asg := extract n m d.

Lemma P_nonneg u v : 0 <= P u v.
Proof. apply pair_sum_nonneg. exact Hb. Qed.

Lemma P_arc u v : P u v <> 0 ->
  (exists i, (i < n)%nat /\ u = 0%nat /\ v = nL i) \/
  (exists i j, (i < n)%nat /\ (j < m)%nat /\ u = nL i /\ v = nR n j) \/
  (exists j, (j < m)%nat /\ u = nR n j /\ v = 1%nat).
Proof.
  intros H. destruct (pair_sum_pos_arc arcs f u v H) as (a & Ha & Hu & Hv). apply in_assign_arcs in Ha.
  destruct Ha as [(i & Hi & ->)|[(i & j & Hi & Hj & ->)|(j & Hj & ->)]]; unfold a_u, a_v in Hu, Hv; cbn [fst snd] in Hu, Hv; subst u v.
  - left. exists i. auto.
  - right. left. exists i, j. auto.
  - right. right. exists j. auto.
Qed.

Lemma P_lt u v : P u v <> 0 -> (u < N)%nat /\ (v < N)%nat.
Proof.
  intros H. destruct (pair_sum_pos_arc arcs f u v H) as (a & Ha & Hu & Hv). subst u v. exact (assign_labels n m M a Ha).
Qed.

Lemma P_src i : (i < n)%nat -> P 0%nat (nL i) <= 1.
Proof. intros Hi. exact (pair_sum_le_cap arcs f (0%nat, nL i, 1, 0) (assign_keys_nodup n m M) Hb (in_assign_src n m M i Hi)). Qed.

Lemma P_snk j : (j < m)%nat -> P (nR n j) 1%nat <= 1.
Proof. intros Hj. exact (pair_sum_le_cap arcs f (nR n j, 1%nat, 1, 0) (assign_keys_nodup n m M) Hb (in_assign_snk n m M j Hj)). Qed.

Lemma row_sum i : (i < n)%nat -> zsumf (P (nL i)) N = P 0%nat (nL i).
Proof.
  intros Hi. pose proof (netout_pairs N arcs f (nL i) (assign_labels n m M)) as H. rewrite Hnet in H.
  assert (Hd0 : demand_b 0 1 D (nL i) = 0) by reflexivity. rewrite Hd0 in H.
  rewrite (zsumf_single (fun u => pair_sum arcs f u (nL i)) N 0%nat) in H; [cbv beta in H; unfold P; lia|unfold N; lia|].
  intros u _ Hu. destruct (Z.eq_dec (pair_sum arcs f u (nL i)) 0) as [|Hne]; [assumption|]. exfalso.
  destruct (P_arc u (nL i) Hne) as [(i' & _ & Hu' & _)|[(i' & j & Hi' & _ & _ & Hv)|(j & _ & _ & Hv)]]; unfold nL, nR in *; lia.
Qed.

Lemma col_sum j : (j < m)%nat -> zsumf (fun u => P u (nR n j)) N = P (nR n j) 1%nat.
Proof.
  intros Hj. pose proof (netout_pairs N arcs f (nR n j) (assign_labels n m M)) as H. rewrite Hnet in H.
  assert (Hd0 : demand_b 0 1 D (nR n j) = 0) by reflexivity. rewrite Hd0 in H.
  rewrite (zsumf_single (pair_sum arcs f (nR n j)) N 1%nat) in H; [cbv beta in H; unfold P; lia|unfold N; lia|].
  intros v _ Hv. destruct (Z.eq_dec (pair_sum arcs f (nR n j) v) 0) as [|Hne]; [assumption|]. exfalso.
  destruct (P_arc (nR n j) v Hne) as [(i' & _ & Hu' & _)|[(i' & j' & Hi' & _ & Hu' & _)|(j' & _ & _ & Hv')]]; unfold nL, nR in *; lia.
Qed.

Lemma entry_val u v y : In (u, v, y) d -> y = P u v.
Proof.
  intros Hin. pose proof (dict_get_nodup d u v y Hnd Hin) as Hg. specialize (Hpool u v). unfold get0 in Hpool.
  rewrite Hg in Hpool. exact Hpool.
Qed.

Lemma entry_of_pos u v : P u v <> 0 -> In (u, v, P u v) d.
Proof.
  intros H. specialize (Hpool u v). unfold get0 in Hpool. fold P in Hpool.
  destruct (dict_get d u v) as [y|] eqn:E; [|congruence]. subst y. apply dict_get_in. exact E.
Qed.

Lemma d_row_unique : row_unique n d.
Proof.
  intros u v y v' y' H1 H2 Q1 Q2. apply qual_iff in Q1. apply qual_iff in Q2.
  destruct Q1 as (Hy & Hu1 & Hu2 & _). destruct Q2 as (Hy' & _ & _ & _).
  rewrite (entry_val _ _ _ H1) in Hy. rewrite (entry_val _ _ _ H2) in Hy'.
  destruct (Nat.eq_dec v v') as [|Hne]; [assumption|]. exfalso.
  destruct (P_lt u v ltac:(lia)) as [_ Hv]. destruct (P_lt u v' ltac:(lia)) as [_ Hv'].
  pose proof (zsumf_ge_two (P u) N v v' (fun w _ => P_nonneg u w) Hv Hv' Hne) as H.
  assert (Hu : u = nL (u - 2)) by (unfold nL; lia). rewrite Hu in H at 3.
  rewrite row_sum in H by lia. pose proof (P_src (u - 2) ltac:(lia)). rewrite <- Hu in *. lia.
Qed.

Definition has_entry (i : nat) : bool :=
  existsb (fun x => (qual n x && Nat.eqb (fst (fst x) - 2) i)%bool) d.

Lemma asg_cases i : (i < n)%nat ->
  (nth i asg (-1) = -1 /\ P 0%nat (nL i) = 0) \/
  (exists j, (j < m)%nat /\ nth i asg (-1) = Z.of_nat j /\ 1 <= P (nL i) (nR n j) /\ P 0%nat (nL i) = 1).
Proof.
  intros Hi. unfold asg. rewrite extract_fold. destruct (has_entry i) eqn:E.
  - right. apply existsb_exists in E. destruct E as ([[u v] y] & Hin & Hq). apply andb_prop in Hq. destruct Hq as [Q Hu].
    cbn [fst] in Hu. apply Nat.eqb_eq in Hu.
    rewrite (fold_estep_some n i d _ u v y d_row_unique ltac:(rewrite repeat_length; exact Hi) Hin Q Hu).
    pose proof Q as Q'. apply qual_iff in Q'. destruct Q' as (Hy & Hu1 & Hu2 & Hv).
    rewrite (entry_val _ _ _ Hin) in Hy.
    assert (Hun : u = nL i) by (unfold nL; lia). subst u.
    destruct (P_arc (nL i) v ltac:(lia)) as [(i' & _ & Hu' & _)|[(i' & j & Hi' & Hj & Hu' & Hv')|(j & _ & Hu' & _)]];
      try (unfold nL, nR in *; lia).
    exists j. split; [exact Hj|]. subst v. split; [f_equal; unfold nR; lia|]. split; [lia|].
    pose proof (zsumf_ge_term (P (nL i)) N (nR n j) (fun w _ => P_nonneg (nL i) w) ltac:(unfold N, nR; lia)) as H.
    rewrite row_sum in H by exact Hi. pose proof (P_src i Hi). lia.
  - left. split.
    + rewrite fold_estep_none.
      * clear. revert i. induction n as [|k IH]; intros [|i]; cbn [repeat nth]; auto.
      * intros u v y Hin Q Hu.
        assert (Ht : has_entry i = true).
        { apply existsb_exists. exists (u, v, y). split; [exact Hin|]. rewrite Q. cbn [fst andb]. apply Nat.eqb_eq. exact Hu. }
        rewrite Ht in E. discriminate.
    + destruct (Z.eq_dec (P 0%nat (nL i)) 0) as [|Hne]; [assumption|]. exfalso.
      pose proof (P_nonneg 0%nat (nL i)) as H0.
      assert (Hs : 1 <= zsumf (P (nL i)) N) by (rewrite row_sum by exact Hi; lia).
      destruct (zsumf_pos_ex _ _ Hs) as (v & Hv & Hpv).
      pose proof (entry_of_pos (nL i) v Hpv) as Hin. pose proof (P_nonneg (nL i) v) as Hnn.
      assert (Q : qual n (nL i, v, P (nL i) v) = true).
      { apply qual_iff. destruct (P_arc (nL i) v Hpv) as [(i' & _ & Hu' & _)|[(i' & j & Hi' & Hj & Hu' & Hv')|(j & _ & Hu' & _)]];
          unfold nL, nR in *; lia. }
      assert (Ht : has_entry i = true).
      { apply existsb_exists. exists (nL i, v, P (nL i) v). split; [exact Hin|]. rewrite Q. cbn [fst andb]. apply Nat.eqb_eq. unfold nL. lia. }
      rewrite Ht in E. discriminate.
Qed.

Lemma count_rows : zsumf (fun i => P 0%nat (nL i)) n = D.
Proof.
  pose proof (netout_pairs N arcs f 0%nat (assign_labels n m M)) as H. rewrite Hnet in H.
  unfold demand_b in H. cbn [Nat.eqb] in H.
  rewrite (zsumf_all_zero (fun u => pair_sum arcs f u 0%nat) N) in H.
  2:{ intros u _. destruct (Z.eq_dec (pair_sum arcs f u 0%nat) 0) as [|Hne]; [assumption|]. exfalso.
      destruct (P_arc u 0%nat Hne) as [(i' & _ & _ & Hv)|[(i' & j & _ & _ & _ & Hv)|(j & _ & _ & Hv)]]; unfold nL, nR in *; lia. }
  fold P in H. unfold N in H. rewrite (zsumf_app (P 0%nat) (2 + n) m) in H. rewrite (zsumf_app (P 0%nat) 2 n) in H.
  rewrite (zsumf_all_zero (fun k => P 0%nat (2 + n + k)%nat) m) in H.
  2:{ intros k _. destruct (Z.eq_dec (P 0%nat (2 + n + k)%nat) 0) as [|Hne]; [assumption|]. exfalso.
      destruct (P_arc 0%nat _ Hne) as [(i' & Hi' & _ & Hv)|[(i' & j & _ & _ & Hu & _)|(j & _ & Hu & _)]]; unfold nL, nR in *; lia. }
  rewrite (zsumf_all_zero (P 0%nat) 2) in H.
  2:{ intros k Hk. destruct (Z.eq_dec (P 0%nat k) 0) as [|Hne]; [assumption|]. exfalso.
      destruct (P_arc 0%nat _ Hne) as [(i' & Hi' & _ & Hv)|[(i' & j & _ & _ & Hu & _)|(j & _ & Hu & _)]]; unfold nL, nR in *; lia. }
  rewrite <- (zsumf_ext (fun k => P 0%nat (2 + k)%nat) (fun i => P 0%nat (nL i)) n) by (intros; reflexivity). lia.
Qed.

Theorem extract_matching : matching n m asg.
Proof.
  constructor.
  - unfold asg. rewrite extract_fold, fold_estep_length. apply repeat_length.
  - intros i Hi. destruct (asg_cases i Hi) as [[H _]|(j & Hj & H & _)]; [left; exact H|right; rewrite H; lia].
  - intros i i' Hi Hi' Hne Heq.
    destruct (asg_cases i Hi) as [[H _]|(j & Hj & H & Hp & _)]; [contradiction|].
    destruct (asg_cases i' Hi') as [[H' _]|(j' & Hj' & H' & Hp' & _)]; [rewrite H, H' in Heq; lia|].
    assert (j = j') by (rewrite H, H' in Heq; lia). subst j'.
    destruct (Nat.eq_dec i i') as [|Hii]; [assumption|]. exfalso.
    pose proof (zsumf_ge_two (fun u => P u (nR n j)) N (nL i) (nL i') (fun w _ => P_nonneg w (nR n j))
                  ltac:(unfold N, nL; lia) ltac:(unfold N, nL; lia) ltac:(unfold nL; lia)) as Hs.
    cbv beta in Hs. rewrite col_sum in Hs by exact Hj. pose proof (P_snk j Hj). lia.
  - transitivity (zsumf (fun i => P 0%nat (nL i)) n); [|exact count_rows]. apply zsumf_ext. intros i Hi. unfold assigned.
    destruct (asg_cases i Hi) as [[H H0]|(j & Hj & H & _ & H1)]; rewrite H.
    + cbn. symmetry. exact H0.
    + destruct (Z.eqb_spec (Z.of_nat j) (-1)); [lia|]. symmetry. exact H1.
Qed.

End Main.

(* (6) solve_assignment = min_cost_flow on a network with unit capacities; the result is a matching of min(n,m) pairs *)
Theorem assignment_matching : forall M r,
  solve_assignment M = Some r -> s_status r = OPTIMAL ->
  Forall (fun a => a_cap a = 1) (assign_arcs (rows M) (cols M) M) /\
  matching (rows M) (cols M) (s_assign r).
Proof.
  intros M r H Hst. split; [apply assign_caps|].
  unfold solve_assignment in H. fold (rows M) in H. fold (cols M) in H.
  set (n := rows M) in *. set (m := cols M) in *.
  destruct (mcf (2 + n + m) (assign_arcs n m M) 0 1 (Z.of_nat (Nat.min n m))) as [r0|] eqn:Em; [|discriminate].
  inversion H; subst r. cbn [s_status s_assign] in *.
  unfold mcf in Em. destruct (mcf_run (2 + n + m) (assign_arcs n m M) 0 1 (Z.of_nat (Nat.min n m))) as [k|] eqn:Ek; [|discriminate].
  destruct (k_status k) eqn:Es; inversion Em; subst r0; cbn [r_status r_flows] in *; [|discriminate].
  destruct (mcf_run_sound _ _ _ _ _ _ (assign_caps_ok n m M) (Nat2Z.is_nonneg _) Ek) as (Hinv & _ & Hnet & _ & Hopt & _).
  apply (extract_matching n m M (flows (k_res k))).
  - apply resinv_bounded. exact Hinv.
  - intros w. rewrite Hnet, (Hopt Es). reflexivity.
  - intros u v. rewrite pool_get0; [reflexivity|]. apply (resinv_nonneg (assign_arcs n m M)). exact Hinv.
  - apply pool_nodup. constructor.
Qed.

(* the checker run on every implementation answer of solve_assignment *)
Theorem assignment_check_sound : forall M asg cost pi,
  assignment_check M asg cost pi = true ->
  length asg = rows M /\
  min_cost (2 + rows M + cols M) (assign_arcs (rows M) (cols M) M) (assign_b (rows M) (cols M)) (asg_flow (rows M) (cols M) asg) /\
  cost = flow_cost (assign_arcs (rows M) (cols M) M) (asg_flow (rows M) (cols M) asg).
Proof.
  intros M asg cost pi H. unfold assignment_check in H.
  apply andb_prop in H. destruct H as [H H4]. apply andb_prop in H. destruct H as [H H3].
  apply andb_prop in H. destruct H as [H1 _].
  apply Nat.eqb_eq in H1. apply Z.eqb_eq in H4. split; [exact H1|]. split; [|exact H4].
  exact (cert_check_sound _ _ _ _ _ H3).
Qed.
