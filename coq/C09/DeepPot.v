(* C09 deepening - node potentials and negative cycles:
   reduced_ok pi arcs (flows res)  <->  pi(head) <= pi(tail) + cost on every residual edge of positive capacity;
   such potentials exclude negative residual cycles, and conversely a residual graph without negative cycle HAS
   such potentials (Bellman-Ford labels with every node as a source, by DeepBF.bf_final). *)
From Coq Require Import List ZArith Bool Arith Lia.
From SV Require Import C09.Mcf C09.McfSpec C09.McfCert C09.McfAug C09.McfBF C09.DeepWalk C09.DeepBF C09.DeepPar.
Import ListNotations.
Open Scope Z_scope.
Import Mcf McfSpec.

Definition pot_ok (arcs : list arc) (res : resid) (pi : nat -> Z) : Prop :=
  forall e, redge arcs res e -> pi (e_head arcs e) <= pi (e_tail arcs e) + e_cost arcs e.

Lemma reduced_ok_nth pi : forall arcs f,
  (forall k, (k < length arcs)%nat -> (k < length f)%nat ->
     (nth k f 0 < a_cap (nth k arcs arc0) -> 0 <= rc pi (nth k arcs arc0)) /\
     (0 < nth k f 0 -> rc pi (nth k arcs arc0) <= 0)) ->
  reduced_ok pi arcs f.
Proof.
  induction arcs as [|a arcs IH]; intros f H; [exact I|]. destruct f as [|x f]; [exact I|].
  cbn [reduced_ok]. destruct (H 0%nat ltac:(cbn; lia) ltac:(cbn; lia)) as [H1 H2]. cbn [nth] in H1, H2.
  split; [exact H1|]. split; [exact H2|]. apply IH. intros k Hk Hf.
  exact (H (S k) ltac:(cbn [length]; lia) ltac:(cbn [length]; lia)).
Qed.

Lemma reduced_ok_nth_inv pi : forall arcs f, reduced_ok pi arcs f ->
  forall k, (k < length arcs)%nat -> (k < length f)%nat ->
     (nth k f 0 < a_cap (nth k arcs arc0) -> 0 <= rc pi (nth k arcs arc0)) /\
     (0 < nth k f 0 -> rc pi (nth k arcs arc0) <= 0).
Proof.
  induction arcs as [|a arcs IH]; intros f H k Hk Hf; [cbn in Hk; lia|].
  destruct f as [|x f]; [cbn in Hf; lia|]. cbn [reduced_ok] in H. destruct H as (H1 & H2 & H).
  destruct k as [|k]; [cbn [nth]; split; assumption|].
  cbn [nth]. apply IH; [exact H|cbn [length] in Hk; lia|cbn [length] in Hf; lia].
Qed.

Lemma nth_flows res k : nth k (flows res) 0 = snd (nth k res (0, 0)).
Proof. unfold flows. change 0 with (snd (0, 0)) at 1. apply map_nth. Qed.

Lemma pot_ok_reduced arcs res pi : ResInv arcs res -> pot_ok arcs res pi -> reduced_ok pi arcs (flows res).
Proof.
  intros [Hlen Hinv] Hp. apply reduced_ok_nth. intros k Hk _. rewrite nth_flows.
  destruct (Hinv k Hk) as (Hsum & Hf & Hb). split.
  - intros Hx. assert (He : redge arcs res (k, false)).
    { split; [exact Hk|]. unfold e_res. cbn [fst snd]. lia. }
    specialize (Hp _ He). unfold e_head, e_tail, e_cost in Hp. cbn [fst snd] in Hp. unfold rc. lia.
  - intros Hx. assert (He : redge arcs res (k, true)).
    { split; [exact Hk|]. unfold e_res. cbn [fst snd]. lia. }
    specialize (Hp _ He). unfold e_head, e_tail, e_cost in Hp. cbn [fst snd] in Hp. unfold rc. lia.
Qed.

Lemma reduced_pot_ok arcs res pi : ResInv arcs res -> reduced_ok pi arcs (flows res) -> pot_ok arcs res pi.
Proof.
  intros [Hlen Hinv] Hr [k b] [Hk Hpos]. cbn [fst] in Hk.
  destruct (reduced_ok_nth_inv pi arcs (flows res) Hr k Hk) as [H1 H2].
  { unfold flows. rewrite map_length. lia. }
  rewrite nth_flows in H1, H2. destruct (Hinv k Hk) as (Hsum & Hf & Hb).
  unfold e_res in Hpos. unfold e_head, e_tail, e_cost. cbn [fst snd] in *. unfold rc in *.
  destruct b.
  - specialize (H2 Hpos). lia.
  - specialize (H1 ltac:(lia)). lia.
Qed.

Lemma pot_ok_nnc arcs res pi : pot_ok arcs res pi -> NoNegCycle arcs res.
Proof. exact (potentials_nnc arcs res pi). Qed.

(* the input hypothesis of the full statement: potentials pi0 for the zero flow *)
Lemma flows_init arcs : flows (init_res arcs) = map (fun _ => 0) arcs.
Proof. apply init_res_flows. Qed.

Lemma input_nnc n arcs pi0 : valid_arcs n arcs = true ->
  reduced_b (pot pi0) arcs (map (fun _ => 0) arcs) = true -> NoNegCycle arcs (init_res arcs).
Proof.
  intros Hva Hr. apply (pot_ok_nnc arcs (init_res arcs) (pot pi0)).
  apply reduced_pot_ok.
  - apply init_res_inv. unfold valid_arcs in Hva. rewrite forallb_forall in *. intros a Ha.
    specialize (Hva a Ha). apply andb_prop in Hva. exact (proj2 Hva).
  - rewrite flows_init. apply reduced_b_sound. exact Hr.
Qed.

(* ---------------- the converse: no negative cycle => potentials exist *)
Definition lab (d : list (option Z)) (w : nat) : Z := match nth w d None with Some x => x | None => 0 end.

Lemma nth_repeat_some n i : (i < n)%nat -> nth i (repeat (Some 0) n) None = Some 0.
Proof. revert i. induction n as [|n IH]; intros [|i] H; cbn [repeat nth]; try lia; [reflexivity|]. apply IH. lia. Qed.

Lemma nth_repeat_some_inv n i x : nth i (repeat (Some 0) n) None = Some x -> x = 0 /\ (i < n)%nat.
Proof.
  revert i. induction n as [|n IH]; intros [|i] H; cbn [repeat nth] in H; try discriminate.
  - inversion H. split; [reflexivity|lia].
  - destruct (IH _ H). split; [assumption|lia].
Qed.

Theorem nnc_potentials : forall n arcs res,
  valid_arcs n arcs = true -> length res = length arcs -> NoNegCycle arcs res ->
  exists pi, pot_ok arcs res pi.
Proof.
  intros n arcs res Hva Hlen Hnn.
  destruct (bf_rounds (n - 1) (res_edges 0 arcs res) (repeat (Some 0) n) (repeat None n)) as [d p] eqn:E.
  destruct (bf_final arcs res n (fun a => (a < n)%nat) (res_edges 0 arcs res) (res_edges_ok arcs res)
              (fun e => res_edges_complete arcs res e Hlen)
              (fun e Hk => proj2 (valid_arcs_ends n arcs Hva e Hk))
              (repeat (Some 0) n) (repeat None n) d p Hnn)
    as (H1 & H2 & H3 & H4 & H5); try assumption.
  - auto.
  - apply repeat_length.
  - intros v dv H. apply nth_repeat_some_inv in H. destruct H as [-> Hv].
    exists v, []. split; [exact Hv|]. split; [apply rwalk_nil|reflexivity].
  - intros a q v Ha [Hc _] Hl. destruct q as [|e q]; [|cbn [length] in Hl; lia].
    cbn [chain] in Hc. subst v. exists 0. split; [apply nth_repeat_some; exact Ha|cbn [pcost]; lia].
  - exists (lab d). intros e He.
    destruct (valid_arcs_ends n arcs Hva e (proj1 He)) as [Ht _].
    destruct (proj2 H5 _ _ (nth_repeat_some n _ Ht)) as (du & Edu & _).
    destruct (H4 e du He Edu) as (dv & Edv & Hle). unfold lab. rewrite Edu, Edv. exact Hle.
Qed.

(* boolean test for "no negative cycle" on a residual graph: run the same relaxation from all-zero labels for n
   rounds and test the resulting labels as potentials.  Sound by pot_ok_nnc, complete by bf_final. *)
Definition pot_ok_b (arcs : list arc) (res : resid) (d : list (option Z)) : bool :=
  forallb (fun x => let '(e, u, v, c, r) := x in
             if 0 <? r then match nth u d None, nth v d None with
                            | Some du, Some dv => dv <=? du + c
                            | _, _ => false
                            end
             else true) (res_edges 0 arcs res).

Definition no_neg_cycle_b (n : nat) (arcs : list arc) (res : resid) : bool :=
  pot_ok_b arcs res (fst (bf_rounds (n - 1) (res_edges 0 arcs res) (repeat (Some 0) n) (repeat None n))).

Lemma pot_ok_b_sound arcs res d : length res = length arcs -> pot_ok_b arcs res d = true -> pot_ok arcs res (lab d).
Proof.
  intros Hlen H e [Hk Hpos]. unfold pot_ok_b in H. rewrite forallb_forall in H.
  specialize (H _ (res_edges_complete arcs res e Hlen Hk)). cbv beta iota in H.
  apply Z.ltb_lt in Hpos. rewrite Hpos in H. unfold lab.
  destruct (nth (e_tail arcs e) d None) as [du|]; [|discriminate].
  destruct (nth (e_head arcs e) d None) as [dv|]; [|discriminate]. apply Z.leb_le in H. exact H.
Qed.

Theorem no_neg_cycle_b_sound n arcs res : length res = length arcs ->
  no_neg_cycle_b n arcs res = true -> NoNegCycle arcs res.
Proof. intros Hlen H. exact (pot_ok_nnc arcs res _ (pot_ok_b_sound arcs res _ Hlen H)). Qed.

Theorem no_neg_cycle_b_complete n arcs res : valid_arcs n arcs = true -> length res = length arcs ->
  NoNegCycle arcs res -> no_neg_cycle_b n arcs res = true.
Proof.
  intros Hva Hlen Hnn. unfold no_neg_cycle_b.
  destruct (bf_rounds (n - 1) (res_edges 0 arcs res) (repeat (Some 0) n) (repeat None n)) as [d p] eqn:E.
  destruct (bf_final arcs res n (fun a => (a < n)%nat) (res_edges 0 arcs res) (res_edges_ok arcs res)
              (fun e => res_edges_complete arcs res e Hlen)
              (fun e Hk => proj2 (valid_arcs_ends n arcs Hva e Hk))
              (repeat (Some 0) n) (repeat None n) d p Hnn)
    as (H1 & H2 & H3 & H4 & H5); try assumption.
  - auto.
  - apply repeat_length.
  - intros v dv H. apply nth_repeat_some_inv in H. destruct H as [-> Hv].
    exists v, []. split; [exact Hv|]. split; [apply rwalk_nil|reflexivity].
  - intros a q v Ha [Hc _] Hl. destruct q as [|e q]; [|cbn [length] in Hl; lia].
    cbn [chain] in Hc. subst v. exists 0. split; [apply nth_repeat_some; exact Ha|cbn [pcost]; lia].
  - cbn [fst]. unfold pot_ok_b. apply forallb_forall. intros [[[[e u] v] c] r] Hin.
    destruct (res_edges_ok arcs res _ Hin) as (Hu & Hv & Hc & Hr & Hk).
    destruct (Z.ltb_spec 0 r) as [Hpos|]; [|reflexivity].
    destruct (valid_arcs_ends n arcs Hva e Hk) as [Ht _].
    destruct (proj2 H5 _ _ (nth_repeat_some n _ Ht)) as (du & Edu & _).
    assert (He : redge arcs res e) by (split; [exact Hk|rewrite <- Hr; exact Hpos]).
    destruct (H4 e du He Edu) as (dv & Edv & Hle). rewrite Hu, Hv, Edu, Edv, Hc. apply Z.leb_le. exact Hle.
Qed.
