(* C09 deepening, round 2 - network_simplex: the re-hang traversal, abstractly.
   Given a target rooted structure (np = new parent, npred = new pred arc) on a node set Sset hanging below a node
   pnode outside Sset, such that the adjacency lists restricted to Sset list exactly npred v and the npred arcs of the
   np-children of v, the stack traversal started at q (np q = pnode) writes parent = np, pred = npred on Sset,
   sets depth and potential of every node of Sset from its new parent, and touches nothing outside Sset. *)
From Coq Require Import List ZArith Bool Arith Lia.
From SV Require Import C09.Mcf C09.McfSpec C09.McfAug C09.NetSimplex C09.DeepNS2Base.
Import ListNotations.
Open Scope Z_scope.
Import Mcf McfSpec NetSimplex.

Lemma NoDup_app_intro {A} (l1 l2 : list A) : NoDup l1 -> NoDup l2 -> (forall x, In x l1 -> ~ In x l2) -> NoDup (l1 ++ l2).
Proof.
  induction l1 as [|a l1 IH]; intros H1 H2 Hd; [exact H2|]. inversion H1 as [|? ? Hna H1']; subst. cbn [app]. constructor.
  - intros Hin. apply in_app_or in Hin. destruct Hin as [Hin|Hin]; [contradiction|]. exact (Hd a (or_introl eq_refl) Hin).
  - apply IH; [exact H1'|exact H2|]. intros x Hx. apply Hd. right. exact Hx.
Qed.

Lemma NoDup_filter {A} (p : A -> bool) : forall l, NoDup l -> NoDup (filter p l).
Proof.
  induction l as [|a l IH]; intros H; [constructor|]. inversion H as [|? ? Hna H']; subst. cbn [filter].
  destruct (p a); [constructor; [|apply IH; exact H']|apply IH; exact H'].
  intros Hin. apply filter_In in Hin. destruct Hin as [Hin _]. contradiction.
Qed.

Section Rehang.
Variable C : consts.
Local Notation n := (c_n C).
Local Notation src a := (nn (c_src C) a).
Local Notation tgt a := (nn (c_tgt C) a).
Local Notation cst a := (nz (c_cost C) a).

(* the inner `for child_arc in tree_adj[node]` loop *)
Definition cstep (node arc : nat) (acc : list nat * list nat * list nat) (ca : nat) : list nat * list nat * list nat :=
  let '(pa, pr, sk) := acc in
  if Nat.eqb ca arc then acc
  else (upd pa (other C ca node) node, upd pr (other C ca node) ca, other C ca node :: sk).

Lemma cfold_spec node arc : forall L pa pr sk,
  snd (fold_left (cstep node arc) L (pa, pr, sk)) =
    rev (map (fun a => other C a node) (filter (fun a => negb (Nat.eqb a arc)) L)) ++ sk /\
  length (fst (fst (fold_left (cstep node arc) L (pa, pr, sk)))) = length pa /\
  length (snd (fst (fold_left (cstep node arc) L (pa, pr, sk)))) = length pr /\
  (forall v, (forall a, In a L -> a <> arc -> other C a node <> v) ->
     nn (fst (fst (fold_left (cstep node arc) L (pa, pr, sk)))) v = nn pa v /\
     nn (snd (fst (fold_left (cstep node arc) L (pa, pr, sk)))) v = nn pr v) /\
  (forall a, In a L -> a <> arc -> (other C a node < length pa)%nat -> (other C a node < length pr)%nat ->
     (forall a', In a' L -> a' <> arc -> other C a' node = other C a node -> a' = a) ->
     nn (fst (fst (fold_left (cstep node arc) L (pa, pr, sk)))) (other C a node) = node /\
     nn (snd (fst (fold_left (cstep node arc) L (pa, pr, sk)))) (other C a node) = a).
Proof.
  induction L as [|a0 L IH]; intros pa pr sk; cbn [fold_left].
  - cbn [filter map rev app fst snd]. split; [reflexivity|]. split; [reflexivity|]. split; [reflexivity|].
    split; [intros; split; reflexivity|intros a []].
  - unfold cstep at 2 4 6 8 10 12 14. cbn [filter]. destruct (Nat.eqb_spec a0 arc) as [E0|E0]; cbn [negb].
    + destruct (IH pa pr sk) as (I1 & I2 & I3 & I4 & I5). split; [exact I1|]. split; [exact I2|]. split; [exact I3|]. split.
      * intros v Hv. apply I4. intros a Ha. apply Hv. right. exact Ha.
      * intros a [->|Ha] Hne; [contradiction|]. intros H1 H2 Hu. apply I5; try assumption.
        intros a' Ha'. apply Hu. right. exact Ha'.
    + set (c0 := other C a0 node).
      destruct (IH (upd pa c0 node) (upd pr c0 a0) (c0 :: sk)) as (I1 & I2 & I3 & I4 & I5).
      rewrite !length_upd in *. split.
      { rewrite I1. cbn [map rev]. rewrite <- app_assoc. reflexivity. }
      split; [exact I2|]. split; [exact I3|]. split.
      * intros v Hv. destruct (I4 v) as [J1 J2]; [intros a Ha; apply Hv; right; exact Ha|].
        rewrite J1, J2. assert (c0 <> v) by (apply Hv; [left; reflexivity|exact E0]).
        rewrite !nn_upd_other by congruence. split; reflexivity.
      * intros a Ha Hne H1 H2 Hu.
        destruct (in_dec Nat.eq_dec a L) as [HaL|HaL].
        { apply I5; try assumption. intros a' Ha'. apply Hu. right. exact Ha'. }
        destruct Ha as [->|Ha]; [|contradiction]. fold c0.
        destruct (I4 c0) as [J1 J2].
        { intros a' Ha' Hne' E. apply HaL. rewrite <- (Hu a' (or_intror Ha') Hne' E). exact Ha'. }
        rewrite J1, J2. fold c0 in H1, H2. rewrite !nn_upd_same by assumption. split; reflexivity.
Qed.

Variable adj : list (list nat).
Variable Sset : nat -> Prop.
Variables np npred : nat -> nat.
Variables q pnode : nat.
Variable rk : nat -> Z.
Variables par1 prd1 : list nat.
Variables dep0 pi0 : list Z.

Hypothesis Hl1 : length par1 = S n.
Hypothesis Hl2 : length prd1 = S n.
Hypothesis Hl3 : length dep0 = S n.
Hypothesis Hl4 : length pi0 = S n.
Hypothesis HSlt : forall v, Sset v -> (v < n)%nat.
Hypothesis Hp : ~ Sset pnode.
Hypothesis Hq : Sset q.
Hypothesis Hnpq : np q = pnode.
Hypothesis Hnp : forall v, Sset v -> v <> q -> Sset (np v).
Hypothesis Hrk : forall v, Sset v -> Sset (np v) -> 0 <= rk (np v) < rk v.
Hypothesis Hadj_child : forall v a, Sset v -> In a (nth v adj []) -> a <> npred v ->
  exists c, Sset c /\ np c = v /\ npred c = a /\ other C a v = c.
Hypothesis Hadj_all : forall c, Sset c -> Sset (np c) -> In (npred c) (nth (np c) adj []) /\ npred c <> npred (np c).
Hypothesis Hadj_nd : forall v, Sset v -> NoDup (nth v adj []).
Hypothesis Hinj : forall c1 c2, Sset c1 -> Sset c2 -> npred c1 = npred c2 -> c1 = c2.
Hypothesis Hdp : 0 <= nz dep0 pnode.
Hypothesis Hq1 : nn par1 q = pnode.
Hypothesis Hq2 : nn prd1 q = npred q.

Lemma np_ne v : Sset v -> np v <> v.
Proof.
  intros Hv E. destruct (Nat.eq_dec v q) as [->|Hne]; [rewrite Hnpq in E; rewrite E in Hp; contradiction|].
  pose proof (Hrk v Hv (Hnp v Hv Hne)) as H. rewrite E in H. lia.
Qed.

Definition pi_rel (p : list Z) (d : nat) : Prop :=
  nz p d = if Nat.eqb (src (npred d)) d then nz p (np d) + cst (npred d) else nz p (np d) - cst (npred d).

Record RI (K D : list nat) (par prd : list nat) (dep p : list Z) : Prop := {
  r_l1 : length par = S n; r_l2 : length prd = S n; r_l3 : length dep = S n; r_l4 : length p = S n;
  r_nd : NoDup K;
  r_K : forall k, In k K -> Sset k /\ ~ In k D /\ nn par k = np k /\ nn prd k = npred k /\ (np k = pnode \/ In (np k) D);
  r_D : forall d, In d D -> Sset d /\ nn par d = np d /\ nn prd d = npred d /\ (np d = pnode \/ In (np d) D) /\
          0 < nz dep d /\ nz dep d = nz dep (np d) + 1 /\ pi_rel p d;
  r_U : forall v, Sset v -> ~ In v K -> ~ In v D -> Sset (np v) /\ ~ In (np v) D;
  r_out : forall v, ~ Sset v -> nn par v = nn par1 v /\ nn prd v = nn prd1 v /\ nz dep v = nz dep0 v /\ nz p v = nz pi0 v
}.

Lemma RI_init : RI [q] [] par1 prd1 dep0 pi0.
Proof.
  constructor; try assumption.
  - constructor; [intros []|constructor].
  - intros k [<-|[]]. split; [exact Hq|]. split; [intros []|]. rewrite Hq1, Hq2, Hnpq. auto.
  - intros d [].
  - intros v Hv Hk _. split; [|intros []]. apply Hnp; [exact Hv|]. intros ->. apply Hk. left. reflexivity.
  - intros v _. auto.
Qed.

Lemma RI_step k rest D par prd dep p :
  RI (k :: rest) D par prd dep p ->
  let arc := nn prd k in
  let dep' := upd dep k (nz dep (nn par k) + 1) in
  let p' := upd p k (if Nat.eqb (src arc) k then nz p (nn par k) + cst arc else nz p (nn par k) - cst arc) in
  let r := fold_left (cstep k arc) (nth k adj []) (par, prd, rest) in
  RI (snd r) (k :: D) (fst (fst r)) (snd (fst r)) dep' p'.
Proof.
  intros I arc dep' p' r.
  destruct (r_K _ _ _ _ _ _ I k (or_introl eq_refl)) as (HkS & HkD & Hkp & Hka & Hknp).
  pose proof (r_nd _ _ _ _ _ _ I) as HndK. inversion HndK as [|? ? Hkrest Hndrest]; subst.
  pose proof (HSlt k HkS) as Hkn.
  assert (Harc : arc = npred k) by exact Hka.
  set (CL := filter (fun a => negb (Nat.eqb a arc)) (nth k adj [])).
  assert (HCL : forall a, In a CL <-> In a (nth k adj []) /\ a <> arc).
  { intros a. unfold CL. rewrite filter_In. destruct (Nat.eqb_spec a arc); cbn [negb]; intuition congruence. }
  assert (Hchild : forall a, In a CL -> Sset (other C a k) /\ np (other C a k) = k /\ npred (other C a k) = a).
  { intros a Ha. apply HCL in Ha. destruct Ha as [Ha Hne]. rewrite Harc in Hne.
    destruct (Hadj_child k a HkS Ha Hne) as (c & Hc1 & Hc2 & Hc3 & Hc4). rewrite Hc4. auto. }
  destruct (cfold_spec k arc (nth k adj []) par prd rest) as (F1 & F2 & F3 & F4 & F5). fold r in F1, F2, F3, F4, F5.
  fold CL in F1.
  (* a child is new: not k, not done, not on the stack *)
  assert (Hnew : forall a, In a CL -> other C a k <> k /\ ~ In (other C a k) D /\ ~ In (other C a k) rest).
  { intros a Ha. destruct (Hchild a Ha) as (Hc1 & Hc2 & Hc3). split; [|split].
    - intros E. rewrite E in Hc2. exact (np_ne k HkS Hc2).
    - intros HcD. destruct (r_D _ _ _ _ _ _ I _ HcD) as (_ & _ & _ & [E|E] & _); rewrite Hc2 in E; [rewrite E in HkS|]; contradiction.
    - intros HcK. destruct (r_K _ _ _ _ _ _ I _ (or_intror HcK)) as (_ & _ & _ & _ & [E|E]); rewrite Hc2 in E; [rewrite E in HkS|]; contradiction. }
  assert (Hnotchild : forall v, (v = k \/ In v D \/ In v rest \/ ~ Sset v) ->
            forall a, In a (nth k adj []) -> a <> arc -> other C a k <> v).
  { intros v Hv a Ha Hne E. assert (HaCL : In a CL) by (apply HCL; auto).
    destruct (Hnew a HaCL) as (N1 & N2 & N3). destruct (Hchild a HaCL) as (Hc1 & _). rewrite E in *.
    destruct Hv as [Hv|[Hv|[Hv|Hv]]]; contradiction. }
  assert (Hchild_tab : forall a, In a CL -> nn (fst (fst r)) (other C a k) = k /\ nn (snd (fst r)) (other C a k) = a).
  { intros a Ha. destruct (Hchild a Ha) as (Hc1 & Hc2 & Hc3). pose proof (HSlt _ Hc1) as Hlt. apply HCL in Ha. destruct Ha as [Ha Hne].
    apply F5; try assumption.
    - rewrite (r_l1 _ _ _ _ _ _ I). lia.
    - rewrite (r_l2 _ _ _ _ _ _ I). lia.
    - intros a' Ha' Hne' E. assert (Ha'CL : In a' CL) by (apply HCL; auto).
      destruct (Hchild a' Ha'CL) as (_ & _ & Hc3'). rewrite <- Hc3, <- Hc3', E. reflexivity. }
  assert (HinK' : forall v, In v (snd r) <-> (exists a, other C a k = v /\ In a CL) \/ In v rest).
  { intros v. rewrite F1, in_app_iff, <- in_rev, in_map_iff. reflexivity. }
  constructor.
  - rewrite F2. apply (r_l1 _ _ _ _ _ _ I).
  - rewrite F3. apply (r_l2 _ _ _ _ _ _ I).
  - unfold dep'. rewrite length_upd. apply (r_l3 _ _ _ _ _ _ I).
  - unfold p'. rewrite length_upd. apply (r_l4 _ _ _ _ _ _ I).
  - rewrite F1. apply NoDup_app_intro; [apply NoDup_rev|exact Hndrest|].
    + apply NoDup_map_in; [apply NoDup_filter; apply Hadj_nd; exact HkS|].
      intros a a' Ha Ha' E. destruct (Hchild a Ha) as (_ & _ & H3). destruct (Hchild a' Ha') as (_ & _ & H3').
      rewrite <- H3, <- H3', E. reflexivity.
    + intros v Hv. apply in_rev in Hv. apply in_map_iff in Hv. destruct Hv as (a & <- & Ha). apply (Hnew a Ha).
  - intros v Hv. apply HinK' in Hv. destruct Hv as [(a & <- & Ha)|Hv].
    + destruct (Hchild a Ha) as (Hc1 & Hc2 & Hc3). destruct (Hnew a Ha) as (N1 & N2 & N3). destruct (Hchild_tab a Ha) as [T1 T2].
      split; [exact Hc1|]. split; [intros [E|E]; [symmetry in E|]; contradiction|].
      rewrite T1, T2, Hc2, Hc3. split; [reflexivity|]. split; [reflexivity|]. right. left. reflexivity.
    + destruct (r_K _ _ _ _ _ _ I v (or_intror Hv)) as (K1 & K2 & K3 & K4 & K5).
      destruct (F4 v (Hnotchild v ltac:(auto))) as [G1 G2].
      split; [exact K1|]. split; [intros [E|E]; [subst v|]; contradiction|]. rewrite G1, G2.
      split; [exact K3|]. split; [exact K4|]. destruct K5 as [K5|K5]; [left; exact K5|right; right; exact K5].
  - assert (Hnpk : np k <> k) by (apply np_ne; exact HkS).
    assert (Hdnp : 0 <= nz dep (np k)).
    { destruct Hknp as [E|E].
      - rewrite E. destruct (r_out _ _ _ _ _ _ I pnode Hp) as (_ & _ & E3 & _). rewrite E3. exact Hdp.
      - destruct (r_D _ _ _ _ _ _ I _ E) as (_ & _ & _ & _ & Hpos & _). lia. }
    intros d [<-|Hd].
    + destruct (F4 k (Hnotchild k ltac:(auto))) as [G1 G2]. rewrite G1, G2.
      split; [exact HkS|]. split; [exact Hkp|]. split; [exact Hka|].
      split; [destruct Hknp as [E|E]; [left; exact E|right; right; exact E]|].
      unfold dep', p', pi_rel. rewrite !nz_upd_same by (rewrite ?(r_l3 _ _ _ _ _ _ I), ?(r_l4 _ _ _ _ _ _ I); lia).
      rewrite !(nz_upd_other _ (np k)) by exact Hnpk. rewrite Hkp, Harc. split; [lia|]. split; reflexivity.
    + destruct (r_D _ _ _ _ _ _ I d Hd) as (D1 & D2 & D3 & D4 & D5 & D6 & D7).
      destruct (F4 d (Hnotchild d ltac:(auto))) as [G1 G2]. rewrite G1, G2.
      assert (Hdk : d <> k) by (intros ->; contradiction).
      assert (Hnpd : np d <> k).
      { destruct D4 as [E|E]; intros E'; rewrite E' in E; [rewrite E in HkS|]; contradiction. }
      split; [exact D1|]. split; [exact D2|]. split; [exact D3|].
      split; [destruct D4 as [E|E]; [left; exact E|right; right; exact E]|].
      unfold dep', p', pi_rel in *. rewrite !(nz_upd_other _ d), !(nz_upd_other _ (np d)) by assumption. auto.
  - intros v HvS HvK HvD.
    assert (Hvk : v <> k) by (intros ->; apply HvD; left; reflexivity).
    assert (HvD0 : ~ In v D) by (intros H; apply HvD; right; exact H).
    assert (Hvrest : ~ In v rest) by (intros H; apply HvK; apply HinK'; right; exact H).
    destruct (r_U _ _ _ _ _ _ I v HvS) as [U1 U2]; [intros [E|E]; [symmetry in E|]; contradiction|exact HvD0|].
    split; [exact U1|]. intros [E|E]; [|contradiction].
    (* np v = k: then v is one of the children just pushed *)
    destruct (Hadj_all v HvS U1) as [A1 A2]. rewrite <- E in A1, A2. rewrite <- Harc in A2.
    assert (HaCL : In (npred v) CL) by (apply HCL; auto).
    destruct (Hchild _ HaCL) as (Hc1 & Hc2 & Hc3).
    apply HvK. apply HinK'. left. exists (npred v). split; [|exact HaCL]. apply Hinj; assumption.
  - intros v Hv. destruct (r_out _ _ _ _ _ _ I v Hv) as (O1 & O2 & O3 & O4).
    destruct (F4 v (Hnotchild v ltac:(auto))) as [G1 G2]. rewrite G1, G2.
    assert (Hvk : v <> k) by (intros ->; contradiction).
    unfold dep', p'. rewrite !nz_upd_other by exact Hvk. auto.
Qed.

Lemma rehang_S f k rest par prd dep p :
  rehang C (S f) adj (k :: rest) (par, prd, dep, p) =
  let arc := nn prd k in
  let r := fold_left (cstep k arc) (nth k adj []) (par, prd, rest) in
  rehang C f adj (snd r)
    (fst (fst r), snd (fst r), upd dep k (nz dep (nn par k) + 1),
     upd p k (if Nat.eqb (src arc) k then nz p (nn par k) + cst arc else nz p (nn par k) - cst arc)).
Proof.
  cbn [rehang]. cbv zeta.
  match goal with |- context [fold_left ?F (nth k adj []) (par, prd, rest)] =>
    change F with (cstep k (nn prd k)) end.
  destruct (fold_left (cstep k (nn prd k)) (nth k adj []) (par, prd, rest)) as [[a b] c]. reflexivity.
Qed.

Lemma rehang_inv : forall f K D par prd dep p tb', RI K D par prd dep p ->
  rehang C f adj K (par, prd, dep, p) = Some tb' ->
  exists D', RI [] D' (fst (fst (fst tb'))) (snd (fst (fst tb'))) (snd (fst tb')) (snd tb').
Proof.
  induction f as [|f IH]; intros K D par prd dep p tb' I H.
  - destruct K as [|k rest]; cbn [rehang] in H; [|discriminate]. inversion H; subst tb'. exists D. exact I.
  - destruct K as [|k rest]; [cbn [rehang] in H; inversion H; subst tb'; exists D; exact I|].
    rewrite rehang_S in H. cbv zeta in H.
    pose proof (RI_step k rest D par prd dep p I) as I'. cbv zeta in I'.
    exact (IH _ _ _ _ _ _ _ I' H).
Qed.

(* when the stack is empty every node of Sset has been handled *)
Lemma RI_all D par prd dep p : RI [] D par prd dep p -> forall v, Sset v -> In v D.
Proof.
  intros I. assert (H : forall m v, (Z.to_nat (rk v) < m)%nat -> Sset v -> In v D).
  { induction m as [|m IH]; intros v Hm Hv; [lia|].
    destruct (in_dec Nat.eq_dec v D) as [Hin|Hnin]; [exact Hin|exfalso].
    destruct (r_U _ _ _ _ _ _ I v Hv ltac:(intros []) Hnin) as [U1 U2].
    apply U2. apply IH; [|exact U1]. pose proof (Hrk v Hv U1). lia. }
  intros v Hv. apply (H (S (Z.to_nat (rk v)))); [lia|exact Hv].
Qed.

Theorem rehang_correct : forall f par' prd' dep' p',
  rehang C f adj [q] (par1, prd1, dep0, pi0) = Some (par', prd', dep', p') ->
  length par' = S n /\ length prd' = S n /\ length dep' = S n /\ length p' = S n /\
  (forall v, ~ Sset v -> nn par' v = nn par1 v /\ nn prd' v = nn prd1 v /\ nz dep' v = nz dep0 v /\ nz p' v = nz pi0 v) /\
  (forall v, Sset v -> nn par' v = np v /\ nn prd' v = npred v /\ 0 < nz dep' v /\ nz dep' v = nz dep' (np v) + 1 /\
                       pi_rel p' v).
Proof.
  intros f par' prd' dep' p' H. destruct (rehang_inv _ _ _ _ _ _ _ _ RI_init H) as (D & I). cbn [fst snd] in I.
  split; [apply (r_l1 _ _ _ _ _ _ I)|]. split; [apply (r_l2 _ _ _ _ _ _ I)|]. split; [apply (r_l3 _ _ _ _ _ _ I)|].
  split; [apply (r_l4 _ _ _ _ _ _ I)|]. split; [apply (r_out _ _ _ _ _ _ I)|].
  intros v Hv. destruct (r_D _ _ _ _ _ _ I v (RI_all _ _ _ _ _ I v Hv)) as (D1 & D2 & D3 & D4 & D5 & D6 & D7). auto.
Qed.

End Rehang.
