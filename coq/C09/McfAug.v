(* C09 - lemmas about one augmentation of min_cost_flow: list update, the bottleneck, and how
   cost / net outflow / the residual invariant change along the path. *)
From Coq Require Import List ZArith Bool Arith Lia.
From SV Require Import C09.Mcf C09.McfSpec.
Import ListNotations.
Open Scope Z_scope.
Import Mcf McfSpec.

Lemma length_upd {A} (l : list A) : forall i x, length (upd l i x) = length l.
Proof. induction l as [|h t IH]; intros [|i] x; cbn [upd length]; try reflexivity. rewrite IH. reflexivity. Qed.

Lemma nth_upd {A} (l : list A) : forall i j x d,
  nth i (upd l j x) d = if (Nat.eqb i j && Nat.ltb j (length l))%bool then x else nth i l d.
Proof.
  induction l as [|h t IH]; intros i j x d.
  - cbn [upd length]. destruct j; cbn [upd]; rewrite andb_false_r; reflexivity.
  - destruct j as [|j]; destruct i as [|i]; cbn [upd nth length]; try reflexivity.
    rewrite IH. change (Nat.eqb (S i) (S j)) with (Nat.eqb i j).
    change (Nat.ltb (S j) (S (length t))) with (Nat.ltb j (length t)). reflexivity.
Qed.

Lemma nth_upd_same {A} (l : list A) i x d : (i < length l)%nat -> nth i (upd l i x) d = x.
Proof. intros H. rewrite nth_upd, Nat.eqb_refl. apply Nat.ltb_lt in H. rewrite H. reflexivity. Qed.

Lemma nth_upd_other {A} (l : list A) i j x d : i <> j -> nth i (upd l j x) d = nth i l d.
Proof. intros H. rewrite nth_upd. apply Nat.eqb_neq in H. rewrite H. reflexivity. Qed.

Lemma upd_ge {A} (l : list A) : forall i x, (length l <= i)%nat -> upd l i x = l.
Proof.
  induction l as [|h t IH]; intros [|i] x H; cbn [upd length] in *; try reflexivity; [lia|].
  rewrite IH by lia. reflexivity.
Qed.

(* ---------------- linear functionals of the arc flows *)
Definition flows (res : resid) : list Z := map snd res.

Fixpoint lin (coef : arc -> Z) (arcs : list arc) (fl : list Z) : Z :=
  match arcs, fl with
  | a :: arcs', x :: fl' => coef a * x + lin coef arcs' fl'
  | _, _ => 0
  end.

Lemma flow_cost_lin arcs : forall f, flow_cost arcs f = lin a_c arcs f.
Proof. induction arcs as [|a arcs IH]; intros [|x f]; cbn [flow_cost lin]; try reflexivity. rewrite IH. reflexivity. Qed.

Definition ncoef (w : nat) (a : arc) : Z :=
  (if Nat.eqb (a_u a) w then 1 else 0) - (if Nat.eqb (a_v a) w then 1 else 0).

Lemma netout_lin w arcs : forall f, netout arcs f w = lin (ncoef w) arcs f.
Proof.
  induction arcs as [|a arcs IH]; intros [|x f]; cbn [netout lin]; try reflexivity. rewrite IH. unfold ncoef.
  destruct (Nat.eqb (a_u a) w); destruct (Nat.eqb (a_v a) w); lia.
Qed.

Lemma lin_upd coef : coef arc0 = 0 -> forall k arcs res p,
  (k < length res)%nat ->
  lin coef arcs (flows (upd res k p)) = lin coef arcs (flows res) + coef (nth k arcs arc0) * (snd p - snd (nth k res (0, 0))).
Proof.
  intros H0. unfold flows. induction k as [|k IH]; intros arcs res p Hk.
  - destruct res as [|p0 res]; [cbn in Hk; lia|]. destruct arcs as [|a arcs]; cbn [upd map lin nth].
    + rewrite H0. lia.
    + lia.
  - destruct res as [|p0 res]; [cbn in Hk; lia|]. cbn [length] in Hk.
    destruct arcs as [|a arcs]; cbn [upd map lin nth].
    + rewrite H0. lia.
    + rewrite IH by lia. lia.
Qed.

Lemma ncoef_arc0 w : ncoef w arc0 = 0.
Proof. unfold ncoef, arc0, a_u, a_v. cbn [fst snd]. destruct (Nat.eqb 0 w); lia. Qed.

(* ---------------- one edge *)
Lemma aug1_length res e pf : length (aug1 res e pf) = length res.
Proof. unfold aug1. apply length_upd. Qed.

Lemma aug1_lin coef : coef arc0 = 0 -> forall arcs res e pf,
  length res = length arcs ->
  lin coef arcs (flows (aug1 res e pf)) =
  lin coef arcs (flows res) + coef (nth (fst e) arcs arc0) * (if snd e then - pf else pf).
Proof.
  intros H0 arcs res [k b] pf Hlen. unfold aug1. cbn [fst snd].
  destruct (Nat.lt_ge_cases k (length res)) as [Hk|Hk].
  - rewrite (lin_upd coef H0) by assumption. destruct b; cbn [snd]; lia.
  - rewrite upd_ge by assumption. rewrite (nth_overflow arcs) by lia. rewrite H0. lia.
Qed.

Lemma aug1_cost arcs res e pf : length res = length arcs ->
  flow_cost arcs (flows (aug1 res e pf)) = flow_cost arcs (flows res) + e_cost arcs e * pf.
Proof.
  intros Hlen. rewrite !flow_cost_lin. rewrite (aug1_lin a_c) by (assumption || reflexivity).
  unfold e_cost. destruct (snd e); lia.
Qed.

Definition dlt (u : nat) (x : Z) (w : nat) : Z := if Nat.eqb u w then x else 0.

Lemma aug1_netout arcs res e pf w : length res = length arcs ->
  netout arcs (flows (aug1 res e pf)) w =
  netout arcs (flows res) w + dlt (e_tail arcs e) pf w - dlt (e_head arcs e) pf w.
Proof.
  intros Hlen. rewrite !netout_lin. rewrite (aug1_lin (ncoef w)) by (assumption || apply ncoef_arc0).
  unfold e_tail, e_head, ncoef, dlt. set (a := nth (fst e) arcs arc0).
  destruct (snd e); destruct (Nat.eqb (a_u a) w); destruct (Nat.eqb (a_v a) w); lia.
Qed.

(* ---------------- a whole path *)
Fixpoint chain (arcs : list arc) (a : nat) (p : list edge) (b : nat) : Prop :=
  match p with
  | [] => a = b
  | e :: p' => e_tail arcs e = a /\ chain arcs (e_head arcs e) p' b
  end.

Lemma augment_cons arcs res e path pf tc :
  augment arcs res (e :: path) pf tc = augment arcs (aug1 res e pf) path pf (tc + e_cost arcs e * pf).
Proof. reflexivity. Qed.

Lemma augment_length arcs : forall path res pf tc,
  length (fst (augment arcs res path pf tc)) = length res.
Proof.
  induction path as [|e path IH]; intros res pf tc; [reflexivity|].
  rewrite augment_cons, IH. apply aug1_length.
Qed.

Lemma augment_cost arcs : forall path res pf tc, length res = length arcs ->
  snd (augment arcs res path pf tc) - flow_cost arcs (flows (fst (augment arcs res path pf tc)))
  = tc - flow_cost arcs (flows res).
Proof.
  induction path as [|e path IH]; intros res pf tc Hlen; [reflexivity|].
  rewrite augment_cons, IH by (rewrite aug1_length; exact Hlen).
  rewrite aug1_cost by exact Hlen. lia.
Qed.

Lemma augment_netout arcs w : forall path res pf tc a b, length res = length arcs ->
  chain arcs a path b ->
  netout arcs (flows (fst (augment arcs res path pf tc))) w
  = netout arcs (flows res) w + dlt a pf w - dlt b pf w.
Proof.
  induction path as [|e path IH]; intros res pf tc a b Hlen Hc.
  - cbn [chain] in Hc. subst b. unfold augment. cbn [fold_left fst]. lia.
  - cbn [chain] in Hc. destruct Hc as [Ht Hc]. rewrite augment_cons.
    rewrite (IH _ _ _ _ _ (eq_trans (aug1_length _ _ _) Hlen) Hc).
    rewrite aug1_netout by exact Hlen. rewrite Ht. lia.
Qed.

(* ---------------- bottleneck *)
Lemma fold_min_le {A} (g : A -> Z) : forall l init,
  fold_left (fun pf e => Z.min pf (g e)) l init <= init /\
  forall e, In e l -> fold_left (fun pf e => Z.min pf (g e)) l init <= g e.
Proof.
  induction l as [|x l IH]; intros init; cbn [fold_left].
  - split; [lia|]. intros e [].
  - destruct (IH (Z.min init (g x))) as [H1 H2]. split; [lia|].
    intros e [->|Hin]; [lia|]. apply H2. exact Hin.
Qed.

Lemma fold_min_ge {A} (g : A -> Z) lo : forall l init,
  lo <= init -> (forall e, In e l -> lo <= g e) -> lo <= fold_left (fun pf e => Z.min pf (g e)) l init.
Proof.
  induction l as [|x l IH]; intros init Hi Hl; cbn [fold_left]; [exact Hi|].
  apply IH.
  - specialize (Hl x (or_introl eq_refl)). lia.
  - intros e He. apply Hl. right. exact He.
Qed.

(* ---------------- the residual invariant: residual[2k] + residual[2k+1] = cap_k, both >= 0 *)
Definition ResInv (arcs : list arc) (res : resid) : Prop :=
  length res = length arcs /\
  forall k, (k < length arcs)%nat ->
    fst (nth k res (0, 0)) + snd (nth k res (0, 0)) = a_cap (nth k arcs arc0)
    /\ 0 <= fst (nth k res (0, 0)) /\ 0 <= snd (nth k res (0, 0)).

Lemma e_res_nonneg arcs res e : ResInv arcs res -> 0 <= e_res res e.
Proof.
  intros [Hlen H]. unfold e_res. destruct (Nat.lt_ge_cases (fst e) (length arcs)) as [Hk|Hk].
  - destruct (H _ Hk) as (_ & H1 & H2). destruct (snd e); assumption.
  - rewrite nth_overflow by lia. destruct (snd e); cbn; lia.
Qed.

Lemma aug1_inv arcs res e pf :
  ResInv arcs res -> 0 <= pf -> pf <= e_res res e -> ResInv arcs (aug1 res e pf).
Proof.
  intros [Hlen H] Hpf Hle. split; [rewrite aug1_length; exact Hlen|].
  intros k Hk. unfold aug1. destruct (Nat.eq_dec k (fst e)) as [->|Hne].
  - rewrite nth_upd_same by lia. destruct (H _ Hk) as (Hs & H1 & H2). unfold e_res in Hle.
    destruct (snd e); cbn [fst snd]; lia.
  - rewrite nth_upd_other by exact Hne. apply H. exact Hk.
Qed.

Lemma aug1_e_res_other res e pf e' : fst e' <> fst e -> e_res (aug1 res e pf) e' = e_res res e'.
Proof. intros Hne. unfold e_res, aug1. rewrite nth_upd_other by exact Hne. reflexivity. Qed.

Lemma augment_inv arcs : forall path res pf tc,
  ResInv arcs res -> 0 <= pf -> NoDup (map fst path) -> (forall e, In e path -> pf <= e_res res e) ->
  ResInv arcs (fst (augment arcs res path pf tc)).
Proof.
  induction path as [|e path IH]; intros res pf tc Hinv Hpf Hnd Hle; [exact Hinv|].
  rewrite augment_cons. cbn [map] in Hnd. inversion Hnd as [|? ? Hnotin Hnd']; subst.
  apply IH.
  - apply aug1_inv; [exact Hinv|exact Hpf|]. apply Hle. left. reflexivity.
  - exact Hpf.
  - exact Hnd'.
  - intros e' He'. rewrite aug1_e_res_other.
    + apply Hle. right. exact He'.
    + intros Heq. apply Hnotin. rewrite <- Heq. apply in_map. exact He'.
Qed.

Lemma init_res_inv arcs : forallb (fun a => 0 <=? a_cap a) arcs = true -> ResInv arcs (init_res arcs).
Proof.
  intros Hc. unfold init_res. split; [apply map_length|].
  intros k Hk. rewrite forallb_forall in Hc.
  assert (Hn : nth k (map (fun a => (a_cap a, 0)) arcs) (0, 0) = (a_cap (nth k arcs arc0), 0)).
  { rewrite (nth_indep _ (0, 0) ((fun a => (a_cap a, 0)) arc0)) by (rewrite map_length; exact Hk).
    exact (map_nth (fun a => (a_cap a, 0)) arcs arc0 k). }
  rewrite Hn. cbn [fst snd]. specialize (Hc (nth k arcs arc0) (nth_In _ _ Hk)). apply Z.leb_le in Hc. lia.
Qed.

Lemma init_res_flows arcs : flows (init_res arcs) = map (fun _ => 0) arcs.
Proof. unfold flows, init_res. rewrite map_map. reflexivity. Qed.

Lemma lin_zero coef arcs : lin coef arcs (map (fun _ => 0) arcs) = 0.
Proof. induction arcs as [|a arcs IH]; cbn [map lin]; [reflexivity|]. rewrite IH. lia. Qed.
