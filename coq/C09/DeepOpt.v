(* C09 deepening - (3) min_cost_flow answers OPTIMAL only with a minimum-cost flow, for every input whose network has
   no negative-cost cycle of positive capacity: "no negative residual cycle" is a loop invariant (DeepSSP), the final
   residual graph therefore has feasible potentials (DeepPot.nnc_potentials), and McfCert.cert_optimal applies. *)
From Coq Require Import List ZArith Bool Arith Lia.
From SV Require Import C09.Mcf C09.McfSpec C09.McfCert C09.McfAug C09.McfBF C09.McfProofs C09.McfInfeasible.
From SV Require Import C09.DeepWalk C09.DeepBF C09.DeepPar C09.DeepPot C09.DeepSSP.
Import ListNotations.
Open Scope Z_scope.
Import Mcf McfSpec.

(* one iteration of the while loop keeps McfProofs.LoopInv (same argument as in McfProofs.loop_inv) *)
Lemma step_inv n arcs s t d res tc tf path d0 :
  LoopInv arcs s t d res tc tf -> tf < d ->
  bellman_ford n arcs res s t = BFPath path d0 ->
  let pf := bottleneck res path (d - tf) in
  LoopInv arcs s t d (fst (augment arcs res path pf tc)) (snd (augment arcs res path pf tc)) (tf + pf) /\
  0 <= pf <= d - tf.
Proof.
  intros Hinv E Ebf pf.
  destruct (bellman_ford_path _ _ _ _ _ _ _ Ebf) as (Hchain & Hnd & _).
  destruct Hinv as [Hres Hcost Hnet Htf].
  destruct (fold_min_le (e_res res) path (d - tf)) as [Hle1 Hle2].
  fold (bottleneck res path (d - tf)) in Hle1, Hle2. fold pf in Hle1, Hle2.
  assert (Hpf : 0 <= pf).
  { unfold pf, bottleneck. apply fold_min_ge; [lia|]. intros e _. exact (e_res_nonneg arcs res e Hres). }
  pose proof (augment_inv arcs path res pf tc Hres Hpf Hnd Hle2) as Hres'.
  pose proof (augment_cost arcs path res pf tc (proj1 Hres)) as Hcost'.
  split; [|lia]. constructor; [exact Hres'|lia| |lia].
  intros w. rewrite (augment_netout arcs w path res pf tc s t (proj1 Hres) Hchain).
  rewrite Hnet, demand_b_add. reflexivity.
Qed.

Lemma loop_nnc n arcs s t d : valid_arcs n arcs = true -> (s < n)%nat ->
  forall fuel res tc tf it k,
  LoopInv arcs s t d res tc tf -> NoNegCycle arcs res ->
  mcf_loop fuel n arcs s t d res tc tf it = Some k -> NoNegCycle arcs (k_res k).
Proof.
  intros Hva Hs. induction fuel as [|fuel IH]; intros res tc tf it k Hinv Hnn H.
  - cbn [mcf_loop] in H. destruct (tf <? d); [discriminate|]. inversion H; subst k. exact Hnn.
  - cbn [mcf_loop] in H. destruct (tf <? d) eqn:E; [|inversion H; subst k; exact Hnn].
    apply Z.ltb_lt in E.
    destruct (bellman_ford n arcs res s t) as [| |path d0] eqn:Ebf; [inversion H; subst k; exact Hnn|discriminate|].
    destruct (step_inv n arcs s t d res tc tf path d0 Hinv E Ebf) as [Hinv' _].
    pose proof (ssp_invariant n arcs res s t path d0 (bottleneck res path (d - tf)) tc Hva
                  (proj1 (li_res _ _ _ _ _ _ _ Hinv)) Hs Hnn Ebf) as Hnn'.
    destruct (augment arcs res path (bottleneck res path (d - tf)) tc) as [res' tc'] eqn:Ea.
    cbn [fst snd] in Hinv', Hnn'. exact (IH _ _ _ _ _ Hinv' Hnn' H).
Qed.

Lemma valid_input_parts n arcs s t d : valid_input n arcs s t d = true ->
  valid_arcs n arcs = true /\ (s < n)%nat /\ (t < n)%nat /\ s <> t /\ 0 <= d.
Proof.
  unfold valid_input. intros H.
  apply andb_prop in H. destruct H as [H Hd]. apply andb_prop in H. destruct H as [H Hst].
  apply andb_prop in H. destruct H as [H Ht]. apply andb_prop in H. destruct H as [Hva Hs].
  apply Nat.ltb_lt in Hs. apply Nat.ltb_lt in Ht. apply Z.leb_le in Hd.
  apply negb_true_iff in Hst. apply Nat.eqb_neq in Hst. auto.
Qed.

(* (3), internal state, hypothesis as a Prop on the input network *)
Theorem mcf_optimal_nnc : forall n arcs s t d k,
  valid_input n arcs s t d = true ->
  NoNegCycle arcs (init_res arcs) ->
  mcf_run n arcs s t d = Some k -> k_status k = OPTIMAL ->
  min_cost n arcs (demand_b s t d) (flows (k_res k)).
Proof.
  intros n arcs s t d k Hvi Hnn Hrun Hst.
  destruct (valid_input_parts _ _ _ _ _ Hvi) as (Hva & Hs & _ & _ & Hd).
  pose proof (valid_arcs_caps n arcs Hva) as Hc.
  pose proof (mcf_run_feasible n arcs s t d k Hc Hd Hrun Hst) as Hf.
  destruct (mcf_run_sound n arcs s t d k Hc Hd Hrun) as (Hres & _).
  unfold mcf_run in Hrun.
  pose proof (loop_nnc n arcs s t d Hva Hs _ _ _ _ _ k (init_inv arcs s t d Hc Hd) Hnn Hrun) as Hnnk.
  destruct (nnc_potentials n arcs (k_res k) Hva (proj1 Hres) Hnnk) as (pi & Hpi).
  split; [exact Hf|]. exact (cert_optimal n arcs _ _ pi Hva Hf (pot_ok_reduced arcs (k_res k) pi Hres Hpi)).
Qed.

(* the statement kept as a Definition in Props/C09.v: hypothesis = potentials pi0 certifying that the input has no
   negative cycle (boolean test) *)
Theorem mcf_optimal_full : forall n arcs s t d pi0 k,
  valid_input n arcs s t d = true ->
  reduced_b (pot pi0) arcs (map (fun _ => 0) arcs) = true ->
  mcf_run n arcs s t d = Some k -> k_status k = OPTIMAL ->
  min_cost n arcs (demand_b s t d) (flows (k_res k)).
Proof.
  intros n arcs s t d pi0 k Hvi Hpi. apply mcf_optimal_nnc; [exact Hvi|].
  exact (input_nnc n arcs pi0 (proj1 (valid_input_parts _ _ _ _ _ Hvi)) Hpi).
Qed.

(* hypothesis = the boolean Bellman-Ford test of DeepPot on the input network (sound and complete for NoNegCycle) *)
Theorem mcf_optimal_b : forall n arcs s t d k,
  valid_input n arcs s t d = true ->
  no_neg_cycle_b n arcs (init_res arcs) = true ->
  mcf_run n arcs s t d = Some k -> k_status k = OPTIMAL ->
  min_cost n arcs (demand_b s t d) (flows (k_res k)).
Proof.
  intros n arcs s t d k Hvi Hb. apply mcf_optimal_nnc; [exact Hvi|].
  apply (no_neg_cycle_b_sound n). unfold init_res. apply map_length. exact Hb.
Qed.

(* public Result *)
Theorem mcf_public_optimal_nnc : forall n arcs s t d r,
  valid_input n arcs s t d = true ->
  NoNegCycle arcs (init_res arcs) ->
  mcf n arcs s t d = Some r -> r_status r = OPTIMAL ->
  optimal_answer n arcs (demand_b s t d) (r_flows r) (r_cost r).
Proof.
  intros n arcs s t d r Hvi Hb H Hst. unfold mcf in H.
  destruct (mcf_run n arcs s t d) as [k|] eqn:Ek; [|discriminate].
  destruct (k_status k) eqn:Es; inversion H; subst r; cbn [r_status r_flows r_cost] in *; [|discriminate].
  destruct (valid_input_parts _ _ _ _ _ Hvi) as (Hva & _ & _ & _ & Hd).
  pose proof (valid_arcs_caps n arcs Hva) as Hc.
  exists (flows (k_res k)). split; [exact (mcf_optimal_nnc n arcs s t d k Hvi Hb Ek Es)|]. split.
  - intros u v. rewrite pool_get0; [reflexivity|].
    apply (resinv_nonneg arcs). exact (proj1 (mcf_run_sound _ _ _ _ _ _ Hc Hd Ek)).
  - exact (mcf_run_cost _ _ _ _ _ _ Hc Hd Ek).
Qed.

Theorem mcf_public_optimal : forall n arcs s t d r,
  valid_input n arcs s t d = true ->
  no_neg_cycle_b n arcs (init_res arcs) = true ->
  mcf n arcs s t d = Some r -> r_status r = OPTIMAL ->
  optimal_answer n arcs (demand_b s t d) (r_flows r) (r_cost r).
Proof.
  intros n arcs s t d r Hvi Hb. apply mcf_public_optimal_nnc; [exact Hvi|].
  apply (no_neg_cycle_b_sound n); [unfold init_res; apply map_length|exact Hb].
Qed.
