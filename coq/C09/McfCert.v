(* C09 - certificates: optimality by node potentials (LP-duality style summation over the arcs),
   infeasibility by a cut, and soundness of the boolean checkers of McfSpec. *)
From Coq Require Import List ZArith Bool Arith Lia.
From SV Require Import C09.Mcf C09.McfSpec.
Import ListNotations.
Open Scope Z_scope.
Import Mcf McfSpec.

(* sum over the nodes w < n of pi w * g w *)
Fixpoint wsum (pi g : nat -> Z) (n : nat) : Z :=
  match n with O => 0 | S k => wsum pi g k + pi k * g k end.

(* sum over the arcs of (pi tail - pi head) * flow *)
Fixpoint psum (pi : nat -> Z) (arcs : list arc) (f : list Z) : Z :=
  match arcs, f with
  | a :: arcs', x :: f' => (pi (a_u a) - pi (a_v a)) * x + psum pi arcs' f'
  | _, _ => 0
  end.

(* sum over the arcs of reduced cost * flow *)
Fixpoint rcsum (pi : nat -> Z) (arcs : list arc) (f : list Z) : Z :=
  match arcs, f with
  | a :: arcs', x :: f' => rc pi a * x + rcsum pi arcs' f'
  | _, _ => 0
  end.

Lemma wsum_ext pi g h n : (forall w, (w < n)%nat -> g w = h w) -> wsum pi g n = wsum pi h n.
Proof.
  induction n as [|k IH]; intros H; cbn [wsum]; [reflexivity|].
  rewrite IH by (intros w Hw; apply H; lia). rewrite (H k) by lia. reflexivity.
Qed.

Lemma wsum_zero pi n : wsum pi (fun _ => 0) n = 0.
Proof. induction n as [|k IH]; cbn [wsum]; [reflexivity|]. rewrite IH. lia. Qed.

Lemma wsum_add pi g h n : wsum pi (fun w => g w + h w) n = wsum pi g n + wsum pi h n.
Proof. induction n as [|k IH]; cbn [wsum]; [reflexivity|]. rewrite IH. lia. Qed.

Lemma wsum_sub pi g h n : wsum pi (fun w => g w - h w) n = wsum pi g n - wsum pi h n.
Proof. induction n as [|k IH]; cbn [wsum]; [reflexivity|]. rewrite IH. lia. Qed.

Definition delta (u : nat) (x : Z) (w : nat) : Z := if Nat.eqb u w then x else 0.

Lemma wsum_delta_ge pi u x n : (n <= u)%nat -> wsum pi (delta u x) n = 0.
Proof.
  induction n as [|k IH]; intros H; cbn [wsum]; [reflexivity|].
  rewrite IH by lia. unfold delta. destruct (Nat.eqb_spec u k); lia.
Qed.

Lemma wsum_delta pi u x n : (u < n)%nat -> wsum pi (delta u x) n = pi u * x.
Proof.
  induction n as [|k IH]; intros H; cbn [wsum]; [lia|].
  destruct (Nat.eq_dec u k) as [->|Hne].
  - rewrite wsum_delta_ge by lia. unfold delta. rewrite Nat.eqb_refl. lia.
  - rewrite IH by lia. unfold delta. destruct (Nat.eqb_spec u k); [contradiction|lia].
Qed.

Lemma valid_arcs_cons n a arcs :
  valid_arcs n (a :: arcs) = true ->
  (a_u a < n)%nat /\ (a_v a < n)%nat /\ 0 <= a_cap a /\ valid_arcs n arcs = true.
Proof.
  unfold valid_arcs. cbn [forallb]. intros H.
  apply andb_prop in H. destruct H as [H1 H2].
  apply andb_prop in H1. destruct H1 as [H1 H3]. apply andb_prop in H1. destruct H1 as [H1 H4].
  apply Nat.ltb_lt in H1. apply Nat.ltb_lt in H4. apply Z.leb_le in H3. auto.
Qed.

(* exchanging the order of summation: nodes x arcs *)
Lemma wsum_netout pi n arcs : forall f,
  valid_arcs n arcs = true -> wsum pi (netout arcs f) n = psum pi arcs f.
Proof.
  induction arcs as [|a arcs IH]; intros f Hv.
  - cbn [netout psum]. apply wsum_zero.
  - destruct f as [|x f].
    + cbn [netout psum]. apply wsum_zero.
    + apply valid_arcs_cons in Hv. destruct Hv as (Hu & Hv' & _ & Hrest).
      cbn [netout psum].
      rewrite (wsum_ext pi _ (fun w => (delta (a_u a) x w - delta (a_v a) x w) + netout arcs f w))
        by (intros w _; reflexivity).
      rewrite wsum_add, wsum_sub, !wsum_delta by assumption. rewrite IH by assumption. lia.
Qed.

Lemma cost_split pi arcs : forall f, flow_cost arcs f = rcsum pi arcs f - psum pi arcs f.
Proof.
  induction arcs as [|a arcs IH]; intros f; [reflexivity|].
  destruct f as [|x f]; [reflexivity|].
  cbn [flow_cost rcsum psum]. rewrite IH. unfold rc. lia.
Qed.

Lemma psum_balanced pi n arcs b f :
  valid_arcs n arcs = true -> balanced n arcs b f -> psum pi arcs f = wsum pi b n.
Proof.
  intros Hv Hb. rewrite <- (wsum_netout pi n arcs f Hv). apply wsum_ext. exact Hb.
Qed.

Lemma rcsum_le pi arcs : forall f f',
  bounded arcs f -> bounded arcs f' -> reduced_ok pi arcs f -> rcsum pi arcs f <= rcsum pi arcs f'.
Proof.
  induction arcs as [|a arcs IH]; intros f f' Hb Hb' Hr.
  - destruct f; destruct f'; cbn; lia.
  - destruct f as [|x f]; [contradiction|]. destruct f' as [|x' f']; [contradiction|].
    cbn [bounded] in Hb, Hb'. cbn [reduced_ok] in Hr. cbn [rcsum].
    destruct Hb as [Hx Hb]. destruct Hb' as [Hx' Hb']. destruct Hr as (Hr1 & Hr2 & Hr).
    specialize (IH f f' Hb Hb' Hr).
    assert (rc pi a * x <= rc pi a * x').
    { destruct (Z.lt_trichotomy x x') as [Hlt|[->|Hgt]].
      - apply Z.mul_le_mono_nonneg_l; [apply Hr1|]; lia.
      - lia.
      - apply Z.mul_le_mono_nonpos_l; [apply Hr2|]; lia. }
    lia.
Qed.

(* THE certificate theorem: a feasible flow with potentials whose reduced costs are non-negative on every
   residual edge of positive residual capacity is of minimum cost among all feasible flows for the same b *)
Theorem cert_optimal : forall n arcs b f pi,
  valid_arcs n arcs = true ->
  feasible n arcs b f -> reduced_ok pi arcs f ->
  forall f', feasible n arcs b f' -> flow_cost arcs f <= flow_cost arcs f'.
Proof.
  intros n arcs b f pi Hv [Hb Hbal] Hr f' [Hb' Hbal'].
  rewrite (cost_split pi arcs f), (cost_split pi arcs f').
  rewrite (psum_balanced pi n arcs b f Hv Hbal), (psum_balanced pi n arcs b f' Hv Hbal').
  pose proof (rcsum_le pi arcs f f' Hb Hb' Hr). lia.
Qed.

(* ---------------- soundness of the boolean checkers *)
Lemma bounded_b_sound arcs : forall f, bounded_b arcs f = true -> bounded arcs f.
Proof.
  induction arcs as [|a arcs IH]; intros f H; destruct f as [|x f]; cbn [bounded bounded_b] in *; try discriminate; [exact I|].
  apply andb_prop in H. destruct H as [H1 H2]. apply andb_prop in H1. destruct H1 as [H0 H1].
  apply Z.leb_le in H0. apply Z.leb_le in H1. split; [lia|]. apply IH. exact H2.
Qed.

Lemma balanced_b_sound n arcs b f : balanced_b n arcs b f = true -> balanced n arcs b f.
Proof.
  unfold balanced_b, balanced. intros H w Hw.
  rewrite forallb_forall in H. apply Z.eqb_eq. apply H. apply in_seq. lia.
Qed.

Lemma feasible_b_sound n arcs b f : feasible_b n arcs b f = true -> feasible n arcs b f.
Proof.
  unfold feasible_b. intros H. apply andb_prop in H. destruct H as [H1 H2].
  split; [apply bounded_b_sound | apply balanced_b_sound]; assumption.
Qed.

Lemma reduced_b_sound pi arcs : forall f, reduced_b pi arcs f = true -> reduced_ok pi arcs f.
Proof.
  induction arcs as [|a arcs IH]; intros f H; destruct f as [|x f]; cbn [reduced_ok]; try exact I.
  cbn [reduced_b] in H. apply andb_prop in H. destruct H as [H1 H3]. apply andb_prop in H1. destruct H1 as [H1 H2].
  split; [|split; [|apply IH; exact H3]].
  - intros Hx. apply Z.ltb_lt in Hx. rewrite Hx in H1. apply Z.leb_le in H1. exact H1.
  - intros Hx. apply Z.ltb_lt in Hx. rewrite Hx in H2. apply Z.leb_le in H2. exact H2.
Qed.

Theorem cert_check_sound : forall n arcs b f pi,
  cert_check n arcs b f pi = true -> min_cost n arcs b f.
Proof.
  intros n arcs b f pi H. unfold cert_check in H.
  apply andb_prop in H. destruct H as [H1 H3]. apply andb_prop in H1. destruct H1 as [H1 H2].
  apply feasible_b_sound in H2. apply reduced_b_sound in H3.
  split; [exact H2|]. exact (cert_optimal n arcs b f (pot pi) H1 H2 H3).
Qed.

(* ---------------- cuts *)
Definition piS (S : list bool) (w : nat) : Z := if inS S w then 1 else 0.

Lemma wsum_piS b S n : wsum (piS S) b n = sum_b b S n.
Proof.
  induction n as [|k IH]; cbn [wsum sum_b]; [reflexivity|]. rewrite IH. unfold piS.
  destruct (inS S k); lia.
Qed.

Lemma psum_cut S arcs : forall f, bounded arcs f ->
  - cut_in S arcs <= psum (piS S) arcs f <= cut_cap S arcs.
Proof.
  induction arcs as [|a arcs IH]; intros f Hb.
  - cbn. lia.
  - destruct f as [|x f]; [contradiction|]. cbn [bounded] in Hb. destruct Hb as [Hx Hb].
    specialize (IH f Hb). cbn [psum cut_cap cut_in]. set (P := psum (piS S) arcs f) in *. unfold piS.
    destruct (inS S (a_u a)); destruct (inS S (a_v a)); cbn [andb negb]; cbv beta iota; lia.
Qed.

Theorem cut_check_sound : forall n arcs b S,
  cut_check n arcs b S = true -> infeasible n arcs b.
Proof.
  intros n arcs b S H f [Hb Hbal]. unfold cut_check in H.
  apply andb_prop in H. destruct H as [Hv H].
  pose proof (psum_cut S arcs f Hb) as Hc.
  rewrite (psum_balanced (piS S) n arcs b f Hv Hbal), wsum_piS in Hc.
  apply orb_prop in H. destruct H as [H|H]; apply Z.ltb_lt in H; lia.
Qed.

(* ---------------- pooled dictionaries *)
Lemma dict_get_in d : forall u v y, dict_get d u v = Some y -> In (u, v, y) d.
Proof.
  induction d as [|[[u' v'] y'] d IH]; intros u v y H; cbn [dict_get] in H; [discriminate|].
  destruct (Nat.eqb_spec u u') as [->|]; destruct (Nat.eqb_spec v v') as [->|]; cbn [andb] in H;
    try (right; apply IH; exact H).
  inversion H; subst. left. reflexivity.
Qed.

Lemma pair_sum_absent arcs u v : forall f,
  existsb (fun a => (Nat.eqb (a_u a) u && Nat.eqb (a_v a) v)%bool) arcs = false -> pair_sum arcs f u v = 0.
Proof.
  induction arcs as [|a arcs IH]; intros f H; [reflexivity|]. destruct f as [|x f]; [reflexivity|].
  cbn [existsb] in H. apply orb_false_elim in H. destruct H as [H1 H2].
  cbn [pair_sum]. rewrite H1, IH by assumption. reflexivity.
Qed.

Theorem pooled_b_sound : forall arcs f d, pooled_b arcs f d = true -> pooled arcs f d.
Proof.
  intros arcs f d H u v. unfold pooled_b in H. apply andb_prop in H. destruct H as [Ha Hd].
  rewrite forallb_forall in Ha, Hd.
  destruct (dict_get d u v) as [y|] eqn:E.
  - apply dict_get_in in E. specialize (Hd _ E). cbn in Hd. apply Z.eqb_eq in Hd. exact Hd.
  - destruct (existsb (fun a => (Nat.eqb (a_u a) u && Nat.eqb (a_v a) v)%bool) arcs) eqn:Ex.
    + apply existsb_exists in Ex. destruct Ex as (a & Hin & Hab).
      apply andb_prop in Hab. destruct Hab as [Hu Hv]. apply Nat.eqb_eq in Hu. apply Nat.eqb_eq in Hv.
      specialize (Ha _ Hin). cbn in Ha. apply Z.eqb_eq in Ha. subst u v. exact Ha.
    + unfold get0. rewrite E. symmetry. apply pair_sum_absent. exact Ex.
Qed.

Theorem optimal_check_sound : forall n arcs b d cost f pi,
  optimal_check n arcs b d cost f pi = true -> optimal_answer n arcs b d cost.
Proof.
  intros n arcs b d cost f pi H. unfold optimal_check in H.
  apply andb_prop in H. destruct H as [H1 H3]. apply andb_prop in H1. destruct H1 as [H1 H2].
  exists f. split; [exact (cert_check_sound _ _ _ _ _ H1)|]. split; [exact (pooled_b_sound _ _ _ H2)|].
  apply Z.eqb_eq. exact H3.
Qed.
