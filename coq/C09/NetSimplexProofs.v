(* C09 - network_simplex: the final gate.  OPTIMAL is only reported when no artificial arc carries flow, the
   objective is the sum of cost * flow over the ORIGINAL arcs and the solution is the pooled dictionary of the
   original arcs' flows (read off the model's last lines; optimality itself is certified per run by
   McfSpec.optimal_check on the implementation's answers). *)
From Coq Require Import List ZArith Bool Arith Lia.
From SV Require Import C09.Mcf C09.McfSpec C09.NetSimplex C09.McfProofs.
Import ListNotations.
Open Scope Z_scope.
Import Mcf McfSpec NetSimplex.

Lemma orig_cost_flow_cost : forall arcs fl, orig_cost arcs fl = flow_cost arcs fl.
Proof.
  induction arcs as [|a arcs IH]; intros [|x fl]; cbn [orig_cost flow_cost]; try reflexivity. rewrite IH. lia.
Qed.

Lemma flow_dict_get0 : forall arcs fl d0 u v,
  Forall (fun x => 0 <= x) (firstn (length arcs) fl) ->
  get0 (flow_dict arcs fl d0) u v = get0 d0 u v + pair_sum arcs fl u v.
Proof.
  induction arcs as [|a arcs IH]; intros fl d0 u v Hnn.
  - cbn [flow_dict pair_sum]. lia.
  - destruct fl as [|x fl]; [cbn [flow_dict pair_sum]; lia|].
    cbn [length firstn] in Hnn. inversion Hnn as [|? ? Hx Hnn']; subst.
    cbn [flow_dict pair_sum]. rewrite IH by exact Hnn'.
    destruct (0 <? x) eqn:E.
    + rewrite McfProofs.get0_dict_add. lia.
    + apply Z.ltb_ge in E. assert (x = 0) by lia. subst x.
      destruct (Nat.eqb (a_u a) u && Nat.eqb (a_v a) v)%bool; lia.
Qed.

Theorem ns_gate : forall n arcs sup max_iter r,
  network_simplex n arcs sup max_iter = Some r -> r_status r = OPTIMAL ->
  (arcs = [] /\ forallb (fun x => x =? 0) sup = true /\ r_sol r = Some [] /\ r_obj r = 0)
  \/ exists fl it,
       ns_run n arcs sup max_iter = Some (OPTIMAL, fl, it) /\
       (forall x, In x (skipn (length arcs) fl) -> x <= 0) /\       (* no artificial arc carries flow *)
       r_sol r = Some (flow_dict arcs fl []) /\
       r_obj r = flow_cost arcs fl /\                                (* cost = sum cost*flow over the original arcs *)
       (Forall (fun x => 0 <= x) (firstn (length arcs) fl) -> pooled arcs fl (flow_dict arcs fl [])).
Proof.
  intros n arcs sup max_iter r H Hst. unfold network_simplex in H.
  destruct (negb (zsum sup =? 0)); [inversion H; subst r; discriminate|].
  destruct arcs as [|a arcs].
  - destruct (forallb (fun x => x =? 0) sup) eqn:E; inversion H; subst r; [|discriminate].
    left. repeat split.
  - right. remember (a :: arcs) as A eqn:HA. clear HA.
    destruct (ns_run n A sup max_iter) as [[[stt fl] it]|] eqn:Er; [|discriminate].
    destruct (existsb (fun x => 0 <? x) (skipn (length A) fl)) eqn:Ex.
    + inversion H; subst r. cbn [r_status] in Hst. destruct stt; discriminate.
    + inversion H; subst r. cbn [r_status r_sol r_obj] in *. subst stt.
      exists fl, it. split; [reflexivity|]. split; [|split; [reflexivity|split; [apply orig_cost_flow_cost|]]].
      * intros x Hin. destruct (Z.ltb_spec 0 x) as [Hlt|Hle]; [|exact Hle].
        assert (Ht : existsb (fun x => 0 <? x) (skipn (length A) fl) = true).
        { apply existsb_exists. exists x. split; [exact Hin|]. apply Z.ltb_lt. exact Hlt. }
        rewrite Ht in Ex. discriminate.
      * intros Hnn u v. rewrite flow_dict_get0 by exact Hnn. reflexivity.
Qed.
