(* C09 deepening, round 2 - network_simplex: status INFEASIBLE is sound.
   When the loop stops with no entering arc while an artificial arc still carries flow, the final potentials split
   the nodes into P = {pi > 0} and N = {pi < 0}: every node's potential is +-M up to (depth-1) * sum|cost|, depth <= n,
   and M = n * sum|cost| + 1 (this is exactly what the code's big-M is good for).  Original arcs P -> N then have negative
   reduced cost, hence are saturated; arcs N -> P have positive reduced cost, hence are empty; artificial arcs carry flow
   only out of P / into N.  Summing the conservation equations over P (or N) shows that P must ship out more than the
   capacity of the cut (N must take in more than can enter): McfSpec.cut_check accepts the cut, no feasible flow exists. *)
From Coq Require Import List ZArith Bool Arith Lia.
From SV Require Import C09.Mcf C09.McfSpec C09.McfCert C09.McfAug C09.NetSimplex C09.NetSimplexProofs C09.DeepNS.
From SV Require Import C09.DeepNS2Base C09.DeepNS2Step C09.DeepNS2Init C09.DeepNS2Exit.
Import ListNotations.
Open Scope Z_scope.
Import Mcf McfSpec NetSimplex.

(* ---------------- sums *)
Lemma nsum_add f g k : nsum (fun i => f i + g i) k = nsum f k + nsum g k.
Proof. induction k as [|k IH]; cbn [nsum]; [reflexivity|]. rewrite IH. lia. Qed.

Lemma nsum_scal f c k : nsum (fun i => f i * c) k = nsum f k * c.
Proof. induction k as [|k IH]; cbn [nsum]; [reflexivity|]. rewrite IH. lia. Qed.

Lemma nsum_delta (g : nat -> Z) u k :
  nsum (fun w => g w * (if Nat.eqb u w then 1 else 0)) k = if Nat.ltb u k then g u else 0.
Proof.
  induction k as [|k IH]; cbn [nsum]; [reflexivity|]. rewrite IH.
  destruct (Nat.ltb_spec u k); destruct (Nat.ltb_spec u (S k)); destruct (Nat.eqb_spec u k); subst; lia.
Qed.

Lemma nsum_pos f k i : (forall j, (j < k)%nat -> 0 <= f j) -> (i < k)%nat -> 0 < f i -> 0 < nsum f k.
Proof.
  induction k as [|k IH]; intros Hnn Hi Hp; [lia|]. cbn [nsum].
  pose proof (nsum_nonneg f k ltac:(intros j Hj; apply Hnn; lia)) as H0. pose proof (Hnn k ltac:(lia)) as Hk.
  destruct (Nat.eq_dec i k) as [->|Hne]; [lia|]. specialize (IH ltac:(intros j Hj; apply Hnn; lia) ltac:(lia) Hp). lia.
Qed.

Lemma fold_add_shift : forall l a, fold_left Z.add l a = a + fold_left Z.add l 0.
Proof.
  induction l as [|x l IH]; intros a; cbn [fold_left]; [lia|]. rewrite (IH (a + x)), (IH (0 + x)). lia.
Qed.

Lemma zsum_cons x l : zsum (x :: l) = x + zsum l.
Proof. unfold zsum. cbn [fold_left]. rewrite fold_add_shift. lia. Qed.

Lemma zsum_nonneg l : (forall x, In x l -> 0 <= x) -> 0 <= zsum l.
Proof.
  induction l as [|x l IH]; intros H; [cbn; lia|]. rewrite zsum_cons.
  specialize (IH ltac:(intros y Hy; apply H; right; exact Hy)). specialize (H x (or_introl eq_refl)). lia.
Qed.

Lemma zsum_ge_elem l x : (forall y, In y l -> 0 <= y) -> In x l -> x <= zsum l.
Proof.
  induction l as [|y l IH]; intros H Hx; [contradiction|]. rewrite zsum_cons.
  pose proof (zsum_nonneg l ltac:(intros z Hz; apply H; right; exact Hz)) as H0. pose proof (H y (or_introl eq_refl)) as Hy.
  destruct Hx as [<-|Hx]; [lia|]. specialize (IH ltac:(intros z Hz; apply H; right; exact Hz) Hx). lia.
Qed.

Lemma zsum_nsum : forall l, zsum l = nsum (fun i => nth i l 0) (length l).
Proof.
  induction l as [|x l IH]; [reflexivity|]. rewrite zsum_cons. cbn [length]. rewrite nsum_shift. cbn [nth]. rewrite IH. reflexivity.
Qed.

Lemma sum_b_nsum b S : forall k, sum_b b S k = nsum (fun w => (if inS S w then 1 else 0) * b w) k.
Proof. induction k as [|k IH]; [reflexivity|]. cbn [sum_b nsum]. rewrite IH. destruct (inS S k); lia. Qed.

Lemma cut_cap_nsum S : forall arcs, cut_cap S arcs =
  nsum (fun k => if (inS S (a_u (nth k arcs arc0)) && negb (inS S (a_v (nth k arcs arc0))))%bool
                 then a_cap (nth k arcs arc0) else 0) (length arcs).
Proof.
  induction arcs as [|a arcs IH]; [reflexivity|]. cbn [cut_cap length]. rewrite nsum_shift. cbn [nth]. rewrite IH. reflexivity.
Qed.

Lemma cut_in_nsum S : forall arcs, cut_in S arcs =
  nsum (fun k => if (negb (inS S (a_u (nth k arcs arc0))) && inS S (a_v (nth k arcs arc0)))%bool
                 then a_cap (nth k arcs arc0) else 0) (length arcs).
Proof.
  induction arcs as [|a arcs IH]; [reflexivity|]. cbn [cut_in length]. rewrite nsum_shift. cbn [nth]. rewrite IH. reflexivity.
Qed.

(* ---------------- conservation summed over a node set *)
Section Exchange.
Variable C : consts.
Local Notation n := (c_n C).
Local Notation src a := (nn (c_src C) a).
Local Notation tgt a := (nn (c_tgt C) a).
Variable ind : nat -> Z.
Hypothesis Hind : ind n = 0.

Lemma ind_coef a : (src a <= n)%nat -> (tgt a <= n)%nat ->
  nsum (fun w => ind w * coef C w a) n = ind (src a) - ind (tgt a).
Proof.
  intros H1 H2. unfold coef.
  rewrite (nsum_ext _ (fun w => ind w * (if Nat.eqb (src a) w then 1 else 0) + - ind w * (if Nat.eqb (tgt a) w then 1 else 0)))
    by (intros; lia).
  rewrite nsum_add, (nsum_delta ind), (nsum_delta (fun w => - ind w)).
  destruct (Nat.ltb_spec (src a) n) as [L1|L1]; destruct (Nat.ltb_spec (tgt a) n) as [L2|L2];
    try (replace (src a) with n by lia); try (replace (tgt a) with n by lia); rewrite ?Hind; lia.
Qed.

Lemma exchange fl : forall k, (forall a, (a < k)%nat -> (src a <= n)%nat /\ (tgt a <= n)%nat) ->
  nsum (fun w => ind w * nsum (fun a => coef C w a * nz fl a) k) n =
  nsum (fun a => (ind (src a) - ind (tgt a)) * nz fl a) k.
Proof.
  induction k as [|k IH]; intros H; cbn [nsum].
  - apply nsum_zero. intros; lia.
  - rewrite <- IH by (intros a Ha; apply H; lia). destruct (H k ltac:(lia)) as [H1 H2].
    rewrite <- (ind_coef k H1 H2), <- nsum_scal, <- nsum_add. apply nsum_ext. intros w _. lia.
Qed.

End Exchange.

(* ---------------- the depth of a node is at most n *)
Section Depth.
Variable C : consts.
Local Notation n := (c_n C).
Variable s : st.
Hypothesis HT : TreeOK C s.

Lemma chain_to_root : forall k v, (v <= n)%nat -> nz (depth s) v < Z.of_nat k ->
  exists p, chain C s v p n /\ Z.of_nat (length p) = nz (depth s) v.
Proof.
  induction k as [|k IH]; intros v Hv Hk; [pose proof (t_depnn C s HT v Hv); lia|].
  destruct (Nat.eq_dec v n) as [->|Hne].
  - exists []. split; [constructor|]. rewrite (t_dep0 C s HT). reflexivity.
  - assert (Hv' : (v < n)%nat) by lia. pose proof (t_dep C s HT v Hv') as Hd.
    destruct (IH _ (t_par C s HT v Hv') ltac:(lia)) as (p & Hp & Hl).
    exists (v :: p). split; [constructor; assumption|]. cbn [length]. lia.
Qed.

Lemma depth_le_n v : (v <= n)%nat -> nz (depth s) v <= Z.of_nat n.
Proof.
  intros Hv. pose proof (t_depnn C s HT v Hv) as H0.
  destruct (chain_to_root (S (Z.to_nat (nz (depth s) v))) v Hv ltac:(lia)) as (p & Hp & Hl).
  assert (Hlen : (length p <= length (seq 0 n))%nat).
  { apply NoDup_incl_length; [apply (chain_nodup C s HT _ _ _ Hp)|].
    intros x Hx. apply in_seq. destruct (chain_in C s HT _ _ _ Hp x Hx) as (H & _). lia. }
  rewrite seq_length in Hlen. lia.
Qed.

End Depth.

Lemma loop_status C : forall fuel mi s it stt s' it',
  loop C fuel mi s it = Some (stt, s', it') -> stt = OPTIMAL \/ stt = MAX_ITER.
Proof.
  induction fuel as [|fuel IH]; intros mi s it stt s' it' H; cbn [loop] in H.
  - destruct (it <? mi); [discriminate|]. inversion H. auto.
  - destruct (it <? mi); [|inversion H; auto].
    destruct (step C s) as [| |s1]; [inversion H; auto|discriminate|exact (IH _ _ _ _ _ _ H)].
Qed.

(* ---------------- the final state with artificial flow left *)
Section Infeas.
Variables (n : nat) (arcs : list arc) (sup : list Z).
Local Notation C := (mk_consts n arcs sup).
Local Notation m := (length arcs).
Local Notation s0 := (init_st n arcs sup).
Local Notation src a := (nn (c_src C) a).
Local Notation tgt a := (nn (c_tgt C) a).
Local Notation cap a := (nz (c_cap C) a).
Local Notation cst a := (nz (c_cost C) a).
Hypothesis Hv : valid_arcs n arcs = true.
Variable s : st.
Hypothesis I : NSInv C (netx C (flow s0)) s.
Hypothesis Hopt : pricing C s = None.
Local Notation ppi v := (nz (pi s) v).
Local Notation dep v := (nz (depth s) v).
Let HT : TreeOK C s := i_tree C _ s I.
Let Cs : Z := zsum (map (fun a => Z.abs (a_c a)) arcs).
Let M : Z := big_m n arcs.

Lemma Cs_nonneg : 0 <= Cs.
Proof. apply zsum_nonneg. intros x Hx. apply in_map_iff in Hx. destruct Hx as (a & <- & _). lia. Qed.

Lemma M_eq : M = Cs * Z.of_nat n + 1.
Proof. reflexivity. Qed.

Lemma cost_le a : (a < m)%nat -> Z.abs (cst a) <= Cs.
Proof.
  intros Ha. rewrite cst_orig by exact Ha. apply zsum_ge_elem.
  - intros x Hx. apply in_map_iff in Hx. destruct Hx as (a' & <- & _). lia.
  - apply in_map_iff. exists (nth a arcs arc0). split; [reflexivity|apply nth_In; exact Ha].
Qed.

Lemma T_eq : (c_m C + c_n C)%nat = (m + n)%nat.
Proof. reflexivity. Qed.

Lemma pi_root : ppi n = 0.
Proof. exact (i_pi0 C _ s I). Qed.

Lemma dep_root : dep n = 0.
Proof. exact (t_dep0 C s HT). Qed.

Lemma arc_kind a : (a < m + n)%nat -> (a < m)%nat \/ exists i, (i < n)%nat /\ a = (m + i)%nat.
Proof. intros Ha. destruct (Nat.lt_ge_cases a m) as [H|H]; [left; exact H|right; exists (a - m)%nat; split; lia]. Qed.

(* potentials: +-M up to (depth - 1) * Cs *)
Lemma pi_bound : forall k v, (v < n)%nat -> dep v <= Z.of_nat k ->
  (M - (dep v - 1) * Cs <= ppi v <= M + (dep v - 1) * Cs) \/
  (- M - (dep v - 1) * Cs <= ppi v <= - M + (dep v - 1) * Cs).
Proof.
  induction k as [|k IH]; intros v Hvn Hk; [pose proof (dep_pos C s HT v Hvn); lia|].
  destruct (t_pred C s HT v Hvn) as [Ha J]. rewrite T_eq in Ha.
  pose proof (t_dep C s HT v Hvn) as Hd. pose proof (i_pi C _ s I v Hvn) as Hp.
  set (a := nn (pred s) v) in *. set (u := nn (parent s) v) in *.
  destruct (arc_kind a Ha) as [Hlt|(i & Hi & Ea)].
  - (* an original arc: the parent is not the root *)
    destruct (valid_nth n arcs a Hv Hlt) as (V1 & V2 & _). rewrite <- (src_orig n arcs sup a Hlt) in V1. rewrite <- (tgt_orig n arcs sup a Hlt) in V2.
    assert (Hun : (u < n)%nat) by (destruct J as [[J1 J2]|[J1 J2]]; lia).
    pose proof (cost_le a Hlt) as Hc.
    specialize (IH u Hun ltac:(lia)).
    replace ((dep v - 1) * Cs) with ((dep u - 1) * Cs + Cs) by (rewrite Hd; ring).
    destruct (Nat.eqb (src a) v); lia.
  - (* an artificial arc: v hangs below the root *)
    rewrite Ea in J, Hp. rewrite src_art in Hp by exact Hi. rewrite cst_art in Hp by exact Hi. fold M in Hp.
    unfold joins in J. rewrite src_art, tgt_art in J by exact Hi.
    assert (Eu : u = n /\ i = v) by (destruct (0 <=? nz sup i); destruct J as [[J1 J2]|[J1 J2]]; lia).
    destruct Eu as [Eu Ei]. rewrite Eu in Hp, Hd. rewrite pi_root in Hp. rewrite dep_root in Hd.
    rewrite Hd. rewrite Ei in Hp. destruct (0 <=? nz sup v).
    + rewrite Nat.eqb_refl in Hp. left. lia.
    + destruct (Nat.eqb_spec n v); [lia|]. right. lia.
Qed.

Lemma pi_far v : (v < n)%nat -> Cs + 1 <= ppi v \/ ppi v <= - (Cs + 1).
Proof.
  intros Hvn. pose proof Cs_nonneg as H0. pose proof (depth_le_n C s HT v ltac:(rewrite cn_eq; lia)) as Hdn. rewrite cn_eq in Hdn.
  pose proof (dep_pos C s HT v Hvn) as Hd1.
  assert (Hmul : (dep v - 1) * Cs <= (Z.of_nat n - 1) * Cs) by (apply Z.mul_le_mono_nonneg_r; lia).
  pose proof M_eq as HM.
  destruct (pi_bound (Z.to_nat (dep v)) v Hvn ltac:(lia)) as [H|H]; [left|right]; nia.
Qed.

Lemma signs a : (a < m + n)%nat ->
  (nz (state s) a = 1 -> 0 <= redcost C s a) /\ (nz (state s) a = -1 -> redcost C s a <= 0).
Proof. intros Ha. exact (pricing_none C s Hopt a Ha). Qed.

(* a non-basic or basic arc with positive reduced cost is empty, with negative reduced cost it is saturated *)
Lemma rc_pos_empty a : (a < m + n)%nat -> 0 < redcost C s a -> nz (flow s) a = 0.
Proof.
  intros Ha Hr. destruct (signs a Ha) as [S1 S2]. destruct (i_st3 C _ s I a Ha) as [E|[E|E]].
  - apply (i_lower C _ s I a Ha E).
  - pose proof (inv_tree_rc C _ s I a Ha E). lia.
  - specialize (S2 E). lia.
Qed.

Lemma rc_neg_full a : (a < m + n)%nat -> redcost C s a < 0 -> nz (flow s) a = cap a.
Proof.
  intros Ha Hr. destruct (signs a Ha) as [S1 S2]. destruct (i_st3 C _ s I a Ha) as [E|[E|E]].
  - specialize (S1 E). lia.
  - pose proof (inv_tree_rc C _ s I a Ha E). lia.
  - apply (i_upper C _ s I a Ha E).
Qed.

Lemma orig_PN a : (a < m)%nat -> 0 < ppi (src a) -> ppi (tgt a) < 0 -> nz (flow s) a = cap a.
Proof.
  intros Ha H1 H2. destruct (valid_nth n arcs a Hv Ha) as (V1 & V2 & _). rewrite <- (src_orig n arcs sup a Ha) in V1. rewrite <- (tgt_orig n arcs sup a Ha) in V2.
  pose proof (cost_le a Ha) as Hc. pose proof Cs_nonneg.
  destruct (pi_far _ V1) as [P1|P1]; [|lia]. destruct (pi_far _ V2) as [P2|P2]; [lia|].
  apply rc_neg_full; [lia|]. unfold redcost. lia.
Qed.

Lemma orig_NP a : (a < m)%nat -> ppi (src a) < 0 -> 0 < ppi (tgt a) -> nz (flow s) a = 0.
Proof.
  intros Ha H1 H2. destruct (valid_nth n arcs a Hv Ha) as (V1 & V2 & _). rewrite <- (src_orig n arcs sup a Ha) in V1. rewrite <- (tgt_orig n arcs sup a Ha) in V2.
  pose proof (cost_le a Ha) as Hc. pose proof Cs_nonneg.
  destruct (pi_far _ V1) as [P1|P1]; [lia|]. destruct (pi_far _ V2) as [P2|P2]; [|lia].
  apply rc_pos_empty; [lia|]. unfold redcost. lia.
Qed.

(* artificial arc of a node with negative supply (root -> i), i in P: empty *)
Lemma art_in_P i : (i < n)%nat -> nz sup i < 0 -> 0 < ppi i -> nz (flow s) (m + i) = 0.
Proof.
  intros Hi Hs Hp. pose proof Cs_nonneg. pose proof M_eq.
  apply rc_pos_empty; [lia|]. unfold redcost. rewrite src_art, tgt_art, cst_art by exact Hi. fold M.
  destruct (Z.leb_spec 0 (nz sup i)); [lia|]. rewrite pi_root. nia.
Qed.

(* artificial arc of a node with non-negative supply (i -> root), i in N: empty *)
Lemma art_out_N i : (i < n)%nat -> 0 <= nz sup i -> ppi i < 0 -> nz (flow s) (m + i) = 0.
Proof.
  intros Hi Hs Hp. pose proof Cs_nonneg. pose proof M_eq.
  apply rc_pos_empty; [lia|]. unfold redcost. rewrite src_art, tgt_art, cst_art by exact Hi. fold M.
  destruct (Z.leb_spec 0 (nz sup i)); [|lia]. rewrite pi_root. nia.
Qed.

Definition cutP : list bool := map (fun w => 0 <? ppi w) (seq 0 n).
Definition cutN : list bool := map (fun w => ppi w <? 0) (seq 0 n).

Lemma inS_cutP w : inS cutP w = if Nat.ltb w n then 0 <? ppi w else false.
Proof.
  unfold inS, cutP. destruct (Nat.ltb_spec w n) as [H|H].
  - apply (nth_map_seq (fun w => 0 <? ppi w)). exact H.
  - apply nth_overflow. rewrite map_length, seq_length. exact H.
Qed.

Lemma inS_cutN w : inS cutN w = if Nat.ltb w n then ppi w <? 0 else false.
Proof.
  unfold inS, cutN. destruct (Nat.ltb_spec w n) as [H|H].
  - apply (nth_map_seq (fun w => ppi w <? 0)). exact H.
  - apply nth_overflow. rewrite map_length, seq_length. exact H.
Qed.

Lemma sign_dec v : (v < n)%nat -> (0 < ppi v /\ (0 <? ppi v) = true /\ (ppi v <? 0) = false) \/
                                 (ppi v < 0 /\ (0 <? ppi v) = false /\ (ppi v <? 0) = true).
Proof.
  intros Hvn. pose proof Cs_nonneg. destruct (pi_far v Hvn) as [H1|H1]; [left|right];
    (split; [lia|split; [apply Z.ltb_lt || apply Z.ltb_ge|apply Z.ltb_lt || apply Z.ltb_ge]; lia]).
Qed.

(* conservation summed over the node set S (root not in S) *)
Lemma sum_over S : inS S n = false ->
  sum_b (supply_b sup) S n =
  nsum (fun a => ((if inS S (src a) then 1 else 0) - (if inS S (tgt a) then 1 else 0)) * nz (flow s) a) m +
  nsum (fun i => ((if inS S (src (m + i)) then 1 else 0) - (if inS S (tgt (m + i)) then 1 else 0)) * nz (flow s) (m + i)) n.
Proof.
  intros Hn. rewrite sum_b_nsum.
  rewrite (nsum_ext _ (fun w => (if inS S w then 1 else 0) * netx C (flow s) w)).
  - unfold netx. rewrite (exchange C (fun w => if inS S w then 1 else 0)).
    + rewrite T_eq, nsum_app. reflexivity.
    + rewrite cn_eq, Hn. reflexivity.
    + intros a Ha. destruct (consts_ok n arcs sup Hv a Ha) as (H1 & H2 & _). auto.
  - intros w Hw. rewrite (i_cons C _ s I w), (init_netx n arcs sup w Hw). reflexivity.
Qed.

Theorem final_cut : (exists i, (i < n)%nat /\ 0 < nz (flow s) (m + i)) ->
  cut_check n arcs (supply_b sup) cutP = true \/ cut_check n arcs (supply_b sup) cutN = true.
Proof.
  intros (i0 & Hi0 & Hpos). unfold cut_check. rewrite Hv. cbn [andb].
  assert (Hfl : forall a, (a < m + n)%nat -> 0 <= nz (flow s) a) by (intros a Ha; apply (i_bounds C _ s I a Ha)).
  destruct (sign_dec i0 Hi0) as [(Hp & _)|(Hp & _)].
  - (* i0 in P: P ships out more than the cut lets through *)
    left. apply orb_true_iff. left. apply Z.ltb_lt.
    rewrite (sum_over cutP) by (rewrite inS_cutP, Nat.ltb_irrefl; reflexivity). rewrite cut_cap_nsum.
    rewrite (nsum_ext (fun a => ((if inS cutP (src a) then 1 else 0) - (if inS cutP (tgt a) then 1 else 0)) * nz (flow s) a)
                      (fun k => if (inS cutP (a_u (nth k arcs arc0)) && negb (inS cutP (a_v (nth k arcs arc0))))%bool
                                then a_cap (nth k arcs arc0) else 0) m).
    + assert (0 < nsum (fun i => ((if inS cutP (src (m + i)) then 1 else 0) - (if inS cutP (tgt (m + i)) then 1 else 0)) *
                                 nz (flow s) (m + i)) n); [|lia].
      apply (nsum_pos _ n i0); [|exact Hi0|].
      * intros i Hi. rewrite src_art, tgt_art by exact Hi. specialize (Hfl (m + i)%nat ltac:(lia)).
        destruct (Z.leb_spec 0 (nz sup i)) as [Hs|Hs]; rewrite !inS_cutP, Nat.ltb_irrefl; destruct (Nat.ltb_spec i n); try lia.
        -- destruct (0 <? ppi i); lia.
        -- destruct (sign_dec i Hi) as [(Q & -> & _)|(Q & -> & _)]; [rewrite (art_in_P i Hi Hs Q)|]; lia.
      * rewrite src_art, tgt_art by exact Hi0.
        destruct (Z.leb_spec 0 (nz sup i0)) as [Hs|Hs]; rewrite !inS_cutP, Nat.ltb_irrefl; destruct (Nat.ltb_spec i0 n); try lia.
        -- replace (0 <? ppi i0) with true by (symmetry; apply Z.ltb_lt; exact Hp). lia.
        -- rewrite (art_in_P i0 Hi0 Hs Hp) in Hpos. lia.
    + intros a Ha. destruct (valid_nth n arcs a Hv Ha) as (V1 & V2 & _).
      rewrite <- (src_orig n arcs sup a Ha) in *. rewrite <- (tgt_orig n arcs sup a Ha) in *. rewrite <- (cap_orig n arcs sup a Ha). rewrite !inS_cutP.
      destruct (Nat.ltb_spec (src a) n); [|lia]. destruct (Nat.ltb_spec (tgt a) n); [|lia].
      destruct (sign_dec _ V1) as [(Q1 & -> & _)|(Q1 & -> & _)]; destruct (sign_dec _ V2) as [(Q2 & -> & _)|(Q2 & -> & _)]; cbn [andb negb].
      * lia.
      * rewrite (orig_PN a Ha Q1 Q2). lia.
      * rewrite (orig_NP a Ha Q1 Q2). lia.
      * lia.
  - (* i0 in N: N must take in more than can enter *)
    right. apply orb_true_iff. right. apply Z.ltb_lt.
    rewrite (sum_over cutN) by (rewrite inS_cutN, Nat.ltb_irrefl; reflexivity). rewrite cut_in_nsum.
    rewrite (nsum_ext (fun a => ((if inS cutN (src a) then 1 else 0) - (if inS cutN (tgt a) then 1 else 0)) * nz (flow s) a)
                      (fun k => (if (negb (inS cutN (a_u (nth k arcs arc0))) && inS cutN (a_v (nth k arcs arc0)))%bool
                                 then a_cap (nth k arcs arc0) else 0) * -1) m).
    + rewrite nsum_scal.
      assert (0 < nsum (fun i => (((if inS cutN (src (m + i)) then 1 else 0) - (if inS cutN (tgt (m + i)) then 1 else 0)) *
                                  nz (flow s) (m + i)) * -1) n); [|rewrite nsum_scal in *; lia].
      apply (nsum_pos _ n i0); [|exact Hi0|].
      * intros i Hi. rewrite src_art, tgt_art by exact Hi. specialize (Hfl (m + i)%nat ltac:(lia)).
        destruct (Z.leb_spec 0 (nz sup i)) as [Hs|Hs]; rewrite !inS_cutN, Nat.ltb_irrefl; destruct (Nat.ltb_spec i n); try lia.
        -- destruct (sign_dec i Hi) as [(Q & _ & ->)|(Q & _ & ->)]; [|rewrite (art_out_N i Hi Hs Q)]; lia.
        -- destruct (ppi i <? 0); lia.
      * rewrite src_art, tgt_art by exact Hi0.
        destruct (Z.leb_spec 0 (nz sup i0)) as [Hs|Hs]; rewrite !inS_cutN, Nat.ltb_irrefl; destruct (Nat.ltb_spec i0 n); try lia.
        -- rewrite (art_out_N i0 Hi0 Hs Hp) in Hpos. lia.
        -- replace (ppi i0 <? 0) with true by (symmetry; apply Z.ltb_lt; exact Hp). lia.
    + intros a Ha. destruct (valid_nth n arcs a Hv Ha) as (V1 & V2 & _).
      rewrite <- (src_orig n arcs sup a Ha) in *. rewrite <- (tgt_orig n arcs sup a Ha) in *. rewrite <- (cap_orig n arcs sup a Ha). rewrite !inS_cutN.
      destruct (Nat.ltb_spec (src a) n); [|lia]. destruct (Nat.ltb_spec (tgt a) n); [|lia].
      destruct (sign_dec _ V1) as [(Q1 & _ & ->)|(Q1 & _ & ->)]; destruct (sign_dec _ V2) as [(Q2 & _ & ->)|(Q2 & _ & ->)]; cbn [andb negb].
      * lia.
      * rewrite (orig_PN a Ha Q1 Q2). lia.
      * rewrite (orig_NP a Ha Q1 Q2). lia.
      * lia.
Qed.

End Infeas.

(* ---------------- the public result *)
Lemma nth_skipn_add {A} (d : A) : forall k l i, nth i (skipn k l) d = nth (k + i) l d.
Proof.
  induction k as [|k IH]; intros l i; [reflexivity|]. destruct l as [|x l]; [destruct i; reflexivity|].
  cbn [skipn Nat.add nth]. apply IH.
Qed.

Lemma existsb_skipn_pos : forall (l : list Z) k, existsb (fun x => 0 <? x) (skipn k l) = true ->
  exists i, (k + i < length l)%nat /\ 0 < nth (k + i) l 0.
Proof.
  intros l k H. apply existsb_exists in H. destruct H as (x & Hx & Hp). apply Z.ltb_lt in Hp.
  destruct (In_nth _ _ 0 Hx) as (i & Hi & E). rewrite skipn_length in Hi.
  exists i. split; [lia|]. rewrite nth_skipn_add in E. rewrite E. exact Hp.
Qed.

Lemma psum_const c : forall arcs f, psum (fun _ => c) arcs f = 0.
Proof. induction arcs as [|a arcs IH]; intros [|x f]; cbn [psum]; try reflexivity. rewrite IH. lia. Qed.

Lemma wsum_one_nsum b : forall k, wsum (fun _ => 1) b k = nsum b k.
Proof. induction k as [|k IH]; [reflexivity|]. cbn [wsum nsum]. rewrite IH. lia. Qed.

Theorem ns_infeasible_sound : forall n arcs sup max_iter r,
  valid_arcs n arcs = true -> length sup = n ->
  network_simplex n arcs sup max_iter = Some r -> r_status r = INFEASIBLE ->
  infeasible n arcs (supply_b sup).
Proof.
  intros n arcs sup mi r Hv Hlen H Hst. unfold network_simplex in H.
  destruct (zsum sup =? 0) eqn:Ez; cbn [negb] in H.
  2: { (* unbalanced supplies *)
    apply Z.eqb_neq in Ez. intros f [Hb Hbal]. apply Ez.
    pose proof (psum_balanced (fun _ => 1) n arcs _ f Hv Hbal) as Hp. rewrite psum_const, wsum_one_nsum in Hp.
    rewrite zsum_nsum, Hlen. symmetry. exact Hp. }
  destruct arcs as [|a0 arcs0].
  { destruct (forallb (fun x => x =? 0) sup) eqn:Ef; inversion H; subst r; [discriminate|].
    intros f [Hb Hbal]. assert (forallb (fun x => x =? 0) sup = true); [|congruence].
    apply forallb_forall. intros x Hx. destruct (In_nth _ _ 0 Hx) as (w & Hw & <-). apply Z.eqb_eq.
    pose proof (Hbal w ltac:(lia)) as E. cbn [netout] in E. unfold supply_b in E. symmetry. exact E. }
  remember (a0 :: arcs0) as arcs eqn:HA. clear HA a0 arcs0.
  destruct (ns_run n arcs sup mi) as [[[stt fl] it]|] eqn:Er; [|discriminate].
  unfold ns_run in Er.
  destruct (loop (mk_consts n arcs sup) (Z.to_nat (Z.min mi 5000)) mi (init_st n arcs sup) 0) as [[[stt' s] it']|] eqn:El; [|discriminate].
  inversion Er; subst stt' fl it'. clear Er.
  destruct (loop_status _ _ _ _ _ _ _ _ El) as [->| ->].
  - destruct (existsb (fun x => 0 <? x) (skipn (length arcs) (flow s))) eqn:Ex.
    + apply existsb_skipn_pos in Ex. destruct Ex as (i & Hi & Hp).
      pose proof (loop_state_inv n arcs sup Hv _ _ _ _ _ El) as I.
      rewrite (i_lflow _ _ s I), cm_eq, cn_eq in Hi.
      destruct (final_cut n arcs sup Hv s I (loop_optimal _ _ _ _ _ _ _ El)) as [Hc|Hc].
      * exists i. split; [lia|exact Hp].
      * exact (cut_check_sound _ _ _ _ Hc).
      * exact (cut_check_sound _ _ _ _ Hc).
    + inversion H; subst r. discriminate.
  - destruct (existsb (fun x => 0 <? x) (skipn (length arcs) (flow s))); inversion H; subst r; discriminate.
Qed.
