(* C09 - executable Gallina model of solvor/flow.py: min_cost_flow() and solve_assignment()
   (state of /repo after fix 0eabfff: residual network kept as an explicit EDGE LIST).

   Representation.
   * node labels = nat < n (first-occurrence numbering done by the harness; n = len(nodes), i.e. the number of
     distinct labels among source, sink, the keys of `graph` and all arc heads).
   * input arcs = list of (u, v, cap, cost) in the order `for u in graph: for (v, cap, c) in graph[u]`.
   * the four parallel Python lists tails/heads/residual/cost have length 2m; input arc k is edge 2k, its
     reverse is edge 2k+1 = 2k^1.  Here edge 2k+b is the pair (k, b) : nat * bool, `e ^ 1` is (k, negb b),
     and residual[2k], residual[2k+1] are kept as the pair (fwd, bwd) = nth k res.  tails/heads/cost never
     change and are read off the arc list.  The order in which Bellman-Ford relaxes the edges
     (0, 1, 2, ... = (0,false), (0,true), (1,false), ...) is the Python order.
   * dist : list (option Z), None = float("inf");  parent : list (option edge).
   * numbers: Z (the harness feeds integers; Python int arithmetic is exact).
   Fuel: outer loop S (Z.to_nat demand) augmentations, path reconstruction n steps; exhaustion = None
   (in the real code: a loop that does not end). *)
From Coq Require Import List ZArith Bool Arith Lia.
Import ListNotations.
Open Scope Z_scope.

Module Mcf.

Definition arc := (nat * nat * Z * Z)%type.
Definition a_u (a : arc) : nat := fst (fst (fst a)).
Definition a_v (a : arc) : nat := snd (fst (fst a)).
Definition a_cap (a : arc) : Z := snd (fst a).
Definition a_c (a : arc) : Z := snd a.
Definition arc0 : arc := (0%nat, 0%nat, 0, 0).

Definition edge := (nat * bool)%type.
Definition resid := list (Z * Z).

Fixpoint upd {A} (l : list A) (i : nat) (x : A) : list A :=
  match l, i with
  | [], _ => []
  | _ :: t, O => x :: t
  | h :: t, S j => h :: upd t j x
  end.

(* tails[e], heads[e], cost[e], residual[e] *)
Definition e_tail (arcs : list arc) (e : edge) : nat :=
  let a := nth (fst e) arcs arc0 in if snd e then a_v a else a_u a.
Definition e_head (arcs : list arc) (e : edge) : nat :=
  let a := nth (fst e) arcs arc0 in if snd e then a_u a else a_v a.
Definition e_cost (arcs : list arc) (e : edge) : Z :=
  let a := nth (fst e) arcs arc0 in if snd e then - a_c a else a_c a.
Definition e_res (res : resid) (e : edge) : Z :=
  let p := nth (fst e) res (0, 0) in if snd e then snd p else fst p.

(* residual += [cap, 0] *)
Definition init_res (arcs : list arc) : resid := map (fun a => (a_cap a, 0)) arcs.

(* enumerate(zip(tails, heads)) together with cost[e] and residual[e] : (e, u, v, cost, residual) *)
Fixpoint res_edges (k : nat) (arcs : list arc) (res : resid) : list (edge * nat * nat * Z * Z) :=
  match arcs, res with
  | a :: arcs', (rf, rb) :: res' =>
      ((k, false), a_u a, a_v a, a_c a, rf) :: ((k, true), a_v a, a_u a, - a_c a, rb)
      :: res_edges (S k) arcs' res'
  | _, _ => []
  end.

Definition bfst := (list (option Z) * list (option edge) * bool)%type.

(* if residual[e] > 0 and dist[u] + cost[e] < dist[v]: dist[v] = ...; parent[v] = e; updated = True *)
Definition relax (st : bfst) (x : edge * nat * nat * Z * Z) : bfst :=
  let '(dist, par, _) := st in
  let '(e, u, v, c, r) := x in
  if 0 <? r then
    match nth u dist None with
    | None => st                                   (* inf + c < anything is False *)
    | Some du =>
        let nd := du + c in
        match nth v dist None with
        | None => (upd dist v (Some nd), upd par v (Some e), true)
        | Some dv => if nd <? dv then (upd dist v (Some nd), upd par v (Some e), true) else st
        end
    end
  else st.

(* one `for e, (u, v) in enumerate(zip(tails, heads))` sweep, `updated` starting at False *)
Definition bf_round (edges : list (edge * nat * nat * Z * Z)) (dist : list (option Z)) (par : list (option edge)) : bfst :=
  fold_left relax edges (dist, par, false).

(* for _ in range(len(nodes) - 1): ... if not updated: break *)
Fixpoint bf_rounds (rounds : nat) (edges : list (edge * nat * nat * Z * Z))
         (dist : list (option Z)) (par : list (option edge)) : list (option Z) * list (option edge) :=
  match rounds with
  | O => (dist, par)
  | S r => let '(d', p', updd) := bf_round edges dist par in
           if updd then bf_rounds r edges d' p' else (d', p')
  end.

(* while parent[node] is not None: path.append(parent[node]); node = tails[parent[node]]
   (path in sink-to-source order, before path.reverse()) *)
Fixpoint walk (arcs : list arc) (par : list (option edge)) (fuel : nat) (node : nat) : option (list edge) :=
  match nth node par None with
  | None => Some []
  | Some e =>
      match fuel with
      | O => None
      | S f => match walk arcs par f (e_tail arcs e) with
               | Some p => Some (e :: p)
               | None => None
               end
      end
  end.

Inductive bfres := BFNoPath | BFHang | BFPath (path : list edge) (d : Z).

Definition bellman_ford (n : nat) (arcs : list arc) (res : resid) (source sink : nat) : bfres :=
  let dist0 := upd (repeat None n) source (Some 0) in
  let par0 := repeat None n in
  let '(dist, par) := bf_rounds (n - 1) (res_edges 0 arcs res) dist0 par0 in
  match nth sink dist None with
  | None => BFNoPath
  | Some d => match walk arcs par n sink with
              | None => BFHang
              | Some p => BFPath (rev p) d
              end
  end.

(* residual[e] -= path_flow; residual[e ^ 1] += path_flow *)
Definition aug1 (res : resid) (e : edge) (pf : Z) : resid :=
  let p := nth (fst e) res (0, 0) in
  upd res (fst e) (if snd e then (fst p + pf, snd p - pf) else (fst p - pf, snd p + pf)).

Definition bottleneck (res : resid) (path : list edge) (init : Z) : Z :=
  fold_left (fun pf e => Z.min pf (e_res res e)) path init.

Definition augment (arcs : list arc) (res : resid) (path : list edge) (pf : Z) (tc : Z) : resid * Z :=
  fold_left (fun st e => (aug1 (fst st) e pf, snd st + e_cost arcs e * pf)) path (res, tc).

Inductive status := OPTIMAL | INFEASIBLE.

(* internal state at the end of the while loop *)
Record run := { k_status : status; k_res : resid; k_cost : Z; k_flow : Z; k_iters : Z }.

Fixpoint mcf_loop (fuel : nat) (n : nat) (arcs : list arc) (source sink : nat) (demand : Z)
         (res : resid) (tc tf it : Z) : option run :=
  if tf <? demand then
    match fuel with
    | O => None
    | S f =>
        let it := it + 1 in
        match bellman_ford n arcs res source sink with
        | BFHang => None
        | BFNoPath => Some {| k_status := INFEASIBLE; k_res := res; k_cost := tc; k_flow := tf; k_iters := it |}
        | BFPath path _ =>
            let pf := bottleneck res path (demand - tf) in
            let '(res', tc') := augment arcs res path pf tc in
            mcf_loop f n arcs source sink demand res' tc' (tf + pf) it
        end
    end
  else Some {| k_status := OPTIMAL; k_res := res; k_cost := tc; k_flow := tf; k_iters := it |}.

Definition mcf_run (n : nat) (arcs : list arc) (source sink : nat) (demand : Z) : option run :=
  mcf_loop (S (Z.to_nat demand)) n arcs source sink demand (init_res arcs) 0 0 0.

(* flows[tails[e], heads[e]] += residual[e ^ 1]  (defaultdict(int), insertion ordered) *)
Fixpoint dict_add (d : list (nat * nat * Z)) (u v : nat) (x : Z) : list (nat * nat * Z) :=
  match d with
  | [] => [(u, v, x)]
  | (u', v', y) :: t => if (Nat.eqb u u' && Nat.eqb v v')%bool then (u', v', y + x) :: t
                        else (u', v', y) :: dict_add t u v x
  end.

Fixpoint pool (arcs : list arc) (res : resid) (d : list (nat * nat * Z)) : list (nat * nat * Z) :=
  match arcs, res with
  | a :: arcs', (_, rb) :: res' => pool arcs' res' (if 0 <? rb then dict_add d (a_u a) (a_v a) rb else d)
  | _, _ => d
  end.

(* public Result: status, solution dict, objective (meaningless = inf when INFEASIBLE), iterations *)
Record result := { r_status : status; r_flows : list (nat * nat * Z); r_cost : Z; r_iters : Z }.

Definition mcf (n : nat) (arcs : list arc) (source sink : nat) (demand : Z) : option result :=
  match mcf_run n arcs source sink demand with
  | None => None
  | Some k =>
      match k_status k with
      | INFEASIBLE => Some {| r_status := INFEASIBLE; r_flows := []; r_cost := 0; r_iters := k_iters k |}
      | OPTIMAL => Some {| r_status := OPTIMAL; r_flows := pool arcs (k_res k) []; r_cost := k_cost k; r_iters := k_iters k |}
      end
  end.

(* ------------------------------------------------------------------ solve_assignment
   nodes: "source" = 0, "sink" = 1, "L{i}" = 2+i, "R{j}" = 2+n+j.
   `for u in graph` visits source, L0..L(n-1), R0..R(m-1) (defaultdict insertion order), hence the arc order
   source->L_i (all i), then L_i->R_j (i major), then R_j->sink. *)
Definition nL (i : nat) : nat := (2 + i)%nat.
Definition nR (n j : nat) : nat := (2 + n + j)%nat.

Definition assign_arcs (n m : nat) (M : list (list Z)) : list arc :=
  map (fun i => (0%nat, nL i, 1, 0)) (seq 0 n)
  ++ flat_map (fun i => map (fun j => (nL i, nR n j, 1, nth j (nth i M []) 0)) (seq 0 m)) (seq 0 n)
  ++ map (fun j => (nR n j, 1%nat, 1, 0)) (seq 0 m).

(* for (u, v), f in flow.items(): if f > 0 and u is an L and v is an R: assignment[i] = j *)
Definition extract (n m : nat) (flows : list (nat * nat * Z)) : list Z :=
  fold_left (fun asg x => let '(u, v, f) := x in
               if ((0 <? f) && Nat.leb 2 u && Nat.ltb u (2 + n) && Nat.leb (2 + n) v)%bool
               then upd asg (u - 2) (Z.of_nat (v - (2 + n))) else asg)
            flows (repeat (-1) n).

Record aresult := { s_status : status; s_assign : list Z; s_cost : Z; s_iters : Z }.

Definition solve_assignment (M : list (list Z)) : option aresult :=
  let n := length M in
  let m := match M with [] => O | r :: _ => length r end in
  match mcf (2 + n + m) (assign_arcs n m M) 0 1 (Z.of_nat (Nat.min n m)) with
  | None => None
  | Some r => Some {| s_status := r_status r; s_assign := extract n m (r_flows r); s_cost := r_cost r; s_iters := r_iters r |}
  end.

(* ------------------------------------------------------------------ observable comparison *)
Definition status_eqb (a b : status) : bool :=
  match a, b with OPTIMAL, OPTIMAL => true | INFEASIBLE, INFEASIBLE => true | _, _ => false end.

Fixpoint dict_get (d : list (nat * nat * Z)) (u v : nat) : option Z :=
  match d with
  | [] => None
  | (u', v', y) :: t => if (Nat.eqb u u' && Nat.eqb v v')%bool then Some y else dict_get t u v
  end.

(* equality of two dicts as finite maps (keys are unique on both sides) *)
Definition dict_eqb (a b : list (nat * nat * Z)) : bool :=
  (Nat.eqb (length a) (length b)
   && forallb (fun x => let '(u, v, y) := x in match dict_get b u v with Some z => Z.eqb y z | None => false end) a)%bool.

(* the objective of an INFEASIBLE result is float("inf"): not compared *)
Definition result_eqb (a b : result) : bool :=
  (status_eqb (r_status a) (r_status b) && dict_eqb (r_flows a) (r_flows b)
   && (match r_status a with OPTIMAL => Z.eqb (r_cost a) (r_cost b) | INFEASIBLE => true end)
   && Z.eqb (r_iters a) (r_iters b))%bool.

Fixpoint zlist_eqb (a b : list Z) : bool :=
  match a, b with
  | [], [] => true
  | x :: a', y :: b' => (Z.eqb x y && zlist_eqb a' b')%bool
  | _, _ => false
  end.

Definition aresult_eqb (a b : aresult) : bool :=
  (status_eqb (s_status a) (s_status b) && zlist_eqb (s_assign a) (s_assign b)
   && (match s_status a with OPTIMAL => Z.eqb (s_cost a) (s_cost b) | INFEASIBLE => true end)
   && Z.eqb (s_iters a) (s_iters b))%bool.

Definition opt_eqb {A} (f : A -> A -> bool) (a b : option A) : bool :=
  match a, b with Some x, Some y => f x y | None, None => true | _, _ => false end.

End Mcf.
