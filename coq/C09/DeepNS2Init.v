(* C09 deepening, round 2 - network_simplex: the arc tables built from the input, and the initial big-M basis
   (all artificial arcs basic, every original arc at its lower bound) satisfies the invariant NSInv. *)
From Coq Require Import List ZArith Bool Arith Lia.
From SV Require Import C09.Mcf C09.McfSpec C09.McfCert C09.McfAug C09.NetSimplex C09.DeepNS2Base.
Import ListNotations.
Open Scope Z_scope.
Import Mcf McfSpec NetSimplex.

Lemma nth_map_seq {A} (f : nat -> A) d : forall k i, (i < k)%nat -> nth i (map f (seq 0 k)) d = f i.
Proof.
  intros k i Hi. rewrite (nth_indep _ d (f 0%nat)) by (rewrite map_length, seq_length; exact Hi).
  rewrite map_nth, seq_nth by exact Hi. reflexivity.
Qed.

Lemma nth_repeat_lt {A} (x d : A) : forall k i, (i < k)%nat -> nth i (repeat x k) d = x.
Proof. induction k as [|k IH]; intros i Hi; [lia|]. destruct i as [|i]; [reflexivity|]. cbn [repeat nth]. apply IH. lia. Qed.

Lemma nsum_const c k : nsum (fun _ => c) k = c * Z.of_nat k.
Proof. induction k as [|k IH]; [cbn; lia|]. cbn [nsum]. rewrite IH. lia. Qed.

Definition big_m (n : nat) (arcs : list arc) : Z := zsum (map (fun a => Z.abs (a_c a)) arcs) * Z.of_nat n + 1.

Section Init.
Variables (n : nat) (arcs : list arc) (sup : list Z).
Local Notation C := (mk_consts n arcs sup).
Local Notation m := (length arcs).
Local Notation src a := (nn (c_src C) a).
Local Notation tgt a := (nn (c_tgt C) a).
Local Notation cap a := (nz (c_cap C) a).
Local Notation cst a := (nz (c_cost C) a).

Lemma cm_eq : c_m C = m.  Proof. reflexivity. Qed.
Lemma cn_eq : c_n C = n.  Proof. reflexivity. Qed.

(* ---- original arcs *)
Lemma src_orig a : (a < m)%nat -> src a = a_u (nth a arcs arc0).
Proof.
  intros H. unfold nn. cbn [mk_consts c_src]. rewrite app_nth1 by (rewrite map_length; exact H).
  change 0%nat with (a_u arc0) at 1. apply map_nth.
Qed.
Lemma tgt_orig a : (a < m)%nat -> tgt a = a_v (nth a arcs arc0).
Proof.
  intros H. unfold nn. cbn [mk_consts c_tgt]. rewrite app_nth1 by (rewrite map_length; exact H).
  change 0%nat with (a_v arc0) at 1. apply map_nth.
Qed.
Lemma cap_orig a : (a < m)%nat -> cap a = a_cap (nth a arcs arc0).
Proof.
  intros H. unfold nz. cbn [mk_consts c_cap]. rewrite app_nth1 by (rewrite map_length; exact H).
  change 0 with (a_cap arc0) at 1. apply map_nth.
Qed.
Lemma cst_orig a : (a < m)%nat -> cst a = a_c (nth a arcs arc0).
Proof.
  intros H. unfold nz. cbn [mk_consts c_cost]. rewrite app_nth1 by (rewrite map_length; exact H).
  change 0 with (a_c arc0) at 1. apply map_nth.
Qed.

(* ---- artificial arcs *)
Lemma src_art i : (i < n)%nat -> src (m + i) = if 0 <=? nz sup i then i else n.
Proof.
  intros H. unfold nn. cbn [mk_consts c_src]. rewrite app_nth2 by (rewrite map_length; lia).
  rewrite map_length. replace (m + i - m)%nat with i by lia. apply (nth_map_seq (fun i => if 0 <=? nz sup i then i else n)). exact H.
Qed.
Lemma tgt_art i : (i < n)%nat -> tgt (m + i) = if 0 <=? nz sup i then n else i.
Proof.
  intros H. unfold nn. cbn [mk_consts c_tgt]. rewrite app_nth2 by (rewrite map_length; lia).
  rewrite map_length. replace (m + i - m)%nat with i by lia. apply (nth_map_seq (fun i => if 0 <=? nz sup i then n else i)). exact H.
Qed.
Lemma cap_art i : (i < n)%nat -> cap (m + i) = Z.abs (nz sup i) + 1.
Proof.
  intros H. unfold nz at 1. cbn [mk_consts c_cap]. rewrite app_nth2 by (rewrite map_length; lia).
  rewrite map_length. replace (m + i - m)%nat with i by lia. apply (nth_map_seq (fun i => Z.abs (nz sup i) + 1)). exact H.
Qed.
Lemma cst_art i : (i < n)%nat -> cst (m + i) = big_m n arcs.
Proof.
  intros H. unfold nz at 1. cbn [mk_consts c_cost]. rewrite app_nth2 by (rewrite map_length; lia).
  rewrite map_length. replace (m + i - m)%nat with i by lia. apply nth_repeat_lt. exact H.
Qed.

Lemma valid_nth a : valid_arcs n arcs = true -> (a < m)%nat ->
  (a_u (nth a arcs arc0) < n)%nat /\ (a_v (nth a arcs arc0) < n)%nat /\ 0 <= a_cap (nth a arcs arc0).
Proof.
  intros Hv Ha. unfold valid_arcs in Hv. rewrite forallb_forall in Hv. specialize (Hv (nth a arcs arc0) (nth_In _ _ Ha)).
  apply andb_prop in Hv. destruct Hv as [Hv H3]. apply andb_prop in Hv. destruct Hv as [H1 H2].
  apply Nat.ltb_lt in H1. apply Nat.ltb_lt in H2. apply Z.leb_le in H3. auto.
Qed.

Lemma consts_ok : valid_arcs n arcs = true -> ConstOK C.
Proof.
  intros Hv a Ha. rewrite cm_eq, cn_eq in *. destruct (Nat.lt_ge_cases a m) as [Hlt|Hge].
  - rewrite src_orig, tgt_orig, cap_orig by exact Hlt. destruct (valid_nth a Hv Hlt) as (H1 & H2 & H3). lia.
  - replace a with (m + (a - m))%nat by lia. rewrite src_art, tgt_art, cap_art by lia.
    destruct (0 <=? nz sup (a - m)); lia.
Qed.

(* ---- the initial state *)
Local Notation s0 := (init_st n arcs sup).

Lemma flow0_orig a : (a < m)%nat -> nz (flow s0) a = 0.
Proof. intros H. unfold nz. cbn [init_st flow]. rewrite app_nth1 by (rewrite repeat_length; exact H). apply nth_repeat_lt. exact H. Qed.
Lemma flow0_art i : (i < n)%nat -> nz (flow s0) (m + i) = Z.abs (nz sup i).
Proof.
  intros H. unfold nz at 1. cbn [init_st flow]. rewrite app_nth2 by (rewrite repeat_length; lia).
  rewrite repeat_length. replace (m + i - m)%nat with i by lia. apply (nth_map_seq (fun i => Z.abs (nz sup i))). exact H.
Qed.
Lemma state0_orig a : (a < m)%nat -> nz (state s0) a = 1.
Proof. intros H. unfold nz. cbn [init_st state]. rewrite app_nth1 by (rewrite repeat_length; exact H). apply nth_repeat_lt. exact H. Qed.
Lemma state0_art i : (i < n)%nat -> nz (state s0) (m + i) = 0.
Proof.
  intros H. unfold nz. cbn [init_st state]. rewrite app_nth2 by (rewrite repeat_length; lia).
  rewrite repeat_length. apply nth_repeat_lt. lia.
Qed.
Lemma parent0 v : (v < n)%nat -> nn (parent s0) v = n.
Proof. intros H. unfold nn. cbn [init_st parent]. rewrite app_nth1 by (rewrite repeat_length; exact H). apply nth_repeat_lt. exact H. Qed.
Lemma pred0 v : (v < n)%nat -> nn (pred s0) v = (m + v)%nat.
Proof. intros H. unfold nn. cbn [init_st pred]. rewrite app_nth1 by (rewrite seq_length; exact H). apply seq_nth. exact H. Qed.
Lemma depth0_lt v : (v < n)%nat -> nz (depth s0) v = 1.
Proof. intros H. unfold nz. cbn [init_st depth]. rewrite app_nth1 by (rewrite repeat_length; exact H). apply nth_repeat_lt. exact H. Qed.
Lemma depth0_root : nz (depth s0) n = 0.
Proof. unfold nz. cbn [init_st depth]. rewrite app_nth2 by (rewrite repeat_length; lia). rewrite repeat_length, Nat.sub_diag. reflexivity. Qed.
Lemma pi0_lt v : (v < n)%nat -> nz (pi s0) v = if 0 <=? nz sup v then big_m n arcs else - big_m n arcs.
Proof.
  intros H. unfold nz at 1. cbn [init_st pi]. rewrite app_nth1 by (rewrite map_length, seq_length; exact H).
  apply (nth_map_seq (fun i => if 0 <=? nz sup i then big_m n arcs else - big_m n arcs)). exact H.
Qed.
Lemma pi0_root : nz (pi s0) n = 0.
Proof. unfold nz. cbn [init_st pi]. rewrite app_nth2 by (rewrite map_length, seq_length; lia). rewrite map_length, seq_length, Nat.sub_diag. reflexivity. Qed.
Lemma tadj0_lt w : (w < n)%nat -> nth w (tadj s0) [] = [(m + w)%nat].
Proof.
  intros H. cbn [init_st tadj]. rewrite app_nth1 by (rewrite map_length, seq_length; exact H).
  apply (nth_map_seq (fun i => [(m + i)%nat])). exact H.
Qed.
Lemma tadj0_root : nth n (tadj s0) [] = seq m n.
Proof. cbn [init_st tadj]. rewrite app_nth2 by (rewrite map_length, seq_length; lia). rewrite map_length, seq_length, Nat.sub_diag. reflexivity. Qed.

Theorem init_inv : valid_arcs n arcs = true -> NSInv C (netx C (flow s0)) s0.
Proof.
  intros Hv. pose proof (consts_ok Hv) as HC.
  assert (Hart : forall a, (a < m + n)%nat -> (a < m)%nat \/ exists i, (i < n)%nat /\ a = (m + i)%nat).
  { intros a Ha. destruct (Nat.lt_ge_cases a m) as [H|H]; [left; exact H|right; exists (a - m)%nat; split; lia]. }
  constructor; rewrite ?cm_eq, ?cn_eq.
  - cbn [init_st flow]. rewrite app_length, repeat_length, map_length, seq_length. reflexivity.
  - cbn [init_st state]. rewrite app_length, !repeat_length. reflexivity.
  - cbn [init_st parent]. rewrite app_length, repeat_length. cbn [length]. lia.
  - cbn [init_st pred]. rewrite app_length, seq_length. cbn [length]. lia.
  - cbn [init_st depth]. rewrite app_length, repeat_length. cbn [length]. lia.
  - cbn [init_st pi]. rewrite app_length, map_length, seq_length. cbn [length]. lia.
  - cbn [init_st tadj]. rewrite app_length, map_length, seq_length. cbn [length]. lia.
  - intros a Ha. destruct (Hart a Ha) as [H|(i & Hi & ->)].
    + rewrite flow0_orig by exact H. destruct (HC a ltac:(rewrite cm_eq, cn_eq; exact Ha)) as (_ & _ & Hc). lia.
    + rewrite flow0_art, cap_art by exact Hi. lia.
  - reflexivity.
  - intros a Ha. destruct (Hart a Ha) as [H|(i & Hi & ->)]; [rewrite state0_orig by exact H|rewrite state0_art by exact Hi]; auto.
  - intros a Ha Hs. destruct (Hart a Ha) as [H|(i & Hi & ->)]; [apply flow0_orig; exact H|rewrite state0_art in Hs by exact Hi; lia].
  - intros a Ha Hs. destruct (Hart a Ha) as [H|(i & Hi & ->)]; [rewrite state0_orig in Hs by exact H|rewrite state0_art in Hs by exact Hi]; lia.
  - rewrite nsum_app. rewrite (nsum_zero _ m) by (intros i Hi; rewrite state0_orig by exact Hi; reflexivity).
    rewrite (nsum_ext _ (fun _ => 1) n) by (intros i Hi; rewrite state0_art by exact Hi; reflexivity).
    rewrite nsum_const. lia.
  - intros v Hv'. rewrite pred0 by exact Hv'. apply state0_art. exact Hv'.
  - constructor; rewrite ?cm_eq, ?cn_eq.
    + intros v Hv'. rewrite parent0 by exact Hv'. lia.
    + intros v Hv'. rewrite parent0, depth0_lt, depth0_root by exact Hv'. reflexivity.
    + exact depth0_root.
    + intros v Hv'. destruct (Nat.eq_dec v n) as [->|Hne]; [rewrite depth0_root; lia|rewrite depth0_lt by lia; lia].
    + intros v Hv'. rewrite pred0, parent0 by exact Hv'. split; [lia|]. unfold joins. rewrite src_art, tgt_art by exact Hv'.
      destruct (0 <=? nz sup v); auto.
  - intros v Hv'. rewrite pred0, parent0, pi0_lt, pi0_root, src_art, cst_art by exact Hv'.
    destruct (0 <=? nz sup v); [rewrite Nat.eqb_refl; lia|]. destruct (Nat.eqb_spec n v); lia.
  - exact pi0_root.
  - intros w Hw. destruct (Nat.eq_dec w n) as [->|Hne].
    + rewrite tadj0_root. split; [apply seq_NoDup|]. intros a. rewrite in_seq. split.
      * intros Ha. split; [lia|]. replace a with (m + (a - m))%nat by lia. rewrite state0_art, src_art, tgt_art by lia.
        split; [reflexivity|]. destruct (0 <=? nz sup (a - m)); auto.
      * intros (Ha & Hs & _). destruct (Hart a Ha) as [H|(i & Hi & ->)]; [rewrite state0_orig in Hs by exact H; lia|lia].
    + assert (Hw' : (w < n)%nat) by lia. rewrite tadj0_lt by exact Hw'. split; [constructor; [intros []|constructor]|].
      intros a. cbn [In]. split.
      * intros [<-|[]]. split; [lia|]. rewrite state0_art, src_art, tgt_art by exact Hw'. split; [reflexivity|].
        destruct (0 <=? nz sup w); auto.
      * intros (Ha & Hs & He). left. destruct (Hart a Ha) as [H|(i & Hi & ->)]; [rewrite state0_orig in Hs by exact H; lia|].
        rewrite src_art, tgt_art in He by exact Hi. destruct (0 <=? nz sup i); destruct He as [E|E]; lia.
Qed.

(* the net outflow the invariant keeps: node w ships its supply *)
Lemma init_netx w : (w < n)%nat -> netx C (flow s0) w = nz sup w.
Proof.
  intros Hw. unfold netx. rewrite cm_eq, cn_eq, nsum_app.
  rewrite (nsum_zero _ m) by (intros i Hi; rewrite flow0_orig by exact Hi; lia).
  rewrite (nsum_one (fun _ => 0) _ n w (nz sup w) Hw).
  - rewrite (nsum_zero (fun _ => 0)) by reflexivity. lia.
  - intros i Hi Hne. unfold coef. rewrite src_art, tgt_art by exact Hi.
    destruct (0 <=? nz sup i); destruct (Nat.eqb_spec i w); destruct (Nat.eqb_spec n w); lia.
  - unfold coef. rewrite src_art, tgt_art, flow0_art by exact Hw.
    destruct (Z.leb_spec 0 (nz sup w)); rewrite Nat.eqb_refl; destruct (Nat.eqb_spec n w); lia.
Qed.

End Init.
