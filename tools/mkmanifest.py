#!/venv/bin/python
"""Regenerate /verif/MANIFEST.json from tools/claims.json (per-property level text) and properties.jsonl.
A property is claimed iff it has an entry in claims.json AND harness/props/<id>.py AND coq/Props/<id>.v exist."""
import json
from pathlib import Path

V = Path(__file__).resolve().parent.parent
props = [json.loads(l) for l in (V / "properties.jsonl").read_text().splitlines() if l.strip()]
claims = json.loads((V / "tools" / "claims.json").read_text())
kf = json.loads((V / "known_findings.json").read_text())
hooks = ["d951d11", "28ecee8"]
checks, na = [], []
for p in props:
    pid = p["id"]
    c = claims.get(pid)
    if c and c.get("claimed", True) and (V / "harness" / "props" / f"{pid}.py").exists() and (V / "coq" / "Props" / f"{pid}.v").exists():
        checks.append({
            "property_id": pid,
            "quick_cmd": f"./check {pid} --tier quick",
            "thorough_cmd": f"./check {pid} --tier thorough",
            "evidence_file": f"/verif/evidence/{pid}.json",
            "replay_cmd_template": f"./check {pid} --replay {{path}}",
            "engine": "coq-proof+correspondence",
            "level_claimed": {"category": "proof", "text": c["text"], "design_ref": f"DESIGN.md section 4 {pid} and section 7"},
            "level_note": c["note"],
            "technique": c.get("technique", "machine-checked proof in Coq (theorems about an executable Gallina model) + kernel-checked correspondence of the model with the implementation on generated inputs"),
        })
    else:
        na.append({"property_id": pid, "reason": (c or {}).get("na_reason", "check under construction in this session (model/proofs/harness being built); not claimed yet")})
m = {
    "version": 1,
    "setup_cmd": "./setup.sh",
    "hooks": {
        "guard": "SOLVOR_VERIF",
        "enable": "./check exports SOLVOR_VERIF=1 and runs /repo's working tree; solvor/sat.py then appends solver events to solvor.sat._VERIF_TRACE when the harness has set it to a list (no rebuild needed: pure Python)",
        "baseline_off_cmd": "cd /repo && env -u SOLVOR_VERIF /venv/bin/python -m pytest -ra -q -p no:cacheprovider --timeout=900 --continue-on-collection-errors",
        "source_commits": hooks,
        "add_only": True,
    },
    "engines": [{
        "name": "coq-proof+correspondence", "path": "/verif/check", "serves_properties": [c["property_id"] for c in checks],
        "kind_free_text": "Coq 8.16.1 theorems about hand-written executable Gallina models (coq/Cxx, coq/Props/Cxx.v, re-checked by coqc on every run) + correspondence lemmas generated on every run from /repo's working tree and checked by the kernel with vm_compute (harness/props/Cxx.py) + independent brute-force oracles used to find a failing input"}],
    "checks": checks,
    "notes": "Genuine defects of /repo repaired by fix: commits are listed in known_findings.json (status fixed; no finding is left open, so no check prints a KNOWN-FINDING line) and in DESIGN.md section 9; scope decisions (what is judged, what is observation-only) in DESIGN.md section 7.5 and POLICY_X.md; independently seeded changes and which checks catch them in DESIGN.md section 10.",
    "not_applicable": na,
}
if not na:
    m.pop("not_applicable")
(V / "MANIFEST.json").write_text(json.dumps(m, indent=1) + "\n")
print("claimed:", [c["property_id"] for c in checks], "not claimed:", [n["property_id"] for n in na])
