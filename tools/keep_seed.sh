#!/bin/bash
# tools/keep_seed.sh <property-id> <src-dir> <name> "<result line: which check caught it / how>"
pid=$1; src=$2; name=$3; res=$4
dst=/verif/seeded/$name
mkdir -p $dst && cp $src/patch.diff $src/demo.py $dst/ && /venv/bin/python - "$src/meta.json" "$dst/meta.json" "$pid" "$res" <<'P'
import json,sys
m=json.load(open(sys.argv[1])); m["property"]=sys.argv[3]; m["verif_result"]=sys.argv[4]
m["confirmed_by_coordinator"]="patch applies on a scratch worktree of /repo HEAD; demo.py exits 0 without and 1 with the change (tools/try_seed.sh); the agent reported the existing tests pass with the change"
json.dump(m,open(sys.argv[2],"w"),indent=1)
P
echo kept $dst
