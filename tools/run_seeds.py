#!/venv/bin/python
"""Re-run every kept seeded change against the current checks (scratch worktrees; /repo untouched) and record the outcome
in seeded/<name>/meta.json under "final_result".  Usage: tools/run_seeds.py [name-prefix ...] ; PAR=n for parallelism
(different properties only: two runs of the same property share coq/Cases/<id>)."""
import json, os, re, subprocess, sys, glob
from concurrent.futures import ThreadPoolExecutor
from collections import defaultdict
V = "/verif"
dirs = sorted(d for d in glob.glob(f"{V}/seeded/*") if os.path.isdir(d) and os.path.basename(d) != "harmless")
if len(sys.argv) > 1:
    dirs = [d for d in dirs if any(os.path.basename(d).startswith(p) for p in sys.argv[1:])]
by_prop = defaultdict(list)
for d in dirs:
    by_prop[json.load(open(d + "/meta.json"))["property"]].append(d)
if os.environ.get("PROPS"):
    by_prop = {k: v for k, v in by_prop.items() if k in os.environ["PROPS"].split(",")}

def run_prop(item):
    pid, ds = item
    out = []
    for d in ds:
        r = subprocess.run([f"{V}/tools/try_seed.sh", pid, d], capture_output=True, text=True, timeout=3600)
        txt = r.stdout + r.stderr
        clean = re.search(r"demo clean rc=(\d+)", txt); changed = re.search(r"demo changed rc=(\d+)", txt)
        viol = re.findall(r"^VIOLATION property=\S+ replay=\S+( no-failing-input-found)?", txt, re.M)
        if "PATCH DOES NOT APPLY" in txt:
            res = "patch no longer applies to /repo HEAD (the surrounding code was changed by a later fix: commit)"
        elif changed and changed.group(1) == "0" and any(v == "" for v in viol):
            res = "CAUGHT with a concrete failing input (the demo's own hard-coded witnesses no longer trigger on /repo HEAD - later fix: commits changed the float behaviour, or the demo needs a rebuilt extension - but the check finds other failing inputs)"
        elif changed and changed.group(1) == "0":
            res = "the change no longer breaks the property on /repo HEAD (its demo passes: a later fix: commit removed the mechanism)" + ("; our check still flags the tree as no-failing-input-found" if viol else "")
        elif any(v == "" for v in viol):
            res = "CAUGHT with a concrete failing input"
        elif viol:
            res = "caught as no-failing-input-found (correspondence/proof obligation broke, search found no failing input)"
        elif re.search(r"^PASS ", txt, re.M):
            res = "MISSED (check passed)"
        else:
            res = "harness error: " + txt[-300:]
        m = json.load(open(d + "/meta.json")); m["final_result"] = res; json.dump(m, open(d + "/meta.json", "w"), indent=1)
        out.append(f"{os.path.basename(d)}: {res}")
        print(out[-1], flush=True)
    return out

with ThreadPoolExecutor(max_workers=int(os.environ.get("PAR", "3"))) as ex:
    list(ex.map(run_prop, by_prop.items()))
