#!/bin/bash
# tools/run_harmless.sh : apply every kept behaviour-preserving refactoring (seeded/harmless/*/patch.diff) in a scratch worktree and run the
# checks of every property that anchors the touched module; each line must say PASS (a VIOLATION here is a false alarm of ours)
cd /verif
declare -A M=( [anneal]="C19" [bellman_ford]="C11 C12" [data_structures]="C20 C13" [dijkstra]="C11 C12" [dlx]="C07" [flow]="C08 C09" [hungarian]="C10"
 [job_shop]="C18" [knapsack]="C16" [mst]="C13 C12" [r2-a_star]="C11" [r2-articulation]="C15" [r2-bin_pack]="C16" [r2-bp]="C17" [r2-cg]="C17"
 [r2-cp]="C05 C06" [r2-cp_encoder]="C06 C05" [r2-kcore]="C15" [r2-milp]="C04" [r2-network_simplex]="C09" [r2-pagerank]="C15 C12"
 [r2-particle_swarm]="C19" [r2-simplex]="C03 C04" [r2-tabu]="C19" [r2-vrp]="C18" [sat]="C01 C02" [scc]="C14 C12"
 [r3-interior_point]="C03" [r3-bfs]="C11 C12" [r3-floyd_warshall]="C11 C12" [r3-genetic]="C19" [r3-lns]="C19 C04" [r3-nelder_mead]="C19" [r3-bayesian]="C19"
 [r3-powell]="C19" [r3-bfgs]="C19" [r3-differential_evolution]="C19" [r3-community]="C15" [r3-adapters]="C12" [r3-helpers]="C11 C19 C10 C18"
 [r3-validate]="C03 C04 C09 C11" [r3-pricing]="C17" [r3-knapsack]="C16" [r3-mst]="C13 C12" [r3-scc]="C14 C12" [r3-sat2]="C01 C02" [r3-simplex2]="C03 C04 C17" )
for d in seeded/harmless/${1:-}*/; do n=$(basename $d); for p in ${M[$n]}; do echo "$n $p"; done; done | \
  xargs -P ${PAR:-4} -L1 bash -c 'r=$(/verif/tools/try_refactor.sh $1 /verif/seeded/harmless/$0/patch.diff 2>&1 | head -3 | cut -c1-140 | tr "\n" " "); echo "$0 $1: $r"'
