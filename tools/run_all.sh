#!/bin/bash
# tools/run_all.sh [quick|thorough] [seed] : run every claimed check against /repo, 4 at a time; print one line each
tier=${1:-quick}; seed=${2:-0}
cd /verif
ids=$(/venv/bin/python -c "import json; print(' '.join(c['property_id'] for c in json.load(open('MANIFEST.json'))['checks']))")
mkdir -p /var/tmp/runall
echo $ids | tr ' ' '\n' | xargs -P ${PAR:-4} -I{} sh -c "./check {} --tier $tier --seed $seed > /var/tmp/runall/{}.log 2>&1; echo {} rc=\$? \$(grep -E '^(PASS|FAIL|ERROR)' /var/tmp/runall/{}.log | tail -1); grep -E '^(VIOLATION|KNOWN|INTERNAL)' /var/tmp/runall/{}.log | head -3"
