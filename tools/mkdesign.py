#!/venv/bin/python
"""Regenerate the generated tail of DESIGN.md (everything after the marker) from known_findings.json, seeded/*/meta.json,
evidence/*.json and coq/Props/*.v.  Sections 0-7 above the marker are hand-written."""
import json, glob, os, re
V = "/verif"
MARK = "<!-- GENERATED BELOW: tools/mkdesign.py -->"
src = open(f"{V}/DESIGN.md").read()
head = src.split(MARK)[0].rstrip() + "\n\n" + MARK + "\n"
kf = json.load(open(f"{V}/known_findings.json"))
out = []
# ---- section 8: status per property
out.append("\n## 8. Status per property (from the last committed evidence)\n")
out.append("| id | theorems checked (Props files) | obligations discharged / total in the last run | evaluations | distinct non-trivial | tier | axioms |")
out.append("|---|---|---|---|---|---|---|")
for f in sorted(glob.glob(f"{V}/evidence/C[0-9][0-9].json")):
    e = json.load(open(f)); c = e["coverage"]; pid = e["property_id"]
    th = c.get("theorems", {})
    n_thm = sum(1 for v in th.values() if v in ("proved", "partial", "refuted-on-pinned-model"))
    n_part = sum(1 for k, v in th.items() if v == "partial")
    n_ref = sum(1 for k, v in th.items() if v == "refuted-on-pinned-model")
    pa = c.get("print_assumptions", {})
    closed = sum(1 for v in pa.values() if v.startswith("Closed under")); others = len(pa) - closed
    props = sorted(os.path.basename(p) for p in glob.glob(f"{V}/coq/Props/{pid}*.v"))
    out.append(f"| {pid} | {n_thm} theorems ({n_part} partial, {n_ref} refutations of pinned variants) in {', '.join(props)} | {c['discharged']} / {c['obligations']} | {c['evaluations']} | {c['distinct_nontrivial']} | {e['tier']} | {closed} closed" + (f", {others} other" if others else "") + " |")
claims = json.load(open(f"{V}/tools/claims.json"))
out.append("\nWhat is claimed per property (the MANIFEST `level_claimed.text` / `level_note`, i.e. what was actually built - this supersedes the plans of section 4 where they differ):\n")
for pid in sorted(claims):
    out.append(f"* **{pid}** - {claims[pid]['text']}  *Trusted / assumed:* {claims[pid]['note']}")
out.append("\nThe theorem count of a property with several Props files (`Cxx.v`, `Cxx_deep.v`, …) is the sum over the files re-checked in that run.")
# ---- section 9 findings
out.append("\n## 9. Findings on StevenBtw/solvOR and what was done about them\n")
out.append("Every check was first made to agree with the property text, then run on the pinned tree.  Each alarm was classified as a genuine")
out.append("defect (a concrete failing call against the real code) or a false alarm of the machinery.  Every genuine defect found had a small, safe")
out.append("repair; each is ONE unguarded `fix:` commit in /repo (prepared in a scratch worktree with a demonstration that fails before and passes")
out.append("after; the unedited test suite passes: 1235 passed after the whole series), recorded in `known_findings.json` with status `fixed` and its")
out.append("`fixed: property=<id> <commit> <what failed>` line.  A fixed entry suppresses nothing: its witness lives in `corpus/<id>/` and is replayed first")
out.append("on every run, so the violation is reported again if it returns.  There is NO open known finding: no check prints a KNOWN-FINDING line on")
out.append("the unchanged tree.\n")
out.append("| property | commit | what failed |"); out.append("|---|---|---|")
for f in kf["findings"]:
    if f["status"] == "fixed":
        out.append(f"| {f['property']} | {f['commit']} | {f['line'].split(f['commit'],1)[1].strip()} |")
opens = [f for f in kf["findings"] if f["status"] == "open"]
if opens:
    out.append("\nOpen findings:"); 
    for f in opens: out.append(f"* {f['property']} {f['id']}: {f.get('class','')}")
out.append("""
Hooks (guarded by `SOLVOR_VERIF=1`, add-only, recorded in MANIFEST.hooks): `d951d11` (sat event trace: init/learn/solution/verdict), `28ecee8`
(sat decide/restart events, additionally behind the opt-in module flag `_VERIF_DECISIONS`).  With the guard off the baseline suite passes unchanged.

Observations deliberately NOT treated as violations (outside the properties' quantifiers; recorded in the evidence `assumptions`/notes):
`max_flow(g, s, s)` does not return; `min_cost_flow` does not return on a negative-cost cycle of positive capacity; `network_simplex` truncates
non-integer supplies and keeps float potentials (wrong beyond costs ~2^50); `solve_sat([[]])` returns OPTIMAL `{}` (pinned by a test); an assumption on a
variable larger than every clause variable raises IndexError; `topological_sort` with a duplicated node answers INFEASIBLE; `tabu_search(cooldown=0)`,
`evolve` with an empty population, `bayesian_opt(n_initial=0)` raise; `anneal` divides by zero when a custom schedule reaches temperature 0; `powell` can
leave its bounds; `astar_grid` with `heuristic='manhattan'` and 8 directions is suboptimal (user-chosen inadmissible heuristic); cutting-stock sizes that are
not multiples of 0.01 break `knapsack_pricing`'s scaling and demands ~1e15 exceed what a float tableau with absolute eps resolves; two `int_var` with the same
name break back-end agreement; `solve_lp_interior` almost never answers OPTIMAL (it answers FEASIBLE, which is allowed); LPs/MILPs whose rows differ in
scale by 2^31 ("badly scaled") can get a non-optimal vertex; `solve_milp(eps=0.0)`; `bellman_ford`, `FenwickTree.prefix`, `solve_job_shop`'s objective are
float-valued, hence inexact beyond 2^53 (noted by the respective harness).

False alarms of the machinery met during construction and what was done: (i) the proof step scanned EVERY .v file for forbidden commands, so one
property's in-progress `admit` failed all properties - the scan is now scoped to the files a property depends on; (ii) wall-clock guards of 5 s expired
under machine load (load average 60-150 while 20 builders ran) and were reported as hangs - first hang verdicts were retried with a longer guard, finally
(after the thorough tier of C18 reported four work-volume instances as hangs on the unchanged tree) `core.guarded` was changed to a CPU-time limit
(ITIMER_PROF; wall-clock only as a 20x backstop), so load cannot produce a hang verdict, and the C18 limit scales with the instance (a 10^4-evaluation
local search legitimately needs 40 CPU-seconds); all 20 quick checks started at the same moment now pass in under 3 minutes; (iii) evidence files written by runs against seeded trees were committed by mistake (flagged by `vp check`) - seeded runs now write evidence and
replays elsewhere (`VERIF_EVIDENCE_DIR`, `VERIF_REPLAY_DIR`); (iv) concurrent runs of one property shared `coq/Cases/<id>` and produced spurious internal
errors - every run now has its own case directory; (v) a shrinker produced a witness that also failed on clean code (C10) - shrinking steps were
restricted to exactness-preserving ones; (vi) my own first repair of the simplex phase-1 tolerance (relative to max|rhs|) was WRONG and was caught by the C04
check within minutes (an infeasible row `0 <= -1` next to a large right-hand side was declared feasible) before it was committed; the committed repair is
relative to the initial total infeasibility; (vii) the C18 "twin" check (a state re-built from its public fields must behave like the original) compared
exact post-states although `regret_insertion` breaks cost ties by the iteration order of the `unassigned` SET, which in CPython depends on the set's
insertion/deletion history - found by the thorough tier on the unchanged tree; the reference run now gets a freshly built set at the same steps, so only
hidden state can make the two runs differ; (viii) a harmless refactoring of vrp.py that binds operator parameters by keyword (`partial(random_removal,
degree=0.1)`) met a recording wrapper of ours that only took positional arguments (TypeError reported as a violation) - the wrapper now binds through the
operator's signature; (ix) three oracle tolerances demanded more than the property states and were corrected without touching the judged domain: an LP
infeasible by 1 at right-hand sides of 1.7e13 (6e-14 relative, below the property's tolerance) is judged against the relaxed LP as well; PageRank runs whose
`tol` is below binary64 resolution only need back-end agreement; float cases of the observation-only classes are no longer sent to the exact Coq spec check; (x) running the quick tier under seeds 3..8 on the unchanged tree
found two false alarms of the C02 work-volume families at seed 7: a planted 3-CNF with 300 variables solved WITHOUT restarts (luby_factor 2^40) had not finished
after 300 s (132 000 conflicts) - the instance family is now bounded by `max_conflicts=20000` (MAX_ITER at the budget is an accepted answer, the 5001 / 10^4
thresholds are still crossed); and the option corner `luby_factor=0, max_restarts=9999` legitimately uses all its restarts on an unsatisfiable formula (every conflict
restarts, 40 CPU-seconds, then MAX_ITER) - that corner now gets a guard proportional to its budget instead of 5 s.  Seeds 0..8 pass for all 20 properties.
""")
# ---- section 9b: every fix undone again
rf_path = f"{V}/seeded/reverted_fixes.json"
if os.path.exists(rf_path):
    rf = json.load(open(rf_path))
    from collections import Counter as _C
    cnt = _C("reported again with a concrete failing input" if v["result"].startswith("REPORTED AGAIN") else
             "reported again, no failing input found" if v["result"].startswith("reported again as no-failing") else
             "cannot be undone on HEAD" if "cannot be undone" in v["result"] else "not reported by the quick tier" for v in rf.values())
    out.append("\n### 9.1 A fixed entry suppresses nothing: every `fix:` commit undone again (tools/revert_fixes.py)\n")
    out.append("For each `fixed` entry of `known_findings.json` the diff of its commit was reverse-applied to a scratch worktree of /repo HEAD (tests excluded)")
    out.append("and the property's quick check (seed 0) was run against that tree.  " + "; ".join(f"{n} {k}" for k, n in cnt.most_common()) + ".")
    out.append("This pass also exposed three weaknesses of the machinery itself, all repaired: on a tree where most SAT calls do not return (the Luby fix undone)")
    out.append("the C02 check needed 35 minutes - the heavy / sequence / sweep families are now cut short once five calls have not returned (7 minutes); a harness")
    out.append("exception on a changed tree (a private helper the recorder wraps is gone, a judge meets an input class it never sees on the unchanged tree) ended as an")
    out.append("internal error without a VIOLATION line - it now counts as a broken correspondence (`no-failing-input-found`, after any concrete violations found")
    out.append("before it); the undone `gap_tol` fix b06cee9 (plans of more than 10^6 rolls) was not reported at all - a by-construction family of million-roll")
    out.append("instances was added.\n")
    out.append("| commit | property | result | what the fix repaired |"); out.append("|---|---|---|---|")
    for c, v in rf.items():
        out.append("| %s | %s | %s | %s |" % (c, v["property"], v["result"].replace("|", "/")[:230], str(v.get("what", "")).replace("|", "/").replace("fixed: property=", "")[:140]))
# ---- section 10 seeded
rows = []
for d in sorted(glob.glob(f"{V}/seeded/*")):
    if not os.path.isdir(d) or os.path.basename(d) == "harmless": continue
    m = json.load(open(d + "/meta.json"))
    rows.append((os.path.basename(d), m.get("property"), str(m.get("needs", m.get("summary", "")))[:150].replace("\n", " ").replace("|", "/"),
                 str(m.get("verif_result", ""))[:110].replace("|", "/"), (("NOT CAUGHT - " + m["scope_note"]) if m.get("scope_note") and str(m.get("final_result", "")).startswith("MISSED") else str(m.get("final_result", ""))[:90]).replace("|", "/")))
out.append("\n## 10. Independently seeded changes and which checks catch them\n")
out.append("Fresh sub-agents were given ONLY a property's text (rounds 2 and 3: plus a generic description of what a strong differential checker does) and a scratch")
out.append("worktree of /repo, and asked for changes that break the property while compiling and passing the existing tests, each needing something specific to")
out.append("manifest, with a demonstration.  The coordinator confirmed each (patch applies; demo exits 0 without and 1 with the change) with `tools/try_seed.sh`,")
out.append("which runs the check against a scratch worktree (`SOLVOR_REPO`) so /repo itself is never modified.  Kept under `seeded/<name>/`.\n")
out.append("| seeded change | property | needs | first result | final result (tools/run_seeds.py) |"); out.append("|---|---|---|---|---|")
for r in rows: out.append("| %s | %s | %s | %s | %s |" % r)
n = len(rows); caught = sum(1 for r in rows if r[4].startswith("CAUGHT")); r1 = [r for r in rows if not r[0].startswith(("R2-", "R3-", "R4-"))]; r2 = [r for r in rows if r[0].startswith("R2-")]
r3 = [r for r in rows if r[0].startswith("R3-")]; r4 = [r for r in rows if r[0].startswith("R4-")]
m1 = sum(1 for r in r1 if "MISSED" in r[3]); r4c = sum(1 for r in r4 if "first run (quick seed 0): caught" in r[3])
out.append(f"\n{n} changes kept: round 1: {len(r1)} ({m1} missed by the checks as first built); round 2: {len(r2)}, written to survive random small-input testing - almost all of them did at first; round 3: {len(r3)}, written against a description of the hardened checker (work-volume thresholds, in-place edits between calls, float extremes) - 3 caught at first; round 4: {len(r4)} (one slip in the core of the algorithm and one in the glue around it per property, 'what actually happens in maintenance') - {r4c} caught by the first run of the checks as they stood, the other {len(r4) - r4c} after one new family each.  Final: {caught} of {n} are caught with a concrete failing input; the rest are listed with the reason (the mechanism was removed by a later fix, or the input it needs is outside the judged domain of section 7.5).")
out.append("""
What the misses taught (and what was built in response):
* round 1: rare execution HISTORIES (C08 saturate/cancel/reuse on one arc; C13 union-find trees of height 3; C02 a budget the counter steps over; C03
  inexact float pivots) are not reached by random small inputs -> event-directed search: an instrumented reference port of the algorithm reports rare
  internal events, a hill climb looks for inputs exhibiting them in every run, and minimised witnesses per event are committed to the corpus;
* round 2: whole CLASSES of inputs that every quantifier covers but no generator produced -> `HARDENING.md`: labels (None, falsy, equal-but-not-identical
  objects), one-shot iterables, size thresholds (17 ... 65537, recursion depth), magnitudes (2^31 ... 2^60, differences of 1e-12), option sweeps, aliasing and
  call sequences (inputs unmodified, answers independent of earlier calls), rare histories.  Every property module now has families for the classes that
  apply to it, judged by by-construction answers, exact references or metamorphic relations, and the Coq correspondence includes them where `vm_compute`
  stays cheap.  This wave also uncovered 14 further genuine defects of /repo (section 9: recursion depth, None labels, 2^53 sums, absolute tolerances, ...).
* round 3: thresholds on the amount of WORK an internal loop does (silent caps at 128 ... 2^20 iterations), caches keyed by `id()`/`len()` that leak when the
  caller edits its object in place, float extremes -> HARDENING.md addendum: per-loop work-volume families with answers known by construction (Klee-Minty
  cubes, parity traps, spine/hub networks, stale-heap fans, reversed chains, sweep-count ladders; maxima per loop are in each evidence file), call / edit in
  place / call again sequences compared with a fresh call on a deep copy, finite float forms judged and non-finite ones observation-only (section 7.5).
* round 4 (no knowledge of the checker, realistic slips): 38 of 40 caught at once, every one with a concrete input; the two others (an interior-point crash
  that needs diverging iterates; a binary-detection near-miss caught on 2 of 3 seeds) led to an IPM divergence stress family with a hill climb on the
  Mehrotra ratio and a "binary near-miss" MILP family.
* harmless refactorings (`seeded/harmless/`, 45 patches in three rounds, see its README): all pass; two false alarms of ours were found this way and removed
  (section 9, items vii-viii); the drift detector notices each change and triples the budget.
""")
open(f"{V}/DESIGN.md", "w").write(head + "\n".join(out) + "\n")
print("DESIGN.md regenerated:", len(rows), "seeds,", sum(1 for f in kf['findings'] if f['status']=='fixed'), "fixed findings")
