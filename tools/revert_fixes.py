#!/venv/bin/python
"""For every `fixed` entry of known_findings.json: undo that fix: commit in a scratch worktree of /repo HEAD (reverse-apply its diff)
and run the property's check against it (SOLVOR_REPO; evidence/replays redirected).  A fixed entry suppresses nothing, so the check must
report the violation again.  Results -> seeded/reverted_fixes.json (read by tools/mkdesign.py).  Usage: PAR=n tools/revert_fixes.py [commit ...]"""
import json, os, re, subprocess, sys
from concurrent.futures import ThreadPoolExecutor
V = "/verif"
kf = json.load(open(f"{V}/known_findings.json"))["findings"]
items = [f for f in kf if f["status"] == "fixed" and (len(sys.argv) == 1 or f["commit"] in sys.argv[1:])]
outp = f"{V}/seeded/reverted_fixes.json"
res = json.load(open(outp)) if os.path.exists(outp) else {}


def sh(cmd, **kw):
    return subprocess.run(cmd, shell=True, capture_output=True, text=True, **kw)


def one(f):
    c, pid = f["commit"], f["property"]
    d = f"/var/tmp/revrepo-{c}-{os.getpid()}"
    sh(f"git -C /repo worktree add --detach {d} HEAD")
    try:
        sh(f"cp /repo/solvor/_solvor_rust*.so {d}/solvor/ 2>/dev/null")
        pf = f"/var/tmp/revfix-{c}-{os.getpid()}.patch"
        sh(f"git -C {d} show {c} -- . ':!tests' > {pf}")
        r = sh(f"git -C {d} apply -R --check {pf} && git -C {d} apply -R {pf}")
        if r.returncode != 0:
            r = sh(f"git -C {d} apply -R --3way {pf}")
        os.unlink(pf)
        st = sh(f"git -C {d} status --short").stdout
        if r.returncode != 0 or "UU " in st or not st.strip():
            return c, {"property": pid, "result": "the fix cannot be undone mechanically on HEAD (later commits rewrote the same lines)", "detail": (r.stdout + r.stderr)[-200:]}
        env = dict(os.environ, VERIF_EVIDENCE_DIR="/var/tmp/seed-evidence", VERIF_REPLAY_DIR="/var/tmp/seed-replays", SOLVOR_REPO=d)
        t = sh(f"{V}/check {pid}", env=env, timeout=5400)
        txt = t.stdout + t.stderr
        viol = re.findall(r"^VIOLATION property=\S+ replay=\S+( no-failing-input-found)?", txt, re.M)
        if any(v == "" for v in viol):
            out = "REPORTED AGAIN with a concrete failing input"
        elif viol:
            out = "reported again as no-failing-input-found"
        elif re.search(r"^PASS ", txt, re.M):
            out = "NOT reported (check passed on the tree without the fix)"
        else:
            out = "harness error: " + txt[-200:]
        return c, {"property": pid, "result": out, "what": f["line"][:160]}
    except subprocess.TimeoutExpired:
        return c, {"property": pid, "result": "harness error: check timed out"}
    finally:
        sh(f"git -C /repo worktree remove --force {d}")


with ThreadPoolExecutor(max_workers=int(os.environ.get("PAR", "4"))) as ex:
    for c, r in ex.map(one, items):
        res[c] = r
        print(c, r["property"], r["result"], flush=True)
        json.dump(res, open(outp, "w"), indent=1, sort_keys=True)
