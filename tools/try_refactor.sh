#!/bin/bash
# tools/try_refactor.sh <property-id> <patch.diff> : apply a behaviour-preserving refactoring in a scratch worktree; the check must stay quiet
pid=$1; patch=$2; shift 2
d=/var/tmp/refrepo-$$
git -C /repo worktree add --detach $d HEAD >/dev/null 2>&1 || exit 3
cp /repo/solvor/_solvor_rust*.so $d/solvor/ 2>/dev/null
if ! git -C $d apply $patch; then echo "PATCH DOES NOT APPLY"; git -C /repo worktree remove --force $d; exit 4; fi
VERIF_EVIDENCE_DIR=/var/tmp/seed-evidence VERIF_REPLAY_DIR=/var/tmp/seed-replays SOLVOR_REPO=$d /verif/check $pid "$@" 2>&1 | grep -E "^(VIOLATION|PASS|FAIL|ERROR|KNOWN|INTERNAL)" | head -4
git -C /repo worktree remove --force $d
