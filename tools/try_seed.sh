#!/bin/bash
# tools/try_seed.sh <property-id> <dir-with-patch.diff-and-demo.py> [extra check args]
# Applies the seeded change to a scratch worktree of /repo (so concurrent work on /repo is not disturbed), confirms the
# demonstration fails with it and passes without it, runs our check against the changed tree and reports whether it was caught.
pid=$1; dir=$2; shift 2
d=/var/tmp/seedrepo-$$
git -C /repo worktree add --detach $d HEAD >/dev/null 2>&1 || exit 3
cp /repo/solvor/_solvor_rust*.so $d/solvor/ 2>/dev/null
echo "== demo on clean tree (expect exit 0)"
( cd $d && PYTHONHASHSEED=0 PYTHONPATH=$d timeout 300 /venv/bin/python $dir/demo.py >/dev/null 2>&1; echo "   demo clean rc=$?" )
if ! git -C $d apply $dir/patch.diff; then echo "PATCH DOES NOT APPLY"; git -C /repo worktree remove --force $d; exit 4; fi
echo "== demo on changed tree (expect exit 1)"
( cd $d && PYTHONHASHSEED=0 PYTHONPATH=$d timeout 300 /venv/bin/python $dir/demo.py 2>&1 | tail -3; echo "   demo changed rc=${PIPESTATUS[0]}" )
echo "== our check on changed tree"
VERIF_EVIDENCE_DIR=/var/tmp/seed-evidence VERIF_REPLAY_DIR=/var/tmp/seed-replays SOLVOR_REPO=$d /verif/check $pid "$@" 2>&1 | grep -E "^(VIOLATION|PASS|FAIL|ERROR|KNOWN|INTERNAL)" | head -8
git -C /repo worktree remove --force $d
