#!/bin/bash
# MANIFEST.setup_cmd: build the whole Coq development from source (full .vo build) and run coqchk once.
cd "$(dirname "$0")"
set -u
rm -rf coq/Cases
find coq -name '*.vo' -o -name '*.vok' -o -name '*.vos' -o -name '*.glob' -o -name '.*.aux' | xargs -r rm -f
rm -f coq/Makefile coq/Makefile.conf coq/_CoqProject coq/.Makefile.d
./coq/build.sh > coq/.build.log 2>&1
rc=$?
tail -5 coq/.build.log
if [ "${SKIP_COQCHK:-0}" != "1" ]; then
  # independent re-check of the property files and everything they depend on; prints the axioms used
  ( cd coq && timeout 3000 coqchk -silent -o -Q . SV $(ls Props/*.vo 2>/dev/null | sed 's#/#.#; s#\.vo$##; s#^#SV.#') > .coqchk.txt 2>&1; echo "coqchk rc=$?" >> .coqchk.txt )
  tail -15 coq/.coqchk.txt
fi
# the per-property checks re-run the build of their own files and fail on their own; setup itself only prepares
# C12: build the Rust extension from /repo/rust into /verif/.rust-build once, so that the first `./check C12` hits the cache
/venv/bin/python -c 'import sys; sys.path.insert(0,"/verif"); from harness.props.C12 import build_extension; print(build_extension([])[1])' || true
exit 0
