"""Shared machinery of the /verif checks (see harness/FRAMEWORK.md).

One check run = proof step (rebuild + re-check the property theorems, hygiene scan, Print Assumptions),
drift detection on the anchored sources, then whatever the property module does with the helpers
below (run the implementation from /repo's working tree, evaluate the Coq model on the same inputs
inside coqc by vm_compute, evaluate independent oracles), then verdict + evidence.
"""

from __future__ import annotations

import ast
import hashlib
import json
import os
import random
import re
import shutil
import signal
import subprocess
import sys
import time
from concurrent.futures import ThreadPoolExecutor
from pathlib import Path

VERIF = Path(__file__).resolve().parent.parent
REPO = Path(os.environ.get("SOLVOR_REPO", "/repo"))
COQ = VERIF / "coq"
CASES = COQ / "Cases"
GUARD = "SOLVOR_VERIF"

FORBIDDEN = re.compile(
    r"\b(Admitted|admit|Axiom|Axioms|Parameter|Parameters|Conjecture|Conjectures|Admit Obligations|bypass_check|native_compute)\b"
    r"|Unset\s+Guard\s+Checking|Unset\s+Positivity\s+Checking|Unset\s+Universe\s+Checking|type-in-type|impredicative-set"
)

# --------------------------------------------------------------------------------------
# Coq literal printers


def cz(x) -> str:
    x = int(x)
    return f"({x})%Z" if x < 0 else f"{x}%Z"


def cnat(x) -> str:
    x = int(x)
    assert x >= 0
    return f"{x}%nat"


def cbool(b) -> str:
    return "true" if b else "false"


def clist(xs, f=str) -> str:
    return "[" + "; ".join(f(x) for x in xs) + "]"


def cpair(a: str, b: str) -> str:
    return f"({a}, {b})"


def copt(x, f=str) -> str:
    return "None" if x is None else f"(Some {f(x)})"


def cq(x) -> str:
    """A Fraction / int / (num, den) as a Coq Q literal."""
    from fractions import Fraction

    fr = Fraction(x)
    return f"(({fr.numerator})%Z # {fr.denominator}%positive)"


# --------------------------------------------------------------------------------------
# running the implementation with a wall-clock guard


def _safe_repr(v, limit=200000):
    try:
        return repr(v)[:limit]
    except RecursionError:
        return f"<{type(v).__name__}: too deeply nested to print>"


class Hang(Exception):
    pass


def _alarm(signum, frame):
    raise Hang()


def guarded(fn, *args, timeout: float = 5.0, **kw):
    """Run fn(*args) in-process under a time limit.  Returns ('ok', value) | ('exc', type, msg) | ('hang',).
    The limit is `timeout` seconds of CPU time of this process (ITIMER_PROF), so that a loaded machine - other checks,
    coqc shards and worker pools running next to this one - cannot turn a slow call into a reported hang; a genuine
    non-terminating loop burns CPU and is stopped after `timeout` CPU-seconds exactly as before.  A wall-clock backstop
    (max(20 x timeout, 300 s)) catches a call that blocks without using CPU.  Pure-Python loops are interruptible by
    the signal handlers."""
    old = signal.signal(signal.SIGALRM, _alarm)
    oldp = signal.signal(signal.SIGPROF, _alarm)
    signal.setitimer(signal.ITIMER_REAL, max(20.0 * timeout, 300.0))
    signal.setitimer(signal.ITIMER_PROF, timeout)

    def _off():
        signal.setitimer(signal.ITIMER_PROF, 0)
        signal.setitimer(signal.ITIMER_REAL, 0)

    try:
        v = fn(*args, **kw)
        _off()
        return ("ok", v)
    except Hang:
        return ("hang",)
    except RecursionError as e:
        _off()
        return ("exc", "RecursionError", str(e)[:200])
    except Exception as e:  # noqa: BLE001
        _off()
        return ("exc", type(e).__name__, str(e)[:200])
    finally:
        _off()
        signal.signal(signal.SIGALRM, old)
        signal.signal(signal.SIGPROF, oldp)


def use_repo():
    """Make `import solvor` resolve to /repo's current working tree, hooks enabled."""
    os.environ[GUARD] = "1"
    p = str(REPO)
    if sys.path[0] != p:
        sys.path.insert(0, p)
    for m in list(sys.modules):
        if m == "solvor" or m.startswith("solvor."):
            f = getattr(sys.modules[m], "__file__", "") or ""
            if not f.startswith(p):
                del sys.modules[m]
    import solvor  # noqa: F401

    assert solvor.__file__.startswith(p), solvor.__file__


# --------------------------------------------------------------------------------------


def sh(cmd, timeout=600, cwd=None, env=None):
    t0 = time.time()
    try:
        r = subprocess.run(cmd, cwd=cwd, env=env, capture_output=True, text=True, timeout=timeout, shell=isinstance(cmd, str))
        return r.returncode, r.stdout + r.stderr, time.time() - t0
    except subprocess.TimeoutExpired as e:
        out = (e.stdout or b"").decode("utf8", "replace") if isinstance(e.stdout, bytes) else (e.stdout or "")
        return 124, out + "\n<<timeout>>", time.time() - t0


def _ast_hash(path: Path) -> str:
    try:
        src = path.read_text()
    except OSError:
        return "missing"
    if path.suffix == ".py":
        try:
            tree = ast.parse(src)
            # drop docstrings so that pure documentation edits do not count as drift
            for node in ast.walk(tree):
                body = getattr(node, "body", None)
                if isinstance(body, list) and body and isinstance(body[0], ast.Expr) and isinstance(getattr(body[0], "value", None), ast.Constant) and isinstance(body[0].value.value, str):
                    body.pop(0)
                    if not body:
                        body.append(ast.Pass())
            src = ast.dump(tree)
        except SyntaxError:
            return "syntax-error"
    return hashlib.sha256(src.encode()).hexdigest()[:16]


class Ctx:
    def __init__(self, pid: str, tier: str, seed: int):
        self.pid = pid
        self.tier = tier
        self.seed = seed
        self.rng = random.Random(f"{pid}-{seed}")
        self.t0 = time.time()
        self.obligations = 0
        self.discharged = 0
        self.evaluations = 0
        self.nontrivial: set = set()
        self.samples: list = []
        self.rule = ""
        self.theorems: dict[str, str] = {}
        self.assumptions_out: dict[str, str] = {}
        self.hist: dict[str, dict] = {}
        self.violations: list[dict] = []
        self.known_hits: dict[str, str] = {}
        self.broken: list[dict] = []  # proof obligations / correspondence lemmas that no longer check
        self.notes: list[str] = []
        self.drift: dict[str, str] = {}
        self.drifted = False
        self.checker_cmds: list[str] = []
        self.traces_validated = 0
        self.extra: dict = {}
        self.internal_errors: list[str] = []
        kf = json.loads((VERIF / "known_findings.json").read_text()) if (VERIF / "known_findings.json").exists() else {"findings": []}
        self.known = [f for f in kf.get("findings", []) if f.get("property") == pid]
        # one directory per run, so that concurrent runs of the same property do not clobber each other's case files
        base = CASES / pid
        base.mkdir(parents=True, exist_ok=True)
        for old in base.iterdir():
            try:
                if old.is_dir() and time.time() - old.stat().st_mtime > 3 * 3600:
                    shutil.rmtree(old, ignore_errors=True)
                elif old.is_file():
                    old.unlink()
            except OSError:
                pass
        self.casedir = base / f"run-{os.getpid()}-{int(self.t0)}"
        self.casedir.mkdir(parents=True, exist_ok=True)

    # ---------------- budgets
    def budget(self, quick: int, thorough: int) -> int:
        n = thorough if self.tier == "thorough" else quick
        if self.drifted and self.tier == "quick":
            n = min(thorough, n * 3)
        return n

    def count(self, key: str, val, n: int = 1):
        h = self.hist.setdefault(key, {})
        k = str(val)
        h[k] = h.get(k, 0) + n

    def nontriv(self, canon):
        self.nontrivial.add(canon if isinstance(canon, (str, int, tuple)) else json.dumps(canon, sort_keys=True, default=str))

    def sample(self, obj, limit=3):
        if len(self.samples) < limit:
            self.samples.append(obj)

    # ---------------- drift
    def check_drift(self, rel_paths: list[str]):
        anchors_file = VERIF / "harness" / "anchors.json"
        anchors = json.loads(anchors_file.read_text()) if anchors_file.exists() else {}
        mine = anchors.get(self.pid, {})
        for rp in rel_paths:
            h = _ast_hash(REPO / rp)
            if mine.get(rp) is None:
                self.drift[rp] = f"unpinned:{h}"
            elif mine[rp] != h:
                self.drift[rp] = f"changed:{mine[rp]}->{h}"
                self.drifted = True
            else:
                self.drift[rp] = "same"
        return self.drifted

    @staticmethod
    def pin(pid: str, rel_paths: list[str]):
        anchors_file = VERIF / "harness" / "anchors.json"
        anchors = json.loads(anchors_file.read_text()) if anchors_file.exists() else {}
        anchors[pid] = {rp: _ast_hash(REPO / rp) for rp in rel_paths}
        anchors_file.write_text(json.dumps(anchors, indent=1, sort_keys=True) + "\n")

    # ---------------- proof step
    def proof_step(self, dirs: list[str] | None = None, props_file: str | None = None):
        """Rebuild the property's Coq files (incremental make, full .vo), scan for forbidden commands,
        re-run coqc on Props/<id>.v to re-check the property theorems and read Print Assumptions."""
        dirs = dirs or [self.pid]
        props_file = props_file or f"Props/{self.pid}.v"
        # hygiene scan over every source file of the development (comments stripped)
        bad = []
        # files this property depends on: its own directories, Common, Props/<id>*.v and (transitively) every
        # directory they `Require`; forbidden commands elsewhere are recorded but do not fail THIS property
        deps = set(dirs) | {"Common"}
        frontier = list(deps)
        while frontier:
            d = frontier.pop()
            files = list((COQ / d).glob("*.v")) + [f for f in (COQ / "Props").glob("*.v") if f.stem.split("_")[0] in dirs]
            for f in files:
                try:
                    t = f.read_text()
                except OSError:
                    continue
                for m in re.finditer(r"\b(C\d\d|Common)\.[A-Z]", t):
                    if m.group(1) not in deps:
                        deps.add(m.group(1))
                        frontier.append(m.group(1))
        foreign = []
        for v in sorted(COQ.rglob("*.v")):
            if "Cases" in v.parts or re.search(r"(_tmp|Dbg|scratch|Scratch)", v.name):
                continue  # scratch files are not part of the build (coq/build.sh skips the same names)
            try:
                txt = _strip_coq_comments(v.read_text())
            except OSError:
                continue
            rel = v.relative_to(COQ)
            mine = rel.parts[0] in deps or (rel.parts[0] == "Props" and rel.stem.split("_")[0] in dirs)
            if not mine:
                for m in FORBIDDEN.finditer(txt):
                    foreign.append(f"{rel}: {m.group(0)}")
                continue
            for m in FORBIDDEN.finditer(txt):
                bad.append(f"{v.relative_to(COQ)}: {m.group(0)}")
            if re.search(r"^\s*(Variable|Variables|Hypothesis|Hypotheses|Context)\b", txt, re.M) and "Section" not in txt:
                bad.append(f"{v.relative_to(COQ)}: Variable/Hypothesis outside a Section")
        if bad:
            self.broken.append({"kind": "hygiene", "what": bad[:10]})
        self.extra["hygiene_scope"] = sorted(deps)
        if foreign:
            self.extra["forbidden_commands_in_unrelated_files"] = foreign[:10]
        cmd = [str(COQ / "build.sh")] + dirs
        rc, out, dt = sh(cmd, timeout=3000)
        self.checker_cmds.append(" ".join(cmd) + f"   # full .vo build via coq_makefile/make, rc={rc}, {dt:.1f}s")
        pf = COQ / props_file
        names = []
        if pf.exists():
            names = re.findall(r"^\s*(?:Theorem|Lemma|Corollary|Example|Fact)\s+([A-Za-z0-9_']+)", _strip_coq_comments(pf.read_text()), re.M)
        self.obligations += max(1, len(names))
        if rc != 0:
            err = _first_error(out)
            self.broken.append({"kind": "proof-build", "what": f"make failed for {dirs}: {err}"})
            for n in names:
                self.theorems[n] = "NOT-CHECKED (build failed)"
            return False
        cmd2 = ["coqc", "-Q", str(COQ), "SV", str(pf)]
        rc2, out2, dt2 = sh(f"ulimit -v 20000000 2>/dev/null; exec coqc -Q {COQ} SV {pf}", timeout=900)
        self.checker_cmds.append(" ".join(cmd2) + f"   # rc={rc2}, {dt2:.1f}s")
        if rc2 != 0:
            self.broken.append({"kind": "proof", "what": f"{props_file}: {_first_error(out2)}"})
            for n in names:
                self.theorems[n] = "NOT-CHECKED"
            return False
        self.discharged += max(1, len(names))
        # parse Print Assumptions output: blocks in order of appearance
        blocks = re.split(r"(?=Closed under the global context|Axioms:)", out2)
        blocks = [b.strip() for b in blocks if b.startswith("Closed under") or b.startswith("Axioms:")]
        pa_names = [n.rstrip('.') for n in re.findall(r"Print\s+Assumptions\s+([A-Za-z0-9_'.]+)", pf.read_text())]
        for i, n in enumerate(pa_names):
            self.assumptions_out[n] = blocks[i][:600] if i < len(blocks) else "?"
        for n in names:
            st = "refuted-on-pinned-model" if n.endswith("_refuted") else ("partial" if "partial" in n else ("example" if re.search(r"(nonvacuous|example|_ex\d*$|_witness)", n) else "proved"))
            self.theorems[n] = st
        return True

    # ---------------- Coq evaluation of generated cases
    def coq_check(self, tag: str, imports: str, case_type: str, chk: str, cases: list[str], shard: int = 300,
                  timeout: int = 600, show: str | None = None) -> list[int]:
        """Write shards `Cases/<id>/<tag>_<k>.v`, each stating
              Lemma corr : failing (chk) cases = [].  Proof. vm_compute. reflexivity. Qed.
        (kernel-checked), and return the list of indices (into `cases`) on which `chk` is false.
        Each shard is one proof obligation of this run."""
        if not cases:
            return []
        files = []
        for k in range(0, len(cases), shard):
            chunk = cases[k:k + shard]
            name = f"{tag}_{k // shard}"
            body = [
                "From Coq Require Import List ZArith Bool Arith.",
                "From SV Require Import Common.Corr.",
                imports,
                "Import ListNotations.",
                f"Definition cases : list ({case_type}) := [",
                ";\n".join("  " + c for c in chunk),
                "].",
                f"Definition bad : list nat := failing ({chk}) cases.",
                "Eval vm_compute in bad.",
                "Lemma corr : bad = []. Proof. vm_compute. reflexivity. Qed.",
            ]
            f = self.casedir / f"{name}.v"
            f.write_text("\n".join(body) + "\n")
            files.append((k, f))
        self.checker_cmds.append(f"coqc -Q {COQ} SV {self.casedir}/{tag}_*.v   # {len(files)} shard(s), {len(cases)} cases, vm_compute inside the kernel")

        def run(item):
            k, f = item
            rc, out, dt = sh(f"ulimit -s unlimited 2>/dev/null; ulimit -v 20000000 2>/dev/null; exec coqc -Q {COQ} SV {f}", timeout=timeout)
            return k, f, rc, out

        failing: list[int] = []
        with ThreadPoolExecutor(max_workers=min(16, len(files))) as ex:
            for k, f, rc, out in ex.map(run, files):
                self.obligations += 1
                m = re.search(r"=\s*(\[[^\]]*\])\s*:\s*list nat", out, re.S)
                if m is None:
                    self.internal_errors.append(f"{f.name}: cannot evaluate cases: {_first_error(out)}")
                    continue
                idx = [int(x) for x in re.findall(r"\d+", m.group(1))]
                failing.extend(k + i for i in idx)
                if rc == 0 and not idx:
                    self.discharged += 1
                elif not idx:
                    self.internal_errors.append(f"{f.name}: coqc rc={rc} with no failing index: {_first_error(out)}")
        return sorted(failing)

    def coq_eval(self, tag: str, imports: str, term: str, timeout: int = 300) -> str:
        """Evaluate one term by vm_compute and return Coq's printed value (raw text)."""
        f = self.casedir / f"{tag}.v"
        f.write_text("From Coq Require Import List ZArith Bool Arith.\nFrom SV Require Import Common.Corr.\n"
                     + imports + "\nImport ListNotations.\nEval vm_compute in (" + term + ").\n")
        rc, out, dt = sh(f"ulimit -s unlimited 2>/dev/null; ulimit -v 20000000 2>/dev/null; exec coqc -Q {COQ} SV {f}", timeout=timeout)
        return out.strip()

    # ---------------- verdict pieces
    def violation(self, what: str, replay: dict, no_input: bool = False):
        self.violations.append({"what": what, "replay": replay, "no_input": no_input})

    def known_hit(self, finding_id: str, what: str):
        self.known_hits[finding_id] = what

    def open_findings(self):
        return [f for f in self.known if f.get("status") == "open"]

    def finish(self) -> int:
        wall = time.time() - self.t0
        rdir = Path(os.environ.get("VERIF_REPLAY_DIR", str(VERIF / "replays")))
        rdir.mkdir(parents=True, exist_ok=True)
        lines = []
        rc = 0
        if self.internal_errors:
            for e in self.internal_errors[:5]:
                print(f"INTERNAL-ERROR: {e}")
        # a broken proof obligation / correspondence with no failing input found
        real = [v for v in self.violations if not v["no_input"]]
        noinp = [v for v in self.violations if v["no_input"]]
        if self.broken and not real:
            for b in self.broken:
                noinp.append({"what": f"{b['kind']}: {b['what']}", "replay": {"unchecked": b}, "no_input": True})
        seen = set()
        for v in real + noinp:
            payload = {"property": self.pid, "seed": self.seed, "tier": self.tier, "what": v["what"], **v["replay"]}
            try:
                json.dumps(payload, indent=1, default=str)
            except (RecursionError, ValueError, TypeError):  # e.g. a replay holding a 20 000-term nested expression
                flat = {}
                for k_, v_ in payload.items():
                    try:
                        json.dumps(v_, indent=1, default=str)
                        flat[k_] = v_
                    except (RecursionError, ValueError, TypeError):
                        flat[k_] = "<not serialisable as JSON; repr:> " + _safe_repr(v_)
                payload = flat
            h = hashlib.sha256(json.dumps(payload, sort_keys=True, default=str).encode()).hexdigest()[:12]
            if h in seen:
                continue
            seen.add(h)
            path = rdir / f"{self.pid}-{h}.json"
            path.write_text(json.dumps(payload, indent=1, default=str) + "\n")
            suffix = " no-failing-input-found" if v["no_input"] else ""
            lines.append(f"VIOLATION property={self.pid} replay={path}{suffix}")
            rc = 1
            if len(lines) >= 5:
                break
        for fid, what in self.known_hits.items():
            print(f"KNOWN-FINDING: property={self.pid} {fid}: {what}")
        for ln in lines:
            print(ln)
        if self.internal_errors and rc == 0:
            rc = 2
        ev = {
            "property_id": self.pid,
            "tier": self.tier,
            "seed": self.seed,
            "level": "proof",
            "coverage": {
                "obligations": self.obligations,
                "discharged": self.discharged,
                "checker_cmd": " && ".join(self.checker_cmds) or "none",
                "trusted_base": trusted_base(self),
                "evaluations": self.evaluations,
                "distinct_nontrivial": len(self.nontrivial),
                "rule": self.rule,
                "samples": self.samples,
                "traces_validated_against_impl": self.traces_validated,
                "theorems": self.theorems,
                "print_assumptions": self.assumptions_out,
                "histograms": self.hist,
                "source_drift": self.drift,
                "known_findings_seen": self.known_hits,
                "unchecked_obligations": self.broken,
                **self.extra,
            },
            "assumptions": self.notes,
            "wall_s": round(wall, 2),
            "violations": len(lines),
        }
        evdir = Path(os.environ.get("VERIF_EVIDENCE_DIR", str(VERIF / "evidence")))  # redirected for runs against seeded trees
        evdir.mkdir(parents=True, exist_ok=True)
        try:
            ev_text = json.dumps(ev, indent=1, default=str)
        except (RecursionError, ValueError, TypeError):  # a sample / violation record too deeply nested for the encoder
            def _flat(o, depth=0):
                if depth > 40:
                    return "<nested deeper than 40 levels; repr:> " + _safe_repr(o, 2000)
                if isinstance(o, dict):
                    return {str(k): _flat(v, depth + 1) for k, v in o.items()}
                if isinstance(o, (list, tuple)):
                    return [_flat(v, depth + 1) for v in o]
                return o
            ev_text = json.dumps(_flat(ev), indent=1, default=str)
        (evdir / f"{self.pid}.json").write_text(ev_text + "\n")
        if rc == 0 or not os.environ.get("VERIF_KEEP_CASES"):
            # the generated case files are kept only on request (they can be hundreds of MB per failing run);
            # a replay file carries everything needed to regenerate them
            shutil.rmtree(self.casedir, ignore_errors=True)
        status = "PASS" if rc == 0 else ("FAIL" if rc == 1 else "ERROR")
        print(f"{status} {self.pid} tier={self.tier} seed={self.seed} obligations={self.obligations} discharged={self.discharged} "
              f"evaluations={self.evaluations} nontrivial={len(self.nontrivial)} wall={wall:.1f}s")
        return rc


def trusted_base(ctx: Ctx) -> list[str]:
    tb = [
        "Coq 8.16.1 kernel incl. vm_compute conversion (used in generated corr lemmas); native_compute not used",
        "axioms per theorem: see coverage.print_assumptions (target: Closed under the global context)",
        "hand-written Gallina model under coq/%s/ (what it models is listed in DESIGN.md) tied to /repo by the correspondence lemmas generated on this run" % ctx.pid,
        "harness: generators, canonicalisation and Python->Coq literal printer (harness/core.py, harness/props/%s.py)" % ctx.pid,
        "CPython 3.12 executing /repo's working tree; Python int = Z, exact",
    ]
    return tb + ctx.notes


def _strip_coq_comments(s: str) -> str:
    out = []
    depth = 0
    i = 0
    while i < len(s):
        if s.startswith("(*", i):
            depth += 1
            i += 2
        elif s.startswith("*)", i) and depth:
            depth -= 1
            i += 2
        else:
            if not depth:
                out.append(s[i])
            i += 1
    return "".join(out)


def _first_error(out: str) -> str:
    m = re.search(r"(File \"[^\"]+\", line \d+[^\n]*\n)?(Error:.*?)(\n\n|\Z)", out, re.S)
    if m:
        return ((m.group(1) or "") + m.group(2)).strip()[:500]
    return out.strip()[-300:]


def main(argv=None):
    import argparse
    import importlib

    if os.environ.get("VERIF_STACKDUMP"):  # development aid: `kill -USR1 <pid>` prints the Python stack of a running check
        import faulthandler

        faulthandler.register(signal.SIGUSR1, all_threads=True)

    ap = argparse.ArgumentParser()
    ap.add_argument("pid")
    ap.add_argument("--tier", default=os.environ.get("VERIF_TIER", "quick"), choices=["quick", "thorough"])
    ap.add_argument("--seed", type=int, default=int(os.environ.get("VERIF_SEED", "0") or 0))
    ap.add_argument("--replay")
    ap.add_argument("--pin", action="store_true", help="(development) record current source hashes of the anchored files")
    a = ap.parse_args(argv)
    os.environ.setdefault("PYTHONHASHSEED", "0")
    sys.path.insert(0, str(VERIF))
    mod = importlib.import_module(f"harness.props.{a.pid}")
    if a.pin:
        Ctx.pin(a.pid, mod.ANCHORS)
        print("pinned", a.pid)
        return 0
    use_repo()
    if a.replay:
        obj = json.loads(Path(a.replay).read_text())
        return mod.replay(obj)
    ctx = Ctx(a.pid, a.tier, a.seed)
    try:
        ctx.check_drift(mod.ANCHORS)
        mod.run(ctx)
    except Exception as e:  # noqa: BLE001
        import traceback

        traceback.print_exc()
        changed = sorted(k for k, v in ctx.drift.items() if str(v).startswith("changed"))
        if ctx.drifted and changed:
            # the anchored source differs from the pinned hashes and the correspondence harness could not be run to the end against it
            # (e.g. a private helper it records through was removed or renamed): the property is no longer shown to hold on this tree.
            # Violations with a concrete input found before the exception are still reported first (finish()).
            tb = traceback.extract_tb(e.__traceback__)
            where = f"{Path(tb[-1].filename).name}:{tb[-1].lineno}" if tb else "?"
            ctx.broken.append({"kind": "correspondence",
                               "what": f"the correspondence harness stopped with {type(e).__name__}: {str(e)[:300]} (at {where}) on a tree whose anchored "
                                       f"files changed: {changed[:6]}; the obligations it had not reached are unchecked"})
        else:
            ctx.internal_errors.append(f"harness exception: {type(e).__name__}: {e}")
    return ctx.finish()


def pmap(fn, items, workers: int = 14, chunksize: int = 8):
    """Parallel map over a module-level function with forked workers (each item is run in a child that has
    /repo imported already).  Order preserving.  Use `guarded` inside fn for per-case time limits."""
    import multiprocessing as mp

    items = list(items)
    if len(items) < 32 or workers <= 1:
        return [fn(x) for x in items]
    ctx = mp.get_context("fork")
    with ctx.Pool(workers) as pool:
        return pool.map(fn, items, chunksize=chunksize)
