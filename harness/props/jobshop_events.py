"""Event-directed search for rare execution histories of solve_job_shop (helper of harness/props/C18.py, job-shop part).

`ref_run` is an instrumented Python port of solvor/job_shop.py as modelled in coq/C18/JobShop.v (one list-scheduling
kernel; _dispatch and _rebuild_schedule as instances; adjacent-swap local search driven by random.Random(seed) with
the same calls in the same order).  It is NOT an oracle: C18.py checks on every case it is used for that its result
equals the implementation's (histogram `js_reference_port_agrees`); the verdicts come from the property oracle and
the Coq checks.  It reports which rare events a run exhibits.  The kernel never fills idle time (a "semi-active"
list schedule), so the rare histories are those in which idle time appears and later operations could have used it:

  idle_lead / idle_mid   an operation starts later than its machine becomes free: an idle WINDOW [a, b) opens in front of
                         the first operation of the machine / between two operations
  win_target / win_other the window is on the local search's target machine / on another machine of a rebuild
  fit_inside, fit_left, fit_right, fit_exact, fit_zero
                         a LATER operation of the same kernel run on that machine would fit into the window at its earliest
                         feasible time t0 = max(a, job_free): strictly inside / flush left / flush right (t0 > a, t0 + d = b) /
                         filling it / zero duration
  overhang               it starts inside the window but does not fit (t0 < b < t0 + d)
  fit2                   two later operations fit the same window;  fit2_clash: their would-be intervals intersect
  fit_right_then_fit     a flush-right candidate is followed by another candidate of the same window
  tie_key                two ready operations of a rebuild have equal priority keys (stability of the sort decides)
  tie_start              two operations of a machine have equal start times when the local search sorts them
  swap_same_job          the swapped adjacent pair belongs to one job (the rebuild restores the job order)
  eq_makespan            a neighbour with EQUAL makespan is rejected (`<` boundary)
  accept, accept2, accept_late (accepted pair index > 0), accept_fit / accept_fit2 / accept_clash / accept_rtf (the accepted rebuild
                         had fit / fit2 / fit2_clash / fit_right_then_fit events),
  accept_idle (the accepted schedule contains idle windows), skip_machine (< 2 operations on the drawn machine),
  noimp_exit (no_improve reached 100), rnd_choice (rule 'random' used)

`event_search` = generate (families below) + hill-climb by small mutations, batch-parallel; every candidate is ALSO run on the
implementation and judged by the property oracle of C18.py (passed in as `judge`), so the whole search budget is test budget.
Everything is driven by the rng passed in.
"""
import json
import random as _random

RULES = ("spt", "lpt", "mwkr", "fifo", "random")
EVENTS = ("idle_lead", "idle_mid", "win_target", "win_other", "fit_inside", "fit_left", "fit_right", "fit_exact", "fit_zero",
          "overhang", "fit2", "fit2_clash", "fit_right_then_fit", "tie_key", "tie_start", "swap_same_job", "eq_makespan",
          "accept", "accept2", "accept_late", "accept_fit", "accept_fit2", "accept_clash", "accept_rtf", "accept_idle", "skip_machine",
          "noimp_exit", "rnd_choice")
# what to climb on when the target itself is absent (event -> weight); counts are capped
LADDER = {
    "fit2_clash": {"fit2": 40, "fit_right": 8, "fit_inside": 8, "fit_left": 8, "fit_exact": 8, "idle_lead": 2, "idle_mid": 2, "overhang": 3},
    "fit_right_then_fit": {"fit2": 30, "fit_right": 25, "fit_inside": 6, "idle_lead": 2, "idle_mid": 2, "overhang": 3},
    "accept_fit2": {"fit2": 30, "accept_fit": 30, "accept": 10, "fit_inside": 6, "fit_right": 6, "fit_left": 6, "idle_lead": 2},
    "accept_clash": {"fit2_clash": 40, "accept_fit2": 40, "fit2": 20, "accept_fit": 20, "accept": 10, "fit_inside": 5, "idle_lead": 2},
    "accept_rtf": {"fit_right_then_fit": 40, "accept_fit2": 40, "fit2": 20, "fit_right": 15, "accept_fit": 20, "accept": 10, "idle_lead": 2},
    "accept_fit": {"accept": 20, "fit_inside": 10, "fit_right": 10, "fit_left": 10, "fit_exact": 10, "idle_lead": 3, "idle_mid": 3},
    "fit_exact": {"fit_left": 10, "fit_right": 10, "fit_inside": 5, "overhang": 5, "idle_lead": 3, "idle_mid": 3},
    "fit_right": {"fit_inside": 10, "overhang": 8, "idle_lead": 3, "idle_mid": 3},
    "fit_zero": {"idle_lead": 5, "idle_mid": 5},
    "accept2": {"accept": 30, "eq_makespan": 2},
    "accept_late": {"accept": 20, "eq_makespan": 5},
    "noimp_exit": {"skip_machine": 0},
    "tie_key": {"tie_start": 5},
}
MAX_OPS = 14


def _kernel(jobs, nm, pick, ev, target=None, in_rebuild=False):
    n = len(jobs)
    nxt = [0] * n
    mfree = [0] * nm
    jfree = [0] * n
    sched = {}
    total = sum(len(j) for j in jobs)
    windows = {}   # machine -> list of [a, b, candidates [(t0, t0 + d, kind)]]
    local = set()
    for _ in range(total):
        ready = [(j, nxt[j]) for j in range(n) if nxt[j] < len(jobs[j])]
        if not ready:
            break
        j, k = ready[pick(ready, jfree, mfree, local)]
        m, d = jobs[j][k]
        for w in windows.get(m, ()):
            a, b, cands = w
            t0 = a if a > jfree[j] else jfree[j]
            if t0 + d <= b:
                kind = ("fit_zero" if d == 0 else "fit_exact" if (t0 == a and t0 + d == b) else "fit_left" if t0 == a
                        else "fit_right" if t0 + d == b else "fit_inside")
                local.add(kind)
                if d > 0:
                    for (x0, x1, xk) in cands:
                        local.add("fit2")
                        if max(x0, t0) < min(x1, t0 + d):
                            local.add("fit2_clash")
                        if xk == "fit_right":
                            local.add("fit_right_then_fit")
                    cands.append((t0, t0 + d, kind))
            elif t0 < b:
                local.add("overhang")
        start = mfree[m] if mfree[m] > jfree[j] else jfree[j]
        if start > mfree[m]:
            local.add("idle_lead" if mfree[m] == 0 else "idle_mid")
            if in_rebuild:
                local.add("win_target" if m == target else "win_other")
            windows.setdefault(m, []).append([mfree[m], start, []])
        end = start + d
        sched[(j, k)] = (start, end)
        mfree[m] = end
        jfree[j] = end
        nxt[j] += 1
    ev |= local
    return sched, local


def _first_best(keys, better):
    bi = 0
    for i in range(1, len(keys)):
        if better(keys[i], keys[bi]):
            bi = i
    return bi


def ref_run(case):
    """-> dict(schedule {(j, k): (s, e)}, objective, events set, counts dict) or dict(error=...) for inputs the port rejects."""
    jobs = [[tuple(o) for o in job] for job in case["jobs"]]
    rule = case["rule"].lower()
    ev = set()
    if not jobs:
        return {"schedule": {}, "objective": 0, "events": ev, "accepts": 0, "iterations": 0, "evaluations": 0}
    if any((not job) or any(m < 0 or d < 0 for m, d in job) for job in jobs) or rule not in RULES:
        return {"error": "ValueError", "events": ev, "accepts": 0}
    nm = max(m for job in jobs for m, _ in job) + 1
    rng = _random.Random(case["seed"])
    rem = [sum(d for _, d in job) for job in jobs]

    def pick_dispatch(ready, jfree, mfree, local):
        if rule == "fifo":
            i = 0
        elif rule == "spt":
            i = _first_best([jobs[j][k][1] for j, k in ready], lambda a, b: a < b)
        elif rule == "lpt":
            i = _first_best([jobs[j][k][1] for j, k in ready], lambda a, b: a > b)
        elif rule == "mwkr":
            i = _first_best([rem[j] for j, _ in ready], lambda a, b: a > b)
        else:
            ev.add("rnd_choice")
            i = ready.index(rng.choice(ready))
        j, k = ready[i]
        rem[j] -= jobs[j][k][1]
        return i

    sched, _ = _kernel(jobs, nm, pick_dispatch, ev)
    mk = max((e for _, e in sched.values()), default=0)
    best, best_mk = sched, mk
    accepts, its, evals = 0, 0, 1
    if case["local_search"]:
        no_imp = 0
        all_ops = [(j, k) for j, job in enumerate(jobs) for k in range(len(job))]
        for it in range(1, case["max_iter"] + 1):
            its = it
            machine = rng.randrange(nm)
            ops = [o for o in all_ops if jobs[o[0]][o[1]][0] == machine]
            if len(ops) < 2:
                ev.add("skip_machine")
                continue
            ops.sort(key=lambda o: sched[o][0])
            if any(sched[ops[i]][0] == sched[ops[i + 1]][0] for i in range(len(ops) - 1)):
                ev.add("tie_start")
            improved = False
            for i in range(len(ops) - 1):
                order = list(ops)
                order[i], order[i + 1] = order[i + 1], order[i]
                if order[i][0] == order[i + 1][0]:
                    ev.add("swap_same_job")
                pos = {o: p for p, o in enumerate(order)}
                old = sched

                def key(o, old=old, pos=pos):
                    return (o[1], pos[o]) if jobs[o[0]][o[1]][0] == machine else (o[1], old[o][0])

                def pick_rebuild(ready, jfree, mfree, local, key=key):
                    keys = [key(o) for o in ready]
                    if len(set(keys)) < len(keys):
                        local.add("tie_key")
                    return _first_best(keys, lambda a, b: a < b)

                new, local = _kernel(jobs, nm, pick_rebuild, ev, target=machine, in_rebuild=True)
                new_mk = max(e for _, e in new.values())
                evals += 1
                if new_mk < mk:
                    sched, mk, improved = new, new_mk, True
                    accepts += 1
                    ev.add("accept")
                    if accepts >= 2:
                        ev.add("accept2")
                    if i > 0:
                        ev.add("accept_late")
                    if local & {"fit_inside", "fit_left", "fit_right", "fit_exact"}:
                        ev.add("accept_fit")
                    if "fit2" in local:
                        ev.add("accept_fit2")
                    if "fit2_clash" in local:
                        ev.add("accept_clash")
                    if "fit_right_then_fit" in local:
                        ev.add("accept_rtf")
                    if local & {"idle_lead", "idle_mid"}:
                        ev.add("accept_idle")
                    if mk < best_mk:
                        best, best_mk = sched, mk
                    break
                if new_mk == mk:
                    ev.add("eq_makespan")
            no_imp = 0 if improved else no_imp + 1
            if no_imp >= 100:
                ev.add("noimp_exit")
                break
    return {"schedule": best, "objective": best_mk, "events": ev, "accepts": accepts, "iterations": its, "evaluations": evals}


def score(res, target):
    evs = res["events"]
    if target in evs:
        return 1000 + len(evs)
    lad = LADDER.get(target, {})
    return sum(w for e, w in lad.items() if e in evs) + 0.5 * len(evs)


# ---------------------------------------------------------------- families
def _mk(rng, jobs, ls=True):
    return {"jobs": jobs, "rule": rng.choice(RULES), "seed": rng.randrange(1000), "local_search": ls,
            "max_iter": rng.choice([1, 5, 5, 30, 30, 30, 60]), "cb_k": None, "interval": 0}


def n_ops(case):
    return sum(len(j) for j in case["jobs"])


def gen_staggered(rng):
    """jobs start on private machines with different lengths and then meet on shared machines: leading idle windows"""
    n = rng.randint(2, 4)
    shared = rng.randint(1, 2)
    alpha = rng.choice([[0, 1, 2, 3], [1, 2, 4], [0, 1, 2, 4, 5, 6], [1, 3, 5], [1, 2, 3, 4, 5, 6]])
    jobs = []
    for j in range(n):
        job = []
        if rng.random() < 0.8:
            job.append([shared + j, rng.choice(alpha) + rng.randint(0, 4)])
        for _ in range(rng.randint(1, 3)):
            job.append([rng.randrange(shared), rng.choice(alpha)])
            if rng.random() < 0.25:
                job.append([shared + j, rng.choice(alpha)])
        jobs.append(job[:4])
    return _mk(rng, jobs)


def gen_flow(rng):
    """flow shop: all jobs visit the machines in the same order"""
    n, m = rng.randint(2, 4), rng.randint(2, 3)
    hi = rng.choice([2, 4, 6])
    return _mk(rng, [[[k, rng.randint(0, hi)] for k in range(m)] for _ in range(n)])


def gen_bottleneck(rng):
    """one shared machine visited by every job between private operations"""
    n = rng.randint(2, 4)
    hi = rng.choice([3, 6])
    jobs = []
    for j in range(n):
        pre = [[1 + j, rng.randint(0, hi)] for _ in range(rng.randint(0, 2))]
        post = [[1 + j, rng.randint(0, hi)] for _ in range(rng.randint(0, 1))]
        jobs.append((pre + [[0, rng.randint(0, hi)]] + post + ([[0, rng.randint(1, hi)]] if rng.random() < 0.4 else []))[:4])
    return _mk(rng, jobs)


def gen_random(rng):
    n, nm = rng.randint(2, 4), rng.randint(1, 4)
    hi = rng.choice([2, 4, 6, 9])
    step = rng.choice([1, 1, 2])   # machine indices with gaps
    return _mk(rng, [[[rng.randrange(nm) * step, 0 if rng.random() < 0.12 else rng.randint(1, hi)]
                      for _ in range(rng.randint(1, 4))] for _ in range(n)])


FAMILIES = (gen_staggered, gen_flow, gen_bottleneck, gen_random, gen_random)


def mutate(rng, case):
    c = json.loads(json.dumps(case))
    jobs = c["jobs"]
    for _ in range(rng.choice([1, 1, 2, 3])):
        r = rng.random()
        j = rng.randrange(len(jobs))
        k = rng.randrange(len(jobs[j]))
        durs = [o[1] for job in jobs for o in job]
        if r < 0.22:
            jobs[j][k][1] = max(0, jobs[j][k][1] + rng.choice([-2, -1, 1, 2]))
        elif r < 0.32:
            jobs[j][k][1] = rng.choice(durs)                       # equal durations: ties
        elif r < 0.42:
            jobs[j][k][1] = abs(rng.choice(durs) - rng.choice(durs))  # differences: exact fits
        elif r < 0.47:
            jobs[j][k][1] = 0
        elif r < 0.60:
            ms = sorted({o[0] for job in jobs for o in job})
            jobs[j][k][0] = rng.choice(ms + [max(ms) + 1])
        elif r < 0.66 and len(jobs[j]) >= 2:
            a = rng.randrange(len(jobs[j]) - 1)
            jobs[j][a], jobs[j][a + 1] = jobs[j][a + 1], jobs[j][a]
        elif r < 0.73 and n_ops(c) < MAX_OPS and len(jobs[j]) < 5:
            jobs[j].insert(rng.randint(0, len(jobs[j])), [rng.choice([o[0] for job in jobs for o in job]), rng.choice(durs + [1])])
        elif r < 0.78 and len(jobs[j]) >= 2:
            del jobs[j][k]
        elif r < 0.82 and len(jobs) < 5 and n_ops(c) + 2 <= MAX_OPS:
            jobs.append([[o[0], o[1]] for o in rng.choice(jobs)][:2])
        elif r < 0.85 and len(jobs) >= 3:
            del jobs[j]
        elif r < 0.91:
            c["seed"] = rng.randrange(1000)
        elif r < 0.96:
            c["rule"] = rng.choice(RULES)
        else:
            c["max_iter"] = rng.choice([1, 5, 30, 60, 150])
    return c


def minimise(case, target, budget=300):
    """greedy shrink keeping `target` in the reference events"""
    cur = json.loads(json.dumps(case))
    spent, changed = 0, True
    while changed and spent < budget:
        changed = False
        cands = []
        for j in range(len(cur["jobs"])):
            if len(cur["jobs"]) > 1:
                c = json.loads(json.dumps(cur))
                del c["jobs"][j]
                cands.append(c)
            for k in range(len(cur["jobs"][j])):
                if len(cur["jobs"][j]) > 1:
                    c = json.loads(json.dumps(cur))
                    del c["jobs"][j][k]
                    cands.append(c)
                if cur["jobs"][j][k][1] > 0:
                    c = json.loads(json.dumps(cur))
                    c["jobs"][j][k][1] -= 1
                    cands.append(c)
        for mi in (1, 5, 30):
            if cur["max_iter"] > mi:
                cands.append({**cur, "max_iter": mi})
        for c in cands:
            spent += 1
            if target in ref_run(c)["events"]:
                cur, changed = c, True
                break
    return cur


def _eval(item):
    case, judge = item
    res = ref_run(case)
    verdict = judge(case, res) if judge else None
    return res["events"], res.get("accepts", 0), verdict


_JUDGE = None


def _eval_global(case):
    res = ref_run(case)
    verdict = _JUDGE(case, res) if _JUDGE else None
    return sorted(res["events"]), verdict, res.get("accepts", 0)


def event_search(rng, evals, judge=None, seeds=(), batch=448, workers=14, targets=EVENTS):
    """Batch-parallel hill climb.  `judge(case, ref_result)` (module-level function; runs the implementation and the property
    oracle) is called in the workers for every candidate and returns None or a verdict dict that is passed through.
    -> (found [(case, events)] novel event sets / first witnesses, verdicts [(case, verdict)], stats dict)"""
    import multiprocessing as mp

    global _JUDGE
    _JUDGE = judge
    seeds = [json.loads(json.dumps(s)) for s in seeds]
    # one climber per target (round robin over more climbers than targets): (target, case, score)
    climbers = []
    for i in range(max(len(targets) * 2, 40)):
        t = targets[i % len(targets)]
        start = mutate(rng, rng.choice(seeds)) if seeds and rng.random() < 0.4 else rng.choice(FAMILIES)(rng)
        climbers.append([t, start, -1.0, 0])
    found, verdicts, seen_sets, seen_ev = [], [], set(), {}
    spent, max_acc = 0, 0
    pool = mp.get_context("fork").Pool(workers) if workers > 1 else None
    try:
        while spent < evals:
            cands = []
            for ci in range(batch):
                cl = climbers[ci % len(climbers)]
                if cl[2] < 0:
                    cand = cl[1]
                else:
                    cand = mutate(rng, cl[1])
                    if n_ops(cand) > MAX_OPS:
                        cand = cl[1]
                cands.append((ci % len(climbers), cand))
            outs = pool.map(_eval_global, [c for _, c in cands], chunksize=8) if pool else [_eval_global(c) for _, c in cands]
            spent += len(cands)
            for (ci, cand), (evs, verdict, acc) in zip(cands, outs):
                evs = set(evs)
                max_acc = max(max_acc, acc)
                if verdict is not None:
                    verdicts.append((cand, verdict))
                cl = climbers[ci]
                sc = score({"events": evs}, cl[0])
                if sc >= cl[2]:
                    cl[1], cl[2] = cand, sc
                cl[3] += 1
                key = frozenset(evs)
                new_ev = [e for e in evs if e not in seen_ev]
                if key not in seen_sets and evs:
                    seen_sets.add(key)
                    found.append((cand, evs))
                for e in new_ev:
                    seen_ev[e] = cand
            # restart climbers that reached their target or are stuck
            for cl in climbers:
                if cl[2] >= 1000 or cl[3] >= 40:
                    base = rng.random()
                    if seeds and base < 0.3:
                        cl[1] = mutate(rng, rng.choice(seeds))
                    elif found and base < 0.5:
                        cl[1] = mutate(rng, rng.choice(found)[0])
                    else:
                        cl[1] = rng.choice(FAMILIES)(rng)
                    cl[0] = rng.choice(targets)
                    cl[2], cl[3] = -1.0, 0
    finally:
        if pool:
            pool.terminate()
            pool.join()
    return found, verdicts, {"spent": spent, "first_witness": seen_ev, "distinct_event_sets": len(seen_sets), "max_accepts": max_acc}
