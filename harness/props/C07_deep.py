"""C07 (deep part) - tie of the POINTER-LEVEL model SV.C07.DeepLinks.psolve (explicit left/right/up/down/column/size
maps, _cover/_uncover transcribed assignment by assignment) to /repo.

On the cases of the C07 run (same inputs, same implementation observables) that are at most 7 rows x 6 columns, the
pointer-level model is evaluated inside coqc (vm_compute) and must equal BOTH the implementation's full result
(solution shape, ordered selections, objective, iterations, evaluations, status / IndexError) AND the functional model
SV.C07.Dlx.solve.  Called from harness/props/C07.py:run with `ctx.c07_cases = (metas, coq_cases)`.
"""
from harness.core import COQ, Ctx

IMPORTS = "From SV Require Import C07.Dlx C07.DeepLinks."
MAX_ROWS, MAX_COLS = 7, 6


def _small(case):
    m = case["matrix"]
    if len(m) > MAX_ROWS:
        return False
    if any(len(r) > MAX_COLS + 1 for r in m):  # +1: the malformed "one entry too many" rows stay in
        return False
    return not case["columns"] or len(case["columns"]) <= MAX_COLS + 1


def run_part(ctx: Ctx):
    if not (COQ / "C07" / "DeepLinks.v").exists():
        return
    metas, coq_cases = getattr(ctx, "c07_cases", ([], []))
    sel = [i for i, (case, _out) in enumerate(metas) if _small(case)]
    if not sel:
        return
    cases = [coq_cases[i] for i in sel]
    failing = ctx.coq_check("deep", IMPORTS, "input * outcome", "deep_corr", cases)
    ctx.traces_validated += len(cases) - len(failing)
    ctx.count("deep_pointer_model_cases", len(cases))
    if ctx.theorems.get("C07_deep_search_refines") == "proved" and not ctx.broken:
        # the caveat recorded by C07.py is closed by Props/C07_deep.v: say what is proved and what is still trusted
        ctx.notes[:] = [n for n in ctx.notes if not n.startswith("the functional model's claim that _cover/_uncover")]
        ctx.notes.append("_cover/_uncover pointer surgery = 'remove the column and the rows sharing it' is PROVED for the "
                         "pointer-level model (Props/C07_deep.v: cover_refines, uncover_inverse, build_refines, "
                         "search_refines: psolve = solve for every input); what is still trusted is that DeepLinks.v "
                         "transcribes dlx.py assignment by assignment, tested by the per-run correspondence 'deep'")
    ctx.notes.append("pointer-level model (DeepLinks.psolve: id-indexed left/right/up/down/column/size maps, loops with "
                     "fuel) compared with the implementation and with the functional model on the cases of at most "
                     f"{MAX_ROWS} rows x {MAX_COLS} columns ({len(cases)} of {len(coq_cases)} cases)")
    for i in failing[:1]:
        case, out = metas[sel[i]]
        from harness.props.C07 import coq_input
        pm = ctx.coq_eval("deep_show", IMPORTS, f"(psolve {coq_input(case)}, solve {coq_input(case)})")
        ctx.violation("correspondence lemma deep: pointer-level model SV.C07.DeepLinks.psolve differs from "
                      "solve_exact_cover or from the functional model SV.C07.Dlx.solve",
                      {"kind": "case", "case": case, "impl_out": out, "model_out": pm[-1500:],
                       "lemma": "Cases/C07/deep_*.v corr"}, no_input=True)
