"""C01 - SAT models are models: every assignment solve_sat hands back satisfies clauses and assumptions; distinct.

Engine shared with C02 in harness/props/sat_common.py (generators, hook runner, truth-table oracle, Coq replay).
This module judges only C01's clauses: returned assignments (solution and every entry of solutions) satisfy all
clauses and assumptions and are pairwise distinct; machine rejections of solution / blocking-clause events or a
result_of mismatch are reported; the machine is replayed with the RUP guards off (chk = false), which C01's theorems allow.
"""
from harness.core import COQ, Ctx
from harness.props import sat_common as SC

ID = "C01"
ANCHORS = SC.ANCHORS


def run(ctx: Ctx):
    ctx.rule = ("random k-CNF near the phase transition (n<=12 quick, <=20 thorough) with injected unit/binary/repeated-variable/"
                "tautology clauses, gapped numbering, assumptions, solution_limit in {1,2,3,10,1000}, luby_factor in {1,2,100}, tiny "
                "budgets; pigeonhole, parity chains, 18-variable cumulative encoding; non-trivial = conflict analysis produced >=1 learned "
                "clause AND >=1 assignment was returned; distinct = canonical JSON of (clauses, assumptions, options); round 2: input container forms, aliased clause "
                "objects, option corners, call sequences, and a few heavy by-construction instances (blocks, guarded pigeonhole, sparse/large indices)")
    ctx.proof_step(["C01"])
    if (COQ / "Props" / "C01_deep.v").exists(): ctx.proof_step(["C01"], props_file="Props/C01_deep.v")  # noqa: E701
    ctx.notes += SC.NOTES + SC.NOTES_C01
    from harness.props import sat_shapes as SH  # round-2 hardening (HARDENING.md): heavy by-construction instances, call sequences
    heavy = SH.start_heavy(ctx, "C01")  # solved in a forked pool while the small-case engine runs
    SC.run_engine(ctx, "C01")
    SH.finish_heavy(ctx, "C01", heavy)
    SH.run_sequences(ctx, "C01")
    try:  # stretch C01_algorithm: exact correspondence with the faithful model coq/C01/DeepCdcl.v
        from harness.props import C01_deep; C01_deep.run_part(ctx)  # noqa: E702
    except ImportError:
        pass


def replay(obj):
    return SC.replay_common(obj, "C01")
