"""C12 - the Rust and the Python back-end of the nine accelerated functions are observably equivalent.

Tie to /repo (working tree) on every run:
  * the Rust extension is REBUILT from the working tree's rust/ (Cargo.toml, Cargo.lock, src/) into the scratch
    directory /verif/.rust-build (cargo build --release --offline; skipped when the sha256 of those sources is
    unchanged since the last build), a shadow package /verif/.rust-build/pkg*/solvor = the working tree's
    solvor/*.py + the freshly built library is made, and `solvor` is imported FROM THERE for this property;
  * every generated case is run with backend='python', backend='rust' and the default;
  * an independent Python oracle (naive relaxation / closure / union-find / exact-rational power iteration)
    judges all three results against the property itself and against each other;
  * the Gallina models are evaluated on the same inputs inside coqc: Python-side models (SV.C11/C13/C14/C15 and
    the *_edges wrappers in SV.C12) against backend='python', Rust-side models (SV.C12.Rs*) against backend='rust'.
The property theorems in Props/C12.v relate the two families of models.
"""
import fcntl
import hashlib
import importlib
import json
import os
import shutil
import subprocess
import sys
import time
from fractions import Fraction
from pathlib import Path

from harness.core import COQ, REPO, VERIF, Ctx, cbool, clist, cnat, copt, cq, cz, guarded

ID = "C12"
ANCHORS = [
    "solvor/rust/__init__.py", "solvor/rust/adapters.py",
    "rust/src/algorithms/floyd_warshall.rs", "rust/src/algorithms/bellman_ford.rs", "rust/src/algorithms/dijkstra.rs",
    "rust/src/algorithms/bfs.rs", "rust/src/algorithms/kruskal.rs", "rust/src/algorithms/pagerank.rs",
    "rust/src/algorithms/scc.rs", "rust/src/bindings/shortest_path.rs", "rust/src/bindings/traversal.rs",
    "rust/src/bindings/mst.rs", "rust/src/bindings/centrality.rs", "rust/src/bindings/components.rs",
    "solvor/floyd_warshall.py", "solvor/bellman_ford.py", "solvor/dijkstra.py", "solvor/bfs.py", "solvor/mst.py",
    "solvor/pagerank.py", "solvor/scc.py",
]
INF = float("inf")
BUILD = VERIF / ".rust-build"
SO_NAME = "_solvor_rust.cpython-312-x86_64-linux-gnu.so"

FNS = ["floyd_warshall", "bellman_ford", "dijkstra_edges", "bfs_edges", "dfs_edges", "kruskal", "pagerank_edges",
       "strongly_connected_components_edges", "topological_sort_edges"]


# ====================================================================== rebuild of the extension + shadow package
def _src_hash(rust_dir: Path) -> str:
    h = hashlib.sha256()
    files = [rust_dir / "Cargo.toml", rust_dir / "Cargo.lock"] + sorted((rust_dir / "src").rglob("*"))
    for f in files:
        if f.is_file():
            h.update(str(f.relative_to(rust_dir)).encode() + b"\0" + f.read_bytes() + b"\0")
    return h.hexdigest()[:20]


def build_extension(notes: list) -> tuple[Path, dict]:
    """Returns (directory to put first on sys.path, info).  info['mode'] is 'rebuilt' | 'cached' | 'fallback-installed'."""
    info = {"repo": str(REPO)}
    rust_dir = REPO / "rust"
    BUILD.mkdir(exist_ok=True)
    (BUILD / "so").mkdir(exist_ok=True)
    tag = "pkg" if str(REPO) == "/repo" else "pkg-" + hashlib.sha256(str(REPO).encode()).hexdigest()[:8]
    pkg = BUILD / tag
    for old_pkg in BUILD.glob("pkg-*"):            # shadow packages of scratch trees that are gone / older than a day
        try:
            src = (old_pkg / ".repo").read_text().strip() if (old_pkg / ".repo").exists() else ""
            if old_pkg != pkg and (not src or not Path(src).exists() or time.time() - old_pkg.stat().st_mtime > 86400):
                shutil.rmtree(old_pkg, ignore_errors=True)
        except OSError:
            pass
    with open(BUILD / ".lock", "w") as lock:
        fcntl.flock(lock, fcntl.LOCK_EX)
        so = None
        try:
            h = _src_hash(rust_dir)
            info["rust_src_sha"] = h
            cached = BUILD / "so" / f"{h}.so"
            if cached.exists():
                so, info["mode"] = cached, "cached"
            else:
                t0 = time.time()
                src = BUILD / "src"
                src.mkdir(exist_ok=True)
                subprocess.run(["rsync", "-a", "--delete", str(rust_dir / "Cargo.toml"), str(rust_dir / "Cargo.lock"),
                                str(rust_dir / "src"), str(src) + "/"], check=True, capture_output=True)
                target = BUILD / "target"
                if not target.exists() and (Path("/repo/rust/target")).exists():
                    shutil.copytree("/repo/rust/target", target, symlinks=True)
                env = dict(os.environ, CARGO_TARGET_DIR=str(target), PYO3_PYTHON=sys.executable)
                env["PATH"] = env.get("PATH", "") + ":" + str(Path.home() / ".cargo" / "bin")
                r = subprocess.run(["cargo", "build", "--release", "--offline"], cwd=src, env=env, capture_output=True,
                                   text=True, timeout=1500)
                info["cargo_s"] = round(time.time() - t0, 1)
                lib = target / "release" / "lib_solvor_rust.so"
                if r.returncode != 0 or not lib.exists():
                    info["cargo_error"] = (r.stdout + r.stderr)[-1500:]
                    raise RuntimeError("cargo build failed")
                shutil.copy2(lib, cached)
                (BUILD / "target.srchash").write_text(h + "\n")
                so, info["mode"] = cached, "rebuilt"
                olds = sorted((BUILD / "so").glob("*.so"), key=lambda p: p.stat().st_mtime)
                for o in olds[:-12]:
                    o.unlink()
        except Exception as e:  # noqa: BLE001
            info["mode"] = "fallback-installed"
            info["build_exception"] = f"{type(e).__name__}: {e}"
            so = REPO / "solvor" / SO_NAME
            notes.append("LOUD: the Rust extension could NOT be rebuilt from the working tree's rust/ (" + info["build_exception"]
                         + "); the INSTALLED " + str(so) + " was used instead - kernel edits in rust/ are not seen by this run")
        # shadow package: python files of the working tree + the library
        (pkg / "solvor").mkdir(parents=True, exist_ok=True)
        (pkg / ".repo").write_text(str(REPO) + "\n")
        subprocess.run(["rsync", "-a", "--delete", "--exclude", "__pycache__", "--exclude", "*.so", "--exclude", "*.pyc",
                        str(REPO / "solvor") + "/", str(pkg / "solvor") + "/"], check=True, capture_output=True)
        dst = pkg / "solvor" / SO_NAME
        if so is not None and so.exists():
            if not dst.exists() or dst.stat().st_size != so.stat().st_size or hashlib.sha256(dst.read_bytes()).digest() != hashlib.sha256(so.read_bytes()).digest():
                tmp = dst.with_suffix(".tmp")
                shutil.copy2(so, tmp)
                os.replace(tmp, dst)
            info["so_sha"] = hashlib.sha256(dst.read_bytes()).hexdigest()[:16]
        else:
            info["mode"] = "no-extension"
            if dst.exists():
                dst.unlink()
    return pkg, info


def use_shadow(pkg: Path):
    """Make `import solvor` resolve to the shadow package (working-tree python + rebuilt extension)."""
    p = str(pkg)
    if p in sys.path:
        sys.path.remove(p)
    sys.path.insert(0, p)
    for m in list(sys.modules):
        if m == "solvor" or m.startswith("solvor."):
            del sys.modules[m]
    importlib.invalidate_caches()
    import solvor  # noqa: F401

    assert solvor.__file__.startswith(p), solvor.__file__


_SETUP = {}


def setup(notes=None):
    """Build + import once per process; returns info."""
    if "info" not in _SETUP:
        notes = notes if notes is not None else []
        pkg, info = build_extension(notes)
        use_shadow(pkg)
        from solvor.rust import get_backend, rust_available

        info["rust_available"] = bool(rust_available())
        if info["rust_available"]:
            import solvor._solvor_rust as ext

            info["ext_file"] = ext.__file__
            assert ext.__file__.startswith(str(pkg)), ext.__file__
            info["default_backend"] = get_backend(None)
            info["auto_backend"] = get_backend("auto")
        _SETUP["info"] = info
    return _SETUP["info"]


# ====================================================================== running the implementation
def _fn(name):
    mod = {"floyd_warshall": "floyd_warshall", "bellman_ford": "bellman_ford", "dijkstra_edges": "dijkstra", "bfs_edges": "bfs",
           "dfs_edges": "bfs", "kruskal": "mst", "pagerank_edges": "pagerank", "strongly_connected_components_edges": "scc",
           "topological_sort_edges": "scc"}[name]
    return getattr(importlib.import_module("solvor." + mod), name)


def call(case, backend):
    f = _fn(case["fn"])
    kw = {} if backend is None else {"backend": backend}
    n = case["n"]
    edges = [tuple(e) for e in case["edges"]]
    if case.get("container") == "tuple":      # class I: any Sequence of tuples, here an (immutable) tuple
        edges = tuple(edges)
    fn = case["fn"]
    if fn == "floyd_warshall":
        return f(n, edges, directed=case["directed"], **kw)
    if fn == "bellman_ford":
        return f(case["source"], edges, n, target=case["target"], **kw)
    if fn in ("dijkstra_edges", "bfs_edges", "dfs_edges"):
        return f(n, edges, case["source"], target=case["target"], **kw)
    if fn == "kruskal":
        return f(n, edges, allow_forest=case["allow_forest"], **kw)
    if fn == "pagerank_edges":
        return f(n, edges, damping=case["damping"], max_iter=case["max_iter"], tol=case["tol"], **kw)
    return f(n, edges, **kw)


def call_str(case, backend="<b>"):
    c = case
    e = [tuple(x) for x in c["edges"]]
    b = "" if backend in (None, "<b>") else f", backend={backend!r}"
    if c.get("container") == "tuple":
        e = tuple(e)
    fn = c["fn"]
    if fn == "floyd_warshall":
        return f"floyd_warshall({c['n']}, {e}, directed={c['directed']}{b})"
    if fn == "bellman_ford":
        return f"bellman_ford({c['source']}, {e}, {c['n']}, target={c['target']}{b})"
    if fn in ("dijkstra_edges", "bfs_edges", "dfs_edges"):
        return f"{fn}({c['n']}, {e}, {c['source']}, target={c['target']}{b})"
    if fn == "kruskal":
        return f"kruskal({c['n']}, {e}, allow_forest={c['allow_forest']}{b})"
    if fn == "pagerank_edges":
        return f"pagerank_edges({c['n']}, {e}, damping={c['damping']}, max_iter={c['max_iter']}, tol={c['tol']}{b})"
    return f"{fn}({c['n']}, {e}{b})"


def canon(x):
    """JSON-able canonical form: ints for integral floats, 'inf'/'-inf', tuples -> lists, dict -> sorted items, set -> sorted."""
    if isinstance(x, bool) or x is None:
        return x
    if isinstance(x, float):
        if x == INF:
            return "inf"
        if x == -INF:
            return "-inf"
        if x != x:
            return "nan"
        return int(x) if x == int(x) and abs(x) < 2 ** 53 else x
    if isinstance(x, int):
        return x
    if isinstance(x, dict):
        return {"dict": [[canon(k), canon(v)] for k, v in sorted(x.items())]}
    if isinstance(x, (set, frozenset)):
        return {"set": sorted(canon(v) for v in x)}
    if isinstance(x, (list, tuple)):
        return [canon(v) for v in x]
    return repr(x)


def observe(case, backend):
    """-> ('ok', {'status','solution','objective','iterations', 'type'}) | ('exc', ..) | ('hang',)"""
    r = guarded(call, case, backend, timeout=case.get("_timeout") or (5 if case["n"] <= 64 else 40))
    if r[0] != "ok":
        return r
    res = r[1]
    return ("ok", {"status": res.status.name, "solution": canon(res.solution), "objective": canon(res.objective),
                   "iterations": res.iterations, "type": type(res.solution).__name__})


def run_case(case):
    return {b: observe(case, {"python": "python", "rust": "rust", "default": None}[b]) for b in ("python", "rust", "default")}


# A native kernel that loops forever holds the main thread outside the interpreter (SIGALRM handlers do not run), a Rust
# panic surfaces as a BaseException and an allocation failure aborts the process: all implementation runs therefore
# happen in forked children that the parent can kill; a hang / crash becomes an outcome of that case.
def _in_child(fn, *args, timeout=12.0):
    """Run fn(*args) in a forked child; -> ('ok', value) | ('hang',) | ('crash', detail)."""
    import multiprocessing as mp
    import resource
    import signal

    rd, wr = mp.Pipe(duplex=False)
    pid = os.fork()
    if pid == 0:
        code = 0
        try:
            rd.close()
            resource.setrlimit(resource.RLIMIT_AS, (2 << 30, 2 << 30))
            try:
                wr.send(("ok", fn(*args)))
            except BaseException as e:  # noqa: BLE001  (pyo3 PanicException is a BaseException)
                wr.send(("crash", f"{type(e).__name__}: {str(e)[:200]}"))
            wr.close()
        except BaseException:  # noqa: BLE001
            code = 3
        finally:
            os._exit(code)
    wr.close()
    try:
        if rd.poll(timeout):
            try:
                return rd.recv()
            except EOFError:
                return ("crash", "child process died (abort / out of memory / signal)")
        return ("hang",)
    finally:
        try:
            os.kill(pid, signal.SIGKILL)
        except ProcessLookupError:
            pass
        os.waitpid(pid, 0)
        rd.close()


def run_case_isolated(case):
    """Each back-end in its own child (used for shrinking and for cases that killed a batch)."""
    outs = {}
    for b in ("python", "rust", "default"):
        r = _in_child(observe, case, {"python": "python", "rust": "rust", "default": None}[b], timeout=8.0 if case["n"] <= 64 else 60.0)
        outs[b] = r[1] if r[0] == "ok" else (("hang",) if r[0] == "hang" else ("exc", "Crash", r[1]))
    return outs


def _batch(cases):
    out = []
    for c in cases:
        try:
            out.append(run_case(c))
        except BaseException as e:  # noqa: BLE001
            out.append(None)
            break
    return out


def run_cases(cases, chunk=60):
    """run_case over all cases, in forked children of `chunk` cases; a chunk that hangs / dies is redone case by case."""
    results = []
    for k in range(0, len(cases), chunk):
        part = cases[k:k + chunk]
        r = _in_child(_batch, part, timeout=40.0 + 2.0 * len(part))
        if r[0] == "ok" and len(r[1]) == len(part) and all(x is not None for x in r[1]):
            results += r[1]
        else:
            results += [run_case_isolated(c) for c in part]
    return results


# ====================================================================== independent oracles
def num(x):
    return INF if x == "inf" else (-INF if x == "-inf" else x)


def close(a, b, tol=1e-9):
    a, b = num(a), num(b)
    if a == b:
        return True
    if not isinstance(a, (int, float)) or not isinstance(b, (int, float)) or a in (INF, -INF) or b in (INF, -INF):
        return False
    return abs(a - b) <= tol * max(1.0, abs(a), abs(b))


def integral(case):
    """weights are ints and every partial sum stays exact in binary64 (|sum| < 2^53): both back-ends must then agree exactly"""
    if not case["edges"] or len(case["edges"][0]) != 3:
        return True
    return all(isinstance(e[2], int) and not isinstance(e[2], bool) for e in case["edges"]) and sum(abs(e[2]) for e in case["edges"]) < 2 ** 53


def ref_sssp(n, arcs, s):
    """(dist list, negative cycle reachable from s) by n-1 full relaxation rounds + one detection round."""
    d = [INF] * n
    d[s] = 0
    for _ in range(max(0, n - 1)):
        for u, v, c in arcs:
            if d[u] < INF and d[u] + c < d[v]:
                d[v] = d[u] + c
    neg = any(d[u] < INF and d[u] + c < d[v] for u, v, c in arcs)
    return d, neg


def _adj(n, edges):
    a = {}
    for e in edges:
        a.setdefault(e[0], []).append(e[1])
    return a


def ref_reach(n, edges, s, adj=None):
    adj = _adj(n, edges) if adj is None else adj
    seen = {s}
    todo = [s]
    while todo:
        x = todo.pop()
        for y in adj.get(x, ()):
            if y not in seen:
                seen.add(y)
                todo.append(y)
    return seen


def ref_levels(n, edges, s):
    adj = _adj(n, edges)
    level = {s: 0}
    frontier = [s]
    while frontier:
        nxt = []
        for x in frontier:
            for y in adj.get(x, ()):
                if y not in level:
                    level[y] = level[x] + 1
                    nxt.append(y)
        frontier = nxt
    return level


def walk_weights(path, arcs):
    """set of possible weights of the vertex sequence `path` (choice of parallel arcs); empty if not a walk."""
    par = {}
    for u, v, c in arcs:
        par.setdefault((u, v), set()).add(c)
    sums = {0}
    for a, b in zip(path, path[1:]):
        ws = par.get((a, b))
        if not ws:
            return set()
        if len(ws) > 8:
            ws = set(sorted(ws)[:8])
        sums = {x + w for x in sums for w in ws}
        if len(sums) > 4096:
            sums = set(sorted(sums)[:4096])
    return sums


def ref_scc(n, edges):
    adj = _adj(n, edges)
    r = [ref_reach(n, edges, s, adj) for s in range(n)]
    return {frozenset(v for v in range(n) if v in r[u] and u in r[v]) for u in range(n)}


def ref_msf(n, edges):
    """(number of components, weight of a minimum spanning forest): sorted edges + naive label merging."""
    lab = list(range(n))
    total = 0
    k = 0
    for u, v, c in sorted(edges, key=lambda e: e[2]):
        if lab[u] != lab[v]:
            a, b = lab[u], lab[v]
            lab = [a if x == b else x for x in lab]
            total += c
            k += 1
    return n - k, total


def is_forest_of(n, tree, edges, exact=True):
    pool = {}
    for e in edges:
        pool.setdefault((e[0], e[1]), []).append(e[2])
    lab = list(range(n))
    for u, v, c in tree:
        ws = pool.get((u, v), [])
        k = next((i for i, w in enumerate(ws) if (w == c if exact else close(w, c))), None)
        if k is None:
            return False
        ws.pop(k)
        if lab[u] == lab[v]:
            return False
        a, b = lab[u], lab[v]
        lab = [a if x == b else x for x in lab]
    return True


def pr_reference(n, edges, damping, max_iter):
    """Independent power iteration (neither back-end's code): list of (scores, max |delta|) per sweep.
    Exact rationals when max_iter <= 40 (denominators stay small enough), plain floats otherwise."""
    exact = max_iter <= 40
    F = Fraction if exact else float
    d = F(damping)
    out = [0] * n
    inc = [[] for _ in range(n)]
    for u, v in edges:
        out[u] += 1
        inc[v].append(u)
    s = [F(1) / n] * n
    res = []
    for _ in range(max_iter):
        dang = sum((s[i] for i in range(n) if out[i] == 0), F(0))
        new = [(1 - d) / n + d * sum((s[u] / out[u] for u in inc[v]), F(0)) + d * dang / n for v in range(n)]
        md = max(abs(a - b) for a, b in zip(new, s))
        res.append((new, md))
        s = new
        if not exact and md == 0:
            res += [(new, md)] * (max_iter - len(res))
            break
    return res, exact


def judge(case, outs):
    """-> list of (kind, message).  kind 'viol' = property violated."""
    fn = case["fn"]
    n = case["n"]
    edges = [tuple(e) for e in case["edges"]]
    probs = []

    def bad(msg):
        probs.append(("viol", f"{call_str(case)}: {msg}"))

    for b, o in outs.items():
        if o[0] != "ok":
            bad(f"backend={b} {o[0]}: {o[1:]}")
    if probs:
        return probs
    P, R, D = outs["python"][1], outs["rust"][1], outs["default"][1]
    exact = integral(case)

    def eqnum(a, b):
        return (num(a) == num(b)) if exact else close(a, b)

    # ---- default must behave like the rust path (rust is available), and meaning never depends on the back-end
    trio = (("python", P), ("rust", R), ("default", D))
    if fn != "pagerank_edges":
        sts = {o["status"] for _, o in trio}
        if len(sts) != 1:
            bad("status differs: " + ", ".join(f"{b}={o['status']}" for b, o in trio))
            return probs
    for b, o in trio:
        if o["type"] != P["type"]:
            bad(f"solution type {b}={o['type']} python={P['type']}")

    # beyond 2^53 both back-ends compute in binary64: the reference then does the same (mixed int/float comparisons would see
    # differences that neither implementation can represent); results are compared with the relative tolerance 1e-9
    fedges = edges if (exact or not edges or len(edges[0]) != 3) else [(u, v, float(c)) for u, v, c in edges]
    if fn == "floyd_warshall":
        arcs = fedges if case["directed"] else fedges + [(v, u, c) for u, v, c in fedges]
        ref = [ref_sssp(n, arcs, s) for s in range(n)]
        neg = any(x[1] for x in ref)
        for b, o in trio:
            if neg:
                if (o["status"], o["solution"], o["objective"]) != ("UNBOUNDED", None, "-inf"):
                    bad(f"{b}: a negative cycle exists, expected UNBOUNDED/None/-inf, got {o['status']}/{o['solution']}/{o['objective']}")
            else:
                if o["status"] != "OPTIMAL" or o["objective"] != 0:
                    bad(f"{b}: expected OPTIMAL with objective 0, got {o['status']}/{o['objective']}")
                elif not (isinstance(o["solution"], list) and len(o["solution"]) == n and all(len(r) == n for r in o["solution"])):
                    bad(f"{b}: not an n x n matrix: {o['solution']}")
                else:
                    for i in range(n):
                        for j in range(n):
                            if not eqnum(o["solution"][i][j], ref[i][0][j]):
                                bad(f"{b}: dist[{i}][{j}]={o['solution'][i][j]} expected {ref[i][0][j]}")
                                break
                        else:
                            continue
                        break
    elif fn in ("bellman_ford", "dijkstra_edges"):
        s, t = case["source"], case["target"]
        dist, neg = ref_sssp(n, fedges, s)
        for b, o in trio:
            if neg:
                if (o["status"], o["solution"], o["objective"]) != ("UNBOUNDED", None, "-inf"):
                    bad(f"{b}: negative cycle reachable, expected UNBOUNDED/None/-inf, got {o['status']}/{o['solution']}/{o['objective']}")
            elif t is None:
                want = [[i, x] for i, x in enumerate(dist) if x < INF]
                got = o["solution"].get("dict") if isinstance(o["solution"], dict) else None
                if o["status"] != "OPTIMAL" or got is None or [k for k, _ in got] != [k for k, _ in want]:
                    bad(f"{b}: reachable set {got} expected {want} (status {o['status']})")
                elif any(not eqnum(x, y) for (_, x), (_, y) in zip(got, want)):
                    bad(f"{b}: distances {got} expected {want}")
                elif o["objective"] != 0:
                    bad(f"{b}: objective {o['objective']} expected 0")
            elif dist[t] == INF:
                if (o["status"], o["solution"], o["objective"]) != ("INFEASIBLE", None, "inf"):
                    bad(f"{b}: target unreachable, expected INFEASIBLE/None/inf, got {o['status']}/{o['solution']}/{o['objective']}")
            else:
                p = o["solution"]
                if o["status"] != "OPTIMAL" or not eqnum(o["objective"], dist[t]):
                    bad(f"{b}: {o['status']} objective {o['objective']} expected OPTIMAL {dist[t]}")
                elif not isinstance(p, list) or not p or p[0] != s or p[-1] != t:
                    bad(f"{b}: {p} is not a path {s}->{t}")
                else:
                    ws = walk_weights(p, edges)
                    if not any(eqnum(w, o["objective"]) for w in ws):
                        bad(f"{b}: path {p} has possible weights {sorted(ws)[:5]}, reported {o['objective']}")
    elif fn in ("bfs_edges", "dfs_edges"):
        s, t = case["source"], case["target"]
        seen = ref_reach(n, edges, s)
        level = ref_levels(n, edges, s)
        arcs = {(e[0], e[1]) for e in edges}
        want_found = "OPTIMAL" if fn == "bfs_edges" else "FEASIBLE"
        for b, o in trio:
            if t is None:
                if (o["status"], o["solution"], o["objective"]) != ("OPTIMAL", sorted(seen), 0):
                    bad(f"{b}: expected OPTIMAL/{sorted(seen)}/0 got {o['status']}/{o['solution']}/{o['objective']}")
            elif t not in seen:
                if (o["status"], o["solution"], o["objective"]) != ("INFEASIBLE", None, "inf"):
                    bad(f"{b}: target unreachable, expected INFEASIBLE/None/inf, got {o['status']}/{o['solution']}/{o['objective']}")
            else:
                p = o["solution"]
                ok = isinstance(p, list) and p and p[0] == s and p[-1] == t and len(set(p)) == len(p) and all((a, c) in arcs for a, c in zip(p, p[1:]))
                if not ok:
                    bad(f"{b}: {p} is not a simple path {s}->{t}")
                elif o["objective"] != len(p) - 1:
                    bad(f"{b}: objective {o['objective']} for path {p}")
                elif fn == "bfs_edges" and len(p) - 1 != level[t]:
                    bad(f"{b}: path {p} is not shortest ({level[t]} edges)")
                elif o["status"] != want_found:
                    bad(f"{b}: status {o['status']} expected {want_found}")
    elif fn == "kruskal":
        comps, weight = ref_msf(n, edges)
        for b, o in trio:
            if comps > 1 and not case["allow_forest"]:
                if (o["status"], o["solution"], o["objective"]) != ("INFEASIBLE", None, "inf"):
                    bad(f"{b}: disconnected, expected INFEASIBLE/None/inf, got {o['status']}/{o['solution']}/{o['objective']}")
                continue
            want = "OPTIMAL" if comps == 1 else "FEASIBLE"
            t = [tuple(num(x) for x in e) for e in (o["solution"] or [])]
            if o["status"] != want:
                bad(f"{b}: status {o['status']} expected {want}")
            elif not eqnum(o["objective"], weight):
                bad(f"{b}: total weight {o['objective']} expected {weight}")
            elif len(t) != n - comps or not is_forest_of(n, t, edges, exact):
                bad(f"{b}: {t} is not a spanning forest of the input")
            elif not close(sum(e[2] for e in t), o["objective"]):
                bad(f"{b}: edges {t} do not sum to the objective {o['objective']}")
    elif fn == "strongly_connected_components_edges":
        want = ref_scc(n, edges)
        for b, o in trio:
            sol = o["solution"]
            part = {frozenset(c) for c in sol} if isinstance(sol, list) else None
            if o["status"] != "OPTIMAL" or part != want or sum(len(c) for c in sol) != n:
                bad(f"{b}: components {sol} expected {sorted(map(sorted, want))}")
            elif o["objective"] != len(want):
                bad(f"{b}: objective {o['objective']} expected {len(want)}")
            else:
                pos = {v: i for i, c in enumerate(sol) for v in c}
                if any(pos[u] < pos[v] for u, v in edges):
                    bad(f"{b}: components {sol} are not in reverse topological order")
    elif fn == "topological_sort_edges":
        cyclic = any(len(c) > 1 for c in ref_scc(n, edges)) or any(u == v for u, v in edges)
        for b, o in trio:
            if cyclic:
                if (o["status"], o["solution"], o["objective"]) != ("INFEASIBLE", None, 0):
                    bad(f"{b}: cyclic graph, expected INFEASIBLE/None/0, got {o['status']}/{o['solution']}/{o['objective']}")
            else:
                sol = o["solution"]
                if o["status"] != "OPTIMAL" or not isinstance(sol, list) or sorted(sol) != list(range(n)):
                    bad(f"{b}: {o['status']} order {sol}")
                    continue
                pos = {v: i for i, v in enumerate(sol)}
                if any(pos[u] >= pos[v] for u, v in edges):
                    bad(f"{b}: order {sol} violates an edge")
                elif o["objective"] != n:
                    bad(f"{b}: objective {o['objective']} expected {n}")
    elif fn == "pagerank_edges" and n == 0:
        for b, o in trio:
            if (o["status"], o["solution"]) != ("OPTIMAL", {"dict": []}):
                bad(f"{b}: empty graph, expected OPTIMAL/{{}}, got {o['status']}/{o['solution']}")
    elif fn == "pagerank_edges":
        tol, mi = case["tol"], case["max_iter"]
        ex, exact_ref = pr_reference(n, edges, case["damping"], mi)
        eps = 1e-9
        scores = {}
        for b, o in trio:
            sol = o["solution"].get("dict") if isinstance(o["solution"], dict) else None
            if sol is None or [k for k, _ in sol] != list(range(n)):
                bad(f"{b}: keys {sol}")
                return probs
            scores[b] = [num(v) for _, v in sol]
            it = o["iterations"]
            if not (0 <= it <= mi) or (it == 0 and mi > 0):
                bad(f"{b}: iterations {it} outside 1..{mi}")
                return probs
            want = ex[it - 1][0] if it >= 1 else [1 / n] * n
            if any(abs(x - float(w)) > eps for x, w in zip(scores[b], want)):
                bad(f"{b}: scores {scores[b]} are not sweep {it} of the power iteration {[float(w) for w in want]}")
                return probs
        if D["status"] != R["status"] or any(abs(x - y) > 1e-12 for x, y in zip(scores["default"], scores["rust"])):
            bad(f"default ({D['status']}, {scores['default']}) differs from rust ({R['status']}, {scores['rust']})")
        # the stopping rule (max |delta| < tol) decides the status; not judged when the reference run is too close to the threshold
        first = next((k + 1 for k, (_, md) in enumerate(ex) if md < tol), None)
        rel = 1e-6 if exact_ref else 1e-3
        # the implementations iterate in binary64: a |delta| within ~1e-13 of tol (or of 0, for tol below the float resolution) cannot be
        # predicted by the reference run - then only "python and rust agree" is demanded
        margin_ok = all(abs(float(md) - tol) > tol * rel + 1e-13 for _, md in ex)
        ctx_margin = "safe" if margin_ok else "near-threshold"
        case["_pr_margin"] = ctx_margin
        if margin_ok:
            want_status = "OPTIMAL" if first is not None else "MAX_ITER"
            for b, o in trio:
                if o["status"] != want_status:
                    bad(f"{b}: status {o['status']} (after {o['iterations']} sweeps) expected {want_status}"
                        + (f" after {first}" if first else "") + f" by the max|delta| < tol rule; python={P['status']}/{P['iterations']} rust={R['status']}/{R['iterations']}")
                    break
        if P["status"] == R["status"] == "OPTIMAL" and any(abs(x - y) > max(1e-6, 10 * tol) for x, y in zip(scores["python"], scores["rust"])):
            bad(f"converged scores differ by more than the tolerance: py={scores['python']} rs={scores['rust']}")
        if P["status"] != R["status"] and not probs:
            near = max((abs(x - y) for x, y in zip(scores["python"], scores["rust"])), default=0) <= max(10 * tol, 1e-12)   # 1e-12: binary64 noise floor
            if not (near and not margin_ok):
                bad(f"status python={P['status']} rust={R['status']}")

    # ---- direct differential on what the property calls "identical"
    if fn in ("floyd_warshall", "bfs_edges", "dfs_edges", "strongly_connected_components_edges", "topological_sort_edges", "kruskal",
              "bellman_ford", "dijkstra_edges") and not probs:
        for b, o in (("rust", R), ("default", D)):
            # a DFS path is only required to be a valid path: its length (the objective) may differ between back-ends
            if fn == "dfs_edges" and case["target"] is not None:
                continue
            if not eqnum(o["objective"], P["objective"]):
                bad(f"objective {b}={o['objective']} python={P['objective']}")
    return probs


# ====================================================================== generators
def gen_wedges(rng, n, negative=False, loops=True, floats=False, maxm=None):
    def w():
        if negative and rng.random() < 0.25:
            return rng.choice([-3, -2, -1, -1]) if not floats else rng.choice([-3, -2, -1, -0.5])
        if floats and rng.random() < 0.35:
            return round(rng.uniform(0, 9), 2)
        return rng.randint(0, 9) if rng.random() < 0.8 else rng.randint(0, 2)

    edges = []
    m = rng.randint(0, maxm if maxm is not None else 2 * n + 2)
    for _ in range(m):
        u, v = rng.randrange(n), rng.randrange(n)
        if u == v and (not loops or rng.random() < 0.5):
            continue
        edges.append((u, v, w()))
        r = rng.random()
        if r < 0.2:
            edges.append((u, v, w()))      # duplicate arc, other weight
        elif r < 0.4:
            edges.append((v, u, w()))      # anti-parallel arc, other weight
    rng.shuffle(edges)
    return edges


def gen_edges(rng, n, loops=True):
    return [(u, v) for u, v, _ in gen_wedges(rng, n, loops=loops)]


def gen_dag(rng, n):
    perm = list(range(n))
    rng.shuffle(perm)
    edges = []
    if n > 1:
        for _ in range(rng.randint(0, 2 * n + 2)):
            a, b = sorted(rng.sample(range(n), 2))
            edges.append((perm[a], perm[b]))
            if rng.random() < 0.2:
                edges.append((perm[a], perm[b]))
    rng.shuffle(edges)
    return edges


def pick_n(rng, big=False):
    return rng.choice([1, 2, 2, 3, 3, 4, 4, 5, 5, 6, 7] + ([8, 10, 14] if big else []))


def gen_case(rng, fn, big=False):
    n = pick_n(rng, big)
    floats = rng.random() < 0.2
    if fn == "floyd_warshall":
        directed = rng.random() < 0.5
        neg = rng.random() < (0.55 if directed else 0.15)
        return {"fn": fn, "n": n, "edges": gen_wedges(rng, n, negative=neg, floats=floats), "directed": directed}
    if fn == "bellman_ford":
        edges = gen_wedges(rng, n, negative=rng.random() < 0.6, floats=floats)
        return {"fn": fn, "n": n, "edges": edges, "source": rng.randrange(n), "target": rng.choice([None, rng.randrange(n), rng.randrange(n)])}
    if fn == "dijkstra_edges":
        return {"fn": fn, "n": n, "edges": gen_wedges(rng, n, floats=floats), "source": rng.randrange(n),
                "target": rng.choice([None, rng.randrange(n), rng.randrange(n)])}
    if fn in ("bfs_edges", "dfs_edges"):
        return {"fn": fn, "n": n, "edges": gen_edges(rng, n), "source": rng.randrange(n), "target": rng.choice([None, rng.randrange(n), rng.randrange(n)])}
    if fn == "kruskal":
        edges = gen_wedges(rng, n, negative=rng.random() < 0.3, floats=floats)
        if rng.random() < 0.55 and n > 1:
            edges += [(i, rng.randrange(i), rng.randint(0, 9)) for i in range(1, n)]
            rng.shuffle(edges)
        return {"fn": fn, "n": n, "edges": edges, "allow_forest": rng.random() < 0.5}
    if fn == "pagerank_edges":
        mode = rng.random()
        if mode < 0.45:   # exact-model friendly: dyadic damping, few sweeps
            return {"fn": fn, "n": n, "edges": gen_edges(rng, n), "damping": rng.choice([0.5, 0.75, 0.875]), "max_iter": rng.choice([1, 2, 3, 5, 8, 12]),
                    "tol": rng.choice([1e-2, 1e-3, 1e-6])}
        if mode < 0.75:   # near max_iter: the status depends on the stopping rule
            return {"fn": fn, "n": n, "edges": gen_edges(rng, n), "damping": 0.85, "max_iter": rng.choice([3, 5, 8, 13, 21, 34]), "tol": 1e-6}
        return {"fn": fn, "n": n, "edges": gen_edges(rng, n), "damping": rng.choice([0.85, 0.5, 0.99]), "max_iter": 400 if rng.random() < 0.5 else 2000,
                "tol": 1e-12 if rng.random() < 0.6 else 1e-6}
    if fn == "strongly_connected_components_edges":
        return {"fn": fn, "n": n, "edges": gen_edges(rng, n)}
    if fn == "topological_sort_edges":
        return {"fn": fn, "n": n, "edges": gen_edges(rng, n, loops=rng.random() < 0.3) if rng.random() < 0.35 else gen_dag(rng, n)}
    raise KeyError(fn)


FIXED = [
    # witnesses of the four fixed adapter defects
    {"fn": "floyd_warshall", "n": 2, "edges": [(0, 1, 5), (1, 0, 2)], "directed": False},
    {"fn": "floyd_warshall", "n": 2, "edges": [(1, 0, 2), (0, 1, 5)], "directed": False},
    {"fn": "floyd_warshall", "n": 3, "edges": [(0, 1, 4), (0, 1, 1), (1, 2, 7), (2, 1, 3)], "directed": False},
    {"fn": "bfs_edges", "n": 4, "edges": [(0, 2), (0, 1), (2, 3)], "source": 0, "target": None},
    {"fn": "dfs_edges", "n": 4, "edges": [(0, 2), (0, 1), (2, 3)], "source": 0, "target": None},
    {"fn": "dfs_edges", "n": 3, "edges": [(0, 1), (1, 2)], "source": 0, "target": 2},
    {"fn": "bfs_edges", "n": 3, "edges": [(0, 1), (1, 2)], "source": 0, "target": 2},
    {"fn": "topological_sort_edges", "n": 3, "edges": [(0, 1), (2, 1)]},
    # edge cases of the quantifier
    {"fn": "floyd_warshall", "n": 1, "edges": [], "directed": True},
    {"fn": "floyd_warshall", "n": 1, "edges": [(0, 0, -1)], "directed": True},
    {"fn": "floyd_warshall", "n": 2, "edges": [(0, 1, -1)], "directed": False},
    {"fn": "floyd_warshall", "n": 3, "edges": [(0, 1, 1), (1, 2, -1), (2, 0, -1)], "directed": True},
    {"fn": "bellman_ford", "n": 3, "edges": [(0, 1, 1), (1, 2, 1), (2, 0, -3)], "source": 0, "target": None},
    {"fn": "bellman_ford", "n": 4, "edges": [(1, 2, -1), (2, 1, -1), (0, 3, 2)], "source": 0, "target": 3},
    {"fn": "bellman_ford", "n": 1, "edges": [(0, 0, 0)], "source": 0, "target": 0},
    {"fn": "dijkstra_edges", "n": 3, "edges": [(0, 1, 0), (1, 2, 0), (0, 2, 0)], "source": 0, "target": 2},
    {"fn": "dijkstra_edges", "n": 2, "edges": [], "source": 1, "target": 0},
    {"fn": "kruskal", "n": 1, "edges": [(0, 0, 3)], "allow_forest": False},
    {"fn": "kruskal", "n": 3, "edges": [(0, 1, 1)], "allow_forest": True},
    {"fn": "kruskal", "n": 3, "edges": [(0, 1, 2), (1, 0, 2), (1, 2, 2), (2, 0, 2)], "allow_forest": False},
    {"fn": "pagerank_edges", "n": 3, "edges": [(1, 2), (2, 0), (2, 0), (2, 1)], "damping": 0.85, "max_iter": 13, "tol": 1e-6},
    {"fn": "pagerank_edges", "n": 3, "edges": [(0, 1), (1, 2), (2, 0), (0, 2)], "damping": 0.85, "max_iter": 100, "tol": 1e-6},
    {"fn": "pagerank_edges", "n": 1, "edges": [(0, 0)], "damping": 0.5, "max_iter": 3, "tol": 1e-6},
    {"fn": "strongly_connected_components_edges", "n": 4, "edges": [(0, 1), (1, 2), (2, 0), (2, 3)]},
    {"fn": "topological_sort_edges", "n": 3, "edges": [(0, 1), (1, 2), (2, 0)]},
    {"fn": "topological_sort_edges", "n": 4, "edges": [(3, 1), (2, 1), (0, 2), (0, 3)]},
]



# ====================================================================== round-2 families (HARDENING.md)
# M magnitudes, O option corners / sweeps, H rare histories (named shapes), L fresh large int labels, I containers,
# S medium sizes - all in the ordinary case format, so the same oracle (and, where small, the Coq models) judge them.
BIGS_EXACT = [2 ** 31, 10 ** 9, 2 ** 44 + 1, 2 ** 40, 2 ** 48 - 1, 3 * 10 ** 12]        # n * w stays below 2^53
BIGS_ROUNDED = [2 ** 53 - 1, 2 ** 53 + 1, 2 ** 60, 10 ** 18, 10 ** 18 + 1, 2 ** 62 + 2 ** 9]  # binary64 rounds: tolerance applies


def gen_magnitude(rng, fn):
    """weighted functions with weights far from the comfort zone (ints and integer-valued floats; mixing huge and tiny)"""
    base = gen_case(rng, fn)
    mode = rng.choice(["scale", "offset", "mix", "rounded", "tiny-float"])
    es = []
    for u, v, w in base["edges"]:
        if mode == "scale":
            w2 = w * 2 ** 40 if isinstance(w, int) else w
        elif mode == "offset":
            w2 = (rng.choice(BIGS_EXACT) + w) if isinstance(w, int) and w >= 0 else w
        elif mode == "mix":
            w2 = rng.choice(BIGS_EXACT + [0, 1, 2]) if isinstance(w, int) and w >= 0 else w
        elif mode == "rounded":
            w2 = rng.choice(BIGS_ROUNDED + [1, 2 ** 52]) if isinstance(w, int) and w >= 0 else w
        else:
            w2 = rng.choice([0.1, 0.2, 0.3, 0.30000000000000004, 0.1 + 0.2, 1e-12, 1e-9, 1.0 + 1e-12, 1.0, 0.7 - 0.1 - 0.6]) if isinstance(w, int) and w >= 0 else w
            w2 = abs(w2)
        if isinstance(w2, int) and rng.random() < 0.25:
            w2 = float(w2)                  # integer-valued float
        es.append((u, v, w2))
    base["edges"] = es
    base["_family"] = "M-" + mode
    return base


def gen_option_corner(rng, fn):
    """every option at its corners: n = 1 (and 0 where the Python side accepts it), target = source, no edges, only self loops,
    pagerank max_iter / tol / damping sweeps"""
    if fn == "pagerank_edges":
        n = rng.choice([0, 1, 2, 3, 4, 5])
        edges = gen_edges(rng, n) if n else []
        c = {"fn": fn, "n": n, "edges": edges, "damping": rng.choice([0.0, 0, 1, 0.5, 0.85, 0.84, 0.86, 0.99, 1.0]),
             "max_iter": rng.choice([0, 1, 2, 3, 99, 100, 101] + list(range(1, 41))), "tol": rng.choice([0.0, 0, 1, 1e-300, 1e-12, 1e-6, 1e-6, 1e-2, 1.0, 10.0, -1.0])}
    elif fn in ("strongly_connected_components_edges", "topological_sort_edges"):
        n = rng.choice([0, 1, 1, 2])
        c = {"fn": fn, "n": n, "edges": [(rng.randrange(n), rng.randrange(n)) for _ in range(rng.randint(0, 3))] if n else []}
    else:
        c = gen_case(rng, fn)
        shape = rng.choice(["n1", "noedges", "selfloops", "t=s", "t=s-cycle"])
        three = len(c["edges"][0]) == 3 if c["edges"] else fn in ("floyd_warshall", "bellman_ford", "dijkstra_edges", "kruskal")
        if shape == "n1":
            c["n"] = 1
            c["edges"] = [((0, 0, rng.randint(0, 3)) if three else (0, 0)) for _ in range(rng.randint(0, 2))]
            if "source" in c:
                c["source"], c["target"] = 0, rng.choice([None, 0])
        elif shape == "noedges":
            c["edges"] = []
        elif shape == "selfloops":
            c["edges"] = [((v, v, rng.randint(0, 4)) if three else (v, v)) for v in range(c["n"]) if rng.random() < 0.7]
        elif "source" in c:
            c["target"] = c["source"]
    c["_family"] = "O"
    return c


def sweep_pagerank(rng):
    """one instance, max_iter = 0..40: the status must flip at the same sweep under both back-ends"""
    n = rng.randint(2, 6)
    edges = gen_edges(rng, n)
    d, tol = rng.choice([0.85, 0.5, 0.9]), rng.choice([1e-6, 1e-4, 1e-3])
    return [{"fn": "pagerank_edges", "n": n, "edges": edges, "damping": d, "max_iter": k, "tol": tol, "_family": "O-sweep"} for k in range(0, 41)]


def shape_edges(rng, n, shape):
    """unweighted named shapes -> list of (u, v)"""
    if shape == "chain":
        return [(i, i + 1) for i in range(n - 1)]
    if shape == "chain-rev-listed":
        return [(i, i + 1) for i in range(n - 2, -1, -1)]
    if shape == "cycle":
        return [(i, (i + 1) % n) for i in range(n)]
    if shape == "star-out":
        return [(0, i) for i in range(1, n)]
    if shape == "star-in":
        return [(i, 0) for i in range(1, n)]
    if shape == "ladder":        # diamonds: many nodes pushed several times by a pop-marking DFS
        e = []
        for i in range(0, n - 2, 2):
            e += [(i, i + 1), (i, i + 2), (i + 1, i + 2)]
        return e
    if shape == "fan":           # i -> every j > i, listed far to near; last node hangs off node 0 only and is listed first
        e = [(0, n - 1)]
        for i in range(n - 1):
            e += [(i, j) for j in range(n - 2, i, -1)]
        return e
    if shape == "complete":
        return [(i, j) for i in range(n) for j in range(n) if i != j]
    if shape == "two-cycles":
        h = max(1, n // 2)
        return [(i, (i + 1) % h) for i in range(h)] + [(h + i, h + (i + 1) % (n - h)) for i in range(n - h)] + ([(0, h)] if n > h else [])
    if shape == "bidirected-tree":
        e = []
        for i in range(1, n):
            p = rng.randrange(i)
            e += [(p, i), (i, p)]
        return e
    if shape == "parallel":
        return [(0, n - 1)] * rng.randint(3, 9) + [(n - 1, 0)] * rng.randint(0, 3)
    raise KeyError(shape)


SHAPES = ["chain", "chain-rev-listed", "cycle", "star-out", "star-in", "ladder", "fan", "complete", "two-cycles", "bidirected-tree", "parallel"]


def gen_history(rng, fn, n=None, shape=None):
    """named shapes that force rare internal histories: Bellman-Ford needing all n-1 rounds (chain listed backwards), negative cycle
    closed by the last edge, Dijkstra with many decrease-keys / stale heap entries, zero-weight cycles, DFS nodes stacked several times,
    union-find trees of height >= 3 with later finds through them, Kahn with all / one source, dangling-only PageRank"""
    n = n or rng.choice([2, 3, 4, 5, 6, 8, 9, 12, 16])
    shape = shape or rng.choice(SHAPES)
    pairs = shape_edges(rng, n, shape)
    if rng.random() < 0.3:
        rng.shuffle(pairs)
    weighted = fn in ("floyd_warshall", "bellman_ford", "dijkstra_edges", "kruskal")
    c = {"fn": fn, "n": n, "_family": "H-" + shape}
    if weighted:
        wm = rng.choice(["unit", "zero", "dist", "decreasing", "negchain", "negcycle-last", "ties"])
        if fn == "dijkstra_edges" and wm.startswith("neg"):
            wm = "decreasing"
        es = []
        for k, (u, v) in enumerate(pairs):
            if wm == "unit":
                w = 1
            elif wm == "zero":
                w = 0
            elif wm == "dist":
                w = abs(u - v)
            elif wm == "decreasing":      # long hops are expensive: every relaxation improves a little (decrease-key chains)
                w = (abs(u - v)) ** 2 + 1
            elif wm == "negchain":
                w = -1 if v == u + 1 else 3
            elif wm == "negcycle-last":
                w = 1
            else:
                w = rng.randint(1, 2)
            es.append((u, v, w))
        if wm == "negcycle-last" and es:
            u, v, _ = es[-1]
            es.append((v, u, -(len(es) + 1)))      # closes a negative cycle, listed last
        if fn == "kruskal" and rng.random() < 0.6:      # balanced merges: union-find trees of height log2(n), then edges between deep nodes
            es = []
            step, lvl = 1, 1
            while step < n:
                for a in range(0, n - step, 2 * step):
                    es.append((a + step, a, lvl) if rng.random() < 0.5 else (a, a + step, lvl))
                step *= 2
                lvl += 1
            es += [(rng.randrange(n), rng.randrange(n), lvl + rng.randint(0, 2)) for _ in range(n)]
            c["_family"] = "H-balanced-merge"
        c["edges"] = es
    else:
        c["edges"] = pairs
    if fn == "floyd_warshall":
        c["directed"] = rng.random() < 0.6
    if fn in ("bellman_ford", "dijkstra_edges", "bfs_edges", "dfs_edges"):
        c["source"] = rng.choice([0, 0, rng.randrange(n)])
        c["target"] = rng.choice([None, n - 1, n - 1, rng.randrange(n)])
    if fn == "kruskal":
        c["allow_forest"] = rng.random() < 0.5
    if fn == "pagerank_edges":
        c.update({"damping": rng.choice([0.85, 0.5]), "max_iter": rng.choice([5, 20, 100]), "tol": 1e-6})
    return c


def gen_labels(rng, fn):
    """class L for int-indexed APIs: node ids >= 257 (not interned: equal but not identical objects on every occurrence) in a graph of
    300..420 nodes whose interesting part lives among the high ids"""
    n = rng.randint(300, 420)
    k = rng.randint(3, 7)
    hi = rng.sample(range(257, n), k)
    small = gen_case(rng, fn)
    while small["n"] > k:
        small = gen_case(rng, fn)
    m = {i: hi[i] for i in range(small["n"])}
    c = dict(small, n=n, edges=[(m[e[0]], m[e[1]], *e[2:]) for e in small["edges"]], _family="L")
    for key in ("source", "target"):
        if c.get(key) is not None:
            c[key] = m[c[key]]
    if fn == "kruskal":
        c["allow_forest"] = True
    if fn == "pagerank_edges":
        c["max_iter"] = min(c["max_iter"], 60)
    return c


def gen_sized(rng, fn, big=False):
    """class S, medium: sizes around 17 / 33 / 65 / 129 / 257 (union-find trees, heaps and queues of real depth), random sparse graphs
    and named shapes; 801 / 1025 / 2049 for the linear-time functions in the thorough tier"""
    sizes = [17, 33, 65] if fn == "floyd_warshall" else [17, 33, 65, 129, 257]
    if big and fn not in ("floyd_warshall", "strongly_connected_components_edges", "pagerank_edges"):
        sizes += [801, 1025] + ([2049] if fn != "bellman_ford" else [])      # bellman_ford and its oracle are O(n * m)
    n = rng.choice(sizes) + rng.choice([-1, 0, 1])
    if rng.random() < 0.5:
        dense_ok = n <= 66 and not (fn == "bellman_ford" and n > 34)
        shape = rng.choice([s_ for s_ in SHAPES if s_ not in ("complete", "fan") or dense_ok])
        c = gen_history(rng, fn, n, shape)
        c["_family"] = "S-" + c["_family"]
        return c
    c = {"fn": fn, "n": n, "_family": "S-random"}
    m = rng.randint(n // 2, 3 * n)
    weighted = fn in ("floyd_warshall", "bellman_ford", "dijkstra_edges", "kruskal")
    neg = fn in ("floyd_warshall", "bellman_ford") and rng.random() < 0.3
    es = []
    for _ in range(m):
        u, v = rng.randrange(n), rng.randrange(n)
        if weighted:
            es.append((u, v, rng.randint(-1 if neg else 0, 20)))
        else:
            es.append((u, v))
    if fn == "topological_sort_edges" and rng.random() < 0.7:
        perm = list(range(n))
        rng.shuffle(perm)
        es = [(perm[min(a, b)], perm[max(a, b)]) for a, b in es if a != b]
    if fn == "kruskal" and rng.random() < 0.6:
        es += [(i, rng.randrange(i), rng.randint(0, 20)) for i in range(1, n)]
        rng.shuffle(es)
    c["edges"] = es
    if fn == "floyd_warshall":
        c["directed"] = rng.random() < 0.5
    if fn in ("bellman_ford", "dijkstra_edges", "bfs_edges", "dfs_edges"):
        c["source"] = rng.randrange(n)
        c["target"] = rng.choice([None, rng.randrange(n)])
    if fn == "kruskal":
        c["allow_forest"] = rng.random() < 0.5
    if fn == "pagerank_edges":
        c.update({"damping": 0.85, "max_iter": rng.choice([10, 50, 100]), "tol": 1e-6})
    return c


def gen_container(rng, fn):
    """class I: the edge list as a tuple (any Sequence of tuples is accepted by both back-ends; it also cannot be modified in place)"""
    c = gen_case(rng, fn)
    c["container"] = "tuple"
    c["_family"] = "I-tuple"
    return c


def hardening_cases(rng, quick_n, big=False):
    out = []
    weighted = ["floyd_warshall", "bellman_ford", "dijkstra_edges", "kruskal"]
    for fn in FNS:
        k = quick_n
        if fn in weighted:
            out += [gen_magnitude(rng, fn) for _ in range(2 * k)]
        out += [gen_option_corner(rng, fn) for _ in range(k)]
        out += [gen_history(rng, fn) for _ in range(2 * k)]
        out += [gen_labels(rng, fn) for _ in range(max(2, k // 3))] if fn != "floyd_warshall" else []
        out += [gen_sized(rng, fn, big) for _ in range(max(3, k // 2))]
        out += [gen_container(rng, fn) for _ in range(max(2, k // 3))]
    for _ in range(2 if not big else 8):
        out += sweep_pagerank(rng)
    work = [gen_pagerank_work(rng, big) for _ in range(6 if not big else 30)]
    for k, mi in enumerate([4097, 10001]):            # both thresholds on every run
        work[k]["max_iter"] = mi
    out += work
    return out





def gen_pagerank_work(rng, thorough=False):
    """class W for the power iteration: slowly mixing chains (damping close to 1, nearly periodic graph) with tol so small that the sweep loop
    runs max_iter = 129 / 1025 / 2049 / 4097 / 10001 (100001 thorough) times; the scores at sweep k still move, so a silent cap on the number of
    sweeps changes the answer (judged against the independent reference iteration at the reported sweep count, tolerance 1e-9)"""
    n = rng.choice([3, 5, 7, 9])        # odd: the uniform start has a component along the oscillating eigenvector
    # two-way path: bipartite, so the chain has the eigenvalue -1 and the uniform start is not stationary (the end nodes have one neighbour):
    # the scores oscillate with amplitude damping^k - still visible after 10^4 sweeps for damping = 0.9999
    edges = [(i, i + 1) for i in range(n - 1)] + [(i + 1, i) for i in range(n - 1)]
    mi = rng.choice([129, 1025, 2049, 4097, 10001] + ([100001] if thorough else []))
    return {"fn": "pagerank_edges", "n": n, "edges": edges, "damping": rng.choice([0.9999, 0.99999]), "max_iter": mi,
            "tol": rng.choice([0.0, 1e-300, 1e-15]), "_family": "W-pagerank-sweeps"}


# ---------------------------------------------------------------- class X: float extremes
XPOOL_POS = [2.0 ** 60, 1e308, 1.7e308, 1e-308, 5e-324, 0.0, -0.0, 33, 33.0, 1e-3, 1.0, float("inf")]
XPOOL_NEG = [-(2.0 ** 60), -1e308, -1e-3, -1.0, float("-inf")]


def gen_extreme(rng, fn):
    """weights: huge values that cancel (2^60, -2^60, then tiny), values near 1e308 whose sums overflow, denormals, +-0.0, inf, NaN,
    33 vs 33.0; PageRank: damping / tol as ints, inf, NaN.  Judged differentially (python = rust = default, NaN == NaN, 1e-9 relative)."""
    if fn == "pagerank_edges":
        n = rng.randint(1, 4)
        return {"fn": fn, "n": n, "edges": gen_edges(rng, n), "damping": rng.choice([0, 1, 0.85, 0.5, float("nan"), 1e-308, 5e-324, -0.0, 1 - 1e-16]),      # |damping| > 1 amplifies rounding: not comparable
                "max_iter": rng.choice([1, 3, 7, 30]), "tol": rng.choice([0, 1, 1e-6, float("inf"), float("nan"), 5e-324, -0.0, 1e308]), "_family": "X"}
    n = rng.randint(2, 5)
    neg_ok = fn in ("floyd_warshall", "bellman_ford")
    nan_ok = rng.random() < 0.25
    pool = XPOOL_POS + (XPOOL_NEG if neg_ok else []) + ([float("nan")] if nan_ok else [])
    es = []
    for _ in range(rng.randint(1, 2 * n + 1)):
        u, v = rng.randrange(n), rng.randrange(n)
        es.append((u, v, rng.choice(pool) if rng.random() < 0.8 else rng.randint(0, 5)))
    if neg_ok and rng.random() < 0.4 and n >= 4:      # the cancelling chain of the class description
        es = [(0, 1, 2.0 ** 60), (1, 2, -(2.0 ** 60)), (2, 3, rng.choice([1e-3, 5e-324, 1.0])), (0, 3, rng.choice([0.5, 1e-3, 2.0]))] + es[:2]
        rng.shuffle(es)
    c = {"fn": fn, "n": n, "edges": es, "_family": "X", "_timeout": 1.5}
    if fn == "floyd_warshall":
        c["directed"] = rng.random() < 0.6
    if fn in ("bellman_ford", "dijkstra_edges"):
        c["source"], c["target"] = rng.randrange(n), rng.choice([None, rng.randrange(n)])
    if fn == "kruskal":
        c["allow_forest"] = rng.random() < 0.5
    return c


def _xeq(a, b):
    """structural equality of canonical observables: NaN == NaN, numbers within 1e-9 relative, -0.0 == 0.0"""
    if isinstance(a, dict) and isinstance(b, dict):
        return a.keys() == b.keys() and all(_xeq(a[k], b[k]) for k in a)
    if isinstance(a, list) and isinstance(b, list):
        return len(a) == len(b) and all(_xeq(x, y) for x, y in zip(a, b))
    if a == "nan" or b == "nan":
        return a == b
    if isinstance(a, (int, float, str)) and isinstance(b, (int, float, str)) and not isinstance(a, bool) and not isinstance(b, bool):
        if a in ("inf", "-inf") or b in ("inf", "-inf") or isinstance(a, str) or isinstance(b, str):
            return a == b
        return close(a, b)
    return a == b


def outside_policy(case):
    """coordinator's POLICY_X (a)-(c): NaN / +-inf as a value or option, finite floats >= 1e300 (sums overflow), and - for these float-valued
    APIs - magnitudes whose exact sums do not fit in 2^53: OUTSIDE the property, observed only"""
    vals = [e[2] for e in case["edges"] if len(e) == 3] + [case[k] for k in ("damping", "tol") if k in case]
    for v in vals:
        if isinstance(v, float) and (v != v or v in (INF, -INF)):
            return True
        if abs(v) >= 1e300:
            return True
    return sum(abs(v) for v in vals if v == v) >= 2.0 ** 53


def judge_extreme(case, outs):
    """-> list of ('viol', message); only called for cases inside the policy (finite, well-scaled: -0.0, denormals, 33 vs 33.0, ints for floats)"""
    msgs = []
    for b, o in outs.items():
        if o[0] == "hang" or (o[0] == "exc" and o[1] == "Crash"):
            return [("viol", f"{call_str(case)}: backend={b} {o}")]
    kinds = {b: (o[0], o[1] if o[0] == "exc" else None) for b, o in outs.items()}
    if any(k[0] == "exc" for k in kinds.values()):
        # the call may raise - but then under every back-end
        if not all(k[0] == "exc" for k in kinds.values()):
            msgs.append(("viol", f"{call_str(case)}: raises under some back-ends only: " + ", ".join(f"{b}: {o[0]} {o[1] if o[0] == 'exc' else o[1]['status']}" for b, o in outs.items())))
        return msgs
    P, R, D = outs["python"][1], outs["rust"][1], outs["default"][1]
    fn = case["fn"]

    def view(o):
        if fn == "pagerank_edges":
            return (o["status"], o["solution"])
        if fn in ("bellman_ford", "dijkstra_edges") and case.get("target") is not None:
            return (o["status"], o["objective"])          # equal-cost paths may differ
        if fn == "kruskal":
            return (o["status"], o["objective"], None if o["solution"] is None else len(o["solution"]))
        return (o["status"], o["solution"], o["objective"])
    if not _xeq(list(view(D)), list(view(R))):
        msgs.append(("viol", f"{call_str(case)}: default {view(D)} differs from rust {view(R)}"))
    if not _xeq(list(view(P)), list(view(R))):
        msgs.append(("viol", f"{call_str(case)}: python {view(P)} vs rust {view(R)}"))
    return msgs


# ====================================================================== class H: rare internal histories (event-directed top-up)
# Instrumented reference ports of the nine algorithms (written here, independent of both back-ends) report which rare internal events
# a case triggers; the generator is topped up until every event has been seen a few times in the run.
EVENTS = {
    "bellman_ford": ["bf:all-rounds", "bf:early-exit", "bf:neg-cycle", "bf:neg-edge-no-cycle", "bf:relax-overwrites-parent", "bf:zero-cycle"],
    "floyd_warshall": ["fw:neg-self-loop", "fw:neg-cycle-len>=2", "fw:undirected-antiparallel-min", "fw:improve-via-k", "fw:unreachable-pair"],
    "dijkstra_edges": ["dij:stale-pop", "dij:decrease-key>=3", "dij:zero-edge", "dij:target-unreachable", "dij:equal-cost-ties"],
    "bfs_edges": ["bfs:multi-parent-choice", "bfs:target-at-depth>=3", "bfs:self-loop", "bfs:unreachable"],
    "dfs_edges": ["dfs:multi-push", "dfs:push-vs-pop-marking-differ", "dfs:path-longer-than-shortest", "dfs:unreachable"],
    "kruskal": ["kr:early-break", "kr:rejected-edge", "kr:uf-height>=3", "kr:equal-rank-union", "kr:weight-ties", "kr:forest"],
    "pagerank_edges": ["pr:dangling", "pr:no-dangling", "pr:converges-at-max_iter", "pr:parallel-edges", "pr:self-loop"],
    "strongly_connected_components_edges": ["scc:nested-cycles", "scc:cross-edge-to-finished", "scc:lowlink-via-on-stack", "scc:singleton-self-loop"],
    "topological_sort_edges": ["topo:queue>=3", "topo:orders-differ-fifo-lifo", "topo:cycle-behind-dag-prefix", "topo:parallel-edges"],
}


def events(case):
    fn, n = case["fn"], case["n"]
    E = [tuple(e) for e in case["edges"]]
    ev = set()
    if n == 0 or n > 40 or len(E) > 200:
        return ev
    adj = {}
    for e in E:
        adj.setdefault(e[0], []).append(e[1:] if len(e) == 3 else e[1])
    if fn == "bellman_ford":
        s = case["source"]
        d = [INF] * n
        par = [None] * n
        d[s] = 0
        rounds = 0
        for _ in range(n - 1):
            upd = False
            rounds += 1
            for u, v, w in E:
                if d[u] < INF and d[u] + w < d[v]:
                    if par[v] is not None:
                        ev.add("bf:relax-overwrites-parent")
                    d[v], par[v], upd = d[u] + w, u, True
            if not upd:
                ev.add("bf:early-exit")
                break
        else:
            if n > 2:
                ev.add("bf:all-rounds")
        neg = any(d[u] < INF and d[u] + w < d[v] for u, v, w in E)
        if neg:
            ev.add("bf:neg-cycle")
        elif any(w < 0 and d[u] < INF for u, v, w in E):
            ev.add("bf:neg-edge-no-cycle")
        if not neg and any(d[u] < INF and d[u] + w == d[v] and par[v] != u and v != u and d[v] == d[u] for u, v, w in E if w == 0):
            ev.add("bf:zero-cycle")
    elif fn == "floyd_warshall":
        if any(u == v and w < 0 for u, v, w in E):
            ev.add("fw:neg-self-loop")
        arcs = E if case["directed"] else E + [(v, u, w) for u, v, w in E]
        D = [[0 if i == j else INF for j in range(n)] for i in range(n)]
        for u, v, w in arcs:
            D[u][v] = min(D[u][v], w)
        if not case["directed"] and any(any(a == v and b == u and c != w for a, b, c in E) for u, v, w in E if u != v):
            ev.add("fw:undirected-antiparallel-min")
        for k in range(n):
            for i in range(n):
                for j in range(n):
                    if D[i][k] + D[k][j] < D[i][j]:
                        D[i][j] = D[i][k] + D[k][j]
                        if i != j:
                            ev.add("fw:improve-via-k")
        if any(D[i][i] < 0 for i in range(n)) and not any(u == v and w < 0 for u, v, w in E):
            ev.add("fw:neg-cycle-len>=2")
        if any(D[i][j] == INF for i in range(n) for j in range(n)):
            ev.add("fw:unreachable-pair")
    elif fn == "dijkstra_edges":
        import heapq

        s = case["source"]
        d = {s: 0}
        dec = {}
        h = [(0, s)]
        done = set()
        while h:
            c, u = heapq.heappop(h)
            if u in done:
                ev.add("dij:stale-pop")
                continue
            done.add(u)
            if any(c2 == c and u2 not in done for c2, u2 in h):
                ev.add("dij:equal-cost-ties")
            for v, w in adj.get(u, ()):
                if w == 0:
                    ev.add("dij:zero-edge")
                if v not in done and c + w < d.get(v, INF):
                    if v in d:
                        dec[v] = dec.get(v, 0) + 1
                        if dec[v] >= 3:
                            ev.add("dij:decrease-key>=3")
                    d[v] = c + w
                    heapq.heappush(h, (c + w, v))
        if case["target"] is not None and case["target"] not in d:
            ev.add("dij:target-unreachable")
    elif fn in ("bfs_edges", "dfs_edges"):
        s, t = case["source"], case["target"]
        lev = ref_levels(n, E, s)
        if fn == "bfs_edges":
            if any(u == v for u, v in E):
                ev.add("bfs:self-loop")
            if t is not None and t not in lev:
                ev.add("bfs:unreachable")
            if t is not None and lev.get(t, 0) >= 3:
                ev.add("bfs:target-at-depth>=3")
            if any(sum(1 for u, v in set(E) if v == x and lev.get(u) == lev[x] - 1) >= 2 for x in lev if x != s):
                ev.add("bfs:multi-parent-choice")
        else:
            if t is not None and t not in lev:
                ev.add("dfs:unreachable")
            # pop-marking DFS (rust) vs push-marking DFS (python): visit orders
            def order(pop_marking):
                seen, out, st = set() if pop_marking else {s}, [], [s]
                pushes = {}
                while st:
                    x = st.pop()
                    if pop_marking:
                        if x in seen:
                            continue
                        seen.add(x)
                    out.append(x)
                    ns = adj.get(x, [])
                    for y in (reversed(ns) if pop_marking else ns):
                        if y not in seen:
                            if not pop_marking:
                                seen.add(y)
                            pushes[y] = pushes.get(y, 0) + 1
                            st.append(y)
                return out, pushes
            o1, p1 = order(True)
            o2, _ = order(False)
            if any(v >= 2 for v in p1.values()):
                ev.add("dfs:multi-push")
            if o1 != o2:
                ev.add("dfs:push-vs-pop-marking-differ")
            if t is not None and t in lev and lev[t] >= 1 and len(o1) > lev[t] + 1 and t in o1 and o1.index(t) > lev[t]:
                ev.add("dfs:path-longer-than-shortest")
    elif fn == "kruskal":
        par = list(range(n))
        rank = [0] * n

        def find(x):
            while par[x] != x:
                x = par[x]
            return x

        def height(x):
            h = 0
            while par[x] != x:
                x, h = par[x], h + 1
            return h
        k = 0
        srt = sorted(E, key=lambda e: e[2])
        if len({e[2] for e in E}) < len(E):
            ev.add("kr:weight-ties")
        for i, (u, v, w) in enumerate(srt):
            a, b = find(u), find(v)
            if a == b:
                ev.add("kr:rejected-edge")
                continue
            if rank[a] == rank[b]:
                ev.add("kr:equal-rank-union")
                rank[a] += 1
                par[b] = a
            elif rank[a] < rank[b]:
                par[a] = b
            else:
                par[b] = a
            k += 1
            if max(height(x) for x in range(n)) >= 3:
                ev.add("kr:uf-height>=3")
            if k == n - 1:
                if i < len(srt) - 1:
                    ev.add("kr:early-break")
                break
        if k < n - 1:
            ev.add("kr:forest")
    elif fn == "pagerank_edges":
        outd = [0] * n
        for u, v in E:
            outd[u] += 1
        ev.add("pr:dangling" if any(x == 0 for x in outd) else "pr:no-dangling")
        if len(set(E)) < len(E):
            ev.add("pr:parallel-edges")
        if any(u == v for u, v in E):
            ev.add("pr:self-loop")
        if 1 <= case["max_iter"] <= 40 and Fraction(case["damping"]).denominator <= 2 ** 20:
            ex, _ = pr_reference(n, E, case["damping"], case["max_iter"])
            first = next((k + 1 for k, (_, md) in enumerate(ex) if md < case["tol"]), None)
            if first == case["max_iter"]:
                ev.add("pr:converges-at-max_iter")
    elif fn == "strongly_connected_components_edges":
        comps = ref_scc(n, E)
        if any(u == v and frozenset([u]) in comps for u, v in E):
            ev.add("scc:singleton-self-loop")
        comp_of = {v: c for c in comps for v in c}
        if any(len(c) >= 4 and sum(1 for u, v in set(E) if u in c and v in c and u != v) >= len(c) + 2 for c in comps):
            ev.add("scc:nested-cycles")
        # Tarjan replay for cross / on-stack edges
        idx, low, st, on, cnt = {}, {}, [], set(), [0]

        def sc(v):
            idx[v] = low[v] = cnt[0]
            cnt[0] += 1
            st.append(v)
            on.add(v)
            for w in adj.get(v, ()):
                if w not in idx:
                    sc(w)
                    low[v] = min(low[v], low[w])
                elif w in on:
                    if w != v and idx[w] < low[v]:
                        ev.add("scc:lowlink-via-on-stack")
                    low[v] = min(low[v], idx[w])
                else:
                    ev.add("scc:cross-edge-to-finished")
            if low[v] == idx[v]:
                while True:
                    w = st.pop()
                    on.discard(w)
                    if w == v:
                        break
        for v in range(n):
            if v not in idx:
                sc(v)
        del comp_of
    elif fn == "topological_sort_edges":
        if len(set(E)) < len(E):
            ev.add("topo:parallel-edges")

        def kahn(lifo):
            deg = [0] * n
            for u, v in E:
                deg[v] += 1
            q = [v for v in range(n) if deg[v] == 0]
            out, mx = [], len(q)
            while q:
                u = q.pop() if lifo else q.pop(0)
                out.append(u)
                for v in adj.get(u, ()):
                    deg[v] -= 1
                    if deg[v] == 0:
                        q.append(v)
                mx = max(mx, len(q))
            return out, mx
        a, mx = kahn(False)
        b, _ = kahn(True)
        if mx >= 3:
            ev.add("topo:queue>=3")
        if len(a) == n and a != b:
            ev.add("topo:orders-differ-fifo-lifo")
        if 0 < len(a) < n and len(a) >= 2:
            ev.add("topo:cycle-behind-dag-prefix")
    return ev


def event_topup(rng, cases, want=4, tries=600):
    """-> (extra cases, coverage counter).  For every event seen fewer than `want` times, draw candidates from all generators of that function
    (mutating the best ones: add / drop / reweight an edge) and keep those that trigger the missing event."""
    cov = {}
    for c in cases:
        for e in events(c):
            cov[e] = cov.get(e, 0) + 1
    extra = []
    for fn, evs in EVENTS.items():
        missing = [e for e in evs if cov.get(e, 0) < want]
        pool = []
        t = 0
        while missing and t < tries:
            t += 1
            r = rng.random()
            if pool and r < 0.4:
                c = mutate_case(rng, rng.choice(pool))
            elif r < 0.7:
                c = gen_history(rng, fn)
            elif r < 0.85:
                c = gen_option_corner(rng, fn) if fn == "pagerank_edges" else gen_case(rng, fn, True)
            else:
                c = gen_case(rng, fn)
            es = events(c)
            hit = [e for e in missing if e in es]
            if hit:
                c["_family"] = "H-event:" + hit[0]
                extra.append(c)
                pool.append(c)
                for e in es:
                    cov[e] = cov.get(e, 0) + 1
                missing = [e for e in evs if cov.get(e, 0) < want]
            elif es and rng.random() < 0.1:
                pool.append(c)
                pool = pool[-30:]
    return extra, cov


def mutate_case(rng, case):
    c = {k: (list(v) if k == "edges" else v) for k, v in case.items()}
    n = c["n"]
    E = c["edges"]
    three = bool(E) and len(E[0]) == 3
    r = rng.random()
    if n == 0:
        return c
    if r < 0.4 or not E:
        u, v = rng.randrange(n), rng.randrange(n)
        w = rng.randint(-2 if c["fn"] in ("floyd_warshall", "bellman_ford") else 0, 6)
        E.insert(rng.randint(0, len(E)), (u, v, w) if (three or (not E and c["fn"] in W_FNS)) else (u, v))
    elif r < 0.6:
        E.pop(rng.randrange(len(E)))
    elif r < 0.8 and three:
        i = rng.randrange(len(E))
        E[i] = (E[i][0], E[i][1], rng.randint(-2 if c["fn"] in ("floyd_warshall", "bellman_ford") else 0, 6))
    else:
        rng.shuffle(E)
    if c.get("target") is not None and rng.random() < 0.2:
        c["target"] = rng.randrange(n)
    if c["fn"] == "pagerank_edges" and rng.random() < 0.5:
        c["max_iter"] = rng.randint(1, 40)
    return c


# ====================================================================== class S, large: answers known by construction
def _trio(fn, *args, **kw):
    f = _fn(fn)
    out = {}
    for b in ("python", "rust", "default"):
        try:
            out[b] = f(*args, **kw) if b == "default" else f(*args, backend=b, **kw)
        except BaseException as e:  # noqa: BLE001
            out[b] = e
    return out


def _expect(tag, trio, check):
    """check(result) -> None | str, applied to every back-end; exceptions are failures"""
    probs = []
    for b, r in trio.items():
        if isinstance(r, BaseException):
            probs.append(f"{tag}: backend={b} raised {type(r).__name__}: {str(r)[:120]}")
            continue
        m = check(r)
        if m:
            probs.append(f"{tag}: backend={b}: {m}")
    return probs


def _is_path(p, s, t, eset):
    return isinstance(p, list) and p and p[0] == s and p[-1] == t and all((a, b) in eset for a, b in zip(p, p[1:]))


def big_dense_pendant(k, order, which, wmode="linear"):
    """complete DAG on 0..k-1 (i -> j for i < j) with > 10^6 arcs when k >= 1416, listed per node `order`; node k hangs off node 0 only
    and is listed FIRST, node k+1 hangs off node 0 only and is listed LAST.  which in bfs_edges / dfs_edges / dijkstra_edges."""
    import random as _r

    n = k + 2
    pairs = [(0, k)]
    rr = _r.Random(k)
    for i in range(k):
        js = list(range(i + 1, k))
        if order == "far-to-near":
            js.reverse()
        elif order == "shuffled":
            rr.shuffle(js)
        pairs.extend((i, j) for j in js)
    pairs.append((0, k + 1))
    probs = []
    tag = f"{which} on dense_pendant(k={k}, order={order}; n={n}, |E|={len(pairs)})"
    if which == "dijkstra_edges":
        # linear: the first relaxation of every node is final; quadratic: every arc (i, j) improves j once more, so the heap receives about
        # one entry per arc (> 10^6 lazy deletions) while the distances are still dist[j] = j (unit steps along the chain)
        edges = [(u, v, ((v - u) if wmode == "linear" else (v - u) ** 2) if v < k else 1) for u, v in pairs]
        tag += f", weights {wmode}"
        want = {j: (j if j < k else 1) for j in range(n)}
        want[0] = 0
        probs += _expect(tag + ", no target", _trio(which, n, edges, 0),
                         lambda r: None if (r.status.name == "OPTIMAL" and r.solution == want) else f"{r.status.name}, {len(r.solution or [])} distances; expected dist[j]=j on the core and 1 on the pendants")
        wset = {(u, v): w for u, v, w in edges}
        for t in (k, k + 1, k - 1):
            def chk(r, t=t):
                if r.status.name != "OPTIMAL" or r.objective != want[t]:
                    return f"{r.status.name} objective {r.objective}, expected OPTIMAL {want[t]}"
                p = r.solution
                if not _is_path(p, 0, t, wset) or sum(wset[a, b] for a, b in zip(p, p[1:])) != want[t]:
                    return f"path {p[:6] if p else p}... is not a walk 0->{t} of weight {want[t]}"
            probs += _expect(tag + f", target={t}", _trio(which, n, edges, 0, target=t), chk)
        return probs
    eset = set(pairs)
    found = "OPTIMAL" if which == "bfs_edges" else "FEASIBLE"
    probs += _expect(tag + ", no target", _trio(which, n, pairs, 0),
                     lambda r: None if (r.status.name == "OPTIMAL" and r.solution == list(range(n)) and r.objective == 0) else f"{r.status.name}, {len(r.solution or [])} nodes; expected OPTIMAL and all {n} nodes")
    for t in (k, k + 1, k - 1):
        def chk(r, t=t):
            if r.status.name != found:
                return f"status {r.status.name} solution {str(r.solution)[:40]}, expected {found} (the target is a successor of the source)"
            if not _is_path(r.solution, 0, t, eset) or r.objective != len(r.solution) - 1:
                return f"{str(r.solution)[:60]} / objective {r.objective} is not a path 0->{t} with its length"
            if which == "bfs_edges" and r.objective != 1:
                return f"path of {r.objective} edges, the shortest has 1"
        probs += _expect(tag + f", target={t}", _trio(which, n, pairs, 0, target=t), chk)
    return probs


def big_ring(n, which):
    """directed cycle 0 -> 1 -> ... -> n-1 -> 0 and the chain without the closing arc (listed forwards)"""
    chain = [(i, i + 1) for i in range(n - 1)]
    ring = chain + [(n - 1, 0)]
    tag = f"{which} on ring/chain(n={n})"
    if which in ("bfs_edges", "dfs_edges"):
        found = "OPTIMAL" if which == "bfs_edges" else "FEASIBLE"
        p = _expect(tag + " ring, no target", _trio(which, n, ring, 5 % n),
                    lambda r: None if (r.status.name == "OPTIMAL" and r.solution == list(range(n))) else f"{r.status.name}, {len(r.solution or [])} nodes")
        p += _expect(tag + " chain, target=last", _trio(which, n, chain, 0, target=n - 1),
                     lambda r: None if (r.status.name == found and r.solution == list(range(n)) and r.objective == n - 1) else f"{r.status.name} objective {r.objective}")
        p += _expect(tag + " chain, target behind the source", _trio(which, n, chain, 1, target=0),
                     lambda r: None if (r.status.name == "INFEASIBLE" and r.solution is None) else f"{r.status.name}")
        return p
    if which in ("dijkstra_edges", "bellman_ford"):
        w = [(u, v, 2) for u, v in ring]
        args = (n, w, 0) if which == "dijkstra_edges" else (0, w, n)
        p = _expect(tag + " ring, no target", _trio(which, *args),
                    lambda r: None if (r.status.name == "OPTIMAL" and r.solution == {i: 2 * i for i in range(n)}) else f"{r.status.name}; dist[last]={None if r.solution is None else r.solution.get(n - 1)} expected {2 * (n - 1)}")
        p += _expect(tag + " ring, target=last", _trio(which, *args, target=n - 1),
                     lambda r: None if (r.status.name == "OPTIMAL" and r.objective == 2 * (n - 1) and r.solution == list(range(n))) else f"{r.status.name} objective {r.objective}")
        return p
    if which == "topological_sort_edges":
        p = _expect(tag + " chain", _trio(which, n, chain[::-1]),
                    lambda r: None if (r.status.name == "OPTIMAL" and r.solution == list(range(n)) and r.objective == n) else f"{r.status.name} objective {r.objective}")
        p += _expect(tag + " ring", _trio(which, n, ring), lambda r: None if (r.status.name == "INFEASIBLE" and r.solution is None) else f"{r.status.name}")
        return p
    if which == "kruskal":
        w = [(u, v, 1 + (u % 3)) for u, v in ring]
        tot = sum(sorted(x[2] for x in w)[:n - 1])
        return _expect(tag + " ring", _trio(which, n, w),
                       lambda r: None if (r.status.name == "OPTIMAL" and r.objective == tot and len(r.solution) == n - 1) else f"{r.status.name} weight {r.objective} expected {tot}")
    if which == "pagerank_edges":
        def chk(r):
            if r.status.name != "OPTIMAL" or len(r.solution) != n or max(abs(x - 1 / n) for x in r.solution.values()) > 1e-12:
                return f"{r.status.name}; scores are not uniform 1/{n}"
        return _expect(tag + " ring", _trio(which, n, ring), chk)
    if which == "strongly_connected_components_edges":
        # many 3-cycles chained by one-way arcs (no deep recursion): components are the triples, sinks first
        tri = []
        for c in range(n // 3):
            a = 3 * c
            tri += [(a, a + 1), (a + 1, a + 2), (a + 2, a)]
            if c:
                tri.append((a - 1, a))
        m = 3 * (n // 3)
        want = {frozenset((3 * c, 3 * c + 1, 3 * c + 2)) for c in range(n // 3)}

        def chk(r):
            if r.status.name != "OPTIMAL" or {frozenset(x) for x in r.solution} != want or r.objective != len(want):
                return f"{r.status.name}, {len(r.solution)} components, expected the {len(want)} triples"
            pos = {v: i for i, x in enumerate(r.solution) for v in x}
            if any(pos[u] < pos[v] for u, v in tri):
                return "components are not in reverse topological order"
        # depth of the recursion: each triple adds 3 frames -> keep the chain of triples short and repeat it side by side
        if m > 600:
            tri = [(u, v) for u, v in tri if not (u % 300 == 299 and v == u + 1)]      # cut the chain every 100 triples
        return _expect(f"{which} on chained 3-cycles(n={m})", _trio(which, m, tri), chk)
    return []


def fast_msf_weight(n, edges):
    """independent union-find (path halving, no ranks) for sizes where the naive relabelling oracle is too slow"""
    par = list(range(n))

    def find(x):
        while par[x] != x:
            par[x] = par[par[x]]
            x = par[x]
        return x
    tot, k = 0, 0
    for u, v, w in sorted(edges, key=lambda e: e[2]):
        a, b = find(u), find(v)
        if a != b:
            par[a] = b
            tot += w
            k += 1
    return n - k, tot


def big_kruskal_balanced(n, seed):
    """unions through roots in a balanced order (union-find trees of height log2 n), then many edges between deep nodes"""
    import random as _r

    rr = _r.Random(seed)
    es, step, lvl = [], 1, 1
    while step < n:
        for a in range(0, n - step, 2 * step):
            es.append((a + step, a, lvl) if rr.random() < 0.5 else (a, a + step, lvl))
        step *= 2
        lvl += 1
    es += [(rr.randrange(n), rr.randrange(n), rr.randint(1, lvl + 2)) for _ in range(3 * n)]
    rr.shuffle(es)
    comps, tot = fast_msf_weight(n, es)
    return _expect(f"kruskal on balanced_merges(n={n}, seed={seed}, |E|={len(es)})", _trio("kruskal", n, es),
                   lambda r: None if (r.status.name == "OPTIMAL" and comps == 1 and r.objective == tot and len(r.solution) == n - 1) else f"{r.status.name} weight {r.objective} expected OPTIMAL {tot}")


def big_kruskal_late_bridge(m, seed):
    """50 nodes: a light spanning path on 0..48, then m rejected edges inside that component, and the ONLY edge to node 49 is the heaviest,
    so the sorted-edge loop must run m + 49 iterations before the tree is complete (weight 48 + 7 by construction)"""
    import random as _r

    rr = _r.Random(seed)
    es = [(i, i + 1, 1) for i in range(48)]
    es += [(rr.randrange(49), rr.randrange(49), rr.choice([2, 3, 3.5])) for _ in range(m)]
    es.append((rr.randrange(49), 49, 7))
    rr.shuffle(es)
    p = _expect(f"kruskal on late_bridge(m={m}, seed={seed}; |E|={len(es)})", _trio("kruskal", 50, es),
                lambda r: None if (r.status.name == "OPTIMAL" and r.objective == 55 and len(r.solution) == 49) else f"{r.status.name} weight {r.objective}, expected OPTIMAL 55")
    p += _expect(f"kruskal(allow_forest=True) on late_bridge(m={m}, seed={seed})", _trio("kruskal", 50, es, allow_forest=True),
                 lambda r: None if (r.status.name == "OPTIMAL" and r.objective == 55) else f"{r.status.name} weight {r.objective}, expected OPTIMAL 55")
    return p


def big_fw_line(n):
    es = [(i, i + 1, 1) for i in range(n - 1)]
    want = [[abs(i - j) for j in range(n)] for i in range(n)]
    p = _expect(f"floyd_warshall on line(n={n}), undirected", _trio("floyd_warshall", n, es, directed=False),
                lambda r: None if (r.status.name == "OPTIMAL" and r.solution == want) else f"{r.status.name}; dist[0][{n - 1}]={None if r.solution is None else r.solution[0][n - 1]}")
    p += _expect(f"floyd_warshall on line(n={n}), directed", _trio("floyd_warshall", n, es, directed=True),
                 lambda r: None if (r.status.name == "OPTIMAL" and all(r.solution[i][j] == (j - i if j >= i else INF) for i in range(n) for j in range(n))) else f"{r.status.name}")
    return p


def big_parallel(m):
    """m parallel arcs 0 -> 1 with weights m, m-1, .., 1 (the minimum is listed last) and m arcs back with weight 7"""
    es = [(0, 1, m - i) for i in range(m)] + [(1, 0, 7)] * m
    p = _expect(f"floyd_warshall on parallel(m={m})", _trio("floyd_warshall", 2, es),
                lambda r: None if (r.status.name == "OPTIMAL" and r.solution == [[0, 1], [7, 0]]) else f"{r.status.name} {r.solution}")
    p += _expect(f"floyd_warshall undirected on parallel(m={m})", _trio("floyd_warshall", 2, es, directed=False),
                 lambda r: None if (r.status.name == "OPTIMAL" and r.solution == [[0, 1], [1, 0]]) else f"{r.status.name} {r.solution}")
    p += _expect(f"bellman_ford on parallel(m={m})", _trio("bellman_ford", 0, es, 2, target=1),
                 lambda r: None if (r.status.name == "OPTIMAL" and r.objective == 1 and r.solution == [0, 1]) else f"{r.status.name} {r.objective}")
    p += _expect(f"dijkstra_edges on parallel(m={m})", _trio("dijkstra_edges", 2, es, 0, target=1),
                 lambda r: None if (r.status.name == "OPTIMAL" and r.objective == 1 and r.solution == [0, 1]) else f"{r.status.name} {r.objective}")
    p += _expect(f"dijkstra_edges on parallel(m={m}), no target (one heap entry per arc: each is lighter than the one before)", _trio("dijkstra_edges", 2, es, 0),
                 lambda r: None if (r.status.name == "OPTIMAL" and r.solution == {0: 0, 1: 1}) else f"{r.status.name} {r.solution}")
    p += _expect(f"bellman_ford on parallel(m={m}), no target", _trio("bellman_ford", 0, es, 2),
                 lambda r: None if (r.status.name == "OPTIMAL" and r.solution == {0: 0, 1: 1}) else f"{r.status.name} {r.solution}")
    p += _expect(f"kruskal on parallel(m={m})", _trio("kruskal", 2, es),
                 lambda r: None if (r.status.name == "OPTIMAL" and r.objective == 1 and len(r.solution) == 1) else f"{r.status.name} {r.objective}")
    return p


def big_bf_reversed(n, with_target=False):
    """chain 0 -> 1 -> ... -> n-1 (unit weights) listed BACKWARDS: the in-place relaxation advances one node per round, so all n-1 rounds
    are needed (n-1 rounds x n-1 arcs inner steps); dist[i] = i by construction"""
    es = [(i, i + 1, 1) for i in range(n - 2, -1, -1)]
    want = {i: i for i in range(n)}
    p = _expect(f"bellman_ford on reversed_chain(n={n}), no target", _trio("bellman_ford", 0, es, n),
                lambda r: None if (r.status.name == "OPTIMAL" and r.solution == want) else f"{r.status.name}; dist[{n - 1}]={None if r.solution is None else r.solution.get(n - 1)} expected {n - 1}")
    if with_target:
        p += _expect(f"bellman_ford on reversed_chain(n={n}), target=last", _trio("bellman_ford", 0, es, n, target=n - 1),
                     lambda r: None if (r.status.name == "OPTIMAL" and r.objective == n - 1 and r.solution == list(range(n))) else f"{r.status.name} objective {r.objective}")
    return p


def big_star(n, which):
    """node 0 points to every other node: the queue / stack / heap / ready list holds n-1 entries at once"""
    tag = f"{which} on star(n={n})"
    pairs = [(0, i) for i in range(1, n)]
    if which in ("bfs_edges", "dfs_edges"):
        found = "OPTIMAL" if which == "bfs_edges" else "FEASIBLE"
        p = _expect(tag + ", no target", _trio(which, n, pairs, 0), lambda r: None if (r.status.name == "OPTIMAL" and r.solution == list(range(n))) else f"{r.status.name}, {len(r.solution or [])} nodes")
        for t in (1, n // 2, n - 1):
            p += _expect(tag + f", target={t}", _trio(which, n, pairs, 0, target=t),
                         lambda r, t=t: None if (r.status.name == found and r.solution == [0, t] and r.objective == 1) else f"{r.status.name} {str(r.solution)[:30]}")
        return p
    if which == "dijkstra_edges":
        es = [(0, i, n - i) for i in range(1, n)]
        p = _expect(tag + ", no target", _trio(which, n, es, 0), lambda r: None if (r.status.name == "OPTIMAL" and r.solution == {i: (n - i if i else 0) for i in range(n)}) else f"{r.status.name}")
        p += _expect(tag + ", target=1 (popped last)", _trio(which, n, es, 0, target=1), lambda r: None if (r.status.name == "OPTIMAL" and r.objective == n - 1 and r.solution == [0, 1]) else f"{r.status.name} {r.objective}")
        return p
    if which == "topological_sort_edges":
        def chk(r):
            if r.status.name != "OPTIMAL" or r.objective != n or r.solution[0] != 0 or sorted(r.solution) != list(range(n)):
                return f"{r.status.name} objective {r.objective}; not a permutation starting with the hub"
        return _expect(tag, _trio(which, n, pairs), chk)
    return []


def _scc_one(n, shape, backend):
    f = _fn("strongly_connected_components_edges")
    es = [(i, i + 1) for i in range(n - 1)] + ([(n - 1, 0)] if shape == "ring" else [])
    r = f(n, es) if backend == "default" else f(n, es, backend=backend)
    if shape == "ring":
        ok = r.status.name == "OPTIMAL" and len(r.solution) == 1 and sorted(r.solution[0]) == list(range(n)) and r.objective == 1
    else:
        ok = r.status.name == "OPTIMAL" and r.objective == n and r.solution == [[i] for i in range(n - 1, -1, -1)]
    return None if ok else f"{r.status.name}, {len(r.solution)} components, objective {r.objective}"




def scc_deep(ctx, n, shape):
    """recursion depth n of Tarjan's strongconnect: a path (n singleton components, sinks first) / a ring (one component); every back-end in
    its own child, because a native stack overflow kills the process"""
    res = {}
    for b in ("python", "rust", "default"):
        r = _in_child(_scc_one, n, shape, b, timeout=120.0)
        res[b] = "ok" if r == ("ok", None) else (r[1] if r[0] == "ok" else f"{r[0]}: {r[1:] if len(r) > 1 else ''}")
    ctx.evaluations += 3
    bad = {b: v for b, v in res.items() if v != "ok"}
    if not bad:
        return
    what = f"strongly_connected_components_edges({n}, {'ring' if shape == 'ring' else 'path'} 0->1->..->{n - 1}{'->0' if shape == 'ring' else ''}): " + ", ".join(f"backend={b}: {v}" for b, v in res.items())
    ctx.violation(what, {"scc_deep": [n, shape], "observed": res})


BIG = {"kruskal_late_bridge": big_kruskal_late_bridge, "bf_reversed": big_bf_reversed, "star": big_star, "dense_pendant": big_dense_pendant, "ring": big_ring, "kruskal_balanced": big_kruskal_balanced, "fw_line": big_fw_line, "parallel": big_parallel}


def big_plan(rng, thorough=False):
    """(name, args) list; sizes cross 257 / 1025 / 2049 / 65537 / 10^6 elements; each item stays around a second or two"""
    plan = []
    orders = ["far-to-near", "near-to-far", "shuffled"]
    for which in ("bfs_edges", "dfs_edges", "dijkstra_edges"):
        os_ = orders if (thorough or which != "dijkstra_edges") else [rng.choice(orders)]
        for o in os_:
            plan.append(("dense_pendant", [rng.randint(1420, 1500), o, which] + (["quadratic" if o != "far-to-near" and rng.random() < 0.7 else "linear"] if which == "dijkstra_edges" else [])))
    if not thorough:
        plan.append(("dense_pendant", [rng.randint(1420, 1500), "near-to-far", "dijkstra_edges", "quadratic"]))
    for which in ("bfs_edges", "dfs_edges", "dijkstra_edges", "bellman_ford", "topological_sort_edges", "kruskal", "pagerank_edges",
                  "strongly_connected_components_edges"):
        plan.append(("ring", [rng.choice([65537, 100001] if which not in ("bellman_ford",) else [65537]), which]))
        plan.append(("ring", [rng.choice([257, 1025, 2049]), which]))
    plan.append(("kruskal_balanced", [rng.choice([1024, 4096, 65536 if thorough else 8192]), rng.randrange(1000)]))
    plan.append(("kruskal_balanced", [rng.choice([16, 32, 64]), rng.randrange(1000)]))
    plan.append(("fw_line", [rng.choice([65, 97])]))
    plan.append(("fw_line", [104 if not thorough else 162]))          # n^3 > 2^20 (2^22) inner steps of the k-i-j loop
    plan.append(("parallel", [rng.choice([2049, 4099])]))
    plan.append(("parallel", [rng.choice([10001, 66000])]))          # > 10^4 stale heap entries / kernel edge-loop steps
    plan.append(("kruskal_late_bridge", [rng.choice([4100, 10001]), rng.randrange(1000)]))
    plan.append(("kruskal_late_bridge", [100001 if not thorough else 2 ** 20 + 2, rng.randrange(1000)]))
    plan.append(("bf_reversed", [rng.choice([129, 1025, 2049]), True]))
    plan.append(("bf_reversed", [4099 + rng.randrange(3), thorough]))  # > 2^12 rounds, 1.7 * 10^7 inner steps
    for which in ("bfs_edges", "dfs_edges", "dijkstra_edges", "topological_sort_edges"):
        plan.append(("star", [rng.choice([4097, 10001, 100001]), which]))
    lin = ["bfs_edges", "dfs_edges", "dijkstra_edges", "topological_sort_edges", "kruskal", "pagerank_edges"]
    for which in (lin if thorough else rng.sample(lin, 1)):
        plan.append(("ring", [2 ** 20 + 2, which]))                    # 2^20 + 2 nodes for the linear-time routines
    return plan


def work_counts(plan):
    """iterations of each internal loop reached by the by-construction instances of this run (maximum per loop)"""
    w = {}

    def up(k, v):
        w[k] = max(w.get(k, 0), int(v))
    for name, a in plan:
        if name == "bf_reversed":
            up("bellman_ford.rounds", a[0] - 1)
            up("bellman_ford.inner_relaxations", (a[0] - 1) ** 2)
        elif name == "fw_line":
            up("floyd_warshall.kij_steps", a[0] ** 3)
        elif name == "parallel":
            up("dijkstra.heap_entries", a[0])
            up("floyd_warshall.edge_loop", 2 * a[0])
            up("kruskal.sorted_edges", 2 * a[0])
            up("bellman_ford.arcs_per_round", 2 * a[0])
        elif name == "star":
            up({"bfs_edges": "bfs.queue_length", "dfs_edges": "dfs.stack_length", "dijkstra_edges": "dijkstra.heap_entries", "topological_sort_edges": "topo.ready_list"}[a[1]], a[0] - 1)
        elif name == "ring":
            up({"bfs_edges": "bfs.pops", "dfs_edges": "dfs.pops", "dijkstra_edges": "dijkstra.pops", "bellman_ford": "bellman_ford.arcs_per_round",
                "topological_sort_edges": "topo.pops", "kruskal": "kruskal.sorted_edges", "pagerank_edges": "pagerank.nodes_per_sweep",
                "strongly_connected_components_edges": "scc.nodes"}[a[1]], a[0])
        elif name == "dense_pendant":
            m = a[0] * (a[0] - 1) // 2
            up({"bfs_edges": "bfs.arc_scans", "dfs_edges": "dfs.pops", "dijkstra_edges": "dijkstra.heap_entries"}[a[2]], m if (a[2] != "dijkstra_edges" or (len(a) > 3 and a[3] == "quadratic")) else a[0])
        elif name == "kruskal_late_bridge":
            up("kruskal.loop_iterations", a[0] + 49)
        elif name == "kruskal_balanced":
            up("kruskal.unions", a[0] - 1)
    return w


def run_big(name, args):
    return BIG[name](*args)


# ====================================================================== class A: aliasing and call sequences
W_FNS = ["floyd_warshall", "bellman_ford", "dijkstra_edges", "kruskal"]
P_FNS = ["bfs_edges", "dfs_edges", "pagerank_edges", "strongly_connected_components_edges", "topological_sort_edges"]


def gen_sequence(rng):
    """One shared edge-list object passed to consecutive calls of several functions with different options and back-ends, in random order.
    After every call the caller's list must be unchanged and the answer must equal the answer of the same call on a fresh copy."""
    n = rng.choice([2, 2, 3, 4, 5, 6])
    weighted = rng.random() < 0.55
    edges = gen_wedges(rng, n, negative=False) if weighted else gen_edges(rng, n)
    if not edges:
        edges = [(0, n - 1, 5)] if weighted else [(0, n - 1)]
    steps = []
    for _ in range(rng.randint(3, 7)):
        fn = rng.choice(W_FNS if weighted else P_FNS)
        st = {"fn": fn, "backend": rng.choice(["python", "rust", "default"])}
        if fn == "floyd_warshall":
            st["directed"] = rng.random() < 0.5
        if fn in ("bellman_ford", "dijkstra_edges", "bfs_edges", "dfs_edges"):
            st["source"] = rng.randrange(n)
            st["target"] = rng.choice([None, rng.randrange(n)])
        if fn == "kruskal":
            st["allow_forest"] = rng.random() < 0.5
        if fn == "pagerank_edges":
            st.update({"damping": 0.85, "max_iter": rng.choice([3, 20]), "tol": 1e-6})
        steps.append(st)
    if rng.random() < 0.35:                       # the same call twice, and the same call under another back-end right after
        st = dict(rng.choice(steps))
        steps += [st, dict(st, backend=rng.choice(["python", "rust", "default"]))]
    container = rng.choice(["list", "list", "list", "tuple"])
    if container == "list" and rng.random() < 0.7:
        # class A2: edit the caller's list IN PLACE between calls (same object, often the same length), then repeat earlier calls - same
        # function / options / back-end, and other functions of the same module - against a fresh call on a copy of the edited content
        out = []
        calls = []
        for st in steps:
            out.append(st)
            calls.append(st)
            if rng.random() < 0.6:
                out.append(gen_edit(rng, n, weighted))
                again = [dict(rng.choice(calls)) for _ in range(rng.randint(1, 2))] + [dict(st)]
                rng.shuffle(again)
                if rng.random() < 0.5:
                    again.append(dict(again[-1], backend=rng.choice(["python", "rust", "default"])))
                out += again
        steps = out[:14]
    return {"kind": "seq", "n": n, "edges": edges, "container": container, "steps": steps}


def gen_edit(rng, n, weighted):
    def edge():
        return (rng.randrange(n), rng.randrange(n), rng.choice([0, 1, 2, 3, 7, 20, 2.5])) if weighted else (rng.randrange(n), rng.randrange(n))
    op = rng.choice(["replace", "replace", "reweight", "append", "pop", "swap", "reverse", "slice-same-length", "clear-extend"])
    return {"edit": op, "i": rng.randrange(64), "j": rng.randrange(64), "edge": edge(), "edges": [edge() for _ in range(rng.randint(0, 4))]}


def apply_edit(lst, ed):
    """in-place edit of the caller's list (never rebinding); indices are taken modulo the current length"""
    op, m = ed["edit"], len(lst)
    e = tuple(ed["edge"])
    if op == "replace" and m:
        lst[ed["i"] % m] = e
    elif op == "reweight" and m:
        old = lst[ed["i"] % m]
        lst[ed["i"] % m] = (old[0], old[1], e[2]) if len(old) == 3 else (old[1], old[0])
    elif op == "append" or (not m and op in ("replace", "reweight", "pop", "swap")):
        lst.append(e)
    elif op == "pop":
        lst.pop(ed["i"] % m)
    elif op == "swap":
        a, b = ed["i"] % m, ed["j"] % m
        lst[a], lst[b] = lst[b], lst[a]
    elif op == "reverse":
        lst.reverse()
    elif op == "slice-same-length":
        new = [tuple(x) for x in ed["edges"]]
        new = (new * (m + 1))[:m] if new else list(lst)
        lst[:] = new[::-1] if new == list(lst) else new
    elif op == "clear-extend":
        lst.clear()
        lst.extend(tuple(x) for x in ed["edges"])


def edit_str(ed, var="e"):
    op = ed["edit"]
    if op in ("replace", "reweight"):
        return f"{var}[{ed['i']} % len({var})] <- {op} {tuple(ed['edge'])}"
    if op == "append":
        return f"{var}.append({tuple(ed['edge'])})"
    if op == "pop":
        return f"{var}.pop({ed['i']} % len({var}))"
    if op == "swap":
        return f"swap {var}[{ed['i']} % len], {var}[{ed['j']} % len]"
    if op == "reverse":
        return f"{var}.reverse()"
    return f"{var}[:] <- {op} {[tuple(x) for x in ed['edges']]}"


def _obs_result(res):
    return {"status": res.status.name, "solution": canon(res.solution), "objective": canon(res.objective), "type": type(res.solution).__name__}


def _seq_call(seq, st, e):
    f = _fn(st["fn"])
    backend = None if st["backend"] == "default" else st["backend"]
    kw = {} if backend is None else {"backend": backend}
    try:
        if st["fn"] == "floyd_warshall":
            r = guarded(f, seq["n"], e, directed=st["directed"], timeout=5, **kw)
        elif st["fn"] == "bellman_ford":
            r = guarded(f, st["source"], e, seq["n"], target=st["target"], timeout=5, **kw)
        elif st["fn"] in ("dijkstra_edges", "bfs_edges", "dfs_edges"):
            r = guarded(f, seq["n"], e, st["source"], target=st["target"], timeout=5, **kw)
        elif st["fn"] == "kruskal":
            r = guarded(f, seq["n"], e, allow_forest=st["allow_forest"], timeout=5, **kw)
        elif st["fn"] == "pagerank_edges":
            r = guarded(f, seq["n"], e, damping=st["damping"], max_iter=st["max_iter"], tol=st["tol"], timeout=5, **kw)
        else:
            r = guarded(f, seq["n"], e, timeout=5, **kw)
    except BaseException as ex:  # noqa: BLE001
        r = ("exc", type(ex).__name__, str(ex)[:200])
    return _obs_result(r[1]) if r[0] == "ok" else list(r)


def _fresh_pass(seq, contents):
    """every call of the sequence once more, each on a brand-new copy of the content the shared object had at that moment - in a process of
    its own and in REVERSE order, so that no state left behind by the shared pass (or by an earlier fresh call) can be reused"""
    out = {}
    tup = seq.get("container") == "tuple"
    for k in sorted(contents, reverse=True):
        e = [tuple(x) for x in contents[k]]
        out[k] = _seq_call(seq, seq["steps"][k], tuple(e) if tup else e)
    return out


def run_sequence(seq):
    """-> list of per-step dicts {'shared': obs | error, 'fresh': obs | error, 'modified': None | description}.
    The shared pass runs first and alone: interleaving the reference calls would reset / refill any cache the implementation keeps."""
    pristine = [tuple(e) for e in seq["edges"]]
    shared = [tuple(e) for e in pristine]
    ids = [id(x) for x in shared]
    if seq.get("container") == "tuple":
        shared = tuple(shared)
    out = []
    contents = {}
    for k, st in enumerate(seq["steps"]):
        if "edit" in st:
            if isinstance(shared, list):
                apply_edit(shared, st)
                pristine = [tuple(e) for e in shared]
                ids = [id(x) for x in shared]
            out.append({"shared": None, "fresh": None, "modified": None, "content": [list(x) for x in pristine]})
            continue
        contents[k] = [tuple(x) for x in pristine]
        rec = {"shared": _seq_call(seq, st, shared), "fresh": None, "modified": None}
        now = list(shared)
        if len(now) != len(pristine) or any(a != b for a, b in zip(now, pristine)):
            rec["modified"] = f"{len(pristine)} edges before the call, afterwards {now[:12]}{'...' if len(now) > 12 else ''}"
        elif [id(x) for x in now] != ids:
            rec["modified"] = "elements of the caller's list were replaced by other objects"
        out.append(rec)
    fr = _in_child(_fresh_pass, seq, contents, timeout=60.0)
    for k in contents:
        out[k]["fresh"] = fr[1][k] if fr[0] == "ok" else ["exc", "Crash", str(fr)]
    return out


def step_str(seq, st, var="e"):
    if "edit" in st:
        return edit_str(st, var)
    c = dict(st, n=seq["n"], edges=[])
    b = None if st["backend"] == "default" else st["backend"]
    return call_str(c, b).replace("[]", var, 1)


def judge_sequence(seq, recs):
    """-> None | message naming the first offending call of the sequence"""
    prefix = f"e = {tuple(map(tuple, seq['edges'])) if seq.get('container') == 'tuple' else [tuple(x) for x in seq['edges']]}; "
    content = None
    for k, (st, rec) in enumerate(zip(seq["steps"], recs)):
        hist = "; ".join(step_str(seq, s_) for s_ in seq["steps"][:k + 1])
        if "edit" in st:
            content = rec.get("content")
            continue
        if content is not None:
            hist += f"  [e is now {[tuple(x) for x in content]}]"
        if rec["modified"]:
            return prefix + hist + f"  -> the caller's edge list was modified by call #{k + 1}: {rec['modified']}"
        if rec["shared"] != rec["fresh"]:
            return prefix + hist + f"  -> call #{k + 1} on the shared list returns {rec['shared']}, the same call on a fresh copy returns {rec['fresh']} (the answer depends on earlier calls / on the content the object had before it was edited in place)"
        if isinstance(rec["shared"], list):
            return prefix + hist + f"  -> call #{k + 1} failed: {rec['shared']}"
    return None


def _batch_seq(seqs):
    return [run_sequence(q) for q in seqs]


def run_sequences(seqs, chunk=40):
    out = []
    for k in range(0, len(seqs), chunk):
        part = seqs[k:k + chunk]
        r = _in_child(_batch_seq, part, timeout=20.0 + 1.0 * len(part))
        if r[0] == "ok" and len(r[1]) == len(part):
            out += r[1]
        else:
            for q in part:
                r1 = _in_child(run_sequence, q, timeout=15.0)
                out.append(r1[1] if r1[0] == "ok" else [{"shared": ["exc", "Crash", str(r1)], "fresh": None, "modified": None}])
    return out


def shrink_sequence(seq):
    """drop steps, then edges, while the sequence still fails"""
    def bad(q):
        r = _in_child(run_sequence, q, timeout=15.0)
        return r[0] == "ok" and judge_sequence(q, r[1]) is not None

    cur = dict(seq)
    changed = True
    while changed:
        changed = False
        for i in range(len(cur["steps"])):
            q = dict(cur, steps=cur["steps"][:i] + cur["steps"][i + 1:])
            if q["steps"] and bad(q):
                cur, changed = q, True
                break
        if changed:
            continue
        for i in range(len(cur["edges"])):
            q = dict(cur, edges=cur["edges"][:i] + cur["edges"][i + 1:])
            if q["edges"] and bad(q):
                cur, changed = q, True
                break
    return cur


# ====================================================================== Coq terms
def cedge3(e):
    return f"({cnat(e[0])}, {cnat(e[1])}, {cz(e[2])})"


def cedge2(e):
    return f"({cnat(e[0])}, {cnat(e[1])})"


def coz(x):
    x = num(x)
    return "None" if x == INF else f"(Some {cz(x)})"


def copt_nat(t):
    return "None" if t is None else f"(Some {cnat(t)})"


def is_int_obs(o):
    """all numbers in the canonical observable are ints / inf (Z model applicable)."""
    def ok(x):
        if isinstance(x, float):
            return False
        if isinstance(x, dict):
            return all(ok(v) for v in x.values())
        if isinstance(x, list):
            return all(ok(v) for v in x)
        return True
    return ok(o["solution"]) and ok(o["objective"])


def fw_res(o):
    if o["status"] == "UNBOUNDED":
        return "FW.Unbounded"
    if o["status"] == "OPTIMAL" and isinstance(o["solution"], list):
        return "(FW.Dist " + clist(o["solution"], lambda r: clist(r, coz)) + ")"
    return "FW.Error"


def dvec(o, n):
    d = dict((k, v) for k, v in o["solution"]["dict"])
    return clist([d.get(i, "inf") for i in range(n)], coz)


def bf_res(o, case):
    if o["status"] == "UNBOUNDED":
        return "BF.Unbounded"
    if o["status"] == "INFEASIBLE":
        return "BF.Infeasible"
    if o["status"] == "OPTIMAL" and case["target"] is None and isinstance(o["solution"], dict):
        return f"(BF.Dists {dvec(o, case['n'])})"
    if o["status"] == "OPTIMAL" and isinstance(o["solution"], list) and isinstance(o["objective"], int):
        return f"(BF.Path {clist(o['solution'], cnat)} {cz(o['objective'])})"
    return "BF.Error"


def dij_res(o, case):
    if o["status"] == "INFEASIBLE" and o["solution"] is None:
        return "RsDij.Infeasible"
    if o["status"] == "OPTIMAL" and case["target"] is None and isinstance(o["solution"], dict):
        return f"(RsDij.Dists {dvec(o, case['n'])})"
    if o["status"] == "OPTIMAL" and isinstance(o["solution"], list) and isinstance(o["objective"], int):
        return f"(RsDij.Path {clist(o['solution'], cnat)} {cz(o['objective'])})"
    return "RsDij.Hang"


def es_res(o, case):
    if case["target"] is None and o["status"] == "OPTIMAL" and isinstance(o["solution"], list) and o["objective"] == 0:
        return f"(ES.Reach {clist(o['solution'], cnat)})"
    if o["solution"] is None and o["objective"] == "inf":
        return f"(ES.NotFound ES.{o['status']})"
    if isinstance(o["solution"], list) and isinstance(o["objective"], int) and o["status"] in ("OPTIMAL", "FEASIBLE"):
        return f"(ES.Found ES.{o['status']} {clist(o['solution'], cnat)} {cz(o['objective'])})"
    return "ES.Hang"


def mst_obs(o):
    sol = "None" if o["solution"] is None else "(Some " + clist(o["solution"], cedge3) + ")"
    obj = "None" if o["objective"] == "inf" else f"(Some {cz(o['objective'])})"
    return f"(Mst.{o['status']}, {sol}, {obj})"


IMPORTS = {
    "floyd_warshall": "From SV Require Import C11.Paths C11.FloydWarshall C12.RsShortest.",
    "bellman_ford": "From SV Require Import C11.Paths C11.BellmanFord C12.RsShortest.",
    "dijkstra_edges": "From SV Require Import C11.Paths C12.RsShortest C12.PyDijkstra.",
    "bfs_edges": "From SV Require Import C12.RsSearch.",
    "dfs_edges": "From SV Require Import C12.RsSearch.",
    "kruskal": "From SV Require C13.Mst.\nFrom SV Require Import C12.RsKruskal.\nModule Mst := SV.C13.Mst.",
    "strongly_connected_components_edges": "From SV Require C14.Scc.\nFrom SV Require Import C12.RsScc.",
    "topological_sort_edges": "From SV Require C14.Scc.\nFrom SV Require Import C12.RsScc.",
    "pagerank_edges": "From Coq Require Import QArith.\nFrom SV Require Import C15.Graph C15.PageRank C12.RsPageRank.",
}

# (case type, python-side check, rust-side check); a case is (input, (python observable, rust observable))
def coq_spec(fn):
    W = "(nat * nat * Z)"
    E = "(nat * nat)"
    if fn == "floyd_warshall":
        ty = f"(nat * list {W} * bool) * (FW.result * FW.result)"
        inp = "(fst (fst (fst c))) (snd (fst (fst c))) (snd (fst c))"
        return ty, f"FW.result_eqb (FW.floyd_warshall {inp}) (fst (snd c))", f"FW.result_eqb (RsFW.floyd_warshall {inp}) (snd (snd c))"
    if fn == "bellman_ford":
        ty = f"(nat * list {W} * nat * option nat) * (BF.result * BF.result)"
        inp = "(snd (fst (fst (fst c)))) (snd (fst (fst (fst (fst c))))) (fst (fst (fst (fst (fst c))))) (snd (fst c))"
        # tuple is (((start, edges), n), target)
        ty = f"(nat * list {W} * nat * option nat) * (BF.result * BF.result)"
        inp = "(fst (fst (fst (fst c)))) (snd (fst (fst (fst c)))) (snd (fst (fst c))) (snd (fst c))"
        return ty, f"BF.result_eqb (BF.bellman_ford {inp}) (fst (snd c))", f"BF.result_eqb (RsBF.bellman_ford {inp}) (snd (snd c))"
    if fn == "dijkstra_edges":
        ty = f"(nat * list {W} * nat * option nat) * (RsDij.result * RsDij.result)"
        inp = "(fst (fst (fst (fst c)))) (snd (fst (fst (fst c)))) (snd (fst (fst c))) (snd (fst c))"
        return (ty, f"PyDij.obs_eqb (PyDij.dijkstra_edges {inp}) (fst (snd c))",
                f"RsDij.obs_ok (snd (fst (fst (fst c)))) (snd (fst (fst c))) (snd (fst c)) (RsDij.dijkstra {inp}) (snd (snd c))")
    if fn in ("bfs_edges", "dfs_edges"):
        ty = f"(nat * list {E} * nat * option nat) * (ES.result * ES.result)"
        inp = "(fst (fst (fst (fst c)))) (snd (fst (fst (fst c)))) (snd (fst (fst c))) (snd (fst c))"
        return ty, f"ES.obs_eqb (PyEdges.{fn} {inp}) (fst (snd c))", f"ES.obs_eqb (RsSearch.{fn} {inp}) (snd (snd c))"
    if fn == "kruskal":
        ty = f"(nat * list {W} * bool) * (Mst.obs * Mst.obs)"
        inp = "(fst (fst (fst c))) (snd (fst (fst c))) (snd (fst c))"
        return ty, f"RsKruskal.obs_ok (RsKruskal.py_kruskal {inp}) (fst (snd c))", f"RsKruskal.obs_ok (RsKruskal.kruskal {inp}) (snd (snd c))"
    if fn == "strongly_connected_components_edges":
        ty = f"(nat * list {E}) * (list (list nat) * list (list nat))"
        inp = "(fst (fst c)) (snd (fst c))"
        return (ty, f"SV.C14.Scc.scc_obs_eqb (SV.C14.Scc.scc_edges {inp}) (Some (fst (snd c)))",
                f"SV.C14.Scc.scc_obs_eqb (RsScc.scc_edges {inp}) (Some (snd (snd c)))")
    if fn == "topological_sort_edges":
        ty = f"(nat * list {E}) * (option (list nat) * option (list nat))"
        inp = "(fst (fst c)) (snd (fst c))"
        return (ty, f"SV.C14.Scc.topo_obs_eqb (SV.C14.Scc.topo_edges {inp}) (Some (fst (snd c)))",
                f"SV.C14.Scc.topo_obs_eqb (RsScc.topo_edges {inp}) (Some (snd (snd c)))")
    if fn == "pagerank_edges":
        # ((n, edges, damping), ((it_py, scores_py), (it_rs, scores_rs)))
        ty = f"(nat * list {E} * Q) * ((nat * list Q) * (nat * list Q))"
        n, es, d = "(fst (fst (fst c)))", "(snd (fst (fst c)))", "(snd (fst c))"
        eps = "(1 # 1000000000)"
        py = (f"RsPR.all_close {eps} (map (score (iterate (fst (fst (snd c))) (RsPR.py_graph {n} {es}) {d} (init_scores (RsPR.py_graph {n} {es})))) (seq 0 {n})) "
              f"(snd (fst (snd c)))")
        rs = f"RsPR.corr_iter {eps} {n} {es} {d} (fst (snd (snd c))) (snd (snd (snd c)))"
        return ty, py, rs
    raise KeyError(fn)


def coq_case(case, P, R):
    """Coq literal of one case, or None when the Z / small-Q models do not apply."""
    fn, n = case["fn"], case["n"]
    if n > 16 or n == 0 or len(case["edges"]) > 60 or case.get("container"):
        return None
    if fn in ("floyd_warshall", "bellman_ford", "dijkstra_edges", "kruskal"):
        if not integral(case) or not is_int_obs(P) or not is_int_obs(R):
            return None
        es = clist(case["edges"], cedge3)
    else:
        es = clist(case["edges"], cedge2)
    if fn == "floyd_warshall":
        return f"(({cnat(n)}, {es}, {cbool(case['directed'])}), ({fw_res(P)}, {fw_res(R)}))"
    if fn == "bellman_ford":
        return f"(({cnat(case['source'])}, {es}, {cnat(n)}, {copt_nat(case['target'])}), ({bf_res(P, case)}, {bf_res(R, case)}))"
    if fn == "dijkstra_edges":
        return f"(({cnat(n)}, {es}, {cnat(case['source'])}, {copt_nat(case['target'])}), ({dij_res(P, case)}, {dij_res(R, case)}))"
    if fn in ("bfs_edges", "dfs_edges"):
        return f"(({cnat(n)}, {es}, {cnat(case['source'])}, {copt_nat(case['target'])}), ({es_res(P, case)}, {es_res(R, case)}))"
    if fn == "kruskal":
        return f"(({cnat(n)}, {es}, {cbool(case['allow_forest'])}), ({mst_obs(P)}, {mst_obs(R)}))"
    if fn == "strongly_connected_components_edges":
        return f"(({cnat(n)}, {es}), ({clist(P['solution'], lambda c: clist(c, cnat))}, {clist(R['solution'], lambda c: clist(c, cnat))}))"
    if fn == "topological_sort_edges":
        f = lambda o: "None" if o["solution"] is None else "(Some " + clist(o["solution"], cnat) + ")"  # noqa: E731
        return f"(({cnat(n)}, {es}), ({f(P)}, {f(R)}))"
    if fn == "pagerank_edges":
        if case["max_iter"] > 12 or Fraction(case["damping"]).denominator > 64:
            return None
        sc = lambda o: clist([v for _, v in o["solution"]["dict"]], lambda x: cq(Fraction(num(x))))  # noqa: E731
        return (f"(({cnat(n)}, {es}, {cq(Fraction(case['damping']))}), (({cnat(P['iterations'])}, {sc(P)}), ({cnat(R['iterations'])}, {sc(R)})))")
    return None



# ====================================================================== large witnesses (thorough tier only)
def _path_witness(n):
    """Path graph 0 -> 1 -> ... -> n-1 under both back-ends: bfs_edges / dfs_edges / dijkstra_edges, without target and
    with the last node as target.  (Regression of dd63c7e: the Python paths used to stop after 1_000_000 iterations.)"""
    from solvor.bfs import bfs_edges, dfs_edges
    from solvor.dijkstra import dijkstra_edges

    edges = [(i, i + 1) for i in range(n - 1)]
    wedges = [(i, i + 1, 1) for i in range(n - 1)]
    out = {}
    for b in ("python", "rust"):
        for name, fn, es in (("bfs_edges", bfs_edges, edges), ("dfs_edges", dfs_edges, edges), ("dijkstra_edges", dijkstra_edges, wedges)):
            r = fn(n, es, 0, backend=b)
            out[f"{name}/none/{b}"] = (r.status.name, len(r.solution) if r.solution is not None else None)
            r = fn(n, es, 0, target=n - 1, backend=b)
            out[f"{name}/target/{b}"] = (r.status.name, canon(r.objective), len(r.solution) if r.solution is not None else None)
    return out


def large_witnesses(ctx):
    d = VERIF / "corpus" / "C12"
    for f in sorted(d.glob("*.json")) if d.exists() else []:
        o = json.loads(f.read_text())
        if o.get("tier") != "thorough" or o.get("kind") != "path_graph":
            continue
        if ctx.tier != "thorough":
            ctx.count("corpus_thorough_only_skipped", f.name)
            continue
        n = int(o["n"])
        r = _in_child(_path_witness, n, timeout=300.0)
        ctx.evaluations += 12
        if r[0] != "ok":
            ctx.violation(f"large witness {f.name} (path graph, {n} nodes): {r}", {"witness": o})
            continue
        res = r[1]
        ctx.extra.setdefault("large_witnesses", {})[f.name] = res
        for name, found in (("bfs_edges", "OPTIMAL"), ("dfs_edges", "FEASIBLE"), ("dijkstra_edges", "OPTIMAL")):
            for b in ("python", "rust"):
                a, t = res[f"{name}/none/{b}"], res[f"{name}/target/{b}"]
                if tuple(a) != ("OPTIMAL", n) or tuple(t) != (found, n - 1, n):
                    ctx.violation(f"{name}(n={n}, path graph 0->1->..->{n - 1}, source 0, backend={b!r}): without target (status, #nodes) = {tuple(a)}, expected "
                                  f"('OPTIMAL', {n}); target={n - 1}: (status, objective, len(path)) = {tuple(t)}, expected ({found!r}, {n - 1}, {n})",
                                  {"witness": o, "observed": res})


# ====================================================================== the check
def shrink(case, still_fails):
    c = dict(case)
    changed = True
    while changed and len(c["edges"]) > 0:
        changed = False
        for i in range(len(c["edges"])):
            c2 = dict(c, edges=c["edges"][:i] + c["edges"][i + 1:])
            if still_fails(c2):
                c = c2
                changed = True
                break
    return c


def clean(case):
    return {k: v for k, v in case.items() if not k.startswith("_")}


def fails(case):
    outs = run_case_isolated(case)
    return any(k == "viol" for k, _ in judge(dict(case), outs))


def _corpus():
    out = []
    d = VERIF / "corpus" / "C12"
    if d.exists():
        for f in sorted(d.glob("*.json")):
            o = json.loads(f.read_text())
            c = o.get("case", o)
            if c.get("fn") in FNS:
                c = {k: v for k, v in c.items() if not k.startswith("_")}
                c["edges"] = [tuple(e) for e in c["edges"]]
                out.append(c)
    return out


def run(ctx: Ctx):
    ctx.rule = ("round-2 families added: weights at 2^31..10^18 and near-tolerance floats, option corners and max_iter sweeps 0..40, named shapes forcing rare "
                "histories, node ids >= 257, tuple containers, sizes 17..257 (..2049 thorough), by-construction instances up to 10^5 nodes / 10^6 arcs, and "
                "call sequences on one shared edge list (input not modified, answers independent of earlier calls); "
                "per function: corpus + fixed witnesses, then random multigraphs with n in 1..7 (..14 thorough), duplicate and anti-parallel arcs with different "
                "weights, self loops, isolated nodes, directed/undirected, with/without target, negative weights and cycles where supported, int and float weights; "
                "each case is run under backend='python', 'rust' (extension rebuilt from the working tree) and the default; "
                "non-trivial = at least 2 edges and (for target queries) a reachable target or (otherwise) a result with more than one finite entry; "
                "distinct = canonical JSON of the call")
    ctx.proof_step(["C12"])
    if (COQ / "Props" / "C12_deep.v").exists(): ctx.proof_step(["C12"], props_file="Props/C12_deep.v")
    info = setup(ctx.notes)
    ctx.extra["extension"] = info
    ctx.count("extension_mode", info.get("mode"))
    if not info.get("rust_available"):
        ctx.violation("the Rust extension is not importable from the shadow package: C12 cannot be checked", {"extension": info}, no_input=True)
        return
    if info.get("default_backend") != "rust" or info.get("auto_backend") != "rust":
        ctx.violation(f"get_backend() does not route to rust although the extension is available: {info}", {"extension": info}, no_input=True)
    ctx.notes.append(f"extension: {info.get('mode')} from {REPO}/rust (sources sha {info.get('rust_src_sha')}), imported from {info.get('ext_file')}")
    ctx.notes.append("floats: integer-weight cases go through the Z models (exact below 2^53); float-weight cases are judged by the Python oracle with "
                     "relative tolerance 1e-9 only; PageRank through exact rationals with tolerance 1e-9 on scores at the reported sweep count")
    ctx.notes.append("not compared (metadata, not part of C12): iterations / evaluations counters, rust pagerank objective 0.0; invalid inputs are outside C12")
    ctx.notes.append("rust SCC kernel: iterative Tarjan with explicit frames since 50224e7, same visiting order and output as the recursive kernel that "
                     "SV.C12.RsScc transliterates (the fuel-based recursive model describes the same function); tied by the correspondence on every run")
    ctx.notes.append("rust dijkstra: BinaryHeap tie-breaking among equal costs is not modelled; its path is checked as a walk of the reported weight, not literally")

    big = ctx.tier == "thorough"
    per_fn = ctx.budget(140, 1500)
    cases = _corpus() + [dict(c) for c in FIXED]
    for fn in FNS:
        cases += [gen_case(ctx.rng, fn, big) for _ in range(per_fn)]
    # round-2 families: magnitudes, option corners / sweeps, rare histories, fresh large labels, containers, medium sizes
    hard = hardening_cases(ctx.rng, ctx.budget(8, 60), big)
    for c in hard:
        ctx.count("family", c["_family"].split("-")[0] + ":" + c["fn"].replace("_edges", ""))
    cases += hard
    extra, cov = event_topup(ctx.rng, cases)
    for c in extra:
        ctx.count("family", "H-event:" + c["fn"].replace("_edges", ""))
    cases += extra
    for fn_, evs in EVENTS.items():
        for e in evs:
            ctx.count("events", e, cov.get(e, 0))

    results = []
    n_viol = 0
    all_outs = run_cases(cases)
    for case, outs in zip(cases, all_outs):
        ctx.evaluations += 3
        fn = case["fn"]
        probs = judge(case, outs)
        ctx.count("fn", fn)
        ctx.count("n", case["n"])
        if outs["python"][0] == "ok":
            ctx.count(f"status_{fn}", outs["python"][1]["status"])
        viol = [m for k, m in probs if k == "viol"]
        if viol:
            n_viol += 1
            if n_viol > 8:
                continue      # finish() reports the first five; do not spend time on more
            all_ok = all(outs[b][0] == "ok" for b in outs)
            small = shrink(clean(case), fails) if (all_ok and n_viol <= 3 and len(case["edges"]) <= 40) else clean(case)
            ctx.violation(viol[0] if small == clean(case) else f"{viol[0]}  [shrunk to {call_str(small)}]",
                          {"case": small, "original": clean(case), "outs": outs if small == clean(case) else run_case_isolated(small)})
        if len(case["edges"]) >= 2 and outs["python"][0] == "ok":
            o = outs["python"][1]
            nt = (o["solution"] is not None) if case.get("target") is not None else True
            if nt:
                ctx.nontriv(json.dumps(clean(case), sort_keys=True, default=str))
        ctx.sample({"call": call_str(case), "python": outs["python"][1] if outs["python"][0] == "ok" else outs["python"],
                    "rust": outs["rust"][1] if outs["rust"][0] == "ok" else outs["rust"]}, 4)
        results.append((case, outs, bool(viol)))

    large_witnesses(ctx)

    # ---- class S (large, by construction) : each item in its own child
    plan = big_plan(ctx.rng, big)
    work = work_counts(plan)
    # (the Rust kernel is an iterative Tarjan since 50224e7 - same visiting order and output as the recursive one that SV.C12.RsScc transliterates)
    for n_, shape_ in [(4099, "path"), (10001, "ring"), (50001, ctx.rng.choice(["path", "ring"])), (100001, ctx.rng.choice(["path", "ring"]))] + ([(2 ** 20 + 2, "path"), (2 ** 20 + 2, "ring")] if big else []):
        scc_deep(ctx, n_, shape_)
        work["scc.recursion_depth"] = max(work.get("scc.recursion_depth", 0), n_)
    work["pagerank.sweeps"] = max([c["max_iter"] for c in cases if c["fn"] == "pagerank_edges"] + [0])
    ctx.extra["work_max_per_loop"] = work
    for name, args in plan:
        r = _in_child(run_big, name, args, timeout=180.0)
        ctx.evaluations += 3
        ctx.count("big", name)
        if r[0] != "ok":
            ctx.violation(f"structured large instance {name}{tuple(args)}: the run {r[0]}: {r[1:]}", {"big": name, "args": args})
        elif r[1]:
            ctx.violation(f"structured large instance {name}{tuple(args)} (answer known by construction): {r[1][0]}", {"big": name, "args": args, "all": r[1][:6]})

    # ---- class X: float extremes, judged differentially (and against "raises under every back-end or under none")
    xcases = [gen_extreme(ctx.rng, fn) for fn in W_FNS + ["pagerank_edges"] for _ in range(ctx.budget(40, 400))]
    xcases += [{"fn": "bellman_ford", "n": 3, "edges": [(0, 1, -1e308), (1, 2, -1e308)], "source": 0, "target": None, "_family": "X"},
               {"fn": "floyd_warshall", "n": 3, "edges": [(0, 1, -1e308), (1, 2, -1e308)], "directed": True, "_family": "X"},
               {"fn": "bellman_ford", "n": 4, "edges": [(0, 1, 2.0 ** 60), (1, 2, -(2.0 ** 60)), (2, 3, 1e-3), (0, 3, 0.5)], "source": 0, "target": 3, "_family": "X"},
               {"fn": "dijkstra_edges", "n": 3, "edges": [(0, 1, 1e308), (1, 2, 1e308)], "source": 0, "target": 2, "_family": "X"},
               {"fn": "bellman_ford", "n": 3, "edges": [(0, 1, -1e308), (1, 0, -1e308)], "source": 0, "target": 1, "_family": "X"}]
    n_x = 0
    for case, outs in zip(xcases, run_cases(xcases)):
        ctx.evaluations += 3
        if outside_policy(case):
            # observation only: the call may return anything or raise; hangs are cut by the guard and counted
            kinds = sorted({("hang" if o[0] == "hang" else "raises" if o[0] == "exc" else "returns") for o in outs.values()})
            agree = all(o[0] == "ok" for o in outs.values()) and not judge_extreme(case, outs)
            ctx.count("observation_only", case["fn"].replace("_edges", "") + ":" + ("back-ends agree" if agree else "+".join(kinds) + (" (differ)" if kinds == ["returns"] else "")))
            continue
        ctx.count("family", "X:" + case["fn"].replace("_edges", ""))
        for kind, msg in judge_extreme(case, outs):
            n_x += 1
            if n_x <= 3:
                ctx.violation("float extremes: " + msg, {"xcase": clean(case), "outs": outs})
    ctx.notes.append("observation only (outside C12 by the coordinator's POLICY_X a-c): NaN / +-inf as weight or option, |value| >= 1e300 (sums overflow), "
                     "magnitudes whose exact sums exceed 2^53 in these float-valued APIs; such cases are run, never judged, and counted in histograms.observation_only")

    # ---- class A: one shared input object through consecutive calls (different functions / options / back-ends, random order)
    seqs = []
    for f in sorted((VERIF / "corpus" / "C12").glob("*.json")) if (VERIF / "corpus" / "C12").exists() else []:
        o = json.loads(f.read_text())
        if o.get("seq"):
            seqs.append(dict(o["seq"], edges=[tuple(e) for e in o["seq"]["edges"]]))
    seqs += [gen_sequence(ctx.rng) for _ in range(ctx.budget(160, 1500))]
    n_bad = 0
    for q, recs in zip(seqs, run_sequences(seqs)):
        ctx.evaluations += 2 * len(q["steps"])
        ctx.count("seq_steps", len(q["steps"]))
        msg = judge_sequence(q, recs)
        if msg:
            n_bad += 1
            if n_bad > 4:
                continue
            small = shrink_sequence(q) if n_bad <= 2 else q
            r1 = _in_child(run_sequence, small, timeout=15.0)
            ctx.violation(judge_sequence(small, r1[1]) if r1[0] == "ok" and judge_sequence(small, r1[1]) else msg, {"seq": small, "original": q})
        elif len(q["steps"]) >= 3:
            ctx.nontriv(json.dumps(q, sort_keys=True, default=str))

    # ---- correspondence, kernel-checked, one lemma family per function: (python model ~ backend='python') && (rust model ~ backend='rust')
    disagree = []
    for fn in FNS:
        metas, terms = [], []
        for case, outs, bad in results:
            if case["fn"] != fn or any(outs[b][0] != "ok" for b in outs):
                continue
            t = coq_case(case, outs["python"][1], outs["rust"][1])
            if t is None:
                ctx.count("coq_skipped", fn)
                continue
            metas.append((case, outs))
            terms.append(t)
        if not terms:
            continue
        ty, py_chk, rs_chk = coq_spec(fn)
        tag = {"strongly_connected_components_edges": "scc", "topological_sort_edges": "topo"}.get(fn, fn.replace("_edges", ""))
        failing = ctx.coq_check(tag, IMPORTS[fn], ty, f"fun c => ({py_chk}) && ({rs_chk})", terms, shard=120)
        ctx.traces_validated += 2 * (len(terms) - len(failing))
        ctx.count("coq_cases", fn, len(terms))
        if failing:
            sub = [terms[i] for i in failing]
            fpy = set(ctx.coq_check(tag + "_pyside", IMPORTS[fn], ty, f"fun c => {py_chk}", sub, shard=120))
            frs = set(ctx.coq_check(tag + "_rsside", IMPORTS[fn], ty, f"fun c => {rs_chk}", sub, shard=120))
            for k, i in enumerate(failing):
                side = "+".join(s for s, f in (("python-side model", fpy), ("rust-side model", frs)) if k in f) or "?"
                disagree.append((fn, side, metas[i][0], metas[i][1], terms[i]))

    # ---- correspondence / proof step broken and the oracle saw nothing: search harder, then report
    if (disagree or ctx.broken) and not ctx.violations:
        found = False
        fns = sorted({d[0] for d in disagree}) or FNS
        budget = 6000 if not big else 20000
        extra = [gen_case(ctx.rng, fns[k % len(fns)], True) for k in range(budget)]
        for case, outs in zip(extra, run_cases(extra, chunk=500)):
            ctx.evaluations += 3
            viol = [m for kd, m in judge(case, outs) if kd == "viol"]
            if viol:
                small = shrink(clean(case), fails)
                ctx.violation(f"{viol[0]}  [found by search after a broken correspondence/proof; shrunk to {call_str(small)}]",
                              {"case": small, "original": clean(case), "outs": run_case_isolated(small)})
                found = True
                break
        if not found:
            for fn, side, case, outs, term in disagree[:3]:
                ctx.violation(f"correspondence lemma for {fn}: {side} and the implementation differ on {call_str(case)} (no property violation found by the oracle)",
                              {"case": clean(case), "outs": outs, "coq_case": term, "lemma": f"Cases/C12/{fn}*.v corr", "side": side}, no_input=True)


def replay(obj):
    if obj.get("seq"):
        setup()
        q = dict(obj["seq"], edges=[tuple(e) for e in obj["seq"]["edges"]])
        r = _in_child(run_sequence, q, timeout=30.0)
        msg = judge_sequence(q, r[1]) if r[0] == "ok" else str(r)
        for st, rec in zip(q["steps"], r[1] if r[0] == "ok" else []):
            print(step_str(q, st), "->", rec["shared"], "| modified:", rec["modified"])
        print("VIOLATES: " + msg if msg else "oracle verdict: ok")
        return 1 if msg else 0
    if obj.get("xcase"):
        setup()
        case = dict(obj["xcase"], edges=[tuple(float(x) if isinstance(x, str) else x for x in e) for e in obj["xcase"]["edges"]])
        for k in ("damping", "tol"):
            if isinstance(case.get(k), str):
                case[k] = float(case[k])
        outs = run_case_isolated(case)
        for b in outs:
            print(b, "->", outs[b])
        msgs = judge_extreme(case, outs)
        for k, m in msgs:
            print("VIOLATES: " + m)
        return 1 if any(k == "viol" for k, _ in msgs) else 0
    if obj.get("big"):
        setup()
        r = _in_child(run_big, obj["big"], obj["args"], timeout=300.0)
        print(obj["big"], obj["args"], "->", r)
        return 1 if (r[0] != "ok" or r[1]) else 0
    case = obj.get("case")
    if case is None:
        print("replay names an unchecked obligation:", obj.get("unchecked") or obj.get("what"))
        return 1
    info = setup()
    print("extension:", info.get("mode"), info.get("ext_file"))
    case = dict(case, edges=[tuple(e) for e in case["edges"]])
    outs = run_case_isolated(case)
    for b in ("python", "rust", "default"):
        print(f"{call_str(case, None if b == 'default' else b)} ->", outs[b])
    probs = judge(case, outs)
    for k, m in probs:
        print("VIOLATES: " + m)
    if not probs:
        print("oracle verdict: ok")
    return 1 if any(k == "viol" for k, _ in probs) else 0
