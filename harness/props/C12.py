"""C12 - the Rust and the Python back-end of the nine accelerated functions are observably equivalent.

Tie to /repo (working tree) on every run:
  * the Rust extension is REBUILT from the working tree's rust/ (Cargo.toml, Cargo.lock, src/) into the scratch
    directory /verif/.rust-build (cargo build --release --offline; skipped when the sha256 of those sources is
    unchanged since the last build), a shadow package /verif/.rust-build/pkg*/solvor = the working tree's
    solvor/*.py + the freshly built library is made, and `solvor` is imported FROM THERE for this property;
  * every generated case is run with backend='python', backend='rust' and the default;
  * an independent Python oracle (naive relaxation / closure / union-find / exact-rational power iteration)
    judges all three results against the property itself and against each other;
  * the Gallina models are evaluated on the same inputs inside coqc: Python-side models (SV.C11/C13/C14/C15 and
    the *_edges wrappers in SV.C12) against backend='python', Rust-side models (SV.C12.Rs*) against backend='rust'.
The property theorems in Props/C12.v relate the two families of models.
"""
import fcntl
import hashlib
import importlib
import json
import os
import shutil
import subprocess
import sys
import time
from fractions import Fraction
from pathlib import Path

from harness.core import COQ, REPO, VERIF, Ctx, cbool, clist, cnat, copt, cq, cz, guarded

ID = "C12"
ANCHORS = [
    "solvor/rust/__init__.py", "solvor/rust/adapters.py",
    "rust/src/algorithms/floyd_warshall.rs", "rust/src/algorithms/bellman_ford.rs", "rust/src/algorithms/dijkstra.rs",
    "rust/src/algorithms/bfs.rs", "rust/src/algorithms/kruskal.rs", "rust/src/algorithms/pagerank.rs",
    "rust/src/algorithms/scc.rs", "rust/src/bindings/shortest_path.rs", "rust/src/bindings/traversal.rs",
    "rust/src/bindings/mst.rs", "rust/src/bindings/centrality.rs", "rust/src/bindings/components.rs",
    "solvor/floyd_warshall.py", "solvor/bellman_ford.py", "solvor/dijkstra.py", "solvor/bfs.py", "solvor/mst.py",
    "solvor/pagerank.py", "solvor/scc.py",
]
INF = float("inf")
BUILD = VERIF / ".rust-build"
SO_NAME = "_solvor_rust.cpython-312-x86_64-linux-gnu.so"

FNS = ["floyd_warshall", "bellman_ford", "dijkstra_edges", "bfs_edges", "dfs_edges", "kruskal", "pagerank_edges",
       "strongly_connected_components_edges", "topological_sort_edges"]


# ====================================================================== rebuild of the extension + shadow package
def _src_hash(rust_dir: Path) -> str:
    h = hashlib.sha256()
    files = [rust_dir / "Cargo.toml", rust_dir / "Cargo.lock"] + sorted((rust_dir / "src").rglob("*"))
    for f in files:
        if f.is_file():
            h.update(str(f.relative_to(rust_dir)).encode() + b"\0" + f.read_bytes() + b"\0")
    return h.hexdigest()[:20]


def build_extension(notes: list) -> tuple[Path, dict]:
    """Returns (directory to put first on sys.path, info).  info['mode'] is 'rebuilt' | 'cached' | 'fallback-installed'."""
    info = {"repo": str(REPO)}
    rust_dir = REPO / "rust"
    BUILD.mkdir(exist_ok=True)
    (BUILD / "so").mkdir(exist_ok=True)
    tag = "pkg" if str(REPO) == "/repo" else "pkg-" + hashlib.sha256(str(REPO).encode()).hexdigest()[:8]
    pkg = BUILD / tag
    with open(BUILD / ".lock", "w") as lock:
        fcntl.flock(lock, fcntl.LOCK_EX)
        so = None
        try:
            h = _src_hash(rust_dir)
            info["rust_src_sha"] = h
            cached = BUILD / "so" / f"{h}.so"
            if cached.exists():
                so, info["mode"] = cached, "cached"
            else:
                t0 = time.time()
                src = BUILD / "src"
                src.mkdir(exist_ok=True)
                subprocess.run(["rsync", "-a", "--delete", str(rust_dir / "Cargo.toml"), str(rust_dir / "Cargo.lock"),
                                str(rust_dir / "src"), str(src) + "/"], check=True, capture_output=True)
                target = BUILD / "target"
                if not target.exists() and (Path("/repo/rust/target")).exists():
                    shutil.copytree("/repo/rust/target", target, symlinks=True)
                env = dict(os.environ, CARGO_TARGET_DIR=str(target), PYO3_PYTHON=sys.executable)
                env["PATH"] = env.get("PATH", "") + ":" + str(Path.home() / ".cargo" / "bin")
                r = subprocess.run(["cargo", "build", "--release", "--offline"], cwd=src, env=env, capture_output=True,
                                   text=True, timeout=1500)
                info["cargo_s"] = round(time.time() - t0, 1)
                lib = target / "release" / "lib_solvor_rust.so"
                if r.returncode != 0 or not lib.exists():
                    info["cargo_error"] = (r.stdout + r.stderr)[-1500:]
                    raise RuntimeError("cargo build failed")
                shutil.copy2(lib, cached)
                (BUILD / "target.srchash").write_text(h + "\n")
                so, info["mode"] = cached, "rebuilt"
                olds = sorted((BUILD / "so").glob("*.so"), key=lambda p: p.stat().st_mtime)
                for o in olds[:-12]:
                    o.unlink()
        except Exception as e:  # noqa: BLE001
            info["mode"] = "fallback-installed"
            info["build_exception"] = f"{type(e).__name__}: {e}"
            so = REPO / "solvor" / SO_NAME
            notes.append("LOUD: the Rust extension could NOT be rebuilt from the working tree's rust/ (" + info["build_exception"]
                         + "); the INSTALLED " + str(so) + " was used instead - kernel edits in rust/ are not seen by this run")
        # shadow package: python files of the working tree + the library
        (pkg / "solvor").mkdir(parents=True, exist_ok=True)
        subprocess.run(["rsync", "-a", "--delete", "--exclude", "__pycache__", "--exclude", "*.so", "--exclude", "*.pyc",
                        str(REPO / "solvor") + "/", str(pkg / "solvor") + "/"], check=True, capture_output=True)
        dst = pkg / "solvor" / SO_NAME
        if so is not None and so.exists():
            if not dst.exists() or dst.stat().st_size != so.stat().st_size or hashlib.sha256(dst.read_bytes()).digest() != hashlib.sha256(so.read_bytes()).digest():
                tmp = dst.with_suffix(".tmp")
                shutil.copy2(so, tmp)
                os.replace(tmp, dst)
            info["so_sha"] = hashlib.sha256(dst.read_bytes()).hexdigest()[:16]
        else:
            info["mode"] = "no-extension"
            if dst.exists():
                dst.unlink()
    return pkg, info


def use_shadow(pkg: Path):
    """Make `import solvor` resolve to the shadow package (working-tree python + rebuilt extension)."""
    p = str(pkg)
    if p in sys.path:
        sys.path.remove(p)
    sys.path.insert(0, p)
    for m in list(sys.modules):
        if m == "solvor" or m.startswith("solvor."):
            del sys.modules[m]
    importlib.invalidate_caches()
    import solvor  # noqa: F401

    assert solvor.__file__.startswith(p), solvor.__file__


_SETUP = {}


def setup(notes=None):
    """Build + import once per process; returns info."""
    if "info" not in _SETUP:
        notes = notes if notes is not None else []
        pkg, info = build_extension(notes)
        use_shadow(pkg)
        from solvor.rust import get_backend, rust_available

        info["rust_available"] = bool(rust_available())
        if info["rust_available"]:
            import solvor._solvor_rust as ext

            info["ext_file"] = ext.__file__
            assert ext.__file__.startswith(str(pkg)), ext.__file__
            info["default_backend"] = get_backend(None)
            info["auto_backend"] = get_backend("auto")
        _SETUP["info"] = info
    return _SETUP["info"]


# ====================================================================== running the implementation
def _fn(name):
    mod = {"floyd_warshall": "floyd_warshall", "bellman_ford": "bellman_ford", "dijkstra_edges": "dijkstra", "bfs_edges": "bfs",
           "dfs_edges": "bfs", "kruskal": "mst", "pagerank_edges": "pagerank", "strongly_connected_components_edges": "scc",
           "topological_sort_edges": "scc"}[name]
    return getattr(importlib.import_module("solvor." + mod), name)


def call(case, backend):
    f = _fn(case["fn"])
    kw = {} if backend is None else {"backend": backend}
    n = case["n"]
    edges = [tuple(e) for e in case["edges"]]
    fn = case["fn"]
    if fn == "floyd_warshall":
        return f(n, edges, directed=case["directed"], **kw)
    if fn == "bellman_ford":
        return f(case["source"], edges, n, target=case["target"], **kw)
    if fn in ("dijkstra_edges", "bfs_edges", "dfs_edges"):
        return f(n, edges, case["source"], target=case["target"], **kw)
    if fn == "kruskal":
        return f(n, edges, allow_forest=case["allow_forest"], **kw)
    if fn == "pagerank_edges":
        return f(n, edges, damping=case["damping"], max_iter=case["max_iter"], tol=case["tol"], **kw)
    return f(n, edges, **kw)


def call_str(case, backend="<b>"):
    c = case
    e = [tuple(x) for x in c["edges"]]
    b = "" if backend in (None, "<b>") else f", backend={backend!r}"
    fn = c["fn"]
    if fn == "floyd_warshall":
        return f"floyd_warshall({c['n']}, {e}, directed={c['directed']}{b})"
    if fn == "bellman_ford":
        return f"bellman_ford({c['source']}, {e}, {c['n']}, target={c['target']}{b})"
    if fn in ("dijkstra_edges", "bfs_edges", "dfs_edges"):
        return f"{fn}({c['n']}, {e}, {c['source']}, target={c['target']}{b})"
    if fn == "kruskal":
        return f"kruskal({c['n']}, {e}, allow_forest={c['allow_forest']}{b})"
    if fn == "pagerank_edges":
        return f"pagerank_edges({c['n']}, {e}, damping={c['damping']}, max_iter={c['max_iter']}, tol={c['tol']}{b})"
    return f"{fn}({c['n']}, {e}{b})"


def canon(x):
    """JSON-able canonical form: ints for integral floats, 'inf'/'-inf', tuples -> lists, dict -> sorted items, set -> sorted."""
    if isinstance(x, bool) or x is None:
        return x
    if isinstance(x, float):
        if x == INF:
            return "inf"
        if x == -INF:
            return "-inf"
        if x != x:
            return "nan"
        return int(x) if x == int(x) and abs(x) < 2 ** 53 else x
    if isinstance(x, int):
        return x
    if isinstance(x, dict):
        return {"dict": [[canon(k), canon(v)] for k, v in sorted(x.items())]}
    if isinstance(x, (set, frozenset)):
        return {"set": sorted(canon(v) for v in x)}
    if isinstance(x, (list, tuple)):
        return [canon(v) for v in x]
    return repr(x)


def observe(case, backend):
    """-> ('ok', {'status','solution','objective','iterations', 'type'}) | ('exc', ..) | ('hang',)"""
    r = guarded(call, case, backend, timeout=5)
    if r[0] != "ok":
        return r
    res = r[1]
    return ("ok", {"status": res.status.name, "solution": canon(res.solution), "objective": canon(res.objective),
                   "iterations": res.iterations, "type": type(res.solution).__name__})


def run_case(case):
    return {b: observe(case, {"python": "python", "rust": "rust", "default": None}[b]) for b in ("python", "rust", "default")}


# A native kernel that loops forever holds the main thread outside the interpreter (SIGALRM handlers do not run), a Rust
# panic surfaces as a BaseException and an allocation failure aborts the process: all implementation runs therefore
# happen in forked children that the parent can kill; a hang / crash becomes an outcome of that case.
def _in_child(fn, *args, timeout=12.0):
    """Run fn(*args) in a forked child; -> ('ok', value) | ('hang',) | ('crash', detail)."""
    import multiprocessing as mp
    import resource
    import signal

    rd, wr = mp.Pipe(duplex=False)
    pid = os.fork()
    if pid == 0:
        code = 0
        try:
            rd.close()
            resource.setrlimit(resource.RLIMIT_AS, (2 << 30, 2 << 30))
            try:
                wr.send(("ok", fn(*args)))
            except BaseException as e:  # noqa: BLE001  (pyo3 PanicException is a BaseException)
                wr.send(("crash", f"{type(e).__name__}: {str(e)[:200]}"))
            wr.close()
        except BaseException:  # noqa: BLE001
            code = 3
        finally:
            os._exit(code)
    wr.close()
    try:
        if rd.poll(timeout):
            try:
                return rd.recv()
            except EOFError:
                return ("crash", "child process died (abort / out of memory / signal)")
        return ("hang",)
    finally:
        try:
            os.kill(pid, signal.SIGKILL)
        except ProcessLookupError:
            pass
        os.waitpid(pid, 0)
        rd.close()


def run_case_isolated(case):
    """Each back-end in its own child (used for shrinking and for cases that killed a batch)."""
    outs = {}
    for b in ("python", "rust", "default"):
        r = _in_child(observe, case, {"python": "python", "rust": "rust", "default": None}[b], timeout=8.0)
        outs[b] = r[1] if r[0] == "ok" else (("hang",) if r[0] == "hang" else ("exc", "Crash", r[1]))
    return outs


def _batch(cases):
    out = []
    for c in cases:
        try:
            out.append(run_case(c))
        except BaseException as e:  # noqa: BLE001
            out.append(None)
            break
    return out


def run_cases(cases, chunk=60):
    """run_case over all cases, in forked children of `chunk` cases; a chunk that hangs / dies is redone case by case."""
    results = []
    for k in range(0, len(cases), chunk):
        part = cases[k:k + chunk]
        r = _in_child(_batch, part, timeout=10.0 + 1.0 * len(part))
        if r[0] == "ok" and len(r[1]) == len(part) and all(x is not None for x in r[1]):
            results += r[1]
        else:
            results += [run_case_isolated(c) for c in part]
    return results


# ====================================================================== independent oracles
def num(x):
    return INF if x == "inf" else (-INF if x == "-inf" else x)


def close(a, b, tol=1e-9):
    a, b = num(a), num(b)
    if a == b:
        return True
    if not isinstance(a, (int, float)) or not isinstance(b, (int, float)) or a in (INF, -INF) or b in (INF, -INF):
        return False
    return abs(a - b) <= tol * max(1.0, abs(a), abs(b))


def integral(case):
    return all(isinstance(e[2], int) for e in case["edges"]) if case["edges"] and len(case["edges"][0]) == 3 else True


def ref_sssp(n, arcs, s):
    """(dist list, negative cycle reachable from s) by n-1 full relaxation rounds + one detection round."""
    d = [INF] * n
    d[s] = 0
    for _ in range(max(0, n - 1)):
        for u, v, c in arcs:
            if d[u] < INF and d[u] + c < d[v]:
                d[v] = d[u] + c
    neg = any(d[u] < INF and d[u] + c < d[v] for u, v, c in arcs)
    return d, neg


def ref_reach(n, edges, s):
    seen = {s}
    todo = [s]
    while todo:
        x = todo.pop()
        for e in edges:
            if e[0] == x and e[1] not in seen:
                seen.add(e[1])
                todo.append(e[1])
    return seen


def ref_levels(n, edges, s):
    level = {s: 0}
    frontier = [s]
    while frontier:
        nxt = []
        for x in frontier:
            for e in edges:
                if e[0] == x and e[1] not in level:
                    level[e[1]] = level[x] + 1
                    nxt.append(e[1])
        frontier = nxt
    return level


def walk_weights(path, arcs):
    """set of possible weights of the vertex sequence `path` (choice of parallel arcs); empty if not a walk."""
    sums = {0}
    for a, b in zip(path, path[1:]):
        ws = {c for u, v, c in arcs if u == a and v == b}
        if not ws:
            return set()
        sums = {x + w for x in sums for w in ws}
        if len(sums) > 4096:
            sums = set(sorted(sums)[:4096])
    return sums


def ref_scc(n, edges):
    r = [ref_reach(n, edges, s) for s in range(n)]
    return {frozenset(v for v in range(n) if v in r[u] and u in r[v]) for u in range(n)}


def ref_msf(n, edges):
    """(number of components, weight of a minimum spanning forest): sorted edges + naive label merging."""
    lab = list(range(n))
    total = 0
    k = 0
    for u, v, c in sorted(edges, key=lambda e: e[2]):
        if lab[u] != lab[v]:
            a, b = lab[u], lab[v]
            lab = [a if x == b else x for x in lab]
            total += c
            k += 1
    return n - k, total


def is_forest_of(n, tree, edges):
    pool = {}
    for e in edges:
        pool[tuple(e)] = pool.get(tuple(e), 0) + 1
    lab = list(range(n))
    for u, v, c in tree:
        key = (u, v, c)
        if pool.get(key, 0) <= 0:
            return False
        pool[key] -= 1
        if lab[u] == lab[v]:
            return False
        a, b = lab[u], lab[v]
        lab = [a if x == b else x for x in lab]
    return True


def pr_reference(n, edges, damping, max_iter):
    """Independent power iteration (neither back-end's code): list of (scores, max |delta|) per sweep.
    Exact rationals when max_iter <= 40 (denominators stay small enough), plain floats otherwise."""
    exact = max_iter <= 40
    F = Fraction if exact else float
    d = F(damping)
    out = [0] * n
    inc = [[] for _ in range(n)]
    for u, v in edges:
        out[u] += 1
        inc[v].append(u)
    s = [F(1) / n] * n
    res = []
    for _ in range(max_iter):
        dang = sum((s[i] for i in range(n) if out[i] == 0), F(0))
        new = [(1 - d) / n + d * sum((s[u] / out[u] for u in inc[v]), F(0)) + d * dang / n for v in range(n)]
        md = max(abs(a - b) for a, b in zip(new, s))
        res.append((new, md))
        s = new
        if not exact and md == 0:
            res += [(new, md)] * (max_iter - len(res))
            break
    return res, exact


def judge(case, outs):
    """-> list of (kind, message).  kind 'viol' = property violated."""
    fn = case["fn"]
    n = case["n"]
    edges = [tuple(e) for e in case["edges"]]
    probs = []

    def bad(msg):
        probs.append(("viol", f"{call_str(case)}: {msg}"))

    for b, o in outs.items():
        if o[0] != "ok":
            bad(f"backend={b} {o[0]}: {o[1:]}")
    if probs:
        return probs
    P, R, D = outs["python"][1], outs["rust"][1], outs["default"][1]
    exact = integral(case)

    def eqnum(a, b):
        return (num(a) == num(b)) if exact else close(a, b)

    # ---- default must behave like the rust path (rust is available), and meaning never depends on the back-end
    trio = (("python", P), ("rust", R), ("default", D))
    if fn != "pagerank_edges":
        sts = {o["status"] for _, o in trio}
        if len(sts) != 1:
            bad("status differs: " + ", ".join(f"{b}={o['status']}" for b, o in trio))
            return probs
    for b, o in trio:
        if o["type"] != P["type"]:
            bad(f"solution type {b}={o['type']} python={P['type']}")

    if fn == "floyd_warshall":
        arcs = edges if case["directed"] else edges + [(v, u, c) for u, v, c in edges]
        ref = [ref_sssp(n, arcs, s) for s in range(n)]
        neg = any(x[1] for x in ref)
        for b, o in trio:
            if neg:
                if (o["status"], o["solution"], o["objective"]) != ("UNBOUNDED", None, "-inf"):
                    bad(f"{b}: a negative cycle exists, expected UNBOUNDED/None/-inf, got {o['status']}/{o['solution']}/{o['objective']}")
            else:
                if o["status"] != "OPTIMAL" or o["objective"] != 0:
                    bad(f"{b}: expected OPTIMAL with objective 0, got {o['status']}/{o['objective']}")
                elif not (isinstance(o["solution"], list) and len(o["solution"]) == n and all(len(r) == n for r in o["solution"])):
                    bad(f"{b}: not an n x n matrix: {o['solution']}")
                else:
                    for i in range(n):
                        for j in range(n):
                            if not eqnum(o["solution"][i][j], ref[i][0][j]):
                                bad(f"{b}: dist[{i}][{j}]={o['solution'][i][j]} expected {ref[i][0][j]}")
                                break
                        else:
                            continue
                        break
    elif fn in ("bellman_ford", "dijkstra_edges"):
        s, t = case["source"], case["target"]
        dist, neg = ref_sssp(n, edges, s)
        for b, o in trio:
            if neg:
                if (o["status"], o["solution"], o["objective"]) != ("UNBOUNDED", None, "-inf"):
                    bad(f"{b}: negative cycle reachable, expected UNBOUNDED/None/-inf, got {o['status']}/{o['solution']}/{o['objective']}")
            elif t is None:
                want = [[i, x] for i, x in enumerate(dist) if x < INF]
                got = o["solution"].get("dict") if isinstance(o["solution"], dict) else None
                if o["status"] != "OPTIMAL" or got is None or [k for k, _ in got] != [k for k, _ in want]:
                    bad(f"{b}: reachable set {got} expected {want} (status {o['status']})")
                elif any(not eqnum(x, y) for (_, x), (_, y) in zip(got, want)):
                    bad(f"{b}: distances {got} expected {want}")
                elif o["objective"] != 0:
                    bad(f"{b}: objective {o['objective']} expected 0")
            elif dist[t] == INF:
                if (o["status"], o["solution"], o["objective"]) != ("INFEASIBLE", None, "inf"):
                    bad(f"{b}: target unreachable, expected INFEASIBLE/None/inf, got {o['status']}/{o['solution']}/{o['objective']}")
            else:
                p = o["solution"]
                if o["status"] != "OPTIMAL" or not eqnum(o["objective"], dist[t]):
                    bad(f"{b}: {o['status']} objective {o['objective']} expected OPTIMAL {dist[t]}")
                elif not isinstance(p, list) or not p or p[0] != s or p[-1] != t:
                    bad(f"{b}: {p} is not a path {s}->{t}")
                else:
                    ws = walk_weights(p, edges)
                    if not any(eqnum(w, o["objective"]) for w in ws):
                        bad(f"{b}: path {p} has possible weights {sorted(ws)[:5]}, reported {o['objective']}")
    elif fn in ("bfs_edges", "dfs_edges"):
        s, t = case["source"], case["target"]
        seen = ref_reach(n, edges, s)
        level = ref_levels(n, edges, s)
        arcs = {(e[0], e[1]) for e in edges}
        want_found = "OPTIMAL" if fn == "bfs_edges" else "FEASIBLE"
        for b, o in trio:
            if t is None:
                if (o["status"], o["solution"], o["objective"]) != ("OPTIMAL", sorted(seen), 0):
                    bad(f"{b}: expected OPTIMAL/{sorted(seen)}/0 got {o['status']}/{o['solution']}/{o['objective']}")
            elif t not in seen:
                if (o["status"], o["solution"], o["objective"]) != ("INFEASIBLE", None, "inf"):
                    bad(f"{b}: target unreachable, expected INFEASIBLE/None/inf, got {o['status']}/{o['solution']}/{o['objective']}")
            else:
                p = o["solution"]
                ok = isinstance(p, list) and p and p[0] == s and p[-1] == t and len(set(p)) == len(p) and all((a, c) in arcs for a, c in zip(p, p[1:]))
                if not ok:
                    bad(f"{b}: {p} is not a simple path {s}->{t}")
                elif o["objective"] != len(p) - 1:
                    bad(f"{b}: objective {o['objective']} for path {p}")
                elif fn == "bfs_edges" and len(p) - 1 != level[t]:
                    bad(f"{b}: path {p} is not shortest ({level[t]} edges)")
                elif o["status"] != want_found:
                    bad(f"{b}: status {o['status']} expected {want_found}")
    elif fn == "kruskal":
        comps, weight = ref_msf(n, edges)
        for b, o in trio:
            if comps > 1 and not case["allow_forest"]:
                if (o["status"], o["solution"], o["objective"]) != ("INFEASIBLE", None, "inf"):
                    bad(f"{b}: disconnected, expected INFEASIBLE/None/inf, got {o['status']}/{o['solution']}/{o['objective']}")
                continue
            want = "OPTIMAL" if comps == 1 else "FEASIBLE"
            t = [tuple(num(x) for x in e) for e in (o["solution"] or [])]
            if o["status"] != want:
                bad(f"{b}: status {o['status']} expected {want}")
            elif not eqnum(o["objective"], weight):
                bad(f"{b}: total weight {o['objective']} expected {weight}")
            elif len(t) != n - comps or not is_forest_of(n, t, edges):
                bad(f"{b}: {t} is not a spanning forest of the input")
            elif not close(sum(e[2] for e in t), o["objective"]):
                bad(f"{b}: edges {t} do not sum to the objective {o['objective']}")
    elif fn == "strongly_connected_components_edges":
        want = ref_scc(n, edges)
        for b, o in trio:
            sol = o["solution"]
            part = {frozenset(c) for c in sol} if isinstance(sol, list) else None
            if o["status"] != "OPTIMAL" or part != want or sum(len(c) for c in sol) != n:
                bad(f"{b}: components {sol} expected {sorted(map(sorted, want))}")
            elif o["objective"] != len(want):
                bad(f"{b}: objective {o['objective']} expected {len(want)}")
            else:
                pos = {v: i for i, c in enumerate(sol) for v in c}
                if any(pos[u] < pos[v] for u, v in edges):
                    bad(f"{b}: components {sol} are not in reverse topological order")
    elif fn == "topological_sort_edges":
        cyclic = any(len(c) > 1 for c in ref_scc(n, edges)) or any(u == v for u, v in edges)
        for b, o in trio:
            if cyclic:
                if (o["status"], o["solution"], o["objective"]) != ("INFEASIBLE", None, 0):
                    bad(f"{b}: cyclic graph, expected INFEASIBLE/None/0, got {o['status']}/{o['solution']}/{o['objective']}")
            else:
                sol = o["solution"]
                if o["status"] != "OPTIMAL" or not isinstance(sol, list) or sorted(sol) != list(range(n)):
                    bad(f"{b}: {o['status']} order {sol}")
                    continue
                pos = {v: i for i, v in enumerate(sol)}
                if any(pos[u] >= pos[v] for u, v in edges):
                    bad(f"{b}: order {sol} violates an edge")
                elif o["objective"] != n:
                    bad(f"{b}: objective {o['objective']} expected {n}")
    elif fn == "pagerank_edges":
        tol, mi = case["tol"], case["max_iter"]
        ex, exact_ref = pr_reference(n, edges, case["damping"], mi)
        eps = 1e-9
        scores = {}
        for b, o in trio:
            sol = o["solution"].get("dict") if isinstance(o["solution"], dict) else None
            if sol is None or [k for k, _ in sol] != list(range(n)):
                bad(f"{b}: keys {sol}")
                return probs
            scores[b] = [num(v) for _, v in sol]
            it = o["iterations"]
            if not (0 <= it <= mi) or (it == 0 and mi > 0):
                bad(f"{b}: iterations {it} outside 1..{mi}")
                return probs
            want = ex[it - 1][0] if it >= 1 else [1 / n] * n
            if any(abs(x - float(w)) > eps for x, w in zip(scores[b], want)):
                bad(f"{b}: scores {scores[b]} are not sweep {it} of the power iteration {[float(w) for w in want]}")
                return probs
        if D["status"] != R["status"] or any(abs(x - y) > 1e-12 for x, y in zip(scores["default"], scores["rust"])):
            bad(f"default ({D['status']}, {scores['default']}) differs from rust ({R['status']}, {scores['rust']})")
        # the stopping rule (max |delta| < tol) decides the status; not judged when the reference run is too close to the threshold
        first = next((k + 1 for k, (_, md) in enumerate(ex) if md < tol), None)
        rel = 1e-6 if exact_ref else 1e-3
        margin_ok = all(abs(float(md) - tol) > tol * rel for _, md in ex)
        ctx_margin = "safe" if margin_ok else "near-threshold"
        case["_pr_margin"] = ctx_margin
        if margin_ok:
            want_status = "OPTIMAL" if first is not None else "MAX_ITER"
            for b, o in trio:
                if o["status"] != want_status:
                    bad(f"{b}: status {o['status']} (after {o['iterations']} sweeps) expected {want_status}"
                        + (f" after {first}" if first else "") + f" by the max|delta| < tol rule; python={P['status']}/{P['iterations']} rust={R['status']}/{R['iterations']}")
                    break
        if P["status"] == R["status"] == "OPTIMAL" and any(abs(x - y) > max(1e-6, 10 * tol) for x, y in zip(scores["python"], scores["rust"])):
            bad(f"converged scores differ by more than the tolerance: py={scores['python']} rs={scores['rust']}")
        if P["status"] != R["status"] and not probs:
            near = max((abs(x - y) for x, y in zip(scores["python"], scores["rust"])), default=0) <= 10 * tol
            if not (near and not margin_ok):
                bad(f"status python={P['status']} rust={R['status']}")

    # ---- direct differential on what the property calls "identical"
    if fn in ("floyd_warshall", "bfs_edges", "dfs_edges", "strongly_connected_components_edges", "topological_sort_edges", "kruskal",
              "bellman_ford", "dijkstra_edges") and not probs:
        for b, o in (("rust", R), ("default", D)):
            # a DFS path is only required to be a valid path: its length (the objective) may differ between back-ends
            if fn == "dfs_edges" and case["target"] is not None:
                continue
            if not eqnum(o["objective"], P["objective"]):
                bad(f"objective {b}={o['objective']} python={P['objective']}")
    return probs


# ====================================================================== generators
def gen_wedges(rng, n, negative=False, loops=True, floats=False, maxm=None):
    def w():
        if negative and rng.random() < 0.25:
            return rng.choice([-3, -2, -1, -1]) if not floats else rng.choice([-3, -2, -1, -0.5])
        if floats and rng.random() < 0.35:
            return round(rng.uniform(0, 9), 2)
        return rng.randint(0, 9) if rng.random() < 0.8 else rng.randint(0, 2)

    edges = []
    m = rng.randint(0, maxm if maxm is not None else 2 * n + 2)
    for _ in range(m):
        u, v = rng.randrange(n), rng.randrange(n)
        if u == v and (not loops or rng.random() < 0.5):
            continue
        edges.append((u, v, w()))
        r = rng.random()
        if r < 0.2:
            edges.append((u, v, w()))      # duplicate arc, other weight
        elif r < 0.4:
            edges.append((v, u, w()))      # anti-parallel arc, other weight
    rng.shuffle(edges)
    return edges


def gen_edges(rng, n, loops=True):
    return [(u, v) for u, v, _ in gen_wedges(rng, n, loops=loops)]


def gen_dag(rng, n):
    perm = list(range(n))
    rng.shuffle(perm)
    edges = []
    if n > 1:
        for _ in range(rng.randint(0, 2 * n + 2)):
            a, b = sorted(rng.sample(range(n), 2))
            edges.append((perm[a], perm[b]))
            if rng.random() < 0.2:
                edges.append((perm[a], perm[b]))
    rng.shuffle(edges)
    return edges


def pick_n(rng, big=False):
    return rng.choice([1, 2, 2, 3, 3, 4, 4, 5, 5, 6, 7] + ([8, 10, 14] if big else []))


def gen_case(rng, fn, big=False):
    n = pick_n(rng, big)
    floats = rng.random() < 0.2
    if fn == "floyd_warshall":
        directed = rng.random() < 0.5
        neg = rng.random() < (0.55 if directed else 0.15)
        return {"fn": fn, "n": n, "edges": gen_wedges(rng, n, negative=neg, floats=floats), "directed": directed}
    if fn == "bellman_ford":
        edges = gen_wedges(rng, n, negative=rng.random() < 0.6, floats=floats)
        return {"fn": fn, "n": n, "edges": edges, "source": rng.randrange(n), "target": rng.choice([None, rng.randrange(n), rng.randrange(n)])}
    if fn == "dijkstra_edges":
        return {"fn": fn, "n": n, "edges": gen_wedges(rng, n, floats=floats), "source": rng.randrange(n),
                "target": rng.choice([None, rng.randrange(n), rng.randrange(n)])}
    if fn in ("bfs_edges", "dfs_edges"):
        return {"fn": fn, "n": n, "edges": gen_edges(rng, n), "source": rng.randrange(n), "target": rng.choice([None, rng.randrange(n), rng.randrange(n)])}
    if fn == "kruskal":
        edges = gen_wedges(rng, n, negative=rng.random() < 0.3, floats=floats)
        if rng.random() < 0.55 and n > 1:
            edges += [(i, rng.randrange(i), rng.randint(0, 9)) for i in range(1, n)]
            rng.shuffle(edges)
        return {"fn": fn, "n": n, "edges": edges, "allow_forest": rng.random() < 0.5}
    if fn == "pagerank_edges":
        mode = rng.random()
        if mode < 0.45:   # exact-model friendly: dyadic damping, few sweeps
            return {"fn": fn, "n": n, "edges": gen_edges(rng, n), "damping": rng.choice([0.5, 0.75, 0.875]), "max_iter": rng.choice([1, 2, 3, 5, 8, 12]),
                    "tol": rng.choice([1e-2, 1e-3, 1e-6])}
        if mode < 0.75:   # near max_iter: the status depends on the stopping rule
            return {"fn": fn, "n": n, "edges": gen_edges(rng, n), "damping": 0.85, "max_iter": rng.choice([3, 5, 8, 13, 21, 34]), "tol": 1e-6}
        return {"fn": fn, "n": n, "edges": gen_edges(rng, n), "damping": rng.choice([0.85, 0.5, 0.99]), "max_iter": 400 if rng.random() < 0.5 else 2000,
                "tol": 1e-12 if rng.random() < 0.6 else 1e-6}
    if fn == "strongly_connected_components_edges":
        return {"fn": fn, "n": n, "edges": gen_edges(rng, n)}
    if fn == "topological_sort_edges":
        return {"fn": fn, "n": n, "edges": gen_edges(rng, n, loops=rng.random() < 0.3) if rng.random() < 0.35 else gen_dag(rng, n)}
    raise KeyError(fn)


FIXED = [
    # witnesses of the four fixed adapter defects
    {"fn": "floyd_warshall", "n": 2, "edges": [(0, 1, 5), (1, 0, 2)], "directed": False},
    {"fn": "floyd_warshall", "n": 2, "edges": [(1, 0, 2), (0, 1, 5)], "directed": False},
    {"fn": "floyd_warshall", "n": 3, "edges": [(0, 1, 4), (0, 1, 1), (1, 2, 7), (2, 1, 3)], "directed": False},
    {"fn": "bfs_edges", "n": 4, "edges": [(0, 2), (0, 1), (2, 3)], "source": 0, "target": None},
    {"fn": "dfs_edges", "n": 4, "edges": [(0, 2), (0, 1), (2, 3)], "source": 0, "target": None},
    {"fn": "dfs_edges", "n": 3, "edges": [(0, 1), (1, 2)], "source": 0, "target": 2},
    {"fn": "bfs_edges", "n": 3, "edges": [(0, 1), (1, 2)], "source": 0, "target": 2},
    {"fn": "topological_sort_edges", "n": 3, "edges": [(0, 1), (2, 1)]},
    # edge cases of the quantifier
    {"fn": "floyd_warshall", "n": 1, "edges": [], "directed": True},
    {"fn": "floyd_warshall", "n": 1, "edges": [(0, 0, -1)], "directed": True},
    {"fn": "floyd_warshall", "n": 2, "edges": [(0, 1, -1)], "directed": False},
    {"fn": "floyd_warshall", "n": 3, "edges": [(0, 1, 1), (1, 2, -1), (2, 0, -1)], "directed": True},
    {"fn": "bellman_ford", "n": 3, "edges": [(0, 1, 1), (1, 2, 1), (2, 0, -3)], "source": 0, "target": None},
    {"fn": "bellman_ford", "n": 4, "edges": [(1, 2, -1), (2, 1, -1), (0, 3, 2)], "source": 0, "target": 3},
    {"fn": "bellman_ford", "n": 1, "edges": [(0, 0, 0)], "source": 0, "target": 0},
    {"fn": "dijkstra_edges", "n": 3, "edges": [(0, 1, 0), (1, 2, 0), (0, 2, 0)], "source": 0, "target": 2},
    {"fn": "dijkstra_edges", "n": 2, "edges": [], "source": 1, "target": 0},
    {"fn": "kruskal", "n": 1, "edges": [(0, 0, 3)], "allow_forest": False},
    {"fn": "kruskal", "n": 3, "edges": [(0, 1, 1)], "allow_forest": True},
    {"fn": "kruskal", "n": 3, "edges": [(0, 1, 2), (1, 0, 2), (1, 2, 2), (2, 0, 2)], "allow_forest": False},
    {"fn": "pagerank_edges", "n": 3, "edges": [(1, 2), (2, 0), (2, 0), (2, 1)], "damping": 0.85, "max_iter": 13, "tol": 1e-6},
    {"fn": "pagerank_edges", "n": 3, "edges": [(0, 1), (1, 2), (2, 0), (0, 2)], "damping": 0.85, "max_iter": 100, "tol": 1e-6},
    {"fn": "pagerank_edges", "n": 1, "edges": [(0, 0)], "damping": 0.5, "max_iter": 3, "tol": 1e-6},
    {"fn": "strongly_connected_components_edges", "n": 4, "edges": [(0, 1), (1, 2), (2, 0), (2, 3)]},
    {"fn": "topological_sort_edges", "n": 3, "edges": [(0, 1), (1, 2), (2, 0)]},
    {"fn": "topological_sort_edges", "n": 4, "edges": [(3, 1), (2, 1), (0, 2), (0, 3)]},
]


# ====================================================================== Coq terms
def cedge3(e):
    return f"({cnat(e[0])}, {cnat(e[1])}, {cz(e[2])})"


def cedge2(e):
    return f"({cnat(e[0])}, {cnat(e[1])})"


def coz(x):
    x = num(x)
    return "None" if x == INF else f"(Some {cz(x)})"


def copt_nat(t):
    return "None" if t is None else f"(Some {cnat(t)})"


def is_int_obs(o):
    """all numbers in the canonical observable are ints / inf (Z model applicable)."""
    def ok(x):
        if isinstance(x, float):
            return False
        if isinstance(x, dict):
            return all(ok(v) for v in x.values())
        if isinstance(x, list):
            return all(ok(v) for v in x)
        return True
    return ok(o["solution"]) and ok(o["objective"])


def fw_res(o):
    if o["status"] == "UNBOUNDED":
        return "FW.Unbounded"
    if o["status"] == "OPTIMAL" and isinstance(o["solution"], list):
        return "(FW.Dist " + clist(o["solution"], lambda r: clist(r, coz)) + ")"
    return "FW.Error"


def dvec(o, n):
    d = dict((k, v) for k, v in o["solution"]["dict"])
    return clist([d.get(i, "inf") for i in range(n)], coz)


def bf_res(o, case):
    if o["status"] == "UNBOUNDED":
        return "BF.Unbounded"
    if o["status"] == "INFEASIBLE":
        return "BF.Infeasible"
    if o["status"] == "OPTIMAL" and case["target"] is None and isinstance(o["solution"], dict):
        return f"(BF.Dists {dvec(o, case['n'])})"
    if o["status"] == "OPTIMAL" and isinstance(o["solution"], list) and isinstance(o["objective"], int):
        return f"(BF.Path {clist(o['solution'], cnat)} {cz(o['objective'])})"
    return "BF.Error"


def dij_res(o, case):
    if o["status"] == "INFEASIBLE" and o["solution"] is None:
        return "RsDij.Infeasible"
    if o["status"] == "OPTIMAL" and case["target"] is None and isinstance(o["solution"], dict):
        return f"(RsDij.Dists {dvec(o, case['n'])})"
    if o["status"] == "OPTIMAL" and isinstance(o["solution"], list) and isinstance(o["objective"], int):
        return f"(RsDij.Path {clist(o['solution'], cnat)} {cz(o['objective'])})"
    return "RsDij.Hang"


def es_res(o, case):
    if case["target"] is None and o["status"] == "OPTIMAL" and isinstance(o["solution"], list) and o["objective"] == 0:
        return f"(ES.Reach {clist(o['solution'], cnat)})"
    if o["solution"] is None and o["objective"] == "inf":
        return f"(ES.NotFound ES.{o['status']})"
    if isinstance(o["solution"], list) and isinstance(o["objective"], int) and o["status"] in ("OPTIMAL", "FEASIBLE"):
        return f"(ES.Found ES.{o['status']} {clist(o['solution'], cnat)} {cz(o['objective'])})"
    return "ES.Hang"


def mst_obs(o):
    sol = "None" if o["solution"] is None else "(Some " + clist(o["solution"], cedge3) + ")"
    obj = "None" if o["objective"] == "inf" else f"(Some {cz(o['objective'])})"
    return f"(Mst.{o['status']}, {sol}, {obj})"


IMPORTS = {
    "floyd_warshall": "From SV Require Import C11.Paths C11.FloydWarshall C12.RsShortest.",
    "bellman_ford": "From SV Require Import C11.Paths C11.BellmanFord C12.RsShortest.",
    "dijkstra_edges": "From SV Require Import C11.Paths C12.RsShortest C12.PyDijkstra.",
    "bfs_edges": "From SV Require Import C12.RsSearch.",
    "dfs_edges": "From SV Require Import C12.RsSearch.",
    "kruskal": "From SV Require C13.Mst.\nFrom SV Require Import C12.RsKruskal.\nModule Mst := SV.C13.Mst.",
    "strongly_connected_components_edges": "From SV Require C14.Scc.\nFrom SV Require Import C12.RsScc.",
    "topological_sort_edges": "From SV Require C14.Scc.\nFrom SV Require Import C12.RsScc.",
    "pagerank_edges": "From Coq Require Import QArith.\nFrom SV Require Import C15.Graph C15.PageRank C12.RsPageRank.",
}

# (case type, python-side check, rust-side check); a case is (input, (python observable, rust observable))
def coq_spec(fn):
    W = "(nat * nat * Z)"
    E = "(nat * nat)"
    if fn == "floyd_warshall":
        ty = f"(nat * list {W} * bool) * (FW.result * FW.result)"
        inp = "(fst (fst (fst c))) (snd (fst (fst c))) (snd (fst c))"
        return ty, f"FW.result_eqb (FW.floyd_warshall {inp}) (fst (snd c))", f"FW.result_eqb (RsFW.floyd_warshall {inp}) (snd (snd c))"
    if fn == "bellman_ford":
        ty = f"(nat * list {W} * nat * option nat) * (BF.result * BF.result)"
        inp = "(snd (fst (fst (fst c)))) (snd (fst (fst (fst (fst c))))) (fst (fst (fst (fst (fst c))))) (snd (fst c))"
        # tuple is (((start, edges), n), target)
        ty = f"(nat * list {W} * nat * option nat) * (BF.result * BF.result)"
        inp = "(fst (fst (fst (fst c)))) (snd (fst (fst (fst c)))) (snd (fst (fst c))) (snd (fst c))"
        return ty, f"BF.result_eqb (BF.bellman_ford {inp}) (fst (snd c))", f"BF.result_eqb (RsBF.bellman_ford {inp}) (snd (snd c))"
    if fn == "dijkstra_edges":
        ty = f"(nat * list {W} * nat * option nat) * (RsDij.result * RsDij.result)"
        inp = "(fst (fst (fst (fst c)))) (snd (fst (fst (fst c)))) (snd (fst (fst c))) (snd (fst c))"
        return (ty, f"PyDij.obs_eqb (PyDij.dijkstra_edges {inp}) (fst (snd c))",
                f"RsDij.obs_ok (snd (fst (fst (fst c)))) (snd (fst (fst c))) (snd (fst c)) (RsDij.dijkstra {inp}) (snd (snd c))")
    if fn in ("bfs_edges", "dfs_edges"):
        ty = f"(nat * list {E} * nat * option nat) * (ES.result * ES.result)"
        inp = "(fst (fst (fst (fst c)))) (snd (fst (fst (fst c)))) (snd (fst (fst c))) (snd (fst c))"
        return ty, f"ES.obs_eqb (PyEdges.{fn} {inp}) (fst (snd c))", f"ES.obs_eqb (RsSearch.{fn} {inp}) (snd (snd c))"
    if fn == "kruskal":
        ty = f"(nat * list {W} * bool) * (Mst.obs * Mst.obs)"
        inp = "(fst (fst (fst c))) (snd (fst (fst c))) (snd (fst c))"
        return ty, f"RsKruskal.obs_ok (RsKruskal.py_kruskal {inp}) (fst (snd c))", f"RsKruskal.obs_ok (RsKruskal.kruskal {inp}) (snd (snd c))"
    if fn == "strongly_connected_components_edges":
        ty = f"(nat * list {E}) * (list (list nat) * list (list nat))"
        inp = "(fst (fst c)) (snd (fst c))"
        return (ty, f"SV.C14.Scc.scc_obs_eqb (SV.C14.Scc.scc_edges {inp}) (Some (fst (snd c)))",
                f"SV.C14.Scc.scc_obs_eqb (RsScc.scc_edges {inp}) (Some (snd (snd c)))")
    if fn == "topological_sort_edges":
        ty = f"(nat * list {E}) * (option (list nat) * option (list nat))"
        inp = "(fst (fst c)) (snd (fst c))"
        return (ty, f"SV.C14.Scc.topo_obs_eqb (SV.C14.Scc.topo_edges {inp}) (Some (fst (snd c)))",
                f"SV.C14.Scc.topo_obs_eqb (RsScc.topo_edges {inp}) (Some (snd (snd c)))")
    if fn == "pagerank_edges":
        # ((n, edges, damping), ((it_py, scores_py), (it_rs, scores_rs)))
        ty = f"(nat * list {E} * Q) * ((nat * list Q) * (nat * list Q))"
        n, es, d = "(fst (fst (fst c)))", "(snd (fst (fst c)))", "(snd (fst c))"
        eps = "(1 # 1000000000)"
        py = (f"RsPR.all_close {eps} (map (score (iterate (fst (fst (snd c))) (RsPR.py_graph {n} {es}) {d} (init_scores (RsPR.py_graph {n} {es})))) (seq 0 {n})) "
              f"(snd (fst (snd c)))")
        rs = f"RsPR.corr_iter {eps} {n} {es} {d} (fst (snd (snd c))) (snd (snd (snd c)))"
        return ty, py, rs
    raise KeyError(fn)


def coq_case(case, P, R):
    """Coq literal of one case, or None when the Z / small-Q models do not apply."""
    fn, n = case["fn"], case["n"]
    if fn in ("floyd_warshall", "bellman_ford", "dijkstra_edges", "kruskal"):
        if not integral(case) or not is_int_obs(P) or not is_int_obs(R):
            return None
        es = clist(case["edges"], cedge3)
    else:
        es = clist(case["edges"], cedge2)
    if fn == "floyd_warshall":
        return f"(({cnat(n)}, {es}, {cbool(case['directed'])}), ({fw_res(P)}, {fw_res(R)}))"
    if fn == "bellman_ford":
        return f"(({cnat(case['source'])}, {es}, {cnat(n)}, {copt_nat(case['target'])}), ({bf_res(P, case)}, {bf_res(R, case)}))"
    if fn == "dijkstra_edges":
        return f"(({cnat(n)}, {es}, {cnat(case['source'])}, {copt_nat(case['target'])}), ({dij_res(P, case)}, {dij_res(R, case)}))"
    if fn in ("bfs_edges", "dfs_edges"):
        return f"(({cnat(n)}, {es}, {cnat(case['source'])}, {copt_nat(case['target'])}), ({es_res(P, case)}, {es_res(R, case)}))"
    if fn == "kruskal":
        return f"(({cnat(n)}, {es}, {cbool(case['allow_forest'])}), ({mst_obs(P)}, {mst_obs(R)}))"
    if fn == "strongly_connected_components_edges":
        return f"(({cnat(n)}, {es}), ({clist(P['solution'], lambda c: clist(c, cnat))}, {clist(R['solution'], lambda c: clist(c, cnat))}))"
    if fn == "topological_sort_edges":
        f = lambda o: "None" if o["solution"] is None else "(Some " + clist(o["solution"], cnat) + ")"  # noqa: E731
        return f"(({cnat(n)}, {es}), ({f(P)}, {f(R)}))"
    if fn == "pagerank_edges":
        if case["max_iter"] > 12 or Fraction(case["damping"]).denominator > 64:
            return None
        sc = lambda o: clist([v for _, v in o["solution"]["dict"]], lambda x: cq(Fraction(num(x))))  # noqa: E731
        return (f"(({cnat(n)}, {es}, {cq(Fraction(case['damping']))}), (({cnat(P['iterations'])}, {sc(P)}), ({cnat(R['iterations'])}, {sc(R)})))")
    return None



# ====================================================================== large witnesses (thorough tier only)
def _path_witness(n):
    """Path graph 0 -> 1 -> ... -> n-1 under both back-ends: bfs_edges / dfs_edges / dijkstra_edges, without target and
    with the last node as target.  (Regression of dd63c7e: the Python paths used to stop after 1_000_000 iterations.)"""
    from solvor.bfs import bfs_edges, dfs_edges
    from solvor.dijkstra import dijkstra_edges

    edges = [(i, i + 1) for i in range(n - 1)]
    wedges = [(i, i + 1, 1) for i in range(n - 1)]
    out = {}
    for b in ("python", "rust"):
        for name, fn, es in (("bfs_edges", bfs_edges, edges), ("dfs_edges", dfs_edges, edges), ("dijkstra_edges", dijkstra_edges, wedges)):
            r = fn(n, es, 0, backend=b)
            out[f"{name}/none/{b}"] = (r.status.name, len(r.solution) if r.solution is not None else None)
            r = fn(n, es, 0, target=n - 1, backend=b)
            out[f"{name}/target/{b}"] = (r.status.name, canon(r.objective), len(r.solution) if r.solution is not None else None)
    return out


def large_witnesses(ctx):
    d = VERIF / "corpus" / "C12"
    for f in sorted(d.glob("*.json")) if d.exists() else []:
        o = json.loads(f.read_text())
        if o.get("tier") != "thorough" or o.get("kind") != "path_graph":
            continue
        if ctx.tier != "thorough":
            ctx.count("corpus_thorough_only_skipped", f.name)
            continue
        n = int(o["n"])
        r = _in_child(_path_witness, n, timeout=300.0)
        ctx.evaluations += 12
        if r[0] != "ok":
            ctx.violation(f"large witness {f.name} (path graph, {n} nodes): {r}", {"witness": o})
            continue
        res = r[1]
        ctx.extra.setdefault("large_witnesses", {})[f.name] = res
        for name, found in (("bfs_edges", "OPTIMAL"), ("dfs_edges", "FEASIBLE"), ("dijkstra_edges", "OPTIMAL")):
            for b in ("python", "rust"):
                a, t = res[f"{name}/none/{b}"], res[f"{name}/target/{b}"]
                if tuple(a) != ("OPTIMAL", n) or tuple(t) != (found, n - 1, n):
                    ctx.violation(f"{name}(n={n}, path graph 0->1->..->{n - 1}, source 0, backend={b!r}): without target (status, #nodes) = {tuple(a)}, expected "
                                  f"('OPTIMAL', {n}); target={n - 1}: (status, objective, len(path)) = {tuple(t)}, expected ({found!r}, {n - 1}, {n})",
                                  {"witness": o, "observed": res})


# ====================================================================== the check
def shrink(case, still_fails):
    c = dict(case)
    changed = True
    while changed and len(c["edges"]) > 0:
        changed = False
        for i in range(len(c["edges"])):
            c2 = dict(c, edges=c["edges"][:i] + c["edges"][i + 1:])
            if still_fails(c2):
                c = c2
                changed = True
                break
    return c


def clean(case):
    return {k: v for k, v in case.items() if not k.startswith("_")}


def fails(case):
    outs = run_case_isolated(case)
    return any(k == "viol" for k, _ in judge(dict(case), outs))


def _corpus():
    out = []
    d = VERIF / "corpus" / "C12"
    if d.exists():
        for f in sorted(d.glob("*.json")):
            o = json.loads(f.read_text())
            c = o.get("case", o)
            if c.get("fn") in FNS:
                c = {k: v for k, v in c.items() if not k.startswith("_")}
                c["edges"] = [tuple(e) for e in c["edges"]]
                out.append(c)
    return out


def run(ctx: Ctx):
    ctx.rule = ("per function: corpus + fixed witnesses, then random multigraphs with n in 1..7 (..14 thorough), duplicate and anti-parallel arcs with different "
                "weights, self loops, isolated nodes, directed/undirected, with/without target, negative weights and cycles where supported, int and float weights; "
                "each case is run under backend='python', 'rust' (extension rebuilt from the working tree) and the default; "
                "non-trivial = at least 2 edges and (for target queries) a reachable target or (otherwise) a result with more than one finite entry; "
                "distinct = canonical JSON of the call")
    ctx.proof_step(["C12"])
    if (COQ / "Props" / "C12_deep.v").exists(): ctx.proof_step(["C12"], props_file="Props/C12_deep.v")
    info = setup(ctx.notes)
    ctx.extra["extension"] = info
    ctx.count("extension_mode", info.get("mode"))
    if not info.get("rust_available"):
        ctx.violation("the Rust extension is not importable from the shadow package: C12 cannot be checked", {"extension": info}, no_input=True)
        return
    if info.get("default_backend") != "rust" or info.get("auto_backend") != "rust":
        ctx.violation(f"get_backend() does not route to rust although the extension is available: {info}", {"extension": info}, no_input=True)
    ctx.notes.append(f"extension: {info.get('mode')} from {REPO}/rust (sources sha {info.get('rust_src_sha')}), imported from {info.get('ext_file')}")
    ctx.notes.append("floats: integer-weight cases go through the Z models (exact below 2^53); float-weight cases are judged by the Python oracle with "
                     "relative tolerance 1e-9 only; PageRank through exact rationals with tolerance 1e-9 on scores at the reported sweep count")
    ctx.notes.append("not compared (metadata, not part of C12): iterations / evaluations counters, rust pagerank objective 0.0; invalid inputs are outside C12")
    ctx.notes.append("rust dijkstra: BinaryHeap tie-breaking among equal costs is not modelled; its path is checked as a walk of the reported weight, not literally")

    big = ctx.tier == "thorough"
    per_fn = ctx.budget(140, 1500)
    cases = _corpus() + [dict(c) for c in FIXED]
    for fn in FNS:
        cases += [gen_case(ctx.rng, fn, big) for _ in range(per_fn)]

    results = []
    n_viol = 0
    all_outs = run_cases(cases)
    for case, outs in zip(cases, all_outs):
        ctx.evaluations += 3
        fn = case["fn"]
        probs = judge(case, outs)
        ctx.count("fn", fn)
        ctx.count("n", case["n"])
        if outs["python"][0] == "ok":
            ctx.count(f"status_{fn}", outs["python"][1]["status"])
        viol = [m for k, m in probs if k == "viol"]
        if viol:
            n_viol += 1
            if n_viol > 8:
                continue      # finish() reports the first five; do not spend time on more
            all_ok = all(outs[b][0] == "ok" for b in outs)
            small = shrink(clean(case), fails) if (all_ok and n_viol <= 3 and len(case["edges"]) <= 40) else clean(case)
            ctx.violation(viol[0] if small == clean(case) else f"{viol[0]}  [shrunk to {call_str(small)}]",
                          {"case": small, "original": clean(case), "outs": outs if small == clean(case) else run_case_isolated(small)})
        if len(case["edges"]) >= 2 and outs["python"][0] == "ok":
            o = outs["python"][1]
            nt = (o["solution"] is not None) if case.get("target") is not None else True
            if nt:
                ctx.nontriv(json.dumps(clean(case), sort_keys=True, default=str))
        ctx.sample({"call": call_str(case), "python": outs["python"][1] if outs["python"][0] == "ok" else outs["python"],
                    "rust": outs["rust"][1] if outs["rust"][0] == "ok" else outs["rust"]}, 4)
        results.append((case, outs, bool(viol)))

    large_witnesses(ctx)

    # ---- correspondence, kernel-checked, one lemma family per function: (python model ~ backend='python') && (rust model ~ backend='rust')
    disagree = []
    for fn in FNS:
        metas, terms = [], []
        for case, outs, bad in results:
            if case["fn"] != fn or any(outs[b][0] != "ok" for b in outs):
                continue
            t = coq_case(case, outs["python"][1], outs["rust"][1])
            if t is None:
                ctx.count("coq_skipped", fn)
                continue
            metas.append((case, outs))
            terms.append(t)
        if not terms:
            continue
        ty, py_chk, rs_chk = coq_spec(fn)
        tag = {"strongly_connected_components_edges": "scc", "topological_sort_edges": "topo"}.get(fn, fn.replace("_edges", ""))
        failing = ctx.coq_check(tag, IMPORTS[fn], ty, f"fun c => ({py_chk}) && ({rs_chk})", terms, shard=120)
        ctx.traces_validated += 2 * (len(terms) - len(failing))
        ctx.count("coq_cases", fn, len(terms))
        if failing:
            sub = [terms[i] for i in failing]
            fpy = set(ctx.coq_check(tag + "_pyside", IMPORTS[fn], ty, f"fun c => {py_chk}", sub, shard=120))
            frs = set(ctx.coq_check(tag + "_rsside", IMPORTS[fn], ty, f"fun c => {rs_chk}", sub, shard=120))
            for k, i in enumerate(failing):
                side = "+".join(s for s, f in (("python-side model", fpy), ("rust-side model", frs)) if k in f) or "?"
                disagree.append((fn, side, metas[i][0], metas[i][1], terms[i]))

    # ---- correspondence / proof step broken and the oracle saw nothing: search harder, then report
    if (disagree or ctx.broken) and not ctx.violations:
        found = False
        fns = sorted({d[0] for d in disagree}) or FNS
        budget = 6000 if not big else 20000
        extra = [gen_case(ctx.rng, fns[k % len(fns)], True) for k in range(budget)]
        for case, outs in zip(extra, run_cases(extra, chunk=500)):
            ctx.evaluations += 3
            viol = [m for kd, m in judge(case, outs) if kd == "viol"]
            if viol:
                small = shrink(clean(case), fails)
                ctx.violation(f"{viol[0]}  [found by search after a broken correspondence/proof; shrunk to {call_str(small)}]",
                              {"case": small, "original": clean(case), "outs": run_case_isolated(small)})
                found = True
                break
        if not found:
            for fn, side, case, outs, term in disagree[:3]:
                ctx.violation(f"correspondence lemma for {fn}: {side} and the implementation differ on {call_str(case)} (no property violation found by the oracle)",
                              {"case": clean(case), "outs": outs, "coq_case": term, "lemma": f"Cases/C12/{fn}*.v corr", "side": side}, no_input=True)


def replay(obj):
    case = obj.get("case")
    if case is None:
        print("replay names an unchecked obligation:", obj.get("unchecked") or obj.get("what"))
        return 1
    info = setup()
    print("extension:", info.get("mode"), info.get("ext_file"))
    case = dict(case, edges=[tuple(e) for e in case["edges"]])
    outs = run_case_isolated(case)
    for b in ("python", "rust", "default"):
        print(f"{call_str(case, None if b == 'default' else b)} ->", outs[b])
    probs = judge(case, outs)
    for k, m in probs:
        print("VIOLATES: " + m)
    if not probs:
        print("oracle verdict: ok")
    return 1 if any(k == "viol" for k, _ in probs) else 0
