"""C20 - UnionFind and FenwickTree behave like their reference models.

Tie to /repo: operation histories are run on solvor.utils.data_structures (working tree) and the
same histories are evaluated by the Gallina models SV.C20.UF / SV.C20.Fenwick inside coqc (vm_compute);
outputs must be equal op by op.  Independently, a naive Python reference (labels array / plain list of
exact rationals) judges the implementation's outputs against the property itself.

Generator families (round-2 hardening, HARDENING.md classes S M O A I):
  UnionFind   random   small random histories (sizes 1..12, ..40 thorough)
              balanced pairwise merges of equal blocks THROUGH ROOTS (n = 16/32/64/128 -> trees of height 4..7 before any
                       path compression), then reads at the deepest elements, further unions, reads again
              deep     adversarial: only roots of equal rank are united (roots known from a naive shadow forest), random n
              chain    n up to 2000, chain / star / shuffled-chain unions in every orientation, answers from the label array
  FenwickTree random   small ints
              mag      exact ints and integer-valued floats at 2^31 .. 2^53, huge next to tiny (2^44 + 1), negatives, zeros,
                       cancelling pairs; total magnitude <= 2^53 so EVERY partial sum is exact in int and in float arithmetic
              dyadic   the same scaled by 2^e (huge + tiny multiples of one power of two; every partial sum exactly representable)
              tol      genuinely inexact float data (0.1, 1e-7 next to 1e6): judged by the a-priori bound of recursive float summation
                       (the property's "exactly" cannot hold in floats there), exactly where the canonical tree is exact (judge 'shadow')
              cancel   (round 3, X) huge exact floats that cancel (2^60, -2^60; H, H, -2H) + tiny updates: every query that the canonical
                       tree answers from exactly representable node values must equal the exact plain-array sum
              nonfinite inf / nan / sums beyond 1.797e308: observation-only (outside the property, coordinator policy)
              a2       (round 3, A2) the source list is edited in place (replace / append / pop) while the tree lives, then a second tree
                       is built from the same list object
              volume-* (round 3, W) 12 000 (thorough 130 000) updates / queries / unions / reads on one object; n = 4097, 10 001, 2^16+1,
                       2^20+2 elements (constructor loop, component loops, longest update / prefix walks)
              sizes 1 2 3 17 64 65 1000; index corners 0, n-1, range(l,l), range(0,n-1), delta 0; repeated identical queries;
              constructor given list / tuple / range / generator (judged only if accepted); the caller's list is compared after
              construction and after updates, then mutated by the caller: answers must not change; a second live instance
              of each class receives other operations in between (no shared state).
"""
import math
from fractions import Fraction

from harness.core import Ctx, cnat, cz, cbool, clist, guarded

ID = "C20"
ANCHORS = ["solvor/utils/data_structures.py"]

COQ_MAX_N = 128  # histories over more elements are judged by the Python reference only (vm_compute cost, nat literals)


# ================================================================ UnionFind generators
def gen_uf(rng, big=False):
    n = rng.choice([1, 2, 3, 4, 5, 6, 8, 12] + ([20, 40] if big else []))
    k = rng.randint(1, 3 * n + 4)
    ops = []
    for _ in range(k):
        r = rng.random()
        x, y = rng.randrange(n), rng.randrange(n)
        if r < 0.45:
            ops.append(("union", x, y if rng.random() > 0.1 else x))
        elif r < 0.6:
            ops.append(("find", x))
        elif r < 0.75:
            ops.append(("connected", x, y))
        elif r < 0.83:
            ops.append(("count",))
        elif r < 0.91:
            ops.append(("sizes",))
        else:
            ops.append(("comps",))
    # long chains make path compression matter: unions in rank-adversarial order
    if rng.random() < 0.2 and n >= 4:
        ops = [("union", i, i + 1) for i in range(0, n - 1, 2)] + [("union", i, i + 2) for i in range(0, n - 2, 4)] + ops
    return n, ops


class _Shadow:
    """Naive forest used by the GENERATORS only (never by the oracle): union by rank with the documented tie rule, no path
    compression.  It tells the generator which elements are roots and how deep an element sits before any read happened."""

    def __init__(self, n):
        self.p = list(range(n))
        self.rk = [0] * n

    def root(self, x):
        while self.p[x] != x:
            x = self.p[x]
        return x

    def depth(self, x):
        d = 0
        while self.p[x] != x:
            x = self.p[x]
            d += 1
        return d

    def roots(self):
        return [v for v in range(len(self.p)) if self.p[v] == v]

    def union(self, x, y):
        rx, ry = self.root(x), self.root(y)
        if rx == ry:
            return
        if self.rk[rx] < self.rk[ry]:
            rx, ry = ry, rx
        self.p[ry] = rx
        if self.rk[rx] == self.rk[ry]:
            self.rk[rx] += 1


def _reads_after_build(rng, n, sh):
    """First read (of a random kind) at a deepest element, probes that its class is still whole, then reads at further deep
    elements (also repeated), further unions of arbitrary elements, final components."""
    depth = [sh.depth(v) for v in range(n)]
    tie = [rng.random() for _ in range(n)]
    deep = sorted(range(n), key=lambda v: (-depth[v], tie[v]))
    x = deep[0]
    root = sh.root(x)
    members = [v for v in range(n) if sh.root(v) == root]
    other = rng.randrange(n)
    kind = rng.randrange(8)
    ops = []
    if kind <= 1:
        ops.append(("find", x))
    elif kind == 2:
        ops.append(("connected", x, root))
    elif kind == 3:
        ops.append(("connected", other, x))
    elif kind == 4:
        ops.append(("comps",))
    elif kind == 5:
        ops.append(("sizes",))
    elif kind == 6:
        ops.append(("union", x, rng.choice(members)))  # union inside one class: False, but both finds compress
    else:
        ops.append(("union", other, x))
    for _ in range(rng.randint(2, 6)):
        ops.append(("connected", rng.choice(members), rng.choice(members)))
    ops.append(rng.choice([("comps",), ("sizes",), ("count",), ("find", x)]))
    for _ in range(rng.randint(3, 12)):
        r = rng.random()
        y = deep[min(len(deep) - 1, int(rng.expovariate(0.4)))]
        if r < 0.3:
            ops.append(("find", y))
            if rng.random() < 0.3:
                ops.append(("find", y))
        elif r < 0.55:
            ops.append(("connected", y, rng.randrange(n)))
            if rng.random() < 0.2:
                ops.append(ops[-1])
        elif r < 0.8:
            ops.append(("union", y, rng.randrange(n)) if rng.random() < 0.5 else ("union", rng.randrange(n), y))
        elif r < 0.9:
            ops.append(("count",))
        else:
            ops.append(("sizes",))
    ops.append(("comps",))
    return ops, max(depth)


def gen_uf_balanced(rng, n):
    """Blocks of equal size merged pairwise, round after round, always through the two block roots."""
    sh = _Shadow(n)
    perm = list(range(n))
    if rng.random() < 0.6:
        rng.shuffle(perm)
    flip = rng.choice(["never", "always", "random"])
    groups = [[v] for v in perm]
    stop = rng.choice([None, None, None, 4, 5])
    ops, rnd = [], 0
    while len(groups) > 1 and (stop is None or rnd < stop):
        nxt = []
        for i in range(0, len(groups) - 1, 2):
            a, b = sh.root(groups[i][0]), sh.root(groups[i + 1][0])
            if flip == "always" or (flip == "random" and rng.random() < 0.5):
                a, b = b, a
            ops.append(("union", a, b))
            sh.union(a, b)
            nxt.append(groups[i] + groups[i + 1])
        if len(groups) % 2:
            nxt.append(groups[-1])
        groups, rnd = nxt, rnd + 1
    tail, h = _reads_after_build(rng, n, sh)
    return n, ops + tail, h


def gen_uf_deep(rng, n):
    """Depth-maximising: unite two ROOTS of equal (preferably the highest possible) rank until few components are left."""
    sh = _Shadow(n)
    ops = []
    target = rng.choice([1, 1, 2, 3])
    while True:
        roots = sh.roots()
        if len(roots) <= target:
            break
        by_rank = {}
        for r in roots:
            by_rank.setdefault(sh.rk[r], []).append(r)
        eq = sorted(k for k, l in by_rank.items() if len(l) >= 2)
        if eq:
            k = eq[-1] if rng.random() < 0.5 else rng.choice(eq)
            a, b = rng.sample(by_rank[k], 2)
        else:
            a, b = rng.sample(roots, 2)
        ops.append(("union", a, b))
        sh.union(a, b)
    tail, h = _reads_after_build(rng, n, sh)
    return n, ops + tail, h


CHAIN_STYLES = ["up", "up_rev", "down", "down_rev", "star", "star_rev", "shuffled"]


def gen_uf_chain(rng, n, style=None):
    """n-1 unions along a path (or a star) in one of several orientations / orders; reads only at the end."""
    style = style or rng.choice(CHAIN_STYLES)
    if style == "up":
        e = [(i, i + 1) for i in range(n - 1)]
    elif style == "up_rev":
        e = [(i + 1, i) for i in range(n - 1)]
    elif style == "down":
        e = [(i, i - 1) for i in range(n - 1, 0, -1)]
    elif style == "down_rev":
        e = [(i - 1, i) for i in range(n - 1, 0, -1)]
    elif style == "star":
        e = [(0, i) for i in range(1, n)]
    elif style == "star_rev":
        e = [(i, 0) for i in range(1, n)]
    else:
        e = [(i, i + 1) if rng.random() < 0.5 else (i + 1, i) for i in range(n - 1)]
        rng.shuffle(e)
    if e and rng.random() < 0.3:
        del e[rng.randrange(len(e))]  # two components
    ops = [("union", a, b) for a, b in e]
    ops += [("find", n - 1), ("find", 0), ("find", n // 2), ("connected", 0, n - 1), ("count",), ("sizes",), ("find", n - 1),
            ("connected", n - 1, n // 3), ("comps",)]
    return n, ops, style


def gen_uf_any(rng, big=True):
    r = rng.random()
    if r < 0.5:
        return gen_uf(rng, big)
    if r < 0.7:
        return gen_uf_balanced(rng, rng.choice([16, 32, 64, 128]))[:2]
    if r < 0.95:
        return gen_uf_deep(rng, rng.randint(9, 130))[:2]
    return gen_uf_chain(rng, rng.choice([300, 1025, 2000]))[:2]


# ================================================================ FenwickTree generators
def gen_fw(rng, big=False):
    n = rng.choice([1, 2, 3, 4, 5, 7, 8, 9, 16] + ([31, 64] if big else []))
    vals = [rng.randint(-9, 9) for _ in range(n)]
    mode = rng.choice(["values", "size"])
    ops = []
    for _ in range(rng.randint(1, 2 * n + 6)):
        r = rng.random()
        if r < 0.4:
            ops.append(("update", rng.randrange(n), rng.randint(-20, 20)))
        elif r < 0.7:
            ops.append(("prefix", rng.randrange(n)))
        else:
            a, b = sorted((rng.randrange(n), rng.randrange(n)))
            ops.append(("range", a, b))
    return mode, vals, ops, "exact"


FW_SIZES = [1, 2, 3, 4, 8, 17, 64, 65]
EXACT_CAP = 2 ** 53  # sum of |initial values| + |deltas| of one history stays <= this: every partial sum is an exact int and float
_BIG = [2 ** 31, 2 ** 31 - 1, 2 ** 32 + 1, 10 ** 9, 10 ** 12, 10 ** 13, 2 ** 44, 2 ** 44, 2 ** 44 + 1, 3 * 2 ** 40, 10 ** 15, 2 ** 50,
        2 ** 52, 2 ** 52 + 1, 2 ** 53 - 1, 2 ** 53]


def _small(rng):
    return rng.choice([0, 0, 1, 1, -1, 2, 3, -7, 5]) if rng.random() < 0.6 else rng.randint(-20, 20)


def _bigv(rng):
    v = rng.choice(_BIG) + rng.choice([0, 0, 0, 1, -1, rng.randint(-1000, 1000)])
    return -v if rng.random() < 0.35 else v


def _idx(rng, n):
    r = rng.random()
    return 0 if r < 0.2 else n - 1 if r < 0.4 else rng.randrange(n)


def _fw_history(rng, n, vals, budget, mode, p_bigdelta=0.12):
    """Ops over exact integer data (the caller converts types afterwards); keeps sum of magnitudes within `budget`."""
    a = list(vals)
    m = rng.randint(4, min(2 * n + 8, 48))
    ops = []
    pending_srcmut = mode == "values" and rng.random() < 0.6
    for t in range(m):
        r = rng.random()
        if r < 0.3:
            i = _idx(rng, n)
            q = rng.random()
            if q < 0.2:
                d = 0
            elif q < 0.2 + p_bigdelta:
                d = _bigv(rng)
            elif q < 0.45:
                d = -a[i]  # the element becomes exactly 0
            else:
                d = _small(rng)
            if abs(d) > budget:
                d = 0
            budget -= abs(d)
            a[i] += d
            ops.append(("update", i, d))
            continue
        if r < 0.5:
            q = ("prefix", _idx(rng, n))
        elif r < 0.7:
            l = _idx(rng, n)
            q = ("range", l, l)
        elif r < 0.78:
            q = ("range", 0, n - 1)
        else:
            l, h = sorted((_idx(rng, n), _idx(rng, n)))
            q = ("range", l, h)
        ops.append(q)
        if rng.random() < 0.15:
            ops.append(q)  # the same query again: same answer
        if mode == "values" and rng.random() < 0.1:
            ops.append(("srccheck",))
        if pending_srcmut and t >= m // 2:
            # the caller reuses / overwrites the list it constructed the tree from: answers must not move
            pending_srcmut = False
            ops.append(("srccheck",))
            for _ in range(rng.randint(1, 3)):
                ops.append(("srcmut", rng.randrange(n), rng.choice([0, 1, -1, 999, 2 ** 44])))
            ops.append(("range", 0, n - 1))
            ops.append(("prefix", _idx(rng, n)))
    if n <= 17 and rng.random() < 0.5:
        ops += [("range", l, l) for l in range(n)]  # every single element
    return ops


def gen_fw_mag(rng, n=None, typ=None, mode=None):
    """Exact integers / integer-valued floats / one power-of-two scale of them, far from the comfort zone."""
    n = n or rng.choice(FW_SIZES)
    typ = typ or rng.choice(["int", "int", "float", "mixed", "dyadic"])
    mode = mode or rng.choice(["values", "values", "size", "tuple"])
    layout = rng.choice(["front", "front", "anywhere", "cancel", "many", "none"])
    budget = EXACT_CAP
    bigs = {}
    if layout == "front":
        bigs[0] = _bigv(rng)
        if n > 2 and rng.random() < 0.3:
            bigs[1] = _bigv(rng)
    elif layout == "anywhere":
        for _ in range(rng.randint(1, 3)):
            bigs[rng.randrange(n)] = _bigv(rng)
    elif layout == "cancel" and n >= 2:
        i, j = sorted(rng.sample(range(n), 2))
        v = _bigv(rng)
        bigs[i], bigs[j] = v, -v + rng.choice([0, 0, 1, -1])
    elif layout == "many":
        for i in range(n):
            if rng.random() < 0.3:
                bigs[i] = _bigv(rng)
    vals = [0] * n
    for i in sorted(bigs):
        if abs(bigs[i]) <= budget:
            vals[i] = bigs[i]
            budget -= abs(bigs[i])
    zero_heavy = rng.random() < 0.25
    for i in range(n):
        if i not in bigs:
            v = 0 if (zero_heavy and rng.random() < 0.7) else _small(rng)
            if abs(v) <= budget // 2:  # leave room for the deltas
                vals[i] = v
                budget -= abs(v)
    ops = _fw_history(rng, n, vals, budget, mode)
    e = rng.choice([-40, -20, -10, -3, -1, 1, 7, 30, 40])

    def conv(v):
        if typ == "int":
            return v
        if typ == "float":
            return float(v)
        if typ == "mixed":
            return float(v) if rng.random() < 0.5 else v
        return math.ldexp(float(v), e)

    vals = [conv(v) for v in vals]
    ops = [(o[0], o[1], conv(o[2])) if o[0] in ("update", "srcmut") else o for o in ops]
    return mode, vals, ops, "exact"


def gen_fw_iter(rng, n=None):
    """Initial values handed over as a range object or a one-shot generator (judged only if the constructor accepts it)."""
    n = n or rng.choice(FW_SIZES)
    start, step = rng.choice([0, 1, -5, 2 ** 44, -(2 ** 31)]), rng.choice([1, 1, 2, -1, -3, 2 ** 20])
    mode = rng.choice(["range", "range", "gen"])
    vals = list(range(start, start + step * n, step))
    budget = EXACT_CAP - sum(abs(v) for v in vals)
    ops = _fw_history(rng, n, vals, max(budget, 0), mode)
    if mode == "range":
        return f"range:{start}:{start + step * n}:{step}", vals, ops, "exact"
    return "gen", vals, ops, "exact"


_TOL_POOL = [0.1, 0.2, 0.3, -0.3, -0.1, 1e-7, 1e-9, 1e-12, 1e6, -1e6, 1e12, 1 / 3, 2.5, 0.0, 1.0, 1e-3, 123456.789, 33.0, 33, -0.0]
_TOL_BEYOND = [2 ** 53 + 1, -(2 ** 53 + 1), 10 ** 18, 2 ** 60]  # inexact queries next to these are observation-only (POLICY_X c)


def gen_fw_tol(rng, n=None):
    """Data whose float sums are in general NOT exact: the a-priori rounding bound of float summation is demanded, and exact
    equality for every query that the canonical tree answers from exactly representable values only (judge 'shadow')."""
    n = n or rng.choice(FW_SIZES)
    mode = rng.choice(["values", "size"])
    pool = _TOL_POOL if rng.random() < 0.85 else _TOL_POOL + _TOL_BEYOND
    vals = [rng.choice(pool) if rng.random() < 0.8 else round(rng.uniform(-1000, 1000), 3) for _ in range(n)]
    ops = []
    for _ in range(rng.randint(4, min(2 * n + 8, 40))):
        r = rng.random()
        if r < 0.3:
            i = _idx(rng, n)
            ops.append(("update", i, rng.choice(pool + [0, 0.0]) if rng.random() < 0.8 else -vals[i]))
        elif r < 0.5:
            ops.append(("prefix", _idx(rng, n)))
        elif r < 0.75:
            l = _idx(rng, n)
            ops.append(("range", l, l))
        else:
            l, h = sorted((_idx(rng, n), _idx(rng, n)))
            ops.append(("range", l, h))
    return mode, vals, ops, "shadow"


_HUGE = [2.0 ** 60, 2.0 ** 60, 2.0 ** 53, 2.0 ** 54, 2.0 ** 62 + 2.0 ** 10, 1e18, 3 * 2.0 ** 70, 2.0 ** 100, 2.0 ** 200, 2.0 ** 1000, float(2 ** 53 + 2), 1e22]
_TINY = [1.0, 1.0, -3.0, 2.0, 0.5, 1, -1, 2.0 ** -20, 0.0, 7.0, -0.25, 3]


def _cancel_queries(rng, n, marks):
    """Queries around the positions of the huge entries: blocks that contain a cancelling pair completely, everything to the right
    of it, single elements, the whole array."""
    q = []
    if marks and rng.random() < 0.8:
        lo, hi = min(marks), max(marks)
        l, r = rng.randint(0, lo), rng.randint(hi, n - 1)
        q.append(("range", l, r))
        q.append(("prefix", r))
    r = rng.random()
    if r < 0.3:
        q.append(("prefix", _idx(rng, n)))
    elif r < 0.5:
        q.append(("range", 0, n - 1))
    elif r < 0.7:
        l = _idx(rng, n)
        q.append(("range", l, l))
    else:
        l, h = sorted((_idx(rng, n), _idx(rng, n)))
        q.append(("range", l, h))
    return q


def gen_fw_cancel(rng, n=None):
    """X: huge exact floats that cancel exactly (H at one index, -H at another; H, H, -2H; introduced by the constructor or by updates, also
    cancelled again by a later update), small exact values everywhere else, then tiny updates at / before / after the huge positions and
    queries over blocks in which the huge entries cancel.  Float nodes holding a huge block sum absorb tiny deltas, nodes of wider blocks
    do not: judge 'shadow' demands the exact plain-array sum wherever the canonical tree reads exactly representable values only."""
    n = n or rng.choice([2, 2, 3, 4, 5, 8, 9, 17, 33, 64, 65])
    mode = rng.choice(["values", "values", "size", "tuple"])
    vals = [rng.choice([0.0, 1.0, -1.0, 0.5, 4.0, 3, 0, -2.0, 0.25, 0.0, 0.0]) for _ in range(n)]
    marks = []
    pre = []

    def plant(target_ops):
        h = rng.choice(_HUGE) * rng.choice([1, 1, -1])
        if n >= 3 and rng.random() < 0.25:
            pos = sorted(rng.sample(range(n), 3))
            parts = [h, h, -2 * h]
        else:
            pos = sorted(rng.sample(range(n), 2))
            parts = [h, -h]
        rng.shuffle(parts)
        for i, v in zip(pos, parts):
            marks.append(i)
            if target_ops is None:
                vals[i] = v
            else:
                target_ops.append(("update", i, v))

    for _ in range(rng.randint(1, max(1, min(3, n // 2)))):
        plant(None if rng.random() < 0.7 else pre)
    ops = list(pre)
    for _ in range(rng.randint(3, 14)):
        r = rng.random()
        if r < 0.55:
            q = rng.random()
            i = rng.choice(marks) if q < 0.45 else rng.randint(0, max(marks)) if q < 0.7 else _idx(rng, n)
            ops.append(("update", i, rng.choice(_TINY)))
        elif r < 0.65:
            plant(ops)
        elif r < 0.72:
            i = rng.choice(marks)
            ops.append(("update", i, rng.choice(_HUGE) * rng.choice([1, -1])))  # leaves an uncancelled huge entry: tolerance only there
        ops += _cancel_queries(rng, n, marks)
    if n <= 9:
        ops += [("prefix", i) for i in range(n)]
    return mode, vals, ops, "shadow"


_NONFIN = [float("inf"), float("-inf"), float("nan"), 1e308, -1e308, 1.7e308, 2.0 ** 1023, -(2.0 ** 1023), 5e-324, -0.0]


def gen_fw_nonfinite(rng, n=None):
    """X: inf / -inf / nan entries and finite entries near 1e308 whose sums overflow, as initial values and as deltas."""
    n = n or rng.choice([1, 2, 3, 4, 5, 8, 9, 17])
    mode = rng.choice(["values", "values", "size", "tuple"])
    vals = [rng.choice([0.0, 1.0, -1.0, 0.5, 4.0, 3, 0, -2.0]) for _ in range(n)]
    marks = []
    for _ in range(rng.randint(0, 2)):
        i = rng.randrange(n)
        vals[i] = rng.choice(_NONFIN)
        marks.append(i)
    ops = []
    for _ in range(rng.randint(3, 12)):
        r = rng.random()
        if r < 0.25:
            i = _idx(rng, n)
            ops.append(("update", i, rng.choice(_NONFIN)))
            marks.append(i)
        elif r < 0.5:
            ops.append(("update", _idx(rng, n), rng.choice(_TINY)))
        ops += _cancel_queries(rng, n, marks)
    if n <= 9:
        ops += [("range", i, i) for i in range(n)]
    return mode, vals, ops, "shadow"


def gen_fw_a2(rng, n=None):
    """A2: the tree is built from the caller's list; the caller then edits THAT list in place (replace / append / pop) - the live tree must
    not notice - and builds a NEW tree from the same, edited list object, which must answer like a plain array holding the edited values
    (nothing may be remembered per list object, per id() or per length); the second tree is then updated and queried, and so on."""
    n = n or rng.choice([1, 2, 3, 4, 5, 8, 17, 64])
    typ = rng.choice(["int", "int", "float", "mixed"])
    pool = [0, 1, -1, 2, 5, -7, 13, 2 ** 31, 2 ** 44, -(2 ** 44), 10 ** 9]

    def num():
        v = rng.choice(pool)
        return float(v) if typ == "float" or (typ == "mixed" and rng.random() < 0.5) else v

    vals = [num() for _ in range(n)]
    cur = n
    ops = []

    def some_queries(k):
        for _ in range(k):
            r = rng.random()
            if r < 0.4:
                ops.append(("prefix", _idx(rng, cur)))
            elif r < 0.6:
                ops.append(("range", 0, cur - 1))
            else:
                l, h = sorted((_idx(rng, cur), _idx(rng, cur)))
                ops.append(("range", l, h))

    src_len = n
    for _ in range(rng.randint(1, 3)):
        some_queries(rng.randint(1, 3))
        for _ in range(rng.randint(0, 3)):
            ops.append(("update", _idx(rng, cur), num()))
        ops.append(("srccheck",))
        for _ in range(rng.randint(1, 4)):
            r = rng.random()
            if r < 0.5:
                ops.append(("srcmut", rng.randrange(src_len), num()))
            elif r < 0.8 or src_len <= 1:
                ops.append(("srcgrow", num()))
                src_len += 1
            else:
                ops.append(("srcshrink",))
                src_len -= 1
        some_queries(rng.randint(1, 3))  # still the old tree
        ops.append(("rebuild",))
        cur = src_len
        some_queries(rng.randint(2, 4))
        if rng.random() < 0.5:
            ops.append(("update", _idx(rng, cur), num()))
            ops.append(("srccheck",))
            some_queries(2)
    return "values", vals, ops, "exact"


def gen_fw_any(rng, big=True):
    r = rng.random()
    if r < 0.3:
        return gen_fw(rng, big)
    if r < 0.6:
        return gen_fw_mag(rng)
    if r < 0.66:
        return gen_fw_iter(rng)
    if r < 0.8:
        return gen_fw_cancel(rng)
    if r < 0.85:
        return gen_fw_nonfinite(rng)
    if r < 0.92:
        return gen_fw_a2(rng)
    return gen_fw_tol(rng)


# ---------------------------------------------------------------- W: work volume (many operations on one object, many elements)
def _walk_up(i, n):
    k = 0
    while i < n:
        k += 1
        i |= i + 1
    return k


def _walk_down(i):
    return bin(i + 1).count("1")


def affine_vals(spec):
    """{"affine": [n, mul, mod, off]} -> [((i * mul) % mod) + off for i < n] (compact description of a long initial array)."""
    n, mul, mod, off = spec["affine"]
    return [((i * mul) % mod) + off for i in range(n)]


def _expand_vals(vals):
    return affine_vals(vals) if isinstance(vals, dict) else vals


def gen_fw_volume_ops(rng, n, n_updates, mode):
    """Many point updates (small ints) on one tree of moderate size, queries interleaved and at the end."""
    vals = [rng.randint(-9, 9) for _ in range(n)]
    ops = []
    every = max(1, n_updates // 120)
    for t in range(n_updates):
        ops.append(("update", _idx(rng, n), rng.randint(-50, 50)))
        if t % every == every - 1 or t in (127, 128, 1023, 1024, 2047, 2048, 4095, 4096, 9999, 10000, 65535, 65536, 99999, 100000):
            l, h = sorted((_idx(rng, n), _idx(rng, n)))
            ops.append(rng.choice([("prefix", h), ("range", l, h), ("range", 0, n - 1)]))
    ops += [("range", 0, n - 1), ("prefix", n - 1), ("prefix", 0), ("range", n // 2, n // 2)]
    return mode, vals, ops, "exact"


def gen_fw_volume_n(rng, n, mode):
    """Many elements: the constructor loop runs n times, update walks from small indices and prefix walks from all-ones indices are as long
    as they get (floor(log2 n) + 1 steps)."""
    mul, mod, off = rng.choice([2654435761, 40503, 7919]), rng.choice([2001, 1999, 17]), -rng.choice([1000, 8, 0])
    vals = {"affine": [n, mul, mod, off]}
    special = sorted({0, 1, n - 1, n - 2, n // 2} | {(1 << k) - d for k in range(1, n.bit_length() + 1) for d in (0, 1, 2) if 0 <= (1 << k) - d < n})
    ops = []
    for _ in range(24):
        r = rng.random()
        if r < 0.4:
            ops.append(("update", rng.choice(special) if rng.random() < 0.7 else rng.randrange(n), rng.randint(-1000, 1000)))
        elif r < 0.7:
            ops.append(("prefix", rng.choice(special)))
        else:
            l, h = sorted((rng.choice(special), rng.randrange(n)))
            ops.append(("range", l, h))
    ops += [("update", 0, 5), ("prefix", n - 1), ("range", 0, n - 1), ("range", n - 1, n - 1), ("prefix", (1 << (n.bit_length() - 1)) - 2)]
    return mode, vals, ops, "exact"


def gen_fw_volume_queries(rng, n, n_queries, mode):
    """Many queries on one tree (an update now and then): answers must not depend on how many were asked before."""
    vals = [rng.randint(-9, 9) for _ in range(n)]
    ops = []
    for t in range(n_queries):
        if t % 97 == 0:
            ops.append(("update", _idx(rng, n), rng.randint(-50, 50)))
        l, h = sorted((_idx(rng, n), _idx(rng, n)))
        ops.append(("prefix", h) if rng.random() < 0.5 else ("range", l, h))
    return mode, vals, ops, "exact"


def gen_uf_volume_ops(rng, n, n_ops, p_union=0.5):
    """Many operations on one UnionFind of moderate size (random unions / finds / connected, a few global reads)."""
    ops = []
    every = max(1, n_ops // 12)
    for t in range(n_ops):
        r = rng.random()
        x, y = rng.randrange(n), rng.randrange(n)
        ops.append(("union", x, y) if r < p_union else ("find", x) if r < (1 + p_union) / 2 else ("connected", x, y))
        if t % every == every - 1:
            ops.append(rng.choice([("count",), ("sizes",), ("comps",)]))
    ops += [("count",), ("comps",)]
    return n, ops


def gen_uf_volume_n(rng, n, pattern):
    """Many elements.  'balanced': blocks of 1, 2, 4, ... united through their first elements (the roots under the documented tie rule):
    tree height floor(log2 n) before the first read, deepest elements are the all-ones indices.  'random': about n random unions."""
    ops = []
    if pattern == "balanced":
        size = 1
        while size < n:
            for lo in range(0, n, 2 * size):
                if lo + size < n:
                    ops.append(("union", lo, lo + size))
            size *= 2
        deep = (1 << (n.bit_length() - 1)) - 1
        ops += [("find", deep), ("connected", deep, 0), ("find", n - 1), ("connected", n - 1, deep // 2), ("count",), ("sizes",)]
    else:
        for _ in range(n):
            ops.append(("union", rng.randrange(n), rng.randrange(n)))
        ops += [("count",), ("sizes",)]
    for _ in range(40):
        x, y = rng.randrange(n), rng.randrange(n)
        ops.append(rng.choice([("find", x), ("connected", x, y), ("union", x, y)]))
    ops += [("count",), ("comps",)]
    return n, ops


# ================================================================ implementation runs
def canon_num(x):
    if isinstance(x, bool) or x is None:
        return x
    if isinstance(x, float) and math.isfinite(x) and x == int(x):
        return int(x)
    return x


def run_uf_impl(n, ops):
    from solvor.utils.data_structures import UnionFind

    uf = UnionFind(n)
    other = UnionFind(min(n, 4096))  # a second live instance receiving different operations: instances share nothing
    m = len(other)
    outs = []
    for o in ops:
        if o[0] == "union":
            outs.append(("b", bool(uf.union(o[1], o[2]))))
            other.union(o[2] % m, (o[1] + 1) % m)
        elif o[0] == "find":
            outs.append(("n", int(uf.find(o[1]))))
            other.find((n - 1 - o[1]) % m)
        elif o[0] == "connected":
            outs.append(("b", bool(uf.connected(o[1], o[2]))))
        elif o[0] == "count":
            outs.append(("n", int(uf.component_count)))
        elif o[0] == "sizes":
            outs.append(("l", [int(s) for s in uf.component_sizes()]))
        else:
            outs.append(("s", [sorted(int(e) for e in c) for c in uf.get_components()]))
    return outs


def _same_list(a, b):
    return len(a) == len(b) and all(type(x) is type(y) and (x == y or (x != x and y != y)) for x, y in zip(a, b))


def run_fw_impl(mode, vals, ops):
    from solvor.utils.data_structures import FenwickTree

    vals = _expand_vals(vals)
    n = len(vals)
    src = expect_src = None
    if mode == "size":
        ft = FenwickTree(n)
        for i, v in enumerate(vals):
            ft.update(i, v)
        other = FenwickTree(n)
    else:
        if mode == "values":
            src = list(vals)
            expect_src = list(vals)
            arg = src
        elif mode == "tuple":
            arg = tuple(vals)
        elif mode.startswith("range:"):
            a, b, s = (int(t) for t in mode.split(":")[1:])
            arg = range(a, b, s)
            assert list(arg) == list(vals)
        elif mode == "gen":
            arg = (v for v in vals)
        else:
            raise ValueError(mode)
        try:
            ft = FenwickTree(arg)
        except (TypeError, AttributeError) as e:
            if mode == "values":
                raise
            return [("na", type(e).__name__)]  # documented parameter type is list: other iterables are judged only if accepted
        other = FenwickTree(list(vals[:4096]))
    m = len(other)
    outs = []
    retired = []  # trees replaced by a rebuild stay alive
    for o in ops:
        try:
            if o[0] == "update":
                r = ft.update(o[1], o[2])
                outs.append(("u", r))
                other.update((n - 1 - o[1]) % m, o[2] + 1)
            elif o[0] == "prefix":
                outs.append(("z", canon_num(ft.prefix(o[1]))))
            elif o[0] == "range":
                outs.append(("z", canon_num(ft.range_sum(o[1], o[2]))))
                other.range_sum(0, m - 1)
            elif o[0] == "srccheck":
                outs.append(("b", src is None or _same_list(src, expect_src)))
            elif o[0] == "srcmut":
                if src is not None:
                    src[o[1]] = o[2]
                    expect_src[o[1]] = o[2]
                outs.append(("u", None))
            elif o[0] == "srcgrow":
                src.append(o[1])
                expect_src.append(o[1])
                outs.append(("u", None))
            elif o[0] == "srcshrink":
                src.pop()
                expect_src.pop()
                outs.append(("u", None))
            elif o[0] == "rebuild":
                retired.append(ft)
                ft = FenwickTree(src)  # the SAME list object, edited in place since the first tree was built from it
                n = len(src)
                outs.append(("u", None))
            else:
                raise ValueError(o)
        except (ArithmeticError, ValueError) as e:
            if o[0] not in ("update", "prefix", "range"):
                raise
            outs.append(("raised", type(e).__name__))  # judged by the reference (acceptable only next to inf / nan); the history ends here
            break
    return outs


# ================================================================ independent reference (the property itself)
def oracle_uf(n, ops, outs):
    """Naive label array (+ member lists).  Returns None if outs obey the property, else (op index, description)."""
    if len(outs) != len(ops):
        return (0, f"{len(outs)} outputs for {len(ops)} operations")
    lab = list(range(n))
    members = {i: [i] for i in range(n)}
    last_find = {}
    for k, (o, r) in enumerate(zip(ops, outs)):
        r = tuple(r)
        if o[0] == "union":
            a, b = lab[o[1]], lab[o[2]]
            same = a == b
            if r != ("b", not same):
                return (k, f"op {k} {o}: returned {r}, expected {not same}")
            if not same:
                if len(members[a]) < len(members[b]):
                    a, b = b, a
                for v in members[b]:
                    lab[v] = a
                members[a].extend(members.pop(b))
            last_find = {}
        elif o[0] == "connected":
            if r != ("b", lab[o[1]] == lab[o[2]]):
                return (k, f"op {k} {o}: returned {r}, expected {lab[o[1]] == lab[o[2]]}")
        elif o[0] == "find":
            if r[0] != "n" or not (0 <= r[1] < n) or lab[r[1]] != lab[o[1]]:
                return (k, f"op {k} {o}: root {r} not in the class of the argument")
            # find x = find y <=> same class (between unions the representative of a class is stable)
            c = lab[o[1]]
            if c in last_find and last_find[c] != r[1]:
                return (k, f"op {k} {o}: representative changed from {last_find[c]} to {r[1]} without a union")
            last_find[c] = r[1]
        elif o[0] == "count":
            if r != ("n", len(members)):
                return (k, f"op {k} count: returned {r}, expected {len(members)}")
        elif o[0] == "sizes":
            if r[0] != "l" or sorted(r[1]) != sorted(len(c) for c in members.values()):
                return (k, f"op {k} sizes: returned {_brief(r)}, expected {_brief(sorted(len(c) for c in members.values()))}")
        else:
            want = sorted(sorted(c) for c in members.values())
            if r[0] != "s" or sorted(r[1]) != want:
                return (k, f"op {k} comps: returned {_brief(r)}, expected {_brief(want)}")
    return None


def _brief(x, lim=300):
    s = str(x)
    return s if len(s) <= lim else s[:lim] + "..."


def _is_num(x):
    return isinstance(x, (int, float)) and not isinstance(x, bool)


def _fin(v):
    return isinstance(v, (int, Fraction)) or math.isfinite(v)


def _ex(v):
    """Exact value of a Python number: int where integral (fast), Fraction otherwise, None for inf / nan."""
    if isinstance(v, int):
        return v
    if not math.isfinite(v):
        return None
    return int(v) if v == int(v) else Fraction(v)


def _add(x, y):
    return None if x is None or y is None else x + y


def _clean(py, ex):
    """The Python number the canonical tree holds is finite and equals the exact value (int/float/Fraction comparisons are exact)."""
    return ex is not None and _fin(py) and py == ex


def _same_float(a, b):
    return a == b or (a != a and b != b)


class _DualTree:
    """The canonical Fenwick algorithm - the index walks of the Coq model SV.C20.Fenwick: constructor j = i | (i+1), update i |= i+1,
    prefix i = (i & (i+1)) - 1 starting from 0.0 - run in lock step on (a) Python numbers of the types the class holds (ints stay ints
    in a tree built from ints, 0.0 for the size constructor) and (b) exact values.  It is NOT the expected answer (that is the plain
    array); it only tells for which queries float arithmetic in that tree is exact, i.e. where 'exactly' can be demanded of float data."""

    def __init__(self, mode, vals):
        self.n = n = len(vals)
        if mode == "size":
            self.py, self.ex = [0.0] * n, [0] * n
            for i, v in enumerate(vals):
                self.update(i, v)
        else:
            self.py, self.ex = list(vals), [_ex(v) for v in vals]
            for i in range(n):
                j = i | (i + 1)
                if j < n:
                    self.py[j] = self.py[j] + self.py[i]
                    self.ex[j] = _add(self.ex[j], self.ex[i])

    def update(self, i, d):
        e = _ex(d)
        while i < self.n:
            self.py[i] = self.py[i] + d
            self.ex[i] = _add(self.ex[i], e)
            i |= i + 1

    def prefix(self, i):
        tp, te, ok = 0.0, 0, True
        while i >= 0:
            ok = ok and _clean(self.py[i], self.ex[i])
            tp = tp + self.py[i]
            te = _add(te, self.ex[i])
            ok = ok and _clean(tp, te)
            i = (i & (i + 1)) - 1
        return tp, te, ok

    def range_sum(self, l, r):
        tp, te, ok = self.prefix(r)
        if l > 0:
            bp, be, ok2 = self.prefix(l - 1)
            tp = tp - bp
            te = None if te is None or be is None else te - be
            ok = ok and ok2 and _clean(tp, te)
        return tp, te, ok

    def nonfinite(self):
        return any(not _fin(v) for v in self.py)


OBS_NONFINITE = "inf/nan value or overflowing block sum in the history (POLICY_X a, b): whole history not judged"
OBS_BEYOND_2_53 = "inexact query on data whose magnitudes exceed 2^53 (POLICY_X c): this query not judged"


def _observation_only(mode, vals, ops):
    """True when the history feeds inf / nan, or a node or a query result of the canonical tree becomes inf / nan (sums beyond 1.797e308):
    outside the property (finite data of moderate magnitude); such histories are run and counted, never judged."""
    if any(not _fin(v) for v in vals) or any(o[0] in ("update", "srcmut") and not _fin(o[2]) for o in ops) or any(o[0] == "srcgrow" and not _fin(o[1]) for o in ops):
        return True
    dt = _DualTree(mode, vals)
    src = list(vals)
    if dt.nonfinite():
        return True
    for o in ops:
        if o[0] == "update":
            dt.update(o[1], o[2])
            if dt.nonfinite():
                return True
        elif o[0] == "srcmut":
            src[o[1]] = o[2]
        elif o[0] == "srcgrow":
            src.append(o[1])
        elif o[0] == "srcshrink":
            src.pop()
        elif o[0] == "rebuild":
            dt = _DualTree("values", src)
            if dt.nonfinite():
                return True
        elif o[0] in ("prefix", "range"):
            if not _fin((dt.prefix(o[1]) if o[0] == "prefix" else dt.range_sum(o[1], o[2]))[0]):
                return True
    return False


def oracle_fw(mode, vals, ops, outs, judge="exact", soft=None):
    """Plain array of exact values that received the same initial values and updates (a new plain array after a 'rebuild').
    Returns None or (op index, description).
    judge='exact'  : every answer must equal the exact sum (as a number: 7.0 == 7).
    judge='tol'    : |answer - exact sum| <= 4 (m + 64) 2^-53 * (sum of |values| fed in so far), m = number of values fed in -
                     a bound every float summation of these numbers obeys whatever the order.
    judge='shadow' : EXACT equality for each query during which the canonical tree (_DualTree) reads only nodes whose float value is
                     exactly the block sum and forms only exactly representable partial sums (so a tiny update next to huge cancelling
                     entries must show up exactly in every block where the huge entries cancel); the other queries obey the 'tol' bound
                     when all magnitudes fed in stay within 2^53 in total, and are observation-only beyond (a float structure by design
                     cannot be exact there: POLICY_X c).  Histories with inf / nan / overflow are observation-only as a whole
                     (POLICY_X a, b).  Observation-only events are appended to `soft`, never returned as failures."""
    vals = _expand_vals(vals)
    if outs and tuple(outs[0])[0] == "na":
        return None
    if judge == "shadow" and _observation_only(mode, vals, ops):
        if soft is not None:
            soft.append(OBS_NONFINITE)
        return None
    if len(outs) != len(ops) and not (outs and tuple(outs[-1])[0] == "raised"):
        return (0, f"{len(outs)} outputs for {len(ops)} operations")
    a = [_ex(v) for v in vals]
    src = list(vals)
    mass = sum(abs(v) for v in a)
    fed = len(a)
    dt = _DualTree(mode, vals) if judge == "shadow" else None
    for k, (o, r) in enumerate(zip(ops, outs)):
        r = tuple(r)
        if r[0] == "raised":
            return (k, f"op {k} {o}: raised {r[1]}")
        if o[0] == "update":
            a[o[1]] = a[o[1]] + _ex(o[2])
            mass += abs(_ex(o[2]))
            fed += 1
            if dt is not None:
                dt.update(o[1], o[2])
            if r != ("u", None):
                return (k, f"op {k} update returned {r}")
        elif o[0] == "srcmut":
            src[o[1]] = o[2]
        elif o[0] == "srcgrow":
            src.append(o[1])
        elif o[0] == "srcshrink":
            src.pop()
        elif o[0] == "rebuild":
            a = [_ex(v) for v in src]
            mass += sum(abs(v) for v in a)
            fed += len(a)
            if dt is not None:
                dt = _DualTree("values", src)
        elif o[0] == "srccheck":
            if r != ("b", True):
                return (k, f"op {k}: the list passed to the constructor was modified by the tree (constructor or update)")
        else:
            lo, hi = (0, o[1]) if o[0] == "prefix" else (o[1], o[2])
            want = sum(a[lo: hi + 1])
            if r[0] != "z" or not _is_num(r[1]):
                return (k, f"op {k} {o}: returned {r}, expected {_show(want)}")
            got = r[1]
            if judge == "exact":
                if not (_fin(got) and got == want):
                    return (k, f"op {k} {o}: returned {got!r}, expected {_show(want)}")
                continue
            if dt is not None:
                tp, te, exact = dt.prefix(o[1]) if o[0] == "prefix" else dt.range_sum(o[1], o[2])
                if exact:
                    assert te == want, ("harness: canonical tree and plain array disagree in exact arithmetic", o, te, want)
                    if not (_fin(got) and got == want):
                        return (k, f"op {k} {o}: returned {got!r}, expected {_show(want)} (exactly: the tree answers this query from exactly "
                                   "representable block sums only)")
                    continue
                if mass > 2 ** 53:
                    if soft is not None:
                        soft.append(OBS_BEYOND_2_53)
                    continue
            if not (_fin(got) and abs(_ex(got) - want) <= Fraction(4 * (fed + 64), 2 ** 53) * mass):
                return (k, f"op {k} {o}: returned {got!r}, expected {_show(want)} (beyond the float summation bound)")
    return None


def _show(fr):
    if fr is None:
        return "inf/nan"
    fr = Fraction(fr)
    if fr.denominator == 1 and abs(fr.numerator) < 10 ** 30:
        return str(fr.numerator)
    try:
        approx = repr(float(fr))
    except OverflowError:
        approx = ("-" if fr < 0 else "") + f"about 2^{abs(fr.numerator).bit_length() - fr.denominator.bit_length()} (beyond the float range)"
    return f"{approx} (= {fr})" if fr.denominator < 10 ** 30 and abs(fr.numerator) < 10 ** 30 else f"{approx} (exact value)"


# ---------------------------------------------------------------- shrinking (drop operations while the reference still objects)
def _uf_verdict(n, ops):
    res = guarded(run_uf_impl, n, ops, timeout=5 + (n + len(ops)) / 20000)
    outs = outcome_to_outs(res, len(ops))
    bad = oracle_uf(n, ops, outs) if res[0] == "ok" else (len(ops) - 1, f"implementation {res[0]}: {res[1:]}")
    return outs, bad


def _fw_verdict(mode, vals, ops, judge, soft=None):
    nv = vals["affine"][0] if isinstance(vals, dict) else len(vals)
    res = guarded(run_fw_impl, mode, vals, ops, timeout=5 + (nv + len(ops)) / 20000)
    outs = outcome_to_outs(res, len(ops))
    if res[0] != "ok" and judge == "shadow" and _observation_only(mode, _expand_vals(vals), ops):
        if soft is not None:  # hang / exception on inf-nan data: cut by the guard, counted, not judged
            soft += [OBS_NONFINITE, f"... of which the implementation ended with {res[0]} {str(res[1:])[:60]}"]
        return outs, None
    bad = oracle_fw(mode, vals, ops, outs, judge, soft) if res[0] == "ok" else (len(ops) - 1, f"implementation {res[0]}: {res[1:]}")
    return outs, bad


def _shrink_ops(ops, verdict, bad, limit=400, seconds=15.0):
    """Truncate after the first failing operation, then drop blocks of operations (halves, quarters, ... single operations, last to
    first) while the reference still objects; bounded by `limit` runs and `seconds`."""
    import time

    ops = list(ops[: bad[0] + 1])
    if "implementation hang" in bad[1]:
        return ops
    t0 = time.time()
    runs = 0
    size = max(1, (len(ops) - 1) // 2)
    while True:
        i = len(ops) - 1 - size  # never drop the last (failing) operation first
        while i >= 0 and runs < limit and time.time() - t0 < seconds:
            cand = ops[:i] + ops[i + size:]
            runs += 1
            b = verdict(cand)[1] if cand else None
            if b:
                ops = list(cand[: b[0] + 1])
                i = min(i, len(ops) - 1)
            i -= size
        if size == 1 or runs >= limit or time.time() - t0 >= seconds:
            return ops
        size = max(1, size // 2)


def shrink_uf(n, ops, bad):
    """-> (ops, outs, bad) of a smaller failing history; the original one if the failure does not reproduce on the smaller
    history (e.g. a RecursionError at the edge of the interpreter's stack limit)."""
    small = _shrink_ops(ops, lambda c: _uf_verdict(n, c), bad)
    outs, b = _uf_verdict(n, small)
    if b:
        return small, outs, b
    return list(ops), _uf_verdict(n, ops)[0], bad


def shrink_fw(mode, vals, ops, judge, bad):
    orig = (vals if isinstance(vals, dict) else list(vals), list(ops), bad)
    ops = _shrink_ops(ops, lambda c: _fw_verdict(mode, vals, c, judge), bad)
    if not _fw_verdict(mode, vals, ops, judge)[1]:
        return orig[0], orig[1], _fw_verdict(mode, orig[0], orig[1], judge)[0], bad
    # values: zero out entries one at a time (keeps indices meaningful); then cut the tail of the array if unused
    structural = any(o[0] in ("rebuild", "srcgrow", "srcshrink", "srcmut") for o in ops)
    used = 1 + max([max(o[1:3]) if o[0] == "range" else o[1] for o in ops if o[0] in ("update", "prefix", "range")] + [0])
    if isinstance(vals, dict):
        n, mul, mod, off = vals["affine"]
        while n // 2 >= used:
            cand = {"affine": [n // 2, mul, mod, off]}
            if not _fw_verdict(mode, cand, ops, judge)[1]:
                break
            vals, n = cand, n // 2
    elif not mode.startswith("range:") and not structural:
        vals = list(vals)
        for i in range(len(vals)):
            if vals[i] != 0 and len(vals) <= 130:
                cand = vals[:i] + [type(vals[i])(0)] + vals[i + 1:]
                if _fw_verdict(mode, cand, ops, judge)[1]:
                    vals = cand
        while len(vals) > used and len(vals) <= 2000 and _fw_verdict(mode, vals[:-1], ops, judge)[1]:
            vals = vals[:-1]
    outs, bad = _fw_verdict(mode, vals, ops, judge)
    return vals, ops, outs, bad


# ================================================================ Coq terms
def uf_op(o):
    return {"union": lambda: f"OUnion {o[1]} {o[2]}", "find": lambda: f"OFind {o[1]}", "connected": lambda: f"OConnected {o[1]} {o[2]}",
            "count": lambda: "OCount", "sizes": lambda: "OSizes", "comps": lambda: "OComps"}[o[0]]()


def _natlit(v):
    return isinstance(v, int) and 0 <= v <= 5000


def uf_out(r):
    """Implementation output as a UF.out term; anything that is not a value of the model's type (a negative count of a broken
    implementation, an exception marker) becomes RFail, which no in-range model run produces."""
    if r[0] == "b":
        return f"RBool {cbool(r[1])}"
    if r[0] == "n" and _natlit(r[1]):
        return f"RNat {r[1]}"
    if r[0] == "l" and all(_natlit(v) for v in r[1]):
        return f"RNats {clist(r[1])}"
    if r[0] == "s" and all(_natlit(v) for c in r[1] for v in c):
        return f"RSets {clist(r[1], lambda c: clist(c))}"
    return "RFail"


def fw_op(o):
    if o[0] == "update":
        return f"OUpdate {cz(o[1])} {cz(o[2])}"
    if o[0] == "prefix":
        return f"OPrefix {cz(o[1])}"
    return f"ORange {cz(o[1])} {cz(o[2])}"


def fw_out(r):
    if r[0] == "u" and r[1] is None:
        return "RUnit"
    if r[0] == "z" and isinstance(r[1], int):
        return f"RZ {cz(r[1])}"
    return "RFail"


def _integral(v):
    return isinstance(v, int) or (isinstance(v, float) and math.isfinite(v) and v == int(v))


def fw_coq_case(mode, vals, ops, outs, judge):
    """Coq term of a Fenwick history, or None when the history is outside the model's domain (Z): non-integral or inexact data,
    more than COQ_MAX_N elements, constructor argument not accepted.  Integer-valued floats are mapped to the same integer
    (sound here because judge == 'exact' histories keep every partial sum exactly representable).  The caller-side list
    operations (srccheck / srcmut) are not operations of the tree and are left out."""
    if judge != "exact" or isinstance(vals, dict) or len(vals) > COQ_MAX_N or (outs and outs[0][0] in ("na", "fail")):
        return None
    if any(o[0] == "rebuild" for o in ops):
        return None
    if not all(_integral(v) for v in vals) or not all(_integral(o[2]) for o in ops if o[0] == "update"):
        return None
    keep = [(o, r) for o, r in zip(ops, outs) if o[0] in ("update", "prefix", "range")]
    return f"({clist([int(v) for v in vals], cz)}, ({clist([o for o, _ in keep], fw_op)}, {clist([r for _, r in keep], fw_out)}))"


def outcome_to_outs(res, nops):
    """guarded() result -> list of outs; exceptions / hangs become a single failure marker."""
    if res[0] == "ok":
        return res[1]
    return [("fail", res[0], res[1] if len(res) > 1 else "")] * max(1, nops)


def res_ok(outs):
    return not (outs and outs[0][0] == "fail")


def _brief_outs(outs, lim=400):
    return outs if len(outs) <= lim else list(outs[:lim // 2]) + [("...", len(outs) - lim)] + list(outs[-lim // 2:])


def _shadow_stats(mode, vals, ops):
    """(number of queries of a 'shadow' history that are judged exactly, number judged by the bound / non-finite rule)."""
    dt = _DualTree(mode, vals)
    src = list(vals)
    ex = tol = 0
    for o in ops:
        if o[0] == "update":
            dt.update(o[1], o[2])
        elif o[0] == "srcmut":
            src[o[1]] = o[2]
        elif o[0] == "srcgrow":
            src.append(o[1])
        elif o[0] == "srcshrink":
            src.pop()
        elif o[0] == "rebuild":
            dt = _DualTree("values", src)
        elif o[0] in ("prefix", "range"):
            ok = (dt.prefix(o[1]) if o[0] == "prefix" else dt.range_sum(o[1], o[2]))[2]
            ex, tol = ex + ok, tol + (not ok)
    return ex, tol


# ================================================================ the check
def run(ctx: Ctx):
    ctx.rule = ("operation histories: random (sizes 1..12 quick, ..64 thorough; unions incl. self/repeated, interleaved reads); UnionFind also "
                "balanced / rank-maximising merges through roots (n 16..130, height 4..7 before the first read, reads at the deepest elements, "
                "further unions) and chains/stars of 257..2000 elements; FenwickTree also exact ints / integer-valued floats / one-scale dyadics at "
                "2^31..2^53 mixed with 0, +-1 (total magnitude <= 2^53), sizes 1,2,3,17,64,65,1000, index corners, delta 0, repeated queries, "
                "list/tuple/range/generator constructor arguments, caller-side mutation of the source list, inexact floats under a summation bound; "
                "non-trivial = UF history with >=2 effective unions and a read after them / Fenwick history with an update followed by a query; "
                "distinct = canonical JSON of the history")
    ctx.proof_step(["C20"])
    thorough = ctx.tier == "thorough"
    n_uf = ctx.budget(300, 6000)
    n_fw = ctx.budget(300, 6000)
    rng = ctx.rng

    uf_cases, fw_cases = [], []  # (family, n, ops) / (family, mode, vals, ops, judge)
    for kind, payload in _corpus():
        if kind == "uf":
            uf_cases.append(("corpus",) + payload)
        else:
            fw_cases.append(("corpus",) + payload)
    uf_cases += [("random",) + gen_uf(rng, thorough) for _ in range(n_uf)]
    fw_cases += [("random",) + gen_fw(rng, thorough)[:4] for _ in range(n_fw)]

    # ---- S: structured UnionFind families
    for n in (16, 32, 64, 128):
        for _ in range(ctx.budget(6, 60)):
            n_, ops, h = gen_uf_balanced(rng, n)
            ctx.count("uf_shadow_height_before_first_read", h)
            uf_cases.append(("balanced", n_, ops))
    for _ in range(ctx.budget(40, 600)):
        n = rng.choice([16, 17, 31, 32, 33, 64, 65, 127, 128]) if rng.random() < 0.4 else rng.randint(9, 130)
        n_, ops, h = gen_uf_deep(rng, n)
        ctx.count("uf_shadow_height_before_first_read", h)
        uf_cases.append(("deep", n_, ops))
    for n, style in ([(2000, st) for st in CHAIN_STYLES] + [(rng.choice([257, 801, 1025, 1500]), st) for st in CHAIN_STYLES]
                     + [(rng.choice([300, 801, 1500, 2000]), None) for _ in range(ctx.budget(2, 30))]):
        n_, ops, style = gen_uf_chain(rng, n, style)
        ctx.count("uf_chain_style", style)
        uf_cases.append(("chain", n_, ops))

    # ---- M O A I: structured Fenwick families
    fw_cases += [("corner", "values", [2 ** 44, 1], [("range", 1, 1), ("range", 0, 1), ("prefix", 0)], "exact"),
                 ("corner", "size", [2 ** 53 - 1, 1], [("prefix", 1), ("range", 1, 1), ("update", 1, 0), ("range", 1, 1)], "exact"),
                 ("corner", "values", [-(2 ** 53)], [("prefix", 0), ("range", 0, 0), ("update", 0, 0), ("prefix", 0)], "exact"),
                 ("corner", "values", [0.0, 0, -0.0], [("range", 1, 2), ("update", 2, 0), ("range", 2, 2), ("srccheck",)], "exact"),
                 ("corner", "values", [float(2 ** 52), -1.0, 1.0, -float(2 ** 52)], [("range", 0, 3), ("range", 1, 2), ("range", 1, 1), ("prefix", 2)], "exact")]
    for n in (1, 2, 3, 17, 64, 65):
        for typ in ("int", "int", "float", "mixed", "dyadic"):
            for _ in range(ctx.budget(2, 20)):
                fw_cases.append((f"mag-{typ}",) + gen_fw_mag(rng, n, typ))
    for _ in range(ctx.budget(60, 1500)):
        c = gen_fw_mag(rng)
        fw_cases.append(("mag-any",) + c)
    for mode in ("values", "size", "tuple"):
        for typ in ["int", rng.choice(["float", "mixed", "dyadic"])] + [rng.choice(["int", "float", "mixed", "dyadic"]) for _ in range(ctx.budget(0, 6))]:
            fw_cases.append((f"mag-{typ}",) + gen_fw_mag(rng, 1000, typ, mode))
    for _ in range(ctx.budget(16, 200)):
        fw_cases.append(("iter",) + gen_fw_iter(rng))
    for _ in range(ctx.budget(40, 600)):
        fw_cases.append(("tol",) + gen_fw_tol(rng))
    fw_cases.append(("tol",) + gen_fw_tol(rng, 1000))

    # ---- round 3.  X: cancelling huge floats + tiny updates, inf / nan / overflow;  A2: in-place edits of the source list + rebuild
    fw_cases += [("cancel", "values", [2.0 ** 60, -(2.0 ** 60), 4.0, 0.5], [("update", 0, 1.0), ("range", 0, 1), ("prefix", 3), ("range", 2, 3), ("prefix", 0)], "shadow"),
                 ("cancel", "size", [0.0, 2.0 ** 53, 1.0, -(2.0 ** 53)], [("update", 1, 1.0), ("range", 1, 3), ("prefix", 3), ("update", 1, -(2.0 ** 53)), ("prefix", 1)], "shadow"),
                 ("nonfinite", "values", [float("inf"), 1.0, 2.0], [("prefix", 0), ("range", 1, 1), ("range", 1, 2), ("prefix", 2)], "shadow"),
                 ("nonfinite", "values", [1.0, 1e308, 1e308, -1e308, 2.0], [("prefix", 0), ("prefix", 1), ("range", 1, 3), ("range", 4, 4), ("prefix", 4)], "shadow"),
                 ("nonfinite", "size", [1.0, 2.0, 3.0], [("update", 2, float("nan")), ("prefix", 1), ("range", 0, 0), ("range", 2, 2), ("prefix", 2)], "shadow")]
    for n in (2, 3, 4, 5, 8, 9, 17, 33, 64, 65):
        for _ in range(ctx.budget(6, 80)):
            fw_cases.append(("cancel",) + gen_fw_cancel(rng, n))
    for _ in range(ctx.budget(40, 800)):
        fw_cases.append(("cancel",) + gen_fw_cancel(rng))
    for _ in range(ctx.budget(40, 600)):
        fw_cases.append(("nonfinite",) + gen_fw_nonfinite(rng))
    for _ in range(ctx.budget(40, 600)):
        fw_cases.append(("a2",) + gen_fw_a2(rng))

    # ---- round 3.  W: work volume.  quick crosses 2^7 .. 2^12, 10^4 (and 2^16 / 2^20 for the linear constructor loop), thorough 10^5 / 2^20 everywhere
    loop_max = {}

    def lmax(key, v):
        loop_max[key] = max(loop_max.get(key, 0), v)

    vol_ops = [12000] + ([130000] if thorough else [])
    for k in vol_ops:
        fw_cases.append(("volume-ops", ) + gen_fw_volume_ops(rng, rng.choice([64, 65, 1000]), k, "values"))
        fw_cases.append(("volume-ops", ) + gen_fw_volume_ops(rng, rng.choice([17, 129, 1000]), k, "size"))
        uf_cases.append(("volume-ops",) + gen_uf_volume_ops(rng, rng.choice([64, 200, 1000]), k))
        uf_cases.append(("volume-ops",) + gen_uf_volume_ops(rng, 4097, k))
        uf_cases.append(("volume-ops",) + gen_uf_volume_ops(rng, rng.choice([300, 1000]), k, 0.02))
        fw_cases.append(("volume-queries",) + gen_fw_volume_queries(rng, rng.choice([17, 64, 65]), k, rng.choice(["values", "size"])))
    for n, mode in [(129, "values"), (4097, "values"), (4097, "size"), (10001, "values"), (10001, "size"), (2 ** 16 + 1, "values"), (2 ** 20 + 2, "values")] \
            + ([(2 ** 17 + 3, "size"), (2 ** 20 + 2, "size"), (100001, "tuple")] if thorough else []):
        fw_cases.append(("volume-n",) + gen_fw_volume_n(rng, n, mode))
    for n, pattern in [(4097, "balanced"), (4097, "random"), (10001, "balanced"), (10001, "random"), (2 ** 16 + 1, "balanced")] \
            + ([(100001, "random"), (2 ** 20 + 2, "balanced"), (2 ** 20 + 2, "random")] if thorough else []):
        uf_cases.append(("volume-n",) + gen_uf_volume_n(rng, n, pattern))

    # ---- UnionFind
    coq_cases, metas = [], []
    reported = 0
    for fam, n, ops in uf_cases:
        outs, bad = _uf_verdict(n, ops)
        ctx.evaluations += 1
        ctx.count("uf_family", fam)
        ctx.count("uf_n", n if n <= 12 else "13-40" if n <= 40 else "41-130" if n <= 130 else "131-2000" if n <= 2000 else ">2000")
        kinds = {}
        for o in ops:
            kinds[o[0]] = kinds.get(o[0], 0) + 1
        for kk, vv in kinds.items():
            ctx.count("uf_ops", kk, vv)
        lmax("UnionFind: operations on one object", len(ops))
        lmax("UnionFind: union calls on one object", kinds.get("union", 0))
        lmax("UnionFind: find/connected calls on one object", kinds.get("find", 0) + kinds.get("connected", 0))
        if kinds.get("sizes") or kinds.get("comps"):
            lmax("UnionFind.component_sizes / get_components: loop over n elements", n)
        if fam == "volume-n" and ops[0][:2] == ("union", 0) and res_ok(outs):
            lmax("UnionFind.find: parent links above the deepest element before the first read (balanced merges through roots)", n.bit_length() - 1)
        if bad:
            if reported < 8:
                s_ops, s_outs, s_bad = shrink_uf(n, ops, bad)
                reported += 1
            else:
                s_ops, s_outs, s_bad = ops, outs, bad
            ctx.violation(f"UnionFind history violates the partition reference: {s_bad[1]}",
                          {"kind": "uf", "family": fam, "n": n, "ops": s_ops, "impl_outs": _brief_outs(s_outs)})
        eff = sum(1 for o, r in zip(ops, outs) if o[0] == "union" and r == ("b", True))
        if eff >= 2 and any(o[0] != "union" for o in ops[2:]):
            ctx.nontriv(("uf", n, tuple(ops)))
        ctx.sample({"kind": "uf", "n": n, "ops": ops[:8], "outs": outs[:8]}, 2)
        if n <= COQ_MAX_N:
            coq_cases.append(f"({cnat(n)}, ({clist(ops, uf_op)}, {clist(outs, uf_out)}))")
            metas.append((n, ops, outs))
    ctx.count("uf_coq_cases", "in-model", len(coq_cases))
    ctx.count("uf_coq_cases", "python-reference-only (n > 128)", len(uf_cases) - len(coq_cases))
    failing = ctx.coq_check("uf", "From SV Require Import C20.UF.", "nat * (list UF.op * list UF.out)",
                            "fun c => list_eqb UF.out_eqb (UF.run_from (fst c) (fst (snd c))) (snd (snd c))", coq_cases)
    uf_disagree = [metas[i] for i in failing]

    # ---- Fenwick
    coq_cases, metas = [], []
    reported = 0
    for fam, mode, vals, ops, judge in fw_cases:
        soft = []
        outs, bad = _fw_verdict(mode, vals, ops, judge, soft)
        ctx.evaluations += 1
        spec, vals = vals, _expand_vals(vals)
        n = len(vals)
        ctx.count("fw_family", fam)
        ctx.count("fw_judge", judge)
        ctx.count("fw_n", n if n <= 17 else "18-65" if n <= 65 else "66-1000" if n <= 1000 else ">1000")
        if mode != "size":
            lmax("FenwickTree.__init__: constructor loop over n values", n)
        nq = 0
        for o in ops:
            if o[0] == "update":
                lmax("FenwickTree.update: steps of one walk (i |= i+1)", _walk_up(o[1], n))
            elif o[0] == "prefix":
                nq += 1
                lmax("FenwickTree.prefix: steps of one walk (i = (i & (i+1)) - 1)", _walk_down(o[1]))
            elif o[0] == "range":
                nq += 1
                lmax("FenwickTree.prefix: steps of one walk (i = (i & (i+1)) - 1)", max(_walk_down(o[2]), _walk_down(o[1] - 1) if o[1] else 0))
            elif o[0] == "rebuild":
                break  # n changes; the histories with rebuilds are short anyway
        lmax("FenwickTree: update calls on one object", sum(1 for o in ops if o[0] == "update") + (n if mode == "size" else 0))
        lmax("FenwickTree: prefix/range_sum calls on one object", nq)
        if judge == "shadow" and not bad and OBS_NONFINITE not in soft:
            ex_q, tol_q = _shadow_stats(mode, vals, ops)
            ctx.count("fw_shadow_queries", "judged exactly (canonical walk exact)", ex_q)
            ctx.count("fw_shadow_queries", "judged by the summation bound (data within 2^53)", tol_q - soft.count(OBS_BEYOND_2_53))
            ctx.count("fw_shadow_queries", "not judged (inexact, data beyond 2^53)", soft.count(OBS_BEYOND_2_53))
        for ev in soft:
            ctx.count("observation_only", ev)
        if bad:
            if reported < 8:
                s_vals, s_ops, s_outs, s_bad = shrink_fw(mode, spec, ops, judge, bad)
                reported += 1
            else:
                s_vals, s_ops, s_outs, s_bad = spec, ops, outs, bad
            ctx.violation(f"FenwickTree history violates the plain-array reference: {s_bad[1]}",
                          {"kind": "fw", "family": fam, "mode": mode, "judge": judge, "vals": s_vals, "ops": s_ops, "impl_outs": _brief_outs(s_outs)})
        seen_upd = False
        for o in ops:
            if o[0] == "update":
                seen_upd = True
            elif seen_upd and o[0] in ("prefix", "range"):
                ctx.nontriv(("fw", mode, str(spec) if isinstance(spec, dict) else tuple(vals), tuple(ops)))
                break
        ctx.sample({"kind": "fw", "mode": mode, "vals": vals[:8], "ops": ops[:8], "outs": outs[:8]}, 4)
        term = fw_coq_case(mode, spec, ops, outs, judge)
        if term is not None:
            coq_cases.append(term)
            metas.append((mode, vals, ops, outs))
    ctx.count("fw_coq_cases", "in-model", len(coq_cases))
    ctx.count("fw_coq_cases", "python-reference-only (non-integral / inexact / n > 128 / not accepted)", len(fw_cases) - len(coq_cases))
    failing = ctx.coq_check("fw", "From SV Require Import C20.Fenwick.", "list Z * (list Fenwick.op * list Fenwick.out)",
                            "fun c => list_eqb Fenwick.out_eqb (Fenwick.run_from (fst c) (fst (snd c))) (snd (snd c))", coq_cases)
    fw_disagree = [metas[i] for i in failing]
    ctx.hist["loop_max_iterations"] = loop_max

    ctx.notes += [
        "Fenwick model is over Z; the implementation accumulates in Python floats (prefix starts from 0.0, FenwickTree(n) stores 0.0): "
        "the exact families keep sum|initial values| + sum|deltas| <= 2^53 (times one power of two for the dyadic family), so every partial "
        "sum in any order is exactly representable and float addition coincides with exact addition; the reference is an array of exact "
        "rationals and answers are compared as numbers (7.0 == 7).",
        "Integer-valued float inputs (2.0**44, 1.0) of those exact histories are mapped to the same integers for the Coq correspondence; "
        "dyadic (non-integral), inexact ('tol') and n > 128 histories are judged by the Python reference only.",
        "Beyond 2^53 the implementation is a float structure: FenwickTree([2**53 + 1]).prefix(0) returns 9007199254740992.0; such data and "
        "non-dyadic floats (0.1, 1e-7 next to 1e6) are only required to stay within 4(m+64)2^-53 * (sum of magnitudes fed in) of the exact "
        "sum (family 'tol'), which any float summation order satisfies; the property's 'exactly' is read as exact on exactly summable data.",
        "Constructor: documented parameter type is list; tuple / range / generator arguments are judged only when the constructor accepts "
        "them without TypeError/AttributeError (histogram fw_ctor_accepts_*).  The caller's list is compared (values and types) after "
        "construction/updates and then overwritten by the caller; the tree's answers must not change.",
        "Round 3, float extremes (judge 'shadow'): the expected answer is always the exact sum over the plain array (rationals).  Exact equality is "
        "demanded for every query during which the canonical Fenwick tree - the index walks of the Coq model, executed in the harness on Python "
        "numbers and on exact values side by side - reads only nodes whose float value equals the exact block sum and forms only exactly "
        "representable partial sums; e.g. FenwickTree([2.0**60, -2.0**60]); update(0, 1.0); prefix(1) must be exactly 1 (node 1 holds 0.0 + 1.0) "
        "while prefix(0) = 2^60 is not judged (node 0 absorbed the 1.0; magnitudes beyond 2^53).  Inexact answers on data within 2^53 (0.1, 1e-7 next to "
        "1e6) obey the summation bound 4(m+64)2^-53 * sum|values fed in|.  This exactness rule presupposes the Fenwick block structure (block of node j = [j & (j+1), j]); an implementation "
        "with another decomposition could be flagged although it meets the bound - accepted, the anchored class is a Fenwick tree.",
        "OBSERVATION-ONLY (coordinator policy POLICY_X a, b, c; histogram observation_only; never a violation, never a known finding): (a, b) histories "
        "that feed inf / nan or in which a node / query of the canonical tree overflows to inf (family 'nonfinite') are run under the guard and "
        "counted only - e.g. FenwickTree([inf, 1.0]).range_sum(1, 1) is nan = inf - inf; (c) single queries that the canonical tree cannot answer "
        "exactly while the magnitudes fed into the history exceed 2^53 in total (prefix(0) after [2.0**60], update(0, 1.0)) are not judged either; the "
        "exactly answerable queries of the same histories ARE judged (exact equality), and inexact queries on data within 2^53 obey the bound.",
        "Float INDICES (update(1.0, d)) and FenwickTree(3.0) raise TypeError in the unchanged code and are outside the property (indices in range are ints); "
        "int vs integral-float VALUES and DELTAS are mixed freely (families mag-mixed, cancel, a2).",
        "A2: UnionFind(n) takes no caller object; for FenwickTree the source list is replaced/appended/popped in place while the tree lives (answers "
        "must not move) and a new tree is built from the same edited list object (must equal a plain array of the edited values).  Histories with a "
        "rebuild are not sent to Coq.",
        "W: maxima reached per loop are in histogram loop_max_iterations; update/prefix walks are bounded by floor(log2 n) + 1 (21 at n = 2^20 + 2) and the "
        "recursion depth of find by floor(log2 n) by construction of the algorithm, so the 2^7.. thresholds are crossed by the linear loops "
        "(constructor, component loops) and by the number of calls on one object.",
        "UnionFind trees deeper than 3 need >= 16 elements merged through roots; the generators use a naive shadow forest (union by rank, "
        "no compression) only to pick roots / deepest elements, the judge is the label array.  UnionFind histories over more than 128 "
        "elements (chains up to 2000) are judged by the label array only.",
    ]

    # ---- model and implementation disagree but the reference found nothing: search harder, then report
    if (uf_disagree or fw_disagree or ctx.broken) and not ctx.violations:
        found = False
        for _ in range(20000):
            n, ops = gen_uf_any(rng, True)
            outs, bad = _uf_verdict(n, ops)
            if bad:
                ops, outs, bad = shrink_uf(n, ops, bad)
                ctx.violation(f"UnionFind: {bad[1]}", {"kind": "uf", "n": n, "ops": ops, "impl_outs": outs})
                found = True
                break
            mode, vals, ops, judge = gen_fw_any(rng, True)
            outs, bad = _fw_verdict(mode, vals, ops, judge)
            if bad:
                vals, ops, outs, bad = shrink_fw(mode, vals, ops, judge, bad)
                ctx.violation(f"FenwickTree: {bad[1]}", {"kind": "fw", "mode": mode, "judge": judge, "vals": vals, "ops": ops, "impl_outs": outs})
                found = True
                break
        if not found:
            for m in uf_disagree[:1]:
                model = ctx.coq_eval("uf_show", "From SV Require Import C20.UF.", f"UF.run_from {m[0]} {clist(m[1], uf_op)}")
                ctx.violation("correspondence lemma uf: model SV.C20.UF and implementation differ (observable: per-op outputs)",
                              {"kind": "uf", "n": m[0], "ops": m[1], "impl_outs": m[2], "model_outs": model, "lemma": "Cases/C20/uf_*.v corr"}, no_input=True)
            for m in fw_disagree[:1]:
                keep = [o for o in m[2] if o[0] in ("update", "prefix", "range")]
                model = ctx.coq_eval("fw_show", "From SV Require Import C20.Fenwick.", f"Fenwick.run_from {clist([int(v) for v in m[1]], cz)} {clist(keep, fw_op)}")
                ctx.violation("correspondence lemma fw: model SV.C20.Fenwick and implementation differ",
                              {"kind": "fw", "mode": m[0], "vals": m[1], "ops": m[2], "impl_outs": m[3], "model_outs": model, "lemma": "Cases/C20/fw_*.v corr"}, no_input=True)


def _ops_from_json(ops):
    return [tuple(x) for x in ops]


def _corpus():
    """corpus/C20/*.json: {"kind": "uf", "n": N, "ops": [["union", x, y], ["find", x], ["connected", x, y], ["count"], ["sizes"], ["comps"]]}
    or {"kind": "fw", "mode": "values"|"size"|"tuple", "judge": "exact"|"tol", "vals": [...], "ops": [["update", i, d], ["prefix", i],
    ["range", l, r], ["srccheck"], ["srcmut", i, v]]}; other keys (note, origin) are ignored."""
    import json
    from harness.core import VERIF

    out = []
    d = VERIF / "corpus" / "C20"
    if d.exists():
        for f in sorted(d.glob("*.json")):
            o = json.loads(f.read_text())
            if o["kind"] == "uf":
                out.append(("uf", (o["n"], _ops_from_json(o["ops"]))))
            else:
                out.append(("fw", (o.get("mode", "values"), o["vals"], _ops_from_json(o["ops"]), o.get("judge", "exact"))))
    return out


def replay(obj):
    if obj.get("kind") == "uf":
        ops = _ops_from_json(obj["ops"])
        outs, bad = _uf_verdict(obj["n"], ops)
    elif obj.get("kind") == "fw":
        ops = _ops_from_json(obj["ops"])
        outs, bad = _fw_verdict(obj.get("mode", "values"), obj["vals"], ops, obj.get("judge", "exact"))
    else:
        print("replay names an unchecked obligation:", obj.get("unchecked") or obj.get("what"))
        return 1
    print("implementation outputs:", _brief(outs, 2000))
    print("reference verdict:", bad[1] if bad else "ok")
    return 1 if bad else 0
