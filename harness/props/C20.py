"""C20 - UnionFind and FenwickTree behave like their reference models.

Tie to /repo: random operation histories are run on solvor.utils.data_structures (working tree) and the
same histories are evaluated by the Gallina models SV.C20.UF / SV.C20.Fenwick inside coqc (vm_compute);
outputs must be equal op by op.  Independently, a naive Python reference (labels array / plain list)
judges the implementation's outputs against the property itself.
"""
from harness.core import Ctx, cnat, cz, cbool, clist, guarded

ID = "C20"
ANCHORS = ["solvor/utils/data_structures.py"]


# ---------------------------------------------------------------- generators
def gen_uf(rng, big=False):
    n = rng.choice([1, 2, 3, 4, 5, 6, 8, 12] + ([20, 40] if big else []))
    k = rng.randint(1, 3 * n + 4)
    ops = []
    for _ in range(k):
        r = rng.random()
        x, y = rng.randrange(n), rng.randrange(n)
        if r < 0.45:
            ops.append(("union", x, y if rng.random() > 0.1 else x))
        elif r < 0.6:
            ops.append(("find", x))
        elif r < 0.75:
            ops.append(("connected", x, y))
        elif r < 0.83:
            ops.append(("count",))
        elif r < 0.91:
            ops.append(("sizes",))
        else:
            ops.append(("comps",))
    # long chains make path compression matter: unions in rank-adversarial order
    if rng.random() < 0.2 and n >= 4:
        ops = [("union", i, i + 1) for i in range(0, n - 1, 2)] + [("union", i, i + 2) for i in range(0, n - 2, 4)] + ops
    return n, ops


def gen_fw(rng, big=False):
    n = rng.choice([1, 2, 3, 4, 5, 7, 8, 9, 16] + ([31, 64] if big else []))
    vals = [rng.randint(-9, 9) for _ in range(n)]
    mode = rng.choice(["values", "size"])
    ops = []
    for _ in range(rng.randint(1, 2 * n + 6)):
        r = rng.random()
        if r < 0.4:
            ops.append(("update", rng.randrange(n), rng.randint(-20, 20)))
        elif r < 0.7:
            ops.append(("prefix", rng.randrange(n)))
        else:
            a, b = sorted((rng.randrange(n), rng.randrange(n)))
            ops.append(("range", a, b))
    return mode, vals, ops


# ---------------------------------------------------------------- implementation runs
def canon_num(x):
    if isinstance(x, bool) or x is None:
        return x
    if isinstance(x, float) and x == int(x):
        return int(x)
    return x


def run_uf_impl(n, ops):
    from solvor.utils.data_structures import UnionFind

    uf = UnionFind(n)
    outs = []
    for o in ops:
        if o[0] == "union":
            outs.append(("b", bool(uf.union(o[1], o[2]))))
        elif o[0] == "find":
            outs.append(("n", int(uf.find(o[1]))))
        elif o[0] == "connected":
            outs.append(("b", bool(uf.connected(o[1], o[2]))))
        elif o[0] == "count":
            outs.append(("n", int(uf.component_count)))
        elif o[0] == "sizes":
            outs.append(("l", [int(s) for s in uf.component_sizes()]))
        else:
            outs.append(("s", [sorted(int(e) for e in c) for c in uf.get_components()]))
    return outs


def run_fw_impl(mode, vals, ops):
    from solvor.utils.data_structures import FenwickTree

    if mode == "size":
        ft = FenwickTree(len(vals))
        for i, v in enumerate(vals):
            ft.update(i, v)
    else:
        ft = FenwickTree(list(vals))
    outs = []
    for o in ops:
        if o[0] == "update":
            r = ft.update(o[1], o[2])
            outs.append(("u", r))
        elif o[0] == "prefix":
            outs.append(("z", canon_num(ft.prefix(o[1]))))
        else:
            outs.append(("z", canon_num(ft.range_sum(o[1], o[2]))))
    return outs


# ---------------------------------------------------------------- independent reference (the property itself)
def oracle_uf(n, ops, outs):
    """Naive label array.  Returns None if outs obey the property, else a description."""
    lab = list(range(n))
    last_find = {}
    for k, (o, r) in enumerate(zip(ops, outs)):
        classes = {}
        for i, l in enumerate(lab):
            classes.setdefault(l, []).append(i)
        if o[0] == "union":
            same = lab[o[1]] == lab[o[2]]
            if r != ("b", not same):
                return f"op {k} {o}: returned {r}, expected {not same}"
            if not same:
                a, b = lab[o[1]], lab[o[2]]
                lab = [a if l == b else l for l in lab]
            last_find = {}
        elif o[0] == "connected":
            if r != ("b", lab[o[1]] == lab[o[2]]):
                return f"op {k} {o}: returned {r}"
        elif o[0] == "find":
            if r[0] != "n" or not (0 <= r[1] < n) or lab[r[1]] != lab[o[1]]:
                return f"op {k} {o}: root {r} not in the class of the argument"
            # find x = find y <=> same class (between unions the representative of a class is stable)
            c = lab[o[1]]
            if c in last_find and last_find[c] != r[1]:
                return f"op {k} {o}: representative changed from {last_find[c]} to {r[1]} without a union"
            last_find[c] = r[1]
        elif o[0] == "count":
            if r != ("n", len(classes)):
                return f"op {k} count: returned {r}, expected {len(classes)}"
        elif o[0] == "sizes":
            if r[0] != "l" or sorted(r[1]) != sorted(len(c) for c in classes.values()):
                return f"op {k} sizes: returned {r}"
        else:
            if r[0] != "s" or sorted(r[1]) != sorted(classes.values()):
                return f"op {k} comps: returned {r}"
    return None


def oracle_fw(mode, vals, ops, outs):
    a = list(vals)
    for k, (o, r) in enumerate(zip(ops, outs)):
        if o[0] == "update":
            a[o[1]] += o[2]
            if r != ("u", None):
                return f"op {k} update returned {r}"
        elif o[0] == "prefix":
            if r != ("z", sum(a[: o[1] + 1])):
                return f"op {k} {o}: returned {r}, expected {sum(a[:o[1]+1])}"
        else:
            if r != ("z", sum(a[o[1]: o[2] + 1])):
                return f"op {k} {o}: returned {r}, expected {sum(a[o[1]:o[2]+1])}"
    return None


# ---------------------------------------------------------------- Coq terms
def uf_op(o):
    return {"union": lambda: f"OUnion {o[1]} {o[2]}", "find": lambda: f"OFind {o[1]}", "connected": lambda: f"OConnected {o[1]} {o[2]}",
            "count": lambda: "OCount", "sizes": lambda: "OSizes", "comps": lambda: "OComps"}[o[0]]()


def uf_out(r):
    if r[0] == "b":
        return f"RBool {cbool(r[1])}"
    if r[0] == "n":
        return f"RNat {r[1]}"
    if r[0] == "l":
        return f"RNats {clist(r[1])}"
    if r[0] == "s":
        return f"RSets {clist(r[1], lambda c: clist(c))}"
    return "RFail"


def fw_op(o):
    if o[0] == "update":
        return f"OUpdate {cz(o[1])} {cz(o[2])}"
    if o[0] == "prefix":
        return f"OPrefix {cz(o[1])}"
    return f"ORange {cz(o[1])} {cz(o[2])}"


def fw_out(r):
    if r[0] == "u" and r[1] is None:
        return "RUnit"
    if r[0] == "z" and isinstance(r[1], int):
        return f"RZ {cz(r[1])}"
    return "RFail"


def outcome_to_outs(res, nops):
    """guarded() result -> list of outs; exceptions / hangs become a single failure marker."""
    if res[0] == "ok":
        return res[1]
    return [("fail", res[0], res[1] if len(res) > 1 else "")] * max(1, nops)


def run(ctx: Ctx):
    ctx.rule = ("random operation histories (sizes 1..12 quick, ..64 thorough; unions incl. self/repeated, interleaved reads); "
                "non-trivial = UF history with >=2 effective unions and a read after them / Fenwick history with an update followed by a query; "
                "distinct = canonical JSON of the history")
    ctx.proof_step(["C20"])
    n_uf = ctx.budget(300, 6000)
    n_fw = ctx.budget(300, 6000)
    big = ctx.tier == "thorough"

    uf_cases, fw_cases = [], []
    corpus = _corpus()
    for kind, payload in corpus:
        (uf_cases if kind == "uf" else fw_cases).append(payload)
    uf_cases += [gen_uf(ctx.rng, big) for _ in range(n_uf)]
    fw_cases += [gen_fw(ctx.rng, big) for _ in range(n_fw)]

    # ---- UnionFind
    coq_cases, metas = [], []
    for n, ops in uf_cases:
        res = guarded(run_uf_impl, n, ops, timeout=5)
        outs = outcome_to_outs(res, len(ops))
        ctx.evaluations += 1
        ctx.count("uf_n", n)
        for o in ops:
            ctx.count("uf_ops", o[0])
        bad = oracle_uf(n, ops, outs) if res[0] == "ok" else f"implementation {res[0]}: {res[1:]}"
        if bad:
            ctx.violation(f"UnionFind history violates the partition reference: {bad}",
                          {"kind": "uf", "n": n, "ops": ops, "impl_outs": outs})
        eff = sum(1 for o, r in zip(ops, outs) if o[0] == "union" and r == ("b", True))
        if eff >= 2 and any(o[0] != "union" for o in ops[2:]):
            ctx.nontriv(("uf", n, tuple(ops)))
        ctx.sample({"kind": "uf", "n": n, "ops": ops[:8], "outs": outs[:8]}, 2)
        coq_cases.append(f"({cnat(n)}, ({clist(ops, uf_op)}, {clist(outs, uf_out)}))")
        metas.append((n, ops, outs))
    failing = ctx.coq_check("uf", "From SV Require Import C20.UF.", "nat * (list UF.op * list UF.out)",
                            "fun c => list_eqb UF.out_eqb (UF.run_from (fst c) (fst (snd c))) (snd (snd c))", coq_cases)
    uf_disagree = [metas[i] for i in failing]

    # ---- Fenwick
    coq_cases, metas = [], []
    for mode, vals, ops in fw_cases:
        res = guarded(run_fw_impl, mode, vals, ops, timeout=5)
        outs = outcome_to_outs(res, len(ops))
        ctx.evaluations += 1
        ctx.count("fw_n", len(vals))
        ctx.count("fw_mode", mode)
        bad = oracle_fw(mode, vals, ops, outs) if res[0] == "ok" else f"implementation {res[0]}: {res[1:]}"
        if bad:
            ctx.violation(f"FenwickTree history violates the plain-array reference: {bad}",
                          {"kind": "fw", "mode": mode, "vals": vals, "ops": ops, "impl_outs": outs})
        seen_upd = False
        for o in ops:
            if o[0] == "update":
                seen_upd = True
            elif seen_upd:
                ctx.nontriv(("fw", mode, tuple(vals), tuple(ops)))
                break
        ctx.sample({"kind": "fw", "mode": mode, "vals": vals, "ops": ops[:8], "outs": outs[:8]}, 4)
        coq_cases.append(f"({clist(vals, cz)}, ({clist(ops, fw_op)}, {clist(outs, fw_out)}))")
        metas.append((mode, vals, ops, outs))
    failing = ctx.coq_check("fw", "From SV Require Import C20.Fenwick.", "list Z * (list Fenwick.op * list Fenwick.out)",
                            "fun c => list_eqb Fenwick.out_eqb (Fenwick.run_from (fst c) (fst (snd c))) (snd (snd c))", coq_cases)
    fw_disagree = [metas[i] for i in failing]

    # ---- model and implementation disagree but the reference found nothing: search harder, then report
    if (uf_disagree or fw_disagree or ctx.broken) and not ctx.violations:
        found = False
        for _ in range(20000):
            n, ops = gen_uf(ctx.rng, True)
            res = guarded(run_uf_impl, n, ops, timeout=5)
            outs = outcome_to_outs(res, len(ops))
            bad = oracle_uf(n, ops, outs) if res[0] == "ok" else f"implementation {res[0]}"
            if bad:
                ctx.violation(f"UnionFind: {bad}", {"kind": "uf", "n": n, "ops": ops, "impl_outs": outs})
                found = True
                break
            mode, vals, ops = gen_fw(ctx.rng, True)
            res = guarded(run_fw_impl, mode, vals, ops, timeout=5)
            outs = outcome_to_outs(res, len(ops))
            bad = oracle_fw(mode, vals, ops, outs) if res[0] == "ok" else f"implementation {res[0]}"
            if bad:
                ctx.violation(f"FenwickTree: {bad}", {"kind": "fw", "mode": mode, "vals": vals, "ops": ops, "impl_outs": outs})
                found = True
                break
        if not found:
            for m in uf_disagree[:1]:
                model = ctx.coq_eval("uf_show", "From SV Require Import C20.UF.", f"UF.run_from {m[0]} {clist(m[1], uf_op)}")
                ctx.violation("correspondence lemma uf: model SV.C20.UF and implementation differ (observable: per-op outputs)",
                              {"kind": "uf", "n": m[0], "ops": m[1], "impl_outs": m[2], "model_outs": model, "lemma": "Cases/C20/uf_*.v corr"}, no_input=True)
            for m in fw_disagree[:1]:
                model = ctx.coq_eval("fw_show", "From SV Require Import C20.Fenwick.", f"Fenwick.run_from {clist(m[1], cz)} {clist(m[2], fw_op)}")
                ctx.violation("correspondence lemma fw: model SV.C20.Fenwick and implementation differ",
                              {"kind": "fw", "mode": m[0], "vals": m[1], "ops": m[2], "impl_outs": m[3], "model_outs": model, "lemma": "Cases/C20/fw_*.v corr"}, no_input=True)


def _corpus():
    import json
    from harness.core import VERIF

    out = []
    d = VERIF / "corpus" / "C20"
    if d.exists():
        for f in sorted(d.glob("*.json")):
            o = json.loads(f.read_text())
            if o["kind"] == "uf":
                out.append(("uf", (o["n"], [tuple(x) for x in o["ops"]])))
            else:
                out.append(("fw", (o.get("mode", "values"), o["vals"], [tuple(x) for x in o["ops"]])))
    return out


def replay(obj):
    if obj.get("kind") == "uf":
        ops = [tuple(x) for x in obj["ops"]]
        outs = run_uf_impl(obj["n"], ops)
        bad = oracle_uf(obj["n"], ops, outs)
    elif obj.get("kind") == "fw":
        ops = [tuple(x) for x in obj["ops"]]
        outs = run_fw_impl(obj.get("mode", "values"), obj["vals"], ops)
        bad = oracle_fw(obj.get("mode", "values"), obj["vals"], ops, outs)
    else:
        print("replay names an unchecked obligation:", obj.get("unchecked") or obj.get("what"))
        return 1
    print("implementation outputs:", outs)
    print("reference verdict:", bad or "ok")
    return 1 if bad else 0
